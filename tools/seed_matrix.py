#!/usr/bin/env python3
"""Run seeded changes against checks in isolated scratch copies (tools/seed_iso.sh) and record what caught what.

  seed_matrix.py [--slots N] [--jobs J] [--tier quick] <seed>[:<prop>[,<prop>...]] ...

Without a property list a seed is run against the check of the property it was written for. Results are merged into
/verif/seeded/STATUS.json: {seed: {check: {exit, verdict, lines, tier, verif_commit, when}}}. exit 1 = caught,
0 = missed, 2 = inconclusive (usually a build failure with the change).
"""
import json, os, subprocess, sys, time, threading, queue

ROOT = "/verif"
STATUS = os.path.join(ROOT, "seeded", "STATUS.json")
lock = threading.Lock()

def record(seed, prop, entry):
    with lock:
        st = json.load(open(STATUS)) if os.path.exists(STATUS) else {}
        st.setdefault(seed, {})[prop] = entry
        json.dump(st, open(STATUS, "w"), indent=1, sort_keys=True)

def main():
    args = sys.argv[1:]
    slots, jobs, tier, extra = 3, None, "quick", []
    work = []
    i = 0
    while i < len(args):
        a = args[i]
        if a == "--slots": slots = int(args[i + 1]); i += 1
        elif a == "--jobs": jobs = int(args[i + 1]); i += 1
        elif a == "--tier": tier = args[i + 1]; i += 1
        elif a == "--extra": extra = args[i + 1].split(); i += 1
        else:
            seed, _, props = a.partition(":")
            meta = json.load(open(os.path.join(ROOT, "seeded", seed, "meta.json")))
            for p in (props.split(",") if props else [meta["property"]]):
                work.append((seed, p))
        i += 1
    jobs = jobs or max(2, 16 // slots)
    commit = subprocess.run(["git", "-C", ROOT, "rev-parse", "--short", "HEAD"], stdout=subprocess.PIPE, text=True).stdout.strip()
    q = queue.Queue()
    for w in work: q.put(w)
    def worker(slot):
        while True:
            try: seed, prop = q.get_nowait()
            except queue.Empty: return
            t0 = time.time()
            patch = os.path.join(ROOT, "seeded", seed, "patch.diff")
            r = subprocess.run([os.path.join(ROOT, "tools", "seed_iso.sh"), "m" + os.environ.get("ISO_SLOT_BASE", "abcdefgh")[slot], patch, prop, tier] + extra, stdout=subprocess.PIPE, stderr=subprocess.STDOUT, text=True,
                               env=dict(os.environ, VERIF_JOBS=str(jobs)))
            lines = [l for l in r.stdout.splitlines() if not l.startswith("WARNING conda")]
            verdict = {0: "missed", 1: "caught", 2: "inconclusive"}.get(r.returncode, "error")
            record(seed, prop, dict(exit=r.returncode, verdict=verdict, tier=tier, extra=extra, verif_commit=commit, when=time.strftime("%Y-%m-%d %H:%M"), wall_s=round(time.time() - t0), lines=lines[:8]))
            print("%s vs %s: %s (%.0fs) %s" % (seed, prop, verdict, time.time() - t0, (lines[1] if len(lines) > 1 and verdict == "caught" else lines[0] if lines else "")[:200]), flush=True)
    ts = [threading.Thread(target=worker, args=(k,)) for k in range(slots)]
    for t in ts: t.start()
    for t in ts: t.join()

if __name__ == "__main__":
    main()
