#!/bin/bash
# usage: seed_iso.sh <slot> <patch.diff|none> <prop> [tier] [extra check args...]
#
# Runs ./check for <prop> against a *scratch copy*: /tmp/iso/<slot>/repo is a git worktree of /repo's HEAD with the
# seeded change applied, /tmp/iso/<slot>/verif is a copy of /verif's working tree whose harness points at that
# worktree. Neither /repo nor /verif/evidence is touched, so several slots can run side by side (set VERIF_JOBS to
# share the cores). The slot (worktree + build output) is kept for the next call; `seed_iso.sh <slot> --remove`
# deletes it.
set -u
SLOT=$1; PATCH=$2
BASE=/tmp/iso/$SLOT
if [ "$PATCH" = "--remove" ]; then
	git -C /repo worktree remove --force "$BASE/repo" 2>/dev/null
	rm -rf "$BASE"; git -C /repo worktree prune; exit 0
fi
PROP=$3; TIER=${4:-quick}; shift; shift; shift; shift || true
mkdir -p "$BASE"
HEAD=$(git -C /repo rev-parse HEAD)
if [ ! -d "$BASE/repo" ]; then
	git -C /repo worktree add --detach "$BASE/repo" "$HEAD" >/dev/null 2>&1 || { echo "cannot create worktree"; exit 3; }
fi
git -C "$BASE/repo" reset -q --hard && git -C "$BASE/repo" clean -fdq -e target && git -C "$BASE/repo" checkout -q --detach "$HEAD" || { echo "cannot reset worktree"; exit 3; }
if [ "$PATCH" != "none" ]; then
	PATCH=$(readlink -f "$PATCH")
	( cd "$BASE/repo" && { git apply "$PATCH" 2>/tmp/iso/$SLOT/apply.err || git apply --3way "$PATCH" 2>>/tmp/iso/$SLOT/apply.err; } ) || { echo "PATCH DOES NOT APPLY"; cat /tmp/iso/$SLOT/apply.err; git -C "$BASE/repo" reset -q --hard; exit 4; }
	git -C "$BASE/repo" reset -q
fi
# the committed state of /verif by default (edits in progress there do not disturb a run); ISO_WORKTREE=1 copies the
# working tree instead
if [ "${ISO_WORKTREE:-0}" = 1 ]; then
	rsync -a --delete --exclude '.git' --exclude 'harness/target*' --exclude 'replays' --exclude 'evidence' /verif/ "$BASE/verif/"
else
	rm -rf "$BASE/verif.src" && mkdir -p "$BASE/verif.src" && git -C /verif archive HEAD | tar -x -C "$BASE/verif.src" && rsync -a --delete --exclude 'harness/target*' --exclude 'replays' --exclude 'evidence' "$BASE/verif.src/" "$BASE/verif/" && rm -rf "$BASE/verif.src"
fi
mkdir -p "$BASE/verif/evidence"
sed -i "s#\"/repo/#\"$BASE/repo/#g" "$BASE"/verif/harness/*/Cargo.toml
sed -i "s#/verif/harness/target/c19_tmp#$BASE/verif/harness/target/c19_tmp#; s#\"/verif/replays\"#\"$BASE/verif/replays\"#" "$BASE/verif/harness/store/src/lib.rs" "$BASE/verif/harness/vcore/src/lib.rs"
# panic locations are part of violation signatures: point the known findings at this copy's source paths
# (slot names must not contain digits: signatures have their numbers stripped)
sed -i "s#@ /repo/#@ $BASE/repo/#g" "$BASE/verif/known_findings.json"
cd "$BASE/verif"
./check "$PROP" --tier "$TIER" "$@" 2>&1 | grep -v "^KNOWN-FINDING" | cut -c1-420 | head -14
RC=${PIPESTATUS[0]}
git -C "$BASE/repo" checkout -q -- .
echo "check exit=$RC"
exit $RC
