#!/usr/bin/env python3
"""Confirm a seeded change produced by a sub-agent, in its scratch worktree:
   1. demonstration passes on the unchanged tree,
   2. demonstration fails with the change,
   3. the change compiles and the existing workspace tests (lib/bin/integration targets) pass with it.
Then store it under /verif/seeded/<name>/ (patch.diff, demo.diff, meta.json).

usage: seed_confirm.py <worktree> <outdir(A|B dir of the agent)> <name> <property> <crate> <demo-filter> [<more cargo test args>]
"""
import json, os, re, subprocess, sys, time, shutil

def run(cmd, cwd, log):
    t = time.time()
    r = subprocess.run(cmd, cwd=cwd, shell=True, stdout=subprocess.PIPE, stderr=subprocess.STDOUT, text=True, env=dict(os.environ, CARGO_NET_OFFLINE="true"))
    log.write("\n$ %s   [rc=%d, %.0fs]\n%s\n" % (cmd, r.returncode, time.time() - t, r.stdout[-6000:]))
    log.flush()
    return r

def main():
    wt, out, name, prop, crate, filt = sys.argv[1:7]
    extra = " ".join(sys.argv[7:])
    dest = "/verif/seeded/" + name
    os.makedirs(dest, exist_ok=True)
    log = open(os.path.join(dest, "confirm.log"), "w")
    J = "-j " + os.environ.get("SEED_CONFIRM_JOBS", "8")
    res = {}
    run("git checkout -- . && git clean -fdq -e target -e Cargo.lock", wt, log)
    r = run("git apply %s/demo.diff" % out, wt, log)
    res["demo_applies_on_head"] = r.returncode == 0
    r = run("cargo test -p %s --lib --tests --offline %s %s -- %s" % (crate, J, extra, filt), wt, log)
    res["demo_passes_without_change"] = r.returncode == 0 and "test result: ok" in r.stdout and " 0 passed" not in r.stdout.split("test result: ok.")[-1][:40] if r.returncode == 0 else False
    r = run("git apply %s/patch.diff" % out, wt, log)
    res["patch_applies"] = r.returncode == 0
    r = run("cargo test -p %s --lib --tests --offline %s %s -- %s" % (crate, J, extra, filt), wt, log)
    res["demo_fails_with_change"] = r.returncode != 0 and ("FAILED" in r.stdout or "panicked" in r.stdout)
    # existing tests with the change only (demo removed)
    run("git checkout -- . && git clean -fdq -e target -e Cargo.lock", wt, log)
    run("git apply %s/patch.diff" % out, wt, log)
    # (test_single_channel_multiple_mpp spawns threads and relies on their timing: on a loaded machine it deadlocks,
    # with or without a change; it is skipped here)
    scope = os.environ.get("SEED_CONFIRM_SCOPE", "--workspace")  # e.g. "-p lightning-block-sync" for a leaf crate nothing depends on
    r = run("cargo test " + scope + " --lib --bins --tests --offline --no-fail-fast %s -- --skip test_single_channel_multiple_mpp 2>&1 | grep -E '^test result|\\.\\.\\. FAILED|^error' | head -80" % J, wt, log)
    # tests that fail on the unchanged tree in this sandbox too (BASELINE.json 'always_fail': no network / runs as root)
    always = ("resolution_failure_test", "resolution_test", "test_readonly_dir_perm_failure")
    failed = re.findall(r"^test (\S+) \.\.\. FAILED", r.stdout, re.M)
    unexpected = [t for t in failed if not t.endswith(always)]
    compile_err = [l for l in r.stdout.splitlines() if l.startswith("error") and "test failed" not in l and "targets failed" not in l]
    res["existing_tests_summary"] = r.stdout[-2500:]
    res["existing_tests_failed"] = failed
    res["existing_tests_pass_with_change"] = (not unexpected) and (not compile_err) and ("test result: ok" in r.stdout)
    run("git checkout -- . && git clean -fdq -e target -e Cargo.lock", wt, log)
    shutil.copy(os.path.join(out, "patch.diff"), os.path.join(dest, "patch.diff"))
    shutil.copy(os.path.join(out, "demo.diff"), os.path.join(dest, "demo.diff"))
    if os.path.exists(os.path.join(out, "notes.md")):
        shutil.copy(os.path.join(out, "notes.md"), os.path.join(dest, "agent_notes.md"))
    meta = dict(name=name, property=prop, demo_filter=filt, crate=crate, confirmed=res,
                confirmed_all=all(v for k, v in res.items() if isinstance(v, bool)),
                what_i_ran=["git apply demo.diff; cargo test -p %s --lib --tests -- %s  (expect pass)" % (crate, filt),
                            "git apply patch.diff; same command (expect failure)",
                            "patch only: cargo test --workspace --lib --bins --tests --offline --no-fail-fast (expect pass; lightning-persister test_readonly_dir_perm_failure fails on the unchanged tree too because the sandbox runs as root)"])
    json.dump(meta, open(os.path.join(dest, "meta.json"), "w"), indent=1)
    print(name, json.dumps({k: v for k, v in res.items() if isinstance(v, bool)}))

if __name__ == "__main__":
    main()
