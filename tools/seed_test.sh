#!/bin/bash
# usage: seed_test.sh <patch.diff> <prop> [tier] [extra check args...]
# Applies a seeded change to /repo, runs ./check for the property, and always restores /repo.
set -u
PATCH=$1; PROP=$2; TIER=${3:-quick}; shift; shift; shift || true
cd /repo || exit 3
if ! git diff --quiet; then echo "refusing: /repo has uncommitted changes"; exit 3; fi
if ! git apply --3way "$PATCH" 2>/tmp/seed_apply.err && ! git apply "$PATCH" 2>>/tmp/seed_apply.err; then echo "PATCH DOES NOT APPLY"; cat /tmp/seed_apply.err; git checkout -- . ; exit 4; fi
git reset -q   # un-stage whatever --3way staged
cd /verif
./check "$PROP" --tier "$TIER" "$@" 2>&1 | grep -v "^KNOWN-FINDING" | cut -c1-420 | head -12
RC=${PIPESTATUS[0]}
git -C /repo checkout -- .
echo "check exit=$RC"
exit $RC
