#!/bin/bash
# usage: seed_test.sh <patch.diff> <prop> [tier] [extra check args...]
# Applies a seeded change to /repo, runs ./check for the property, and always restores /repo and the property's
# evidence file (a run against a seeded change must not leave its "violated" evidence behind).
# Prefer tools/seed_iso.sh / tools/seed_matrix.py: they work in scratch copies and touch neither /repo nor the evidence.
set -u
PATCH=$1; PROP=$2; TIER=${3:-quick}; shift; shift; shift || true
cd /repo || exit 3
if ! git diff --quiet; then echo "refusing: /repo has uncommitted changes"; exit 3; fi
if ! git apply --3way "$PATCH" 2>/tmp/seed_apply.err && ! git apply "$PATCH" 2>>/tmp/seed_apply.err; then echo "PATCH DOES NOT APPLY"; cat /tmp/seed_apply.err; git checkout -- . ; exit 4; fi
git reset -q   # un-stage whatever --3way staged
cd /verif
cp "evidence/$PROP.json" "/tmp/seed_test_evidence_$PROP.json" 2>/dev/null
./check "$PROP" --tier "$TIER" "$@" 2>&1 | grep -v "^KNOWN-FINDING" | cut -c1-420 | head -12
RC=${PIPESTATUS[0]}
git -C /repo checkout -- .
[ -f "/tmp/seed_test_evidence_$PROP.json" ] && mv "/tmp/seed_test_evidence_$PROP.json" "evidence/$PROP.json"
echo "check exit=$RC"
exit $RC
