#!/usr/bin/env python3
"""Regenerates /verif/MANIFEST.json from the table below (kept next to the checks so that the
manifest never drifts from what ./check actually registers)."""
import json, os, sys
ROOT = os.path.dirname(os.path.dirname(os.path.abspath(__file__)))

HOOK_COMMITS = ["dd6fa0d", "911767a"]  # fix commits (not hooks): 3bcfa81 (F2), 6fbb873 (F1)

WORLD_NOTE = "Trusted: the BOLT-2/3 reference model in harness/world/src/model.rs, the harness's chain/persistence models, determinism shim (getrandom), and the taps (signer wrapper, Persist, chain::Watch wrapper, broadcaster). Nodes use the production feature set plus `_verif`/`unsafe_revoked_tx_signing`; fee estimators move together. Known findings: /verif/known_findings.json."
CLAIMED = {
    "C01": dict(category="exploration", design_ref="DESIGN.md §5.1, §6 C01",
        technique="runtime monitoring: wire-driven BOLT-2/3 reference model checked online against every commitment reaching the channel signer tap; honest-failure, closing-tx and send-limit probe monitors over a seeded message-level scheduler",
        text="Real LDK nodes are run under a seeded scheduler that delivers every message separately, interleaves sends at boundary amounts, claims, fails, fee updates, disconnects and mining; every commitment either node signs or accepts is compared with an independent reference model (balances, HTLC set, dust, fee, anchors, output sum, funding input), holder/counterparty agreement is checked per number, any error/close without an injected fault is a violation, cooperative-close outputs are checked against final model balances, and reported send limits are probed inside/outside on quiet channels. Quick ~1.6k runs / ~10^5 commitments; thorough ~48k runs. Exploration, not proof: the quantifier is over unbounded schedules.",
        note=WORLD_NOTE),
    "C05": dict(category="exploration", design_ref="DESIGN.md §6 C05",
        technique="runtime monitoring: signer/wire/broadcast-tap automaton kept outside the nodes (survives restarts) checking revocation order, counterparty-commitment sequencing, secret/point consistency and non-use of revoked state",
        text="An automaton over the signer tap (release_commitment_secret, validate_holder_commitment, sign_counterparty_commitment, validate_counterparty_revocation, sign_holder_*), revoke_and_ack messages and broadcasts checks V1-V6 on every event of runs with async persistence, user force-closes and restarts from arbitrary (also stale) manager snapshots. Quick ~1.6k runs; thorough ~48k.",
        note=WORLD_NOTE),
    "C09": dict(category="exploration", design_ref="DESIGN.md §6 C09",
        technique="runtime monitoring: dependency-order monitor over the chain::Watch/Persist taps (update ids, step contents via the `_verif` accessor, completion instants) against the message, broadcast and event streams",
        text="On a line of three nodes with asynchronous and deferred persistence, completions delivered first/last/random, disconnections and restarts with in-flight writes, the monitor checks that update ids are gap-free (replays identical), that commitment_signed / revoke_and_ack / channel_ready / funding broadcast / PaymentClaimed are only released once the update they depend on and all earlier ones completed, that preimage updates are handed out in the learning call, and that peers never hit an error under delayed persistence. Quick ~1.2k runs (~4*10^4 dependency evaluations); thorough ~36k runs.",
        note=WORLD_NOTE),
    "C10": dict(category="fault_enumeration", design_ref="DESIGN.md §6 C10",
        technique="runtime monitoring with fault injection: crash-point enumeration over the victim's durable writes of recorded scenarios (virtual crash at the n-th write, rebuild from the model disk), with the commitment/revocation/ordering monitors kept alive across the restart",
        text="Every selected crash point of every base scenario is an independent deterministic re-execution up to the victim's n-th durable write, followed by a rebuild from the most recently persisted (or an older) ChannelManager and the durable monitors with in-flight writes independently lost or kept, optionally a second crash during recovery, then reconnection and quiescence. Judged: reading back succeeds; a manager serialized at the stop is never declared outdated; resumed channels never error or close and all their later commitments match the reference model fed with the pre-crash history; the revocation and ordering automata (C05/C09 rules) keep their pre-crash state. Quick: 64 scenarios x <=12 points + 800 random-restart runs; thorough: 480 scenarios fully enumerated (<=400 points each) + 24k runs.",
        note=WORLD_NOTE + " On-chain resolution of channels closed by a stale restart is judged by the C07 machinery, not here."),
    "C12": dict(category="exploration", design_ref="DESIGN.md §6 C12",
        technique="runtime monitoring: serialization oracles riding on world runs (round trip of every ChannelMonitorUpdate in the Watch tap; every monitor and manager at quiescent points; shadow monitors that went through a round trip fed with the same later updates and blocks and compared under the library's own equality; byte-fault injection into sampled encodings) plus reference-twin histories for the scorer",
        text="In ~800 (quick) / 24k (thorough) scenario runs with force closes, restarts, async/deferred persistence and multi-path payments: ~10^5 monitor updates read back equal (Z1); ~10^4 monitors and ~5*10^3 managers read back, the manager listing the same channels, balances, limits, pending HTLCs and payments, stable under a second round trip (Z1, Z4); shadow monitors re-serialized at every quiescent point stay equal to the real ones after ~5*10^4 further updates/blocks (Z3); strict prefixes never read, unknown odd records are ignored and even ones rejected in monitor and manager encodings (Z6). Scorer: see stage c12_scorer. Network graph round trips are judged in C17 (G4).",
        note=WORLD_NOTE + " Hooks: ChannelMonitor::verif_eq / verif_eq_ignoring_in_memory_only_state. Known finding F14 (in-memory-only failed-back ids take part in the library's monitor equality). Behaviour of a reloaded manager on later messages is C10's subject; the output sweeper is not covered."),
    "C13": dict(category="exploration", design_ref="DESIGN.md §6 C13",
        technique="runtime monitoring: generated message values and byte-level mutants pushed through the real codecs under panic capture, with round-trip / prefix-exactness / TLV-rule oracles",
        text="For every wire message type, generated values (all optional TLVs toggled, boundary-length vectors, all address and feature encodings) are encoded, decoded and compared; the type dispatcher is checked for identity; every strict prefix must fail or re-encode to exactly itself; every single-byte mutant must fail or be stable under re-encoding; unknown odd TLVs must be ignored, unknown even / non-minimal / over-long ones rejected; arbitrary strings never panic. Quick ~2*10^4 values / ~10^7 mutants; thorough 50x.",
        note="Trusted: the library's PartialEq on message structs; Debug rendering for dispatcher comparison. A slice-bounded reader makes reading past the frame impossible by construction; reading past an inner declared length shows up as a round-trip or prefix-exactness failure."),
    "C02": dict(category="exploration", design_ref="DESIGN.md §6 C02",
        technique="runtime monitoring: payment monitor pairing every forwarded HTLC (upstream/downstream) from the emission stream, with its own copy of the channel reference models and of monitor-update durability, judged online at every emission, delivery, Watch call and event",
        text="On a line of three real nodes with two channels per edge, asynchronous/deferred persistence with completions in any order, disconnections and restarts, every forward is judged: downstream offer vs upstream less the advertised fee/CLTV delta and only after the upstream HTLC is irrevocable (F1); never failed upstream after the downstream fulfil was delivered (F2) nor before the downstream HTLC is irrevocably removed (F3); at quiescent points downstream-fulfilled implies upstream-fulfilled (F4); the monitor update carrying the revocation that makes a downstream fulfilment irrevocable is handed out only after the upstream preimage update is durable (F5); PaymentForwarded accounting (F6). Quick 1.2k runs (~4k forwards); thorough 36k runs.",
        note=WORLD_NOTE + " Channels closed on chain (force close, stale restart) are excluded from the forwarding rules here; on-chain resolution of forwards and the dust-exposure clause are not judged by this check."),
    "C03": dict(category="exploration", design_ref="DESIGN.md §6 C03",
        technique="runtime monitoring: per-payment state machine fed by the event tap, the API tap and ground truth from the recipient side (claim_funds calls) plus the monitor's own copy of the channel reference models for 'is any HTLC of this payment still in flight'",
        text="Every PaymentSent / PaymentFailed / PaymentPathFailed of multi-path, multi-hop, refused and duplicated-id payments under async persistence, event handlers that refuse events, disconnections and sender restarts from any stored manager is judged: truthful PaymentSent (preimage, recipient released it, fee and amount as carried by the sender's HTLCs), PaymentSent whenever the claim settled, PaymentFailed when nothing is pending and nothing settled and never while/before an HTLC of the payment is in flight, exactly one terminal event without restart and never Sent+Failed, forgotten payments have nothing in flight, duplicate ids refused, failed path names a channel adjacent to the failing node. Quick 1.2k runs (~2*10^4 terminal events); thorough 36k runs.",
        note=WORLD_NOTE + " Payments whose path crosses a channel closed on chain are excluded from the balance/pending rules (the contradiction rule P4 still applies); on-chain settlement of payments is not judged by this check."),
    "C04": dict(category="exploration", design_ref="DESIGN.md §6 C04",
        technique="runtime monitoring: recipient-side oracle with the harness' table of issued (hash, secret, amount) registrations as ground truth, judging every PaymentClaimable, preimage release, claim and fail-back against the parts that have irrevocably arrived (own copy of the channel reference models)",
        text="Sends with a flipped secret bit, another registration's secret, less than the registered amount, a declared total never reached, staged parts, disagreeing totals and exact amounts, over 1-3 parts and parallel channels with timer ticks in between: PaymentClaimable only for authentic, agreeing, complete parts with a non-empty claim window (I1); claim_funds below the deadline fulfils every part and reports PaymentClaimed for the announced amount (I2); refused/incomplete parts are failed back by the final quiescent point (I3); never a strict subset of parts fulfilled (I4). Quick 1.2k runs (~10^4 claimable events); thorough 36k runs.",
        note=WORLD_NOTE + " The claim-deadline boundary (heights around the deadline, parts with different expiries) and skimmed-fee (accept_underpaying_htlcs) payments are not driven by this workload."),
    "C14": dict(category="exploration", design_ref="DESIGN.md §6 C14",
        technique="runtime monitoring: pure-function harness over the real onion construction / peeling / failure code with an independent route, size and BOLT-4 classification oracle, bit-flip injection at every hop",
        text="For ~2*10^4 (quick) / ~10^6 (thorough) generated routes of 1..25 hops with boundary values, recipient fields up to the size limit, keysend, custom TLVs, blinded and trampoline tails: build succeeds iff the payloads fit (R1), every hop peels exactly its instructions and a 1366-byte next packet (R2-R4), the last hop sees exactly the recipient fields (R5), every sampled / swept single-bit flip of packet, key or payment hash is refused by that hop (R6), failures from every hop position/code/data length are attributed to that hop with the right consequences and hold times, also through legacy hops and with in-flight corruption (R7-R9), blinded forwards/receives (R10).",
        note="Trusted: the check's own route sums, TLV size model and BOLT-4 flag classifier; hooks verif_build/wrap/decode_failure_packet (feature _verif). Not judged: fulfil-side attribution data, multi-hop trampoline, failure code value itself (not observable in production builds). Observation (off by default, tramp_keysend=1): a keysend preimage over a trampoline tail is written as TLV 20 which the recipient's reader rejects; trampoline tails are outside the property's quantifier."),
    "C18": dict(category="exploration", design_ref="DESIGN.md §6 C18",
        technique="runtime monitoring: builders driven over their parameter space with round-trip, own-recomputed-signature, mutation (checksum-preserving and not), TLV-rule and stateless-metadata oracles under panic capture",
        text="BOLT-11 invoices and BOLT-12 offers/requests/invoices/refunds/static invoices are built, round-tripped with full accessor snapshots, their signed hash / merkle root recomputed by the check, mutated in every character (checksum must fail), in every data symbol / amount / timestamp / field with the checksum recomputed (parse error, unrelated recovered key, or identical signed content), in single bits of signed BOLT-12 streams (must not parse), extended with unknown odd/even records, and verified under right and wrong key material / against altered offers; arbitrary input never panics. Quick 400 flows (~10^6 mutants); thorough 50x.",
        note="Known findings F10 (payer cannot verify the invoice for its own request when the offer carries an unknown odd record), F11 (offer metadata record not covered for path-derived offers), F12 (builder inputs the wire format cannot carry). Not driven: ln/invoice_utils through a ChannelManager, Amount::Currency offers (not buildable through the public API)."),
    "C19": dict(category="exploration", design_ref="DESIGN.md §6 C19",
        technique="runtime monitoring: client-boundary history recording with a per-key linearizability checker (sequential register model), list interval rules and torn-value detection on real threads, natively, under ThreadSanitizer and under Miri; process-kill crash test with an admissibility oracle; offline syscall-order checker over strace logs; crash-prefix enumeration of the incremental monitor persister over a recording store",
        text="FilesystemStore (v1, v2; sync and async API) is hammered by 2-8 threads on 1-3 keys; every history (call/return ticks from one atomic clock) is checked per key against a sequential map, list results against interval obligations, every read for torn/mixed values, async writes for issue-order effect. The same binary runs under TSan and (v1) Miri. Children doing acknowledged operations are SIGKILLed at seeded instants and the reopened directory judged (last acknowledged or later issued value, no temp artefacts). strace logs are checked for fsync(tmp) -> rename -> fsync(dir). MonitorUpdatingPersister: see stage c19_monitor_persister.",
        note="Trusted: the checker (self-tested at startup on fixed good/bad histories), the logical clock. Thread schedules and kill instants are not reproducible; the recorded history is the witness. Power loss is approximated by syscall order on this platform; Windows paths are not exercised; v2 is excluded under Miri (futimens)."),
    "C20": dict(category="exploration", design_ref="DESIGN.md §6 C20",
        technique="runtime monitoring: recording Listen implementations with their own chain stacks checked online against generated proof-of-work block trees, over a fault-injecting BlockSource",
        text="~2.4*10^5 (quick) / ~1.2*10^7 (thorough) cases: after every poll_best_tip / synchronize_listeners the listeners' notifications must be one disconnect to their fork point followed by connects in ascending height on top of their own tip (L1, L2); fault-free polls move listeners exactly when the source's tip has strictly more work and report it truthfully (L3); with injected errors, bad-PoW / foreign / altered headers and blocks nothing refusable reaches a listener, no block is skipped or repeated, and the next fault-free poll converges (L4); start-up sync brings listeners at different stale/forked blocks to one tip (L5); header-cache use (L6).",
        note="Known finding F13 (height/chainwork claims of a source not validated on header-cache hits) is exercised by a separate stage (lies=1) and collapses into one signature. Not judged: several block sources, real async concurrency, chainwork near 2^256. Observation: a block with its last transaction duplicated passes check_merkle_root (counter only)."),
    "C15": dict(category="exploration", design_ref="DESIGN.md §6 C15",
        technique="runtime monitoring: real PeerManagers over a scheduler-controlled byte pipe with recording handlers, checked online against an exactly-once in-order prefix oracle, and against an independent BOLT-8 reference implementation (own ChaCha20-Poly1305/HKDF/ECDH, self-tested on the spec vectors) that authenticates every frame and injects faults at exact offsets",
        text="~3.2*10^4 (quick) / 1.6*10^6 (thorough) sessions: delivered messages are at every moment a byte-identical in-order exactly-once prefix of what was released, and everything at quiescence of a fault-free case (T1); with a bit flip, truncation, insertion, deletion, replay, duplicate or swap at any offset of the acts or frames nothing at or after the damaged frame is delivered, everything before it is, and the drop happens in the read that completes the damaged unit (T2); no handler callback before both Inits, nothing but Init sent while the peer withholds its Init (T3); garbage and authenticated hostile frames never panic (T4); handshake and every emitted frame verify under the reference's keys across >= 2 key rotations per direction (K1, K2).",
        note="Trusted: the reference BOLT-8 peer (checked against the BOLT-8 appendix vectors at start-up; failure = inconclusive). Not judged: PeerChannelEncryptor in isolation (not public), lightning-net-tokio, multi-threaded drivers; 'no panic' is shown for the generated frame families, codecs are C13's."),
    "C17": dict(category="exploration", design_ref="DESIGN.md §6 C17",
        technique="runtime monitoring: reference-model monitor (latest-timestamp-wins map with signature/chain/capacity/removal-tracking rules) run in lock step with the real NetworkGraph over generated adversarial gossip sequences; order-permutation and serialization round-trip oracles",
        text="Generated gossip with real secp256k1 keys is delivered to NetworkGraph through the signed and unsigned public APIs; a ~100-line reference predicts accept/reject of every message and the final graph for the exact sequence (G1), admissible permutations with duplication of the valid subset must converge to one graph (G2), permanent-failure and stale-pruning operations are mirrored (G3), and every final graph must survive write/read (G4). Quick ~6.4k universes / ~2*10^6 predictions / 5*10^4 orders; thorough 50x.",
        note="Trusted: the reference graph in c17_gossip.rs; the projection (channels: endpoints, capacity, per-direction policy+timestamp; nodes: channel list, announcement timestamp/rgb/alias). P2PGossipSync's relay/backpressure logic is outside this property."),
    "C16": dict(
        category="exploration",
        technique="runtime monitoring: independent route-validity oracle over find_route on generated graphs (reference-model monitor), reachability oracle for completeness in the slack regime",
        text="Every route returned for ~4*10^5 (quick) / ~2*10^7 (thorough) generated queries is re-validated hop by hop against the generator's ground truth (connectivity, usable+enabled channels, htlc minimum, joint maximum/capacity, policy fee and CLTV delta per forwarding node, delivered amount, superfluous parts, fee/CLTV/length/count limits, excluded channels); completeness is decided by a reachability oracle in the slack regime. Held-on-what-was-explored, not a proof; right level because the property quantifies over unbounded graph/parameter spaces where only sampling with boundary-biased values is possible.",
        note="Trusted: the generator's graph description as ground truth; NetworkGraph ingestion through the public unsigned-gossip API; the check's own fee arithmetic (base + amt*prop/1e6, floor). General-regime completeness failures of the heuristic router are known finding F3 (pinned witnesses).",
        design_ref="DESIGN.md §6 C16"),
}

NOT_YET = "check not built yet in this session (planned, see DESIGN.md §6); not claimed until its monitor has been validated silent on the unchanged tree"

def main():
    props = [json.loads(l) for l in open(os.path.join(ROOT, "properties.jsonl"))]
    checks, na = [], []
    for p in props:
        pid = p["id"]
        c = CLAIMED.get(pid)
        if not c:
            na.append(dict(property_id=pid, reason=NOT_YET))
            continue
        checks.append(dict(
            property_id=pid,
            quick_cmd="./check %s --tier quick" % pid,
            thorough_cmd="./check %s --tier thorough" % pid,
            evidence_file="/verif/evidence/%s.json" % pid,
            replay_cmd_template="./check %s --replay {path}" % pid,
            engine=c.get("engine", "harness"),
            level_claimed=dict(category=c["category"], text=c["text"], design_ref=c["design_ref"]),
            level_note=c["note"],
            technique=c["technique"]))
    m = dict(
        version=1,
        setup_cmd="cd /verif/harness && CARGO_NET_OFFLINE=true cargo build --offline -p bins -p world",
        hooks=dict(
            guard="cargo feature `_verif` of crate `lightning` (off by default)",
            enable="the harness depends on /repo/lightning by path with features [\"_verif\", \"unsafe_revoked_tx_signing\"]; every ./check rebuilds from /repo's working tree",
            baseline_off_cmd="cd /repo && cargo test --workspace --no-fail-fast --offline",
            source_commits=HOOK_COMMITS,
            add_only=True),
        engines=[dict(name="harness", path="/verif/harness", serves_properties=sorted(CLAIMED), kind_free_text="cargo workspace of monitor/oracle binaries driven by /verif/check (sharded processes, watchdog, evidence merge)")],
        checks=checks,
        notes="Exit codes of ./check: 0 held, 1 VIOLATION (not in known_findings.json), 2 INCONCLUSIVE (build failure / watchdog / coverage floor). Known findings: /verif/known_findings.json.",
        not_applicable=na)
    json.dump(m, open(os.path.join(ROOT, "MANIFEST.json"), "w"), indent=1)
    print("claimed:", sorted(CLAIMED), "not_applicable:", len(na))

if __name__ == "__main__":
    main()
