#!/usr/bin/env python3
"""Regenerates /verif/MANIFEST.json from the table below (kept next to the checks so that the
manifest never drifts from what ./check actually registers)."""
import json, os, sys
ROOT = os.path.dirname(os.path.dirname(os.path.abspath(__file__)))

HOOK_COMMITS = ["dd6fa0d"]

CLAIMED = {
    "C16": dict(
        category="exploration",
        technique="runtime monitoring: independent route-validity oracle over find_route on generated graphs (reference-model monitor), reachability oracle for completeness in the slack regime",
        text="Every route returned for ~4*10^5 (quick) / ~2*10^7 (thorough) generated queries is re-validated hop by hop against the generator's ground truth (connectivity, usable+enabled channels, htlc minimum, joint maximum/capacity, policy fee and CLTV delta per forwarding node, delivered amount, superfluous parts, fee/CLTV/length/count limits, excluded channels); completeness is decided by a reachability oracle in the slack regime. Held-on-what-was-explored, not a proof; right level because the property quantifies over unbounded graph/parameter spaces where only sampling with boundary-biased values is possible.",
        note="Trusted: the generator's graph description as ground truth; NetworkGraph ingestion through the public unsigned-gossip API; the check's own fee arithmetic (base + amt*prop/1e6, floor). General-regime completeness failures of the heuristic router are known finding F3 (pinned witnesses).",
        design_ref="DESIGN.md §6 C16"),
}

NOT_YET = "check not built yet in this session (planned, see DESIGN.md §6); not claimed until its monitor has been validated silent on the unchanged tree"

def main():
    props = [json.loads(l) for l in open(os.path.join(ROOT, "properties.jsonl"))]
    checks, na = [], []
    for p in props:
        pid = p["id"]
        c = CLAIMED.get(pid)
        if not c:
            na.append(dict(property_id=pid, reason=NOT_YET))
            continue
        checks.append(dict(
            property_id=pid,
            quick_cmd="./check %s --tier quick" % pid,
            thorough_cmd="./check %s --tier thorough" % pid,
            evidence_file="/verif/evidence/%s.json" % pid,
            replay_cmd_template="./check %s --replay {path}" % pid,
            engine=c.get("engine", "harness"),
            level_claimed=dict(category=c["category"], text=c["text"], design_ref=c["design_ref"]),
            level_note=c["note"],
            technique=c["technique"]))
    m = dict(
        version=1,
        setup_cmd="cd /verif/harness && CARGO_NET_OFFLINE=true cargo build --offline -p bins -p world",
        hooks=dict(
            guard="cargo feature `_verif` of crate `lightning` (off by default)",
            enable="the harness depends on /repo/lightning by path with features [\"_verif\", \"unsafe_revoked_tx_signing\"]; every ./check rebuilds from /repo's working tree",
            baseline_off_cmd="cd /repo && cargo test --workspace --no-fail-fast --offline",
            source_commits=HOOK_COMMITS,
            add_only=True),
        engines=[dict(name="harness", path="/verif/harness", serves_properties=sorted(CLAIMED), kind_free_text="cargo workspace of monitor/oracle binaries driven by /verif/check (sharded processes, watchdog, evidence merge)")],
        checks=checks,
        notes="Exit codes of ./check: 0 held, 1 VIOLATION (not in known_findings.json), 2 INCONCLUSIVE (build failure / watchdog / coverage floor). Known findings: /verif/known_findings.json.",
        not_applicable=na)
    json.dump(m, open(os.path.join(ROOT, "MANIFEST.json"), "w"), indent=1)
    print("claimed:", sorted(CLAIMED), "not_applicable:", len(na))

if __name__ == "__main__":
    main()
