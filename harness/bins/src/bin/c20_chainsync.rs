//! C20 – the chain-sync client keeps listeners on one consistent chain at the best tip.
//!
//! Every case mines a random block *tree* with real proof of work (regtest-like targets, several
//! difficulty levels so that a shorter branch can be heavier, equal-work twins, branches that contain
//! a refusable block: failed PoW, wrong claimed height / chainwork, illegal difficulty on mainnet
//! rules; every 250th case has two branches longer than `HEADER_CACHE_LIMIT`). A `BlockSource` over
//! the tree serves full or header-only blocks, moves its best tip between (and during) polls, may
//! know only its current best chain, returns `Pending` a bounded number of times and injects, at a
//! chosen request index, transient / persistent errors, foreign headers, headers with broken PoW,
//! altered headers, wrong heights, wrong chainwork, blocks with altered transactions.
//! The real `SpvClient::poll_best_tip` and `init::synchronize_listeners` are driven by a trivial
//! `block_on`. Recording listeners keep their own chain stack and judge online; after every call the
//! oracle compares with the tree:
//!  L1 a disconnect names a block on the listener's own chain strictly below its tip, with its height;
//!  L2 every connect builds on the listener's tip (parent hash) at height tip+1 – nothing skipped,
//!     repeated or taken from another branch;
//!  L3 fault-free poll: tip S of the source equal to the listener's tip -> `Common`, untouched;
//!     work(S) > work(tip) -> `Better(S)`, one disconnect to exactly the fork point (if any) followed by
//!     the path to S in ascending order, flag true; otherwise (less *or equal* work) `Worse(S)`,
//!     untouched, flag false; the returned header/height/chainwork are those of S;
//!  L4 poll with an injected fault / refusable tip: no block that fails PoW, is altered, or lies on a
//!     branch through a non-connecting header ever reaches a listener; a header failing PoW is never
//!     returned as the (validated) chain tip; listeners are never disconnected in favour of a branch
//!     through a refusable header; notifications are disconnects-then-connects; a listener that moved
//!     is on the path fork point..S and S has more work; the returned flag agrees with what listeners
//!     saw; the next fault-free poll obeys L3 (bounded progress); a library panic is reported here too;
//!  L5 `synchronize_listeners`: fault-free (including listeners whose tip the source has forgotten but
//!     whose `BlockLocator::previous_blocks` reach a known block) -> Ok(tip == S), every listener gets
//!     one disconnect to its own fork point (if any) then the path to S; with faults -> same safety as
//!     L4, Ok implies all listeners at S, and a fault-free retry from where the listeners are succeeds;
//!  L6 (derived from the `SpvClient::new` / `HeaderCache` docs) headers of blocks the client itself
//!     connected, within `HEADER_CACHE_LIMIT` of the highest connected height, are never requested
//!     again from a source that only knows its best chain.
use bitcoin::absolute::LockTime;
use bitcoin::block::{Block, Header, Version};
use bitcoin::hash_types::{BlockHash, TxMerkleNode};
use bitcoin::hashes::Hash;
use bitcoin::pow::{CompactTarget, Work};
use bitcoin::{transaction, Amount, Network, OutPoint, ScriptBuf, Sequence, Transaction, TxIn, TxOut, Txid, Witness};
use lightning::chain::transaction::TransactionData;
use lightning::chain::{BlockLocator, Listen};
use lightning_block_sync::poll::{ChainPoller, ChainTip, Validate, ValidatedBlockHeader};
use lightning_block_sync::{init, BlockData, BlockHeaderData, BlockSource, BlockSourceError, BlockSourceResult, HeaderCache, SpvClient, HEADER_CACHE_LIMIT};
use std::collections::{HashMap, HashSet};
use std::future::Future;
use std::pin::Pin;
use std::sync::{Arc, Mutex};
use std::task::{Context, Poll as TaskPoll, Wake, Waker};
use vcore::{canon, Args, Fnv, Json, Report, Rng};

const PROP: &str = "C20";
/// Difficulty ladder: entry i has a target of about 2^(255-i), i.e. block work of about 2^(i+1).
const LADDER: [u32; 7] = [0x207fffff, 0x203fffff, 0x201fffff, 0x200fffff, 0x2007ffff, 0x2003ffff, 0x2001ffff];

// ---------------------------------------------------------------------------------------------
// executor
// ---------------------------------------------------------------------------------------------
struct NoopWake;
impl Wake for NoopWake {
	fn wake(self: Arc<Self>) {}
}
fn block_on<F: Future>(fut: F) -> Option<F::Output> {
	let waker = Waker::from(Arc::new(NoopWake));
	let mut cx = Context::from_waker(&waker);
	let mut fut = std::pin::pin!(fut);
	for _ in 0..50_000_000u64 {
		if let TaskPoll::Ready(v) = fut.as_mut().poll(&mut cx) {
			return Some(v);
		}
	}
	None
}
struct YieldN(u32);
impl Future for YieldN {
	type Output = ();
	fn poll(mut self: Pin<&mut Self>, cx: &mut Context<'_>) -> TaskPoll<()> {
		if self.0 == 0 {
			TaskPoll::Ready(())
		} else {
			self.0 -= 1;
			cx.waker().wake_by_ref();
			TaskPoll::Pending
		}
	}
}

// ---------------------------------------------------------------------------------------------
// block tree
// ---------------------------------------------------------------------------------------------
#[derive(Clone, Copy, Debug, PartialEq, Eq)]
enum Taint {
	Good,
	BadPow,
	LieHeight,
	LieWork,
	BadBits,
}
impl Taint {
	fn name(self) -> &'static str {
		match self {
			Taint::Good => "good",
			Taint::BadPow => "failed proof of work",
			Taint::LieHeight => "wrong claimed height",
			Taint::LieWork => "wrong claimed chainwork",
			Taint::BadBits => "illegal difficulty change",
		}
	}
	fn is_lie(self) -> bool {
		matches!(self, Taint::LieHeight | Taint::LieWork | Taint::BadBits)
	}
}
struct Node {
	parent: Option<usize>,
	block: Block,
	hash: BlockHash,
	height: u32,
	work: Work,
	claim_height: u32,
	claim_work: Work,
	/// flaw of this block or of the nearest flawed ancestor
	taint: Taint,
	lvl: usize,
	tin: u32,
	tout: u32,
}
struct Tree {
	nodes: Vec<Node>,
	by_hash: HashMap<BlockHash, usize>,
	network: Network,
	salt: u64,
}
fn small_work(v: u128) -> Work {
	let mut b = [0u8; 32];
	b[16..].copy_from_slice(&v.to_be_bytes());
	Work::from_be_bytes(b)
}
fn mine(mut h: Header, want_valid: bool) -> Header {
	let target = h.target();
	loop {
		if target.is_met_by(h.block_hash()) == want_valid {
			return h;
		}
		h.nonce = h.nonce.wrapping_add(1);
	}
}
fn coinbase(tag: u64) -> Transaction {
	Transaction {
		version: transaction::Version::TWO,
		lock_time: LockTime::ZERO,
		input: vec![TxIn { previous_output: OutPoint::null(), script_sig: ScriptBuf::from_bytes(tag.to_le_bytes().to_vec()), sequence: Sequence::MAX, witness: Witness::new() }],
		output: vec![TxOut { value: Amount::from_sat(5_000_000_000), script_pubkey: ScriptBuf::new() }],
	}
}
fn filler(tag: u64, i: u32) -> Transaction {
	let mut id = [0x5au8; 32];
	id[..8].copy_from_slice(&tag.to_le_bytes());
	Transaction {
		version: transaction::Version::TWO,
		lock_time: LockTime::ZERO,
		input: vec![TxIn { previous_output: OutPoint { txid: Txid::from_byte_array(id), vout: i }, script_sig: ScriptBuf::new(), sequence: Sequence::MAX, witness: Witness::new() }],
		output: vec![TxOut { value: Amount::from_sat(1_000 + i as u64), script_pubkey: ScriptBuf::from_bytes(vec![0x51]) }],
	}
}
impl Tree {
	fn new(network: Network, salt: u64, h0: u32, lvl: usize, base_work: u128) -> Tree {
		let mut t = Tree { nodes: vec![], by_hash: HashMap::new(), network, salt };
		let txdata = vec![coinbase(salt)];
		let mut prev = [0u8; 32];
		if h0 != 0 {
			prev[..8].copy_from_slice(&salt.to_le_bytes());
			prev[31] = 1;
		}
		let mut block = Block { header: Header { version: Version::NO_SOFT_FORK_SIGNALLING, prev_blockhash: BlockHash::from_byte_array(prev), merkle_root: TxMerkleNode::all_zeros(), time: 1_600_000_000, bits: CompactTarget::from_consensus(LADDER[lvl]), nonce: 0 }, txdata };
		block.header.merkle_root = block.compute_merkle_root().unwrap();
		block.header = mine(block.header, true);
		let hash = block.header.block_hash();
		let work = small_work(base_work) + block.header.work();
		t.by_hash.insert(hash, 0);
		t.nodes.push(Node { parent: None, block, hash, height: h0, work, claim_height: h0, claim_work: work, taint: Taint::Good, lvl, tin: 0, tout: 0 });
		t
	}
	/// Adds a block on `parent` at difficulty level `lvl` with own flaw `flaw` (`var` picks the flavour).
	fn add(&mut self, parent: usize, lvl: usize, flaw: Taint, var: u64, ntx: u32) -> usize {
		let idx = self.nodes.len();
		let p = &self.nodes[parent];
		let tag = self.salt ^ (idx as u64).wrapping_mul(0x9E3779B97F4A7C15);
		let mut txdata = vec![coinbase(tag)];
		for i in 0..ntx {
			txdata.push(filler(tag, i));
		}
		let mut block = Block { header: Header { version: Version::NO_SOFT_FORK_SIGNALLING, prev_blockhash: p.hash, merkle_root: TxMerkleNode::all_zeros(), time: p.block.header.time + 600, bits: CompactTarget::from_consensus(LADDER[lvl]), nonce: 0 }, txdata };
		block.header.merkle_root = block.compute_merkle_root().unwrap();
		block.header = mine(block.header, flaw != Taint::BadPow);
		let hash = block.header.block_hash();
		let own = block.header.work();
		let height = p.height + 1;
		let work = p.work + own;
		let mut claim_height = p.claim_height + 1;
		let mut claim_work = p.claim_work + own;
		match flaw {
			Taint::LieHeight => {
				claim_height = match var % 3 {
					0 => claim_height + 1,
					1 => claim_height - 1,
					_ => claim_height + 7,
				}
			},
			Taint::LieWork => {
				claim_work = match var % 5 {
					0 => claim_work + small_work(1),
					1 => claim_work - small_work(1),
					2 => claim_work + own,
					3 => p.claim_work,
					_ => claim_work + small_work(1u128 << 100),
				}
			},
			_ => {},
		}
		let taint = if p.taint != Taint::Good { p.taint } else { flaw };
		self.by_hash.insert(hash, idx);
		self.nodes.push(Node { parent: Some(parent), block, hash, height, work, claim_height, claim_work, taint, lvl, tin: 0, tout: 0 });
		idx
	}
	fn finish(&mut self) {
		let n = self.nodes.len();
		let mut kids: Vec<Vec<usize>> = vec![vec![]; n];
		for i in 1..n {
			kids[self.nodes[i].parent.unwrap()].push(i);
		}
		let mut clock = 0u32;
		let mut stack: Vec<(usize, usize)> = vec![(0, 0)];
		self.nodes[0].tin = 0;
		while let Some((v, ci)) = stack.pop() {
			if ci < kids[v].len() {
				stack.push((v, ci + 1));
				let c = kids[v][ci];
				clock += 1;
				self.nodes[c].tin = clock;
				stack.push((c, 0));
			} else {
				self.nodes[v].tout = clock;
			}
		}
	}
	/// a is an ancestor of b or b itself
	fn anc_eq(&self, a: usize, b: usize) -> bool {
		self.nodes[a].tin <= self.nodes[b].tin && self.nodes[b].tin <= self.nodes[a].tout
	}
	fn ca(&self, mut a: usize, mut b: usize) -> usize {
		while a != b {
			if self.nodes[a].height >= self.nodes[b].height {
				a = self.nodes[a].parent.unwrap();
			} else {
				b = self.nodes[b].parent.unwrap();
			}
		}
		a
	}
	/// nodes strictly above `from` down to `to` (ancestor `from` excluded), ascending
	fn path(&self, from: usize, to: usize) -> Vec<usize> {
		let mut v = vec![];
		let mut c = to;
		while c != from {
			v.push(c);
			c = self.nodes[c].parent.expect("path: from is not an ancestor");
		}
		v.reverse();
		v
	}
	fn root_path(&self, to: usize) -> Vec<usize> {
		let mut v = self.path(0, to);
		v.insert(0, 0);
		v
	}
	fn ancestor(&self, n: usize, up: usize) -> Option<usize> {
		let mut c = n;
		for _ in 0..up {
			c = self.nodes[c].parent?;
		}
		Some(c)
	}
	fn good(&self, n: usize) -> bool {
		self.nodes[n].taint == Taint::Good
	}
	fn data(&self, n: usize) -> BlockHeaderData {
		let x = &self.nodes[n];
		BlockHeaderData { header: x.block.header, height: x.claim_height, chainwork: x.claim_work }
	}
	fn describe(&self, n: usize) -> String {
		let x = &self.nodes[n];
		format!("n{}(h{} lvl{} {})", n, x.height, x.lvl, if x.taint == Taint::Good { "ok" } else { x.taint.name() })
	}
	fn heaviest_good(&self) -> usize {
		let mut best = 0;
		for i in 0..self.nodes.len() {
			if self.good(i) && self.nodes[i].work > self.nodes[best].work {
				best = i;
			}
		}
		best
	}
}

fn pick_flaw(rng: &mut Rng, lies: bool, network: Network) -> Taint {
	let mut opts = vec![Taint::BadPow];
	if lies {
		opts.extend([Taint::LieHeight, Taint::LieWork, Taint::BadPow]);
		if network == Network::Bitcoin {
			opts.push(Taint::BadBits);
		}
	}
	*rng.pick(&opts)
}

/// Level for a child under mainnet rules: unchanged off the retarget boundary; on it, a legal step of
/// one level or an illegal one of three. `BadBits` forces an illegal choice.
fn mainnet_level(rng: &mut Rng, parent_lvl: usize, height: u32, flaw: Taint) -> usize {
	let boundary = height % 2016 == 0;
	let top = LADDER.len() as i64 - 1;
	let p = parent_lvl as i64;
	let step = |rng: &mut Rng, d: i64| -> usize {
		let up = rng.chance(1, 2);
		let c = if up { p + d } else { p - d };
		let c = if c < 0 || c > top { if up { p - d } else { p + d } } else { c };
		c.clamp(0, top) as usize
	};
	if flaw == Taint::BadBits {
		if boundary {
			step(rng, 3)
		} else {
			step(rng, 1)
		}
	} else if boundary && p >= 1 && p < top {
		match rng.below(3) {
			0 => parent_lvl,
			_ => step(rng, 1),
		}
	} else {
		parent_lvl
	}
}

struct TreeInfo {
	deep: Option<(usize, usize, usize)>, // (fork point, tip of branch A, tip of branch B)
}

fn gen_tree(rng: &mut Rng, lies: bool, deep: bool) -> (Tree, TreeInfo) {
	let network = if rng.chance(1, 4) { Network::Bitcoin } else { Network::Regtest };
	let mainnet = network == Network::Bitcoin;
	let salt = rng.next();
	let h0 = if mainnet {
		match rng.below(3) {
			0 => 2016 * rng.range(1, 400) as u32 - rng.range(1, 8) as u32,
			1 => 2016 * rng.range(1, 400) as u32,
			_ => rng.below(900_000) as u32,
		}
	} else {
		*rng.pick(&[0u32, 0, 1, 2, 100, 2015, 800_000])
	};
	// mainnet rules: keep away from the ends of the ladder (the x4 bound overflows above level 1)
	let root_lvl = if mainnet { 2 + rng.below(2) as usize } else { 0 };
	let mixed = !mainnet && rng.chance(3, 10);
	let base_work = rng.below(1 << 40) as u128;
	let mut t = Tree::new(network, salt, h0, root_lvl, base_work);
	let mut info = TreeInfo { deep: None };
	let lvl_for = |rng: &mut Rng, t: &Tree, parent: usize, flaw: Taint| -> usize {
		if mainnet {
			mainnet_level(rng, t.nodes[parent].lvl, t.nodes[parent].height + 1, flaw)
		} else if mixed {
			*rng.pick(&[0usize, 0, 0, 1, 1, 2, 3, 5])
		} else {
			0
		}
	};
	if deep {
		// trunk, then two branches longer than the header cache, B heavier than A
		let lim = HEADER_CACHE_LIMIT as usize;
		let mut cur = 0;
		for _ in 0..rng.range(0, 3) {
			cur = t.add(cur, t.nodes[cur].lvl, Taint::Good, 0, 0);
		}
		let fork = cur;
		let a_len = lim - 2 + rng.below(6) as usize; // 1006..1011: around the eviction boundary
		let mut a = fork;
		for _ in 0..a_len {
			a = t.add(a, t.nodes[a].lvl, Taint::Good, 0, 0);
		}
		let mut b = fork;
		if !mainnet && rng.chance(1, 2) {
			// shorter but heavier
			for _ in 0..(a_len / 2 + 1 + rng.below(4) as usize) {
				b = t.add(b, 1, Taint::Good, 0, 0);
			}
		} else {
			for _ in 0..(a_len + 1 + rng.below(3) as usize) {
				b = t.add(b, t.nodes[b].lvl, Taint::Good, 0, 0);
			}
		}
		info.deep = Some((fork, a, b));
	}
	let target = t.nodes.len() + rng.range(5, 40) as usize;
	let mut cursor = if deep { info.deep.unwrap().2 } else { 0 };
	while t.nodes.len() < target {
		let n = t.nodes.len();
		if n > 1 && rng.chance(1, 6) {
			// twin: a sibling with the same difficulty => an equal-work tie
			let x = 1 + rng.below(n as u64 - 1) as usize;
			if !t.good(x) {
				continue;
			}
			let p = t.nodes[x].parent.unwrap();
			let lvl = t.nodes[x].lvl;
			cursor = t.add(p, lvl, Taint::Good, 0, rng.below(3) as u32);
			continue;
		}
		let parent = match rng.below(10) {
			0..=4 => cursor,
			5..=6 => n - 1 - rng.below(n.min(4) as u64) as usize,
			_ => {
				if deep && rng.chance(2, 3) {
					// stay near the three interesting places of a deep tree
					let (f, a, b) = info.deep.unwrap();
					let base = *rng.pick(&[f, a, b]);
					t.ancestor(base, rng.below(3) as usize).unwrap_or(base)
				} else {
					rng.below(n as u64) as usize
				}
			},
		};
		let run = 1 + rng.below(5) as usize;
		let flaw = if rng.chance(1, 10) { pick_flaw(rng, lies, network) } else { Taint::Good };
		let run_lvl = lvl_for(rng, &t, parent, Taint::Good);
		let mut p = parent;
		for j in 0..run {
			let f = if j == 0 { flaw } else { Taint::Good };
			let lvl = if mainnet { lvl_for(rng, &t, p, f) } else { run_lvl };
			let ntx = if rng.chance(1, 3) { 1 + rng.below(3) as u32 } else { 0 };
			p = t.add(p, lvl, f, rng.next(), ntx);
		}
		cursor = p;
	}
	t.finish();
	(t, info)
}

// ---------------------------------------------------------------------------------------------
// block source
// ---------------------------------------------------------------------------------------------
#[derive(Clone, Copy, Debug, PartialEq)]
enum Serve {
	All,
	/// only the blocks on the path to the current best tip are known
	BestOnly,
}
#[derive(Default)]
struct CallLog {
	nreq: u64,
	first_best: Option<usize>,
	fired: Vec<(u64, &'static str, &'static str)>, // (request index, request kind, fault)
	lie_fired: bool,
	denied: Vec<usize>,
	hint_mismatch: u64,
	unknown: u64,
	yields: u64,
	headers: u64,
	blocks: u64,
}
struct SrcState {
	best: usize,
	best_after: Option<(u64, usize)>,
	hint: bool,
	/// the source looks headers up by height when given a hint and fails if the hash differs there
	strict_hint: bool,
	header_only: u8,
	serve: Serve,
	forgotten: HashSet<usize>,
	planned: Vec<(u64, u64)>, // (request index, selector)
	lies: bool,
	yield_state: u64,
	yield_on: bool,
	log: CallLog,
}
struct Source {
	tree: Arc<Tree>,
	st: Mutex<SrcState>,
}
fn err(transient: bool, what: &'static str) -> BlockSourceError {
	if transient {
		BlockSourceError::transient(what)
	} else {
		BlockSourceError::persistent(what)
	}
}
impl Source {
	fn new(tree: Arc<Tree>, lies: bool, yseed: u64) -> Source {
		Source { tree, st: Mutex::new(SrcState { best: 0, best_after: None, hint: true, strict_hint: false, header_only: 0, serve: Serve::All, forgotten: HashSet::new(), planned: vec![], lies, yield_state: yseed | 1, yield_on: false, log: CallLog::default() }) }
	}
	fn lock(&self) -> std::sync::MutexGuard<'_, SrcState> {
		self.st.lock().unwrap_or_else(|e| e.into_inner())
	}
	fn served(tree: &Tree, st: &SrcState, n: usize) -> bool {
		if st.forgotten.contains(&n) {
			return false;
		}
		match st.serve {
			Serve::All => true,
			Serve::BestOnly => tree.anc_eq(n, st.best),
		}
	}
	/// Common prologue of a request: index, tip move, pending count, planned fault selector.
	fn begin(&self, st: &mut SrcState) -> (u64, u32, Option<u64>) {
		let idx = st.log.nreq;
		st.log.nreq += 1;
		if let Some((at, nb)) = st.best_after {
			if idx >= at {
				st.best = nb;
				st.best_after = None;
			}
		}
		let mut y = 0;
		if st.yield_on {
			st.yield_state ^= st.yield_state << 13;
			st.yield_state ^= st.yield_state >> 7;
			st.yield_state ^= st.yield_state << 17;
			if st.yield_state % 4 == 0 {
				y = 1 + ((st.yield_state >> 8) % 3) as u32;
			}
		}
		st.log.yields += y as u64;
		let sel = st.planned.iter().find(|(at, _)| *at == idx).map(|(_, s)| *s);
		(idx, y, sel)
	}
	fn answer_best(&self) -> (BlockSourceResult<(BlockHash, Option<u32>)>, u32) {
		let mut st = self.lock();
		let (idx, y, sel) = self.begin(&mut st);
		if st.log.first_best.is_none() {
			st.log.first_best = Some(st.best);
		}
		if let Some(sel) = sel {
			let tr = sel % 2 == 0;
			st.log.fired.push((idx, "best", if tr { "transient error" } else { "persistent error" }));
			return (Err(err(tr, "injected")), y);
		}
		let n = &self.tree.nodes[st.best];
		(Ok((n.hash, if st.hint { Some(n.claim_height) } else { None })), y)
	}
	fn other_node(&self, n: usize, sel: u64) -> usize {
		let t = &self.tree;
		let len = t.nodes.len();
		let cand = match (sel >> 8) % 3 {
			0 => t.nodes[n].parent.unwrap_or((n + 1) % len),
			1 => (n + 1) % len,
			_ => (sel >> 16) as usize % len,
		};
		if cand == n {
			(n + 1) % len
		} else {
			cand
		}
	}
	fn answer_header(&self, hash: &BlockHash, hint: Option<u32>) -> (BlockSourceResult<BlockHeaderData>, u32) {
		let mut st = self.lock();
		let (idx, y, sel) = self.begin(&mut st);
		st.log.headers += 1;
		let n = match self.tree.by_hash.get(hash) {
			Some(n) => *n,
			None => {
				st.log.unknown += 1;
				return (Err(err(false, "unknown block")), y);
			},
		};
		if !Self::served(&self.tree, &st, n) {
			st.log.denied.push(n);
			return (Err(err(n % 2 == 0, "header not found")), y);
		}
		if let (true, Some(h)) = (st.strict_hint, hint) {
			if h != self.tree.nodes[n].claim_height {
				st.log.hint_mismatch += 1;
				return (Err(err(n % 2 == 0, "no such block at the hinted height")), y);
			}
		}
		let mut d = self.tree.data(n);
		if let Some(sel) = sel {
			let kinds: &[&'static str] = if st.lies { &["transient error", "transient error", "persistent error", "foreign header", "broken proof of work", "altered header", "wrong height", "wrong chainwork"] } else { &["transient error", "transient error", "persistent error", "foreign header", "broken proof of work", "altered header"] };
			let mut k = kinds[(sel % kinds.len() as u64) as usize];
			if self.tree.nodes[n].taint.is_lie() && (k == "wrong height" || k == "wrong chainwork") {
				// never stack a lie on a block whose claims are already false (two lies can cancel out)
				k = "transient error";
			}
			st.log.fired.push((idx, "header", k));
			match k {
				"transient error" => return (Err(err(true, "injected")), y),
				"persistent error" => return (Err(err(false, "injected")), y),
				"foreign header" => d = self.tree.data(self.other_node(n, sel)),
				"broken proof of work" => d.header = mine(Header { nonce: d.header.nonce.wrapping_add(1), ..d.header }, false),
				"altered header" => d.header.time += 1 + ((sel >> 8) % 3) as u32,
				"wrong height" => {
					st.log.lie_fired = true;
					d.height = match (sel >> 8) % 3 {
						0 => d.height + 1,
						1 => d.height.saturating_sub(1),
						_ => d.height + 2016,
					};
					if d.height == self.tree.nodes[n].claim_height {
						d.height += 1;
					}
				},
				_ => {
					st.log.lie_fired = true;
					let own = d.header.work();
					d.chainwork = match (sel >> 8) % 5 {
						0 => d.chainwork + small_work(1),
						1 => d.chainwork - small_work(1),
						2 => d.chainwork + own,
						3 => d.chainwork - own,
						_ => d.chainwork + small_work(1u128 << 100),
					};
				},
			}
		}
		(Ok(d), y)
	}
	fn answer_block(&self, hash: &BlockHash) -> (BlockSourceResult<BlockData>, u32) {
		let mut st = self.lock();
		let (idx, y, sel) = self.begin(&mut st);
		st.log.blocks += 1;
		let n = match self.tree.by_hash.get(hash) {
			Some(n) => *n,
			None => {
				st.log.unknown += 1;
				return (Err(err(false, "unknown block")), y);
			},
		};
		if !Self::served(&self.tree, &st, n) {
			st.log.denied.push(n);
			return (Err(err(n % 2 == 0, "block not found")), y);
		}
		let header_only = match st.header_only {
			0 => false,
			1 => true,
			_ => (n + self.tree.salt as usize) % 2 == 0,
		};
		let mut block = self.tree.nodes[n].block.clone();
		if let Some(sel) = sel {
			let kinds: &[&'static str] = if header_only { &["transient error", "transient error", "persistent error", "foreign block", "broken proof of work", "altered header"] } else { &["transient error", "transient error", "persistent error", "foreign block", "broken proof of work", "altered header", "altered transactions", "duplicated transaction"] };
			let k = kinds[(sel % kinds.len() as u64) as usize];
			st.log.fired.push((idx, "block", k));
			match k {
				"transient error" => return (Err(err(true, "injected")), y),
				"persistent error" => return (Err(err(false, "injected")), y),
				"foreign block" => block = self.tree.nodes[self.other_node(n, sel)].block.clone(),
				"broken proof of work" => block.header = mine(Header { nonce: block.header.nonce.wrapping_add(1), ..block.header }, false),
				"altered header" => block.header.time += 1,
				"altered transactions" => {
					if block.txdata.len() > 1 && (sel >> 8) % 2 == 0 {
						block.txdata.pop();
					} else {
						block.txdata[0].output[0].value = Amount::from_sat(5_000_000_001);
					}
				},
				_ => {
					// merkle malleation (CVE-2012-2459 shape): only changes the root-preserving way
					// when the number of transactions is odd and > 1; otherwise it is a plain alteration
					let last = block.txdata.last().unwrap().clone();
					block.txdata.push(last);
				},
			}
		}
		(Ok(if header_only { BlockData::HeaderOnly(block.header) } else { BlockData::FullBlock(block) }), y)
	}
}
impl BlockSource for Source {
	fn get_header<'a>(&'a self, header_hash: &'a BlockHash, height_hint: Option<u32>) -> impl Future<Output = BlockSourceResult<BlockHeaderData>> + Send + 'a {
		async move {
			let (r, y) = self.answer_header(header_hash, height_hint);
			YieldN(y).await;
			r
		}
	}
	fn get_block<'a>(&'a self, header_hash: &'a BlockHash) -> impl Future<Output = BlockSourceResult<BlockData>> + Send + 'a {
		async move {
			let (r, y) = self.answer_block(header_hash);
			YieldN(y).await;
			r
		}
	}
	fn get_best_block<'a>(&'a self) -> impl Future<Output = BlockSourceResult<(BlockHash, Option<u32>)>> + Send + 'a {
		async move {
			let (r, y) = self.answer_best();
			YieldN(y).await;
			r
		}
	}
}

// ---------------------------------------------------------------------------------------------
// recording listener
// ---------------------------------------------------------------------------------------------
#[derive(Clone, Copy, Debug, PartialEq)]
enum Ev {
	Disc(usize),
	Conn(usize),
}
#[derive(Default)]
struct LState {
	stack: Vec<usize>,
	evs: Vec<Ev>,
	bad: Option<(&'static str, String, String)>, // rule, signature, detail
	full: u64,
	hdr_only: u64,
	malleated: u64,
}
struct Listener {
	tree: Arc<Tree>,
	st: Mutex<LState>,
}
impl Listener {
	fn new(tree: Arc<Tree>, at: usize) -> Listener {
		let stack = tree.root_path(at);
		Listener { tree, st: Mutex::new(LState { stack, ..Default::default() }) }
	}
	fn lock(&self) -> std::sync::MutexGuard<'_, LState> {
		self.st.lock().unwrap_or_else(|e| e.into_inner())
	}
	fn top(&self) -> usize {
		*self.lock().stack.last().unwrap()
	}
	fn begin_call(&self) -> Vec<Ev> {
		std::mem::take(&mut self.lock().evs)
	}
	fn flag(st: &mut LState, rule: &'static str, sig: &str, detail: String) {
		if st.bad.is_none() {
			st.bad = Some((rule, sig.to_string(), detail));
		}
	}
	fn on_connect(&self, header: &Header, full: Option<&Block>, height: u32) {
		let mut st = self.lock();
		if st.bad.is_some() {
			return;
		}
		let t = &self.tree;
		let hash = header.block_hash();
		let top = *st.stack.last().unwrap();
		let n = match t.by_hash.get(&hash) {
			Some(n) => *n,
			None => {
				let pow = header.validate_pow(header.target()).is_ok();
				let sig = if pow { "a header that is not the requested block (altered) reached a listener" } else { "a header failing proof of work reached a listener" };
				return Self::flag(&mut st, "L4", sig, format!("connect of unknown header {} at height {} on top of {}", hash, height, t.describe(top)));
			},
		};
		if !t.good(n) {
			let sig = format!("a block on a branch through a refusable header ({}) reached a listener", t.nodes[n].taint.name());
			return Self::flag(&mut st, "L4", &sig, format!("connect of {} (height given {}) on top of {}", t.describe(n), height, t.describe(top)));
		}
		if t.nodes[n].parent != Some(top) {
			let sig = if st.stack.contains(&n) {
				"connected block repeats a block already on the listener's chain"
			} else if t.anc_eq(top, n) {
				"connected block skips blocks above the listener's tip"
			} else {
				"connected block does not build on the listener's tip (other branch, no disconnect)"
			};
			return Self::flag(&mut st, "L2", sig, format!("connect of {} on top of {}", t.describe(n), t.describe(top)));
		}
		if height != t.nodes[n].height {
			return Self::flag(&mut st, "L2", "block connected with a height different from tip height plus one", format!("connect of {} announced at height {} on top of {}", t.describe(n), height, t.describe(top)));
		}
		if let Some(b) = full {
			if b.txdata != t.nodes[n].block.txdata {
				if b.check_merkle_root() {
					// rust-bitcoin accepts the duplicated-last-transaction shape; outside C20's statement
					st.malleated += 1;
				} else {
					return Self::flag(&mut st, "L4", "a block with altered transactions reached a listener", format!("connect of {} with {} transactions instead of {}", t.describe(n), b.txdata.len(), t.nodes[n].block.txdata.len()));
				}
			}
			st.full += 1;
		} else {
			st.hdr_only += 1;
		}
		st.stack.push(n);
		st.evs.push(Ev::Conn(n));
	}
}
impl Listen for Listener {
	fn filtered_block_connected(&self, header: &Header, _txdata: &TransactionData, height: u32) {
		self.on_connect(header, None, height);
	}
	fn block_connected(&self, block: &Block, height: u32) {
		self.on_connect(&block.header, Some(block), height);
	}
	fn blocks_disconnected(&self, fork_point: BlockLocator) {
		let mut st = self.lock();
		if st.bad.is_some() {
			return;
		}
		let t = &self.tree;
		let top = *st.stack.last().unwrap();
		let n = match t.by_hash.get(&fork_point.block_hash) {
			Some(n) => *n,
			None => return Self::flag(&mut st, "L1", "disconnect names a block that does not exist", format!("fork point {} height {} while at {}", fork_point.block_hash, fork_point.height, t.describe(top))),
		};
		let pos = match st.stack.iter().rposition(|x| *x == n) {
			Some(p) => p,
			None => return Self::flag(&mut st, "L1", "disconnect names a block that is not on the listener's chain", format!("fork point {} while at {}", t.describe(n), t.describe(top))),
		};
		if pos + 1 == st.stack.len() {
			return Self::flag(&mut st, "L1", "disconnect names the listener's current tip (nothing disconnected)", format!("fork point {} while at {}", t.describe(n), t.describe(top)));
		}
		if fork_point.height != t.nodes[n].height {
			return Self::flag(&mut st, "L1", "disconnect gives a wrong height for the fork point", format!("fork point {} announced at height {} while at {}", t.describe(n), fork_point.height, t.describe(top)));
		}
		st.stack.truncate(pos + 1);
		st.evs.push(Ev::Disc(n));
	}
}
/// Fans notifications out to several listeners (what the `(ChainMonitor, ChannelManager)` tuple does).
struct Fanout<'a>(&'a [Listener]);
impl<'a> Listen for Fanout<'a> {
	fn filtered_block_connected(&self, header: &Header, txdata: &TransactionData, height: u32) {
		for l in self.0 {
			l.filtered_block_connected(header, txdata, height);
		}
	}
	fn block_connected(&self, block: &Block, height: u32) {
		for l in self.0 {
			l.block_connected(block, height);
		}
	}
	fn blocks_disconnected(&self, fork_point: BlockLocator) {
		for l in self.0 {
			l.blocks_disconnected(fork_point);
		}
	}
}

// ---------------------------------------------------------------------------------------------
// one case
// ---------------------------------------------------------------------------------------------
struct Cfg {
	lies: bool,
	polls: u64,
	deep_every: u64,
	/// witnesses already written per signature (the list stays diverse when one defect fires often)
	per_sig: std::cell::RefCell<HashMap<String, u64>>,
	per_sig_cap: u64,
}
struct Cx<'a> {
	args: &'a Args,
	cfg: &'a Cfg,
	ci: u64,
	tree: Arc<Tree>,
	log: Vec<String>,
	lie_seen: bool,
	failed: bool,
	shape: Fnv,
}
impl<'a> Cx<'a> {
	fn note(&mut self, s: String) {
		if self.log.len() < 400 {
			self.log.push(s);
		}
	}
	fn violation(&mut self, rep: &mut Report, rule: &str, sig: &str, detail: String) {
		if self.failed {
			return;
		}
		self.failed = true;
		// Everything that goes wrong after the source misreported a header's height / chainwork has one
		// root cause (those claims are not re-checked for headers found in the client's header cache or
		// on the listeners' own chain): one signature; the manifestation goes into the detail.
		let (sig, detail) = if self.lie_seen { ("listeners were notified inconsistently after the block source misreported the height or chainwork of a header".to_string(), format!("[{}] {}", canon(sig), detail)) } else { (canon(sig), detail) };
		let rule = if self.lie_seen { "L7" } else { rule };
		{
			let mut m = self.cfg.per_sig.borrow_mut();
			let c = m.entry(sig.clone()).or_insert(0);
			*c += 1;
			if *c > self.cfg.per_sig_cap {
				rep.count("violations_total");
				rep.count("violations_not_listed_same_signature");
				return;
			}
		}
		let t = &self.tree;
		let nodes: Vec<Json> = t.nodes.iter().enumerate().take(120).map(|(i, n)| Json::Str(format!("n{} parent={:?} height={} lvl={} taint={} claim_h={} hash={}", i, n.parent, n.height, n.lvl, n.taint.name(), n.claim_height, n.hash))).collect();
		let body = Json::obj()
			.set("property", PROP)
			.set("rule", rule)
			.set("signature", sig.as_str())
			.set("seed", self.args.seed)
			.set("case", self.ci)
			.set("replay_cmd", format!("c20_chainsync --prop C20 --tier {} --seed {} --shard {} --nshards {} only={}", self.args.tier, self.args.seed, 0, 1, self.ci))
			.set("overrides", Json::Arr(self.args.kv.iter().map(|(k, v)| Json::Str(format!("{}={}", k, v))).collect()))
			.set("detail", detail.as_str())
			.set("network", format!("{:?}", t.network))
			.set("tree_size", t.nodes.len())
			.set("tree", Json::Arr(nodes))
			.set("log", Json::Arr(self.log.iter().map(|s| Json::Str(s.clone())).collect()));
		let path = self.args.write_replay(&format!("{}-seed{}-case{}", rule, self.args.seed, self.ci), &body);
		rep.violation(PROP, rule, &sig, format!("case {}: {}", self.ci, detail), Some(path));
	}
}

fn validated(tree: &Tree, n: usize) -> ValidatedBlockHeader {
	tree.data(n).validate(tree.nodes[n].hash).expect("good node validates")
}
fn fmt_evs(tree: &Tree, evs: &[Ev]) -> String {
	let mut s = String::new();
	for (i, e) in evs.iter().enumerate() {
		if i >= 12 {
			s += &format!(" …(+{})", evs.len() - i);
			break;
		}
		match e {
			Ev::Disc(n) => s += &format!(" disc->{}", tree.describe(*n)),
			Ev::Conn(n) => s += &format!(" conn {}", tree.describe(*n)),
		}
	}
	s
}
fn expected_evs(tree: &Tree, from: usize, fork: usize, to: usize) -> Vec<Ev> {
	let mut v = vec![];
	if fork != from {
		v.push(Ev::Disc(fork));
	}
	v.extend(tree.path(fork, to).into_iter().map(Ev::Conn));
	v
}
fn disc_then_conn(evs: &[Ev]) -> bool {
	let mut seen_conn = false;
	for e in evs {
		match e {
			Ev::Conn(_) => seen_conn = true,
			Ev::Disc(_) => {
				if seen_conn {
					return false;
				}
			},
		}
	}
	true
}
fn tip_matches(tree: &Tree, v: &ValidatedBlockHeader, s: usize) -> bool {
	let n = &tree.nodes[s];
	v.header.block_hash() == n.hash && v.height == n.height && v.chainwork == n.work
}

/// Chooses the tip the source reports next, relative to the listeners' tip `t`.
fn pick_best(tree: &Tree, rng: &mut Rng, t: usize, cur: usize, taints: bool) -> (usize, &'static str) {
	let wt = tree.nodes[t].work;
	let mut desc = vec![];
	let mut heavier = vec![];
	let mut equal = vec![];
	let mut anc = vec![];
	let mut lighter = vec![];
	let mut tainted = vec![];
	for i in 0..tree.nodes.len() {
		if i == t {
			continue;
		}
		if !tree.good(i) {
			tainted.push(i);
		} else if tree.anc_eq(t, i) {
			desc.push(i);
		} else if tree.anc_eq(i, t) {
			anc.push(i);
		} else if tree.nodes[i].work > wt {
			heavier.push(i);
		} else if tree.nodes[i].work == wt {
			equal.push(i);
		} else {
			lighter.push(i);
		}
	}
	let classes: [(&Vec<usize>, u32, &'static str); 6] = [(&desc, 28, "extend"), (&heavier, 26, "heavier fork"), (&equal, 12, "equal-work fork"), (&anc, 8, "go back"), (&lighter, 8, "lighter fork"), (&tainted, if taints { 10 } else { 0 }, "refusable tip")];
	let mut w: Vec<u32> = classes.iter().map(|(v, w, _)| if v.is_empty() { 0 } else { *w }).collect();
	w.push(4); // same as listener
	w.push(4); // unchanged source tip
	let c = rng.weighted(&w);
	if c < 6 {
		let v = classes[c].0;
		// prefer near candidates half of the time (child / sibling) so that depth-1 shapes are common
		let pick = if rng.chance(1, 2) { *v.iter().min_by_key(|i| (tree.nodes[**i].height as i64 - tree.nodes[t].height as i64).abs() * 4096 + (**i as i64 % 4096)).unwrap() } else { *rng.pick(v) };
		(pick, classes[c].2)
	} else if c == 6 {
		(t, "same tip")
	} else if tree.good(cur) || taints {
		(cur, "source unchanged")
	} else {
		(t, "same tip")
	}
}

fn locator(tree: &Tree, n: usize, mode: u64, rng: &mut Rng) -> BlockLocator {
	let mut l = BlockLocator::new(tree.nodes[n].hash, tree.nodes[n].height);
	let keep = match mode {
		0 => 0,
		1 => l.previous_blocks.len(),
		_ => rng.below(l.previous_blocks.len() as u64 + 1) as usize,
	};
	for i in 0..keep {
		match tree.ancestor(n, i + 1) {
			Some(a) => l.previous_blocks[i] = Some(tree.nodes[a].hash),
			None => break,
		}
	}
	l
}

struct CacheModel {
	/// listeners' stack index above which blocks were connected through the current client
	start_idx: usize,
	hmax: u32,
}

fn one_case(args: &Args, cfg: &Cfg, ci: u64, rng: &mut Rng, rep: &mut Report) {
	let deep = cfg.deep_every > 0 && rng.below(cfg.deep_every) == 0;
	let (tree, info) = gen_tree(rng, cfg.lies, deep);
	let tree = Arc::new(tree);
	let network = tree.network;
	rep.count("cases");
	rep.add("tree_blocks", tree.nodes.len() as u64);
	rep.add("tree_refusable_blocks", tree.nodes.iter().filter(|n| n.taint != Taint::Good).count() as u64);
	if deep {
		rep.count("cases_deep_forks_beyond_header_cache");
	}
	if network == Network::Bitcoin {
		rep.count("cases_mainnet_difficulty_rules");
	}
	let src = Source::new(tree.clone(), cfg.lies, rng.next());
	let mut cx = Cx { args, cfg, ci, tree: tree.clone(), log: vec![], lie_seen: false, failed: false, shape: Fnv::new() };
	cx.shape.u64(deep as u64).u64((network == Network::Bitcoin) as u64);
	let good: Vec<usize> = (0..tree.nodes.len()).filter(|i| tree.good(*i)).collect();
	let sync_mode = rng.chance(2, 5);
	cx.shape.u64(sync_mode as u64);

	// ------------------------------------------------------------------ start-up synchronisation
	let listeners: Vec<Listener>;
	let start: Option<(ValidatedBlockHeader, HeaderCache)>;
	if sync_mode {
		let k = 1 + rng.below(5) as usize;
		let s = match rng.below(10) {
			0..=4 => tree.heaviest_good(),
			5..=8 => *rng.pick(&good),
			_ => {
				let bad: Vec<usize> = (0..tree.nodes.len()).filter(|i| tree.nodes[*i].taint == Taint::BadPow).collect();
				if bad.is_empty() {
					*rng.pick(&good)
				} else {
					*rng.pick(&bad)
				}
			},
		};
		let s = if deep && rng.chance(1, 2) { info.deep.unwrap().2 } else { s };
		let mut starts = vec![];
		for _ in 0..k {
			let n = match rng.below(8) {
				0 => s,
				1 => tree.ancestor(s, 1 + rng.below(14) as usize).unwrap_or(0),
				2 => 0,
				3 if deep => {
					let (_, a, _) = info.deep.unwrap();
					tree.ancestor(a, rng.below(4) as usize).unwrap()
				},
				_ => *rng.pick(&good),
			};
			starts.push(if tree.good(n) { n } else { 0 });
		}
		listeners = starts.iter().map(|n| Listener::new(tree.clone(), *n)).collect();
		let lmode = rng.below(3);
		let mut locs: Vec<BlockLocator> = starts.iter().map(|n| locator(&tree, *n, lmode, rng)).collect();
		{
			let mut st = src.lock();
			st.best = s;
			// `synchronize_listeners` documents its source as trusted: errors and unusable data only
			st.lies = false;
			st.hint = rng.chance(1, 2);
			st.strict_hint = rng.chance(1, 3);
			st.header_only = rng.below(3) as u8;
			st.yield_on = rng.chance(1, 3);
			st.serve = if rng.chance(1, 6) { Serve::BestOnly } else { Serve::All };
			if rng.chance(1, 3) {
				// the source has forgotten the tips of some stale listeners
				for n in starts.iter() {
					if !tree.anc_eq(*n, s) && rng.chance(1, 2) {
						for up in 0..=rng.below(3) as usize {
							if let Some(a) = tree.ancestor(*n, up) {
								if !tree.anc_eq(a, s) {
									st.forgotten.insert(a);
								}
							}
						}
					}
				}
			}
			if rng.chance(3, 10) {
				let span = 3 + 2 * k as u64 + starts.iter().map(|n| (tree.nodes[s].height as i64 - tree.nodes[*n].height as i64).unsigned_abs().min(40)).sum::<u64>();
				for _ in 0..(1 + rng.below(2)) {
					let at = rng.below(span);
					let sel = rng.next();
					st.planned.push((at, sel));
				}
			}
		}
		let mut attempt = 0;
		loop {
			attempt += 1;
			let tops: Vec<usize> = listeners.iter().map(|l| l.top()).collect();
			for l in listeners.iter() {
				l.begin_call();
			}
			src.lock().log = CallLog::default();
			let s = src.lock().best;
			let cfg_txt = {
				let st = src.lock();
				format!("serve={:?} forgotten={:?} planned={:?}", st.serve, st.forgotten, st.planned.iter().map(|p| p.0).collect::<Vec<_>>())
			};
			cx.note(format!("sync#{} best={} listeners at [{}] locators(prev filled)={:?} {}", attempt, tree.describe(s), tops.iter().map(|n| tree.describe(*n)).collect::<Vec<_>>().join(","), locs.iter().map(|l| l.previous_blocks.iter().filter(|x| x.is_some()).count()).collect::<Vec<_>>(), cfg_txt));
			let pairs: Vec<(BlockLocator, &Listener)> = locs.iter().cloned().zip(listeners.iter()).collect();
			let res = vcore::guarded(|| block_on(init::synchronize_listeners(&src, network, pairs)));
			let log = std::mem::take(&mut src.lock().log);
			rep.count("sync_runs");
			rep.add("sync_listeners", k as u64);
			rep.add("source_requests", log.nreq);
			rep.add("pending_yields", log.yields);
			rep.add("height_hint_mismatches", log.hint_mismatch);
			for f in log.fired.iter() {
				rep.count(&format!("fault_fired_{}", f.2.replace(' ', "_")));
			}
			let evs: Vec<Vec<Ev>> = listeners.iter().map(|l| l.begin_call()).collect();
			cx.note(format!("  -> {} requests={} fired={:?} denied={:?} events: {}", match &res { Ok(Some(Ok(_))) => "Ok".to_string(), Ok(Some(Err(e))) => format!("Err({:?})", e.kind()), Ok(None) => "never completed".into(), Err(p) => format!("panic {}", p) }, log.nreq, log.fired, log.denied, evs.iter().map(|e| fmt_evs(&tree, e)).collect::<Vec<_>>().join(" |")));
			// online findings first
			for l in listeners.iter() {
				if let Some((rule, sig, detail)) = l.lock().bad.clone() {
					cx.violation(rep, rule, &format!("start-up sync: {}", sig), detail);
				}
			}
			let res = match res {
				Err(p) => {
					cx.violation(rep, "L4", &format!("start-up sync: library panic: {}", p), p.clone());
					return;
				},
				Ok(None) => {
					rep.inconclusive("synchronize_listeners future never completed");
					return;
				},
				Ok(Some(r)) => r,
			};
			if cx.failed {
				return;
			}
			// which listeners resolve, and to what, in the absence of faults
			let st = src.lock();
			let mut expected_denials: HashSet<usize> = HashSet::new();
			let mut found: Vec<Option<usize>> = vec![];
			let mut fallback_used = false;
			for (i, n) in tops.iter().enumerate() {
				let mut f = None;
				for off in 0..=locs[i].previous_blocks.len() {
					if off > 0 && locs[i].previous_blocks[off - 1].is_none() {
						continue;
					}
					let a = match tree.ancestor(*n, off) {
						Some(a) => a,
						None => break,
					};
					if Source::served(&tree, &st, a) {
						f = Some(a);
						if off > 0 {
							fallback_used = true;
						}
						break;
					}
					expected_denials.insert(a);
				}
				found.push(f);
			}
			// the walk below a resolved block needs the stale branch down to the fork point
			let mut walk_ok = true;
			for f in found.iter().flatten() {
				let fork = tree.ca(*f, s);
				for x in tree.path(fork, *f) {
					if x != *f && !Source::served(&tree, &st, x) {
						walk_ok = false;
					}
				}
			}
			drop(st);
			let resolvable = found.iter().all(|f| f.is_some());
			let clean = log.fired.is_empty() && log.unknown == 0 && tree.good(s) && log.first_best == Some(s) && walk_ok && log.denied.iter().all(|d| expected_denials.contains(d));
			let all_at_s = listeners.iter().all(|l| l.top() == s);
			if clean && resolvable {
				rep.count("sync_fault_free_evaluated");
				if fallback_used {
					rep.count("sync_locator_fallback_evaluated");
				}
				match &res {
					Err(e) => cx.violation(rep, "L5", "fault-free start-up synchronisation failed", format!("error kind {:?}: {}", e.kind(), canon(&format!("{:?}", e)))),
					Ok((_, tip)) => {
						if !tip_matches(&tree, tip, s) {
							cx.violation(rep, "L5", "start-up synchronisation returned a tip that is not the source's best block", format!("returned height {} hash {} expected {}", tip.height, tip.header.block_hash(), tree.describe(s)));
						}
						for (i, l) in listeners.iter().enumerate() {
							let f = found[i].unwrap();
							let fork = tree.ca(f, s);
							let want = expected_evs(&tree, tops[i], fork, s);
							if evs[i] != want {
								let sig = if l.top() != s {
									"start-up synchronisation left a listener away from the common tip"
								} else if !disc_then_conn(&evs[i]) {
									"start-up synchronisation disconnected after connecting"
								} else {
									"start-up synchronisation did not disconnect exactly to the listener's fork point"
								};
								cx.violation(rep, "L5", sig, format!("listener {} started at {} fork point {} best {}: saw{} expected{}", i, tree.describe(tops[i]), tree.describe(fork), tree.describe(s), fmt_evs(&tree, &evs[i]), fmt_evs(&tree, &want)));
							}
							if evs[i].iter().any(|e| matches!(e, Ev::Disc(_))) {
								rep.count("sync_listener_reorged");
							}
						}
					},
				}
			} else {
				rep.count("sync_faulted_evaluated");
				if !resolvable {
					rep.count("sync_unresolvable_locator");
				}
				for (i, l) in listeners.iter().enumerate() {
					if !disc_then_conn(&evs[i]) {
						cx.violation(rep, "L5", "start-up synchronisation disconnected after connecting", format!("listener {} saw{}", i, fmt_evs(&tree, &evs[i])));
					}
					if !evs[i].is_empty() {
						match log.first_best {
							Some(b) if tree.anc_eq(l.top(), b) => {},
							_ => cx.violation(rep, "L4", "start-up synchronisation with a fault left a listener off the path to the source's best block", format!("listener {} now at {} best {:?}: saw{}", i, tree.describe(l.top()), log.first_best, fmt_evs(&tree, &evs[i]))),
						}
					}
				}
				if let Some(b) = log.first_best {
					if !tree.good(b) && evs.iter().any(|ev| ev.iter().any(|e| matches!(e, Ev::Disc(_)))) {
						cx.violation(rep, "L4", &format!("start-up synchronisation disconnected listeners in favour of a branch through a refusable header ({})", tree.nodes[b].taint.name()), format!("best {}: events {}", tree.describe(b), evs.iter().map(|e| fmt_evs(&tree, e)).collect::<Vec<_>>().join(" |")));
					}
				}
				if let Ok((_, tip)) = &res {
					if tip.header.validate_pow(tip.header.target()).is_err() {
						cx.violation(rep, "L4", "start-up synchronisation returned as validated chain tip a header that fails proof of work", format!("returned {} at height {}", tip.header.block_hash(), tip.height));
					}
					if !all_at_s || !tip_matches(&tree, tip, s) {
						cx.violation(rep, "L5", "start-up synchronisation reported success although listeners are not all at the returned tip", format!("best {} listeners at {:?}", tree.describe(s), listeners.iter().map(|l| tree.describe(l.top())).collect::<Vec<_>>()));
					} else {
						rep.count("sync_ok_despite_fault");
					}
				} else {
					rep.count("sync_refused_or_failed_on_fault");
				}
			}
			if cx.failed {
				return;
			}
			let mut h = cx.shape;
			h.u64(k as u64).u64(res.is_ok() as u64).u64(clean as u64).u64(fallback_used as u64);
			for e in evs.iter() {
				h.u64(e.iter().filter(|x| matches!(x, Ev::Disc(_))).count() as u64).u64((e.len() as u64).min(20));
			}
			cx.shape = h;
			match res {
				Ok((cache, tip)) => {
					start = Some((tip, cache));
					break;
				},
				Err(_) => {
					if attempt >= 2 {
						cx.violation(rep, "L5", "fault-free retry of start-up synchronisation failed", "second attempt failed".into());
						return;
					}
					// restart: fault-free source that knows every block, locators rebuilt from where the
					// listeners are now (what a node does after reloading its objects)
					rep.count("sync_retries");
					let mut st = src.lock();
					st.planned.clear();
					st.forgotten.clear();
					st.serve = Serve::All;
					if !tree.good(st.best) {
						st.best = tree.heaviest_good();
					}
					drop(st);
					locs = listeners.iter().map(|l| locator(&tree, l.top(), 1, rng)).collect();
				},
			}
		}
	} else {
		let t0 = if deep {
			let (f, a, _) = info.deep.unwrap();
			*rng.pick(&[f, 0, tree.ancestor(a, HEADER_CACHE_LIMIT as usize + 1).unwrap_or(f)])
		} else {
			*rng.pick(&good)
		};
		let k = if rng.chance(1, 5) { 2 } else { 1 };
		listeners = (0..k).map(|_| Listener::new(tree.clone(), t0)).collect();
		start = Some((validated(&tree, t0), HeaderCache::new()));
		src.lock().best = t0;
	}
	let (tip0, cache0) = start.unwrap();

	// ------------------------------------------------------------------ polling
	let fan = Fanout(&listeners);
	let poller = ChainPoller::new(&src, network);
	let mut client = SpvClient::new(tip0, poller, cache0, &fan);
	let mut model = CacheModel { start_idx: listeners[0].lock().stack.len() - 1, hmax: 0 };
	{
		let mut st = src.lock();
		st.planned.clear();
		st.forgotten.clear();
		st.lies = cfg.lies;
	}
	let npolls = cfg.polls + rng.below(cfg.polls / 2 + 1);
	let mut prev_faulted = false;
	for step in 0..=npolls {
		if cx.failed {
			return;
		}
		let last = step == npolls;
		let t = listeners[0].top();
		let stack_before = listeners[0].lock().stack.clone();
		let cur = src.lock().best;
		// scripted opening of a deep case: climb branch A, then reorganise to the heavier branch B
		let (s, why) = if last {
			(tree.heaviest_good(), "final: heaviest valid tip")
		} else if deep && step == 0 {
			(info.deep.unwrap().1, "deep: branch A")
		} else if deep && step == 1 && rng.chance(3, 4) {
			(info.deep.unwrap().2, "deep: branch B")
		} else {
			pick_best(&tree, rng, t, cur, true)
		};
		let fork_guess = if tree.good(s) { tree.ca(t, s) } else { t };
		let est = 2 + 2 * (tree.nodes[s].height.saturating_sub(tree.nodes[fork_guess].height)) as u64 + (tree.nodes[t].height - tree.nodes[fork_guess].height) as u64;
		let serve;
		{
			let mut st = src.lock();
			st.best = s;
			st.best_after = None;
			st.planned.clear();
			st.hint = rng.chance(2, 3);
			st.strict_hint = rng.chance(1, 3);
			st.header_only = rng.below(3) as u8;
			st.yield_on = rng.chance(1, 4);
			st.serve = if !last && rng.chance(1, 5) { Serve::BestOnly } else { Serve::All };
			serve = st.serve;
			if !last && rng.chance(35, 100) {
				for _ in 0..(1 + rng.below(5) / 4) {
					let at = if est > 60 && rng.chance(1, 2) { rng.below(est + 1) } else { rng.below(est.min(60) + 1) };
					let sel = rng.next();
					st.planned.push((at, sel));
				}
			}
			if !last && rng.chance(1, 8) {
				// the source's tip moves while the client is still working on this poll
				let (nb, _) = pick_best(&tree, rng, t, s, true);
				st.best_after = Some((1 + rng.below(est.min(20) + 1), nb));
			}
			st.log = CallLog::default();
		}
		// blocks whose headers the client is guaranteed to hold (see L6)
		let guaranteed: HashSet<usize> = stack_before.iter().enumerate().filter(|(i, n)| *i > model.start_idx && tree.nodes[**n].height + HEADER_CACHE_LIMIT >= model.hmax).map(|(_, n)| *n).collect();
		for l in listeners.iter() {
			l.begin_call();
		}
		let cfg_txt = {
			let st = src.lock();
			format!("planned={:?} tip-move={:?}", st.planned.iter().map(|p| p.0).collect::<Vec<_>>(), st.best_after)
		};
		cx.note(format!("poll#{} listeners at {} source best {} ({}) serve={:?} {}", step, tree.describe(t), tree.describe(s), why, serve, cfg_txt));
		let res = vcore::guarded(|| block_on(client.poll_best_tip()));
		let log = std::mem::take(&mut src.lock().log);
		let evs: Vec<Vec<Ev>> = listeners.iter().map(|l| l.begin_call()).collect();
		rep.count("polls");
		rep.add("source_requests", log.nreq);
		rep.add("pending_yields", log.yields);
		rep.add("height_hint_mismatches", log.hint_mismatch);
		rep.max("max_requests_in_one_poll", log.nreq);
		for f in log.fired.iter() {
			rep.count(&format!("fault_fired_{}", f.2.replace(' ', "_")));
		}
		cx.note(format!("  -> {} requests={} fired={:?} denied={:?} unknown={} events:{}", match &res { Ok(Some(Ok((tip, ch)))) => format!("Ok({}, {})", match tip { ChainTip::Common => "Common".to_string(), ChainTip::Better(v) => format!("Better(h{})", v.height), ChainTip::Worse(v) => format!("Worse(h{})", v.height) }, ch), Ok(Some(Err(e))) => format!("Err({:?} {})", e.kind(), canon(&format!("{:?}", e))), Ok(None) => "never completed".into(), Err(p) => format!("panic {}", p) }, log.nreq, log.fired, log.denied, log.unknown, fmt_evs(&tree, &evs[0])));
		if log.lie_fired || (log.first_best.map(|b| tree.nodes[b].taint.is_lie()).unwrap_or(false)) {
			cx.lie_seen = true;
		}
		for l in listeners.iter() {
			if let Some((rule, sig, detail)) = l.lock().bad.clone() {
				cx.violation(rep, rule, &sig, detail);
			}
		}
		if cx.failed {
			return;
		}
		let res = match res {
			Err(p) => {
				cx.violation(rep, "L4", &format!("library panic during poll: {}", p), p.clone());
				return;
			},
			Ok(None) => {
				rep.inconclusive("poll_best_tip future never completed");
				return;
			},
			Ok(Some(r)) => r,
		};
		for (i, e) in evs.iter().enumerate().skip(1) {
			if *e != evs[0] {
				cx.violation(rep, "L3", "listeners behind one client saw different notifications", format!("listener {} saw{} listener 0 saw{}", i, fmt_evs(&tree, e), fmt_evs(&tree, &evs[0])));
			}
		}
		let evs = &evs[0];
		let new_top = listeners[0].top();
		for e in evs.iter() {
			if let Ev::Conn(n) = e {
				model.hmax = model.hmax.max(tree.nodes[*n].height);
			}
		}
		for e in evs.iter() {
			if let Ev::Disc(n) = e {
				if let Some(pos) = stack_before.iter().position(|x| x == n) {
					model.start_idx = model.start_idx.min(pos);
				}
			}
		}
		rep.add("blocks_connected", evs.iter().filter(|e| matches!(e, Ev::Conn(_))).count() as u64);
		// L6: never ask a best-chain-only source for headers of blocks the client connected itself
		if serve == Serve::BestOnly {
			rep.count("polls_source_knows_only_best_chain");
			// (the header of the reported tip itself is always fetched from the source)
			if let Some(d) = log.denied.iter().find(|d| guaranteed.contains(d) && Some(**d) != log.first_best) {
				cx.violation(rep, "L6", "client asked the source for a block it connected itself and should still hold in its header cache", format!("requested {} while at {} (highest connected height {})", tree.describe(*d), tree.describe(t), model.hmax));
			}
			if log.denied.is_empty() && evs.iter().any(|e| matches!(e, Ev::Disc(_))) {
				rep.count("reorgs_served_from_header_cache");
			}
		}
		let s_seen = log.first_best;
		let structural = !log.fired.is_empty() || !log.denied.is_empty() || log.unknown > 0 || s_seen.map(|b| !tree.good(b)).unwrap_or(true);
		let mut h = cx.shape;
		if !structural {
			// ---------------- L3: exact behaviour
			let s = s_seen.unwrap();
			rep.count("polls_fault_free_evaluated");
			if prev_faulted {
				rep.count("recovery_polls_after_fault_evaluated");
			}
			let fork = tree.ca(t, s);
			let (ws, wt) = (tree.nodes[s].work, tree.nodes[t].work);
			match &res {
				Err(e) => cx.violation(rep, "L3", "fault-free poll failed", format!("error kind {:?}: {}; listeners at {} source best {}", e.kind(), canon(&format!("{:?}", e)), tree.describe(t), tree.describe(s))),
				Ok((tip, changed)) => {
					let where_ = format!("listeners were at {} source best {} fork point {}: returned {} flag {} saw{}", tree.describe(t), tree.describe(s), tree.describe(fork), match tip { ChainTip::Common => "Common", ChainTip::Better(_) => "Better", ChainTip::Worse(_) => "Worse" }, changed, fmt_evs(&tree, evs));
					if s == t {
						rep.count("tip_common");
						h.u64(1);
						if *tip != ChainTip::Common || *changed || !evs.is_empty() {
							cx.violation(rep, "L3", "source reports the listeners' own tip but the poll did not answer Common / untouched", where_);
						}
					} else if ws > wt {
						rep.count("tip_better");
						let depth = (tree.nodes[t].height - tree.nodes[fork].height) as u64;
						let conn = (tree.nodes[s].height - tree.nodes[fork].height) as u64;
						h.u64(2).u64(depth.min(8)).u64(conn.min(8)).u64((tree.nodes[s].height < tree.nodes[t].height) as u64);
						if depth > 0 {
							rep.count("reorgs");
							rep.max("max_reorg_depth", depth);
							if tree.nodes[s].height <= tree.nodes[t].height {
								rep.count("reorgs_to_heavier_but_not_longer_chain");
							}
							if depth > HEADER_CACHE_LIMIT as u64 {
								rep.count("reorgs_deeper_than_header_cache");
							}
						}
						let want = expected_evs(&tree, t, fork, s);
						let tip_ok = matches!(tip, ChainTip::Better(v) if tip_matches(&tree, v, s));
						if !tip_ok {
							cx.violation(rep, "L3", "poll did not return Better with the source's best block although it has more work", where_);
						} else if *evs != want {
							let sig = if new_top != s {
								"poll reported a better tip but listeners did not arrive at it"
							} else if !disc_then_conn(evs) {
								"poll disconnected after connecting"
							} else {
								"poll did not disconnect exactly to the fork point"
							};
							cx.violation(rep, "L3", sig, format!("{} expected{}", where_, fmt_evs(&tree, &want)));
						} else if !*changed {
							cx.violation(rep, "L3", "poll moved listeners but returned flag false", where_);
						}
					} else {
						rep.count("tip_worse");
						if ws == wt {
							rep.count("tip_worse_equal_work");
						}
						h.u64(3).u64((ws == wt) as u64).u64(tree.anc_eq(s, t) as u64);
						let tip_ok = matches!(tip, ChainTip::Worse(v) if tip_matches(&tree, v, s));
						if !evs.is_empty() {
							cx.violation(rep, "L3", if ws == wt { "listeners were moved to a tip with equal work" } else { "listeners were moved to a tip with less work" }, where_);
						} else if !tip_ok || *changed {
							cx.violation(rep, "L3", "poll of a tip without more work did not answer Worse / untouched", where_);
						}
					}
				},
			}
			prev_faulted = false;
		} else {
			// ---------------- L4: safety under faults
			rep.count("polls_faulted_evaluated");
			prev_faulted = true;
			h.u64(4).u64(log.fired.first().map(|f| vcore::fnv_str(f.2) ^ vcore::fnv_str(f.1)).unwrap_or(0)).u64(log.denied.is_empty() as u64).u64(evs.len().min(6) as u64).u64(res.is_ok() as u64);
			if !disc_then_conn(evs) {
				cx.violation(rep, "L4", "poll with a fault disconnected after connecting", format!("saw{}", fmt_evs(&tree, evs)));
			}
			if let Ok((tip, changed)) = &res {
				if *changed == evs.is_empty() {
					cx.violation(rep, "L4", "returned flag disagrees with what the listeners saw (poll with a fault)", format!("flag {} saw{}", changed, fmt_evs(&tree, evs)));
				}
				if matches!(tip, ChainTip::Common | ChainTip::Worse(_)) && !evs.is_empty() {
					cx.violation(rep, "L4", "poll answered Common or Worse but notified listeners", format!("saw{}", fmt_evs(&tree, evs)));
				}
				if let ChainTip::Better(v) | ChainTip::Worse(v) = tip {
					if v.header.validate_pow(v.header.target()).is_err() {
						cx.violation(rep, "L4", "poll returned as validated chain tip a header that fails proof of work", format!("returned {} at height {}", v.header.block_hash(), v.height));
					}
				}
			}
			if let Some(b) = s_seen {
				if !tree.good(b) && evs.iter().any(|e| matches!(e, Ev::Disc(_))) {
					cx.violation(rep, "L4", &format!("listeners were disconnected from their chain in favour of a branch through a refusable header ({})", tree.nodes[b].taint.name()), format!("listeners were at {} reported tip {}: saw{}", tree.describe(t), tree.describe(b), fmt_evs(&tree, evs)));
				}
			}
			if evs.is_empty() {
				rep.count("faulted_poll_listeners_untouched");
				if let Some(b) = s_seen {
					if !tree.good(b) {
						rep.count(&format!("refused_tip_{}", tree.nodes[b].taint.name().replace(' ', "_")));
					}
				}
			} else {
				match s_seen {
					None => cx.violation(rep, "L4", "listeners were notified although the source never reported a tip", format!("saw{}", fmt_evs(&tree, evs))),
					Some(b) => {
						let fork = tree.ca(t, b);
						let on_path = tree.anc_eq(fork, new_top) && tree.anc_eq(new_top, b);
						if !on_path {
							cx.violation(rep, "L4", "poll with a fault left listeners off the path from the fork point to the reported tip", format!("listeners were at {} now at {} reported tip {} fork point {}: saw{}", tree.describe(t), tree.describe(new_top), tree.describe(b), tree.describe(fork), fmt_evs(&tree, evs)));
						} else if tree.good(b) && tree.nodes[b].work <= tree.nodes[t].work {
							cx.violation(rep, "L3", if tree.nodes[b].work == tree.nodes[t].work { "listeners were moved towards a tip with equal work" } else { "listeners were moved towards a tip with less work" }, format!("listeners were at {} now at {} reported tip {}: saw{}", tree.describe(t), tree.describe(new_top), tree.describe(b), fmt_evs(&tree, evs)));
						} else if new_top != b {
							rep.count("faulted_poll_partial_progress");
						} else {
							rep.count("faulted_poll_full_progress");
						}
					},
				}
			}
		}
		cx.shape = h;
		if last && !cx.failed {
			let hv = tree.heaviest_good();
			if tree.nodes[hv].work > tree.nodes[t].work && listeners[0].top() != hv {
				cx.violation(rep, "L4", "listeners did not reach the heaviest valid tip in a final fault-free poll", format!("listeners at {} heaviest {}", tree.describe(listeners[0].top()), tree.describe(hv)));
			} else {
				rep.count("cases_converged");
			}
		}
	}
	let (mut full, mut hdr, mut mal) = (0, 0, 0);
	for l in listeners.iter() {
		let st = l.lock();
		full += st.full;
		hdr += st.hdr_only;
		mal += st.malleated;
	}
	rep.add("connects_full_block", full);
	rep.add("connects_header_only", hdr);
	rep.add("obs_merkle_malleated_block_accepted", mal);
	rep.distinct(cx.shape.get());
	if rep.samples.len() < rep.max_samples && cx.log.len() > 4 {
		rep.sample(Json::obj().set("case", ci).set("network", format!("{:?}", network)).set("tree_size", tree.nodes.len()).set("log", Json::Arr(cx.log.iter().take(14).map(|s| Json::Str(s.clone())).collect())));
	}
}

fn main() {
	vcore::install_quiet_panic_hook();
	let args = Args::parse();
	let mut rep = args.report();
	let cases = args.num("cases", 240_000, 12_000_000);
	let cfg = Cfg { lies: args.num("lies", 1, 1) != 0, polls: args.num("polls", 8, 8), deep_every: args.num("deep_every", 250, 250), per_sig: Default::default(), per_sig_cap: args.num("per_sig", 8, 8) };
	let only = args.kv.get("only").map(|v| v.parse::<u64>().expect("only"));
	bins::shard_runs(&args, cases, &mut rep, |ci, rng, rep| {
		if only.map(|o| o != ci).unwrap_or(false) {
			return;
		}
		if let Err(p) = vcore::guarded(|| one_case(&args, &cfg, ci, rng, rep)) {
			rep.inconclusive(format!("harness panic in case {}: {}", ci, canon(&p)));
		}
	});
	rep.write_to(&args.out);
}
