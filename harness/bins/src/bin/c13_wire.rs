//! C13 – peer messages round-trip through the wire format and decoding is total.
//!
//! Generators build values of every message type of `ln::msgs` (optional TLVs toggled, boundary
//! lengths, all address kinds). Monitors, per generated value m with encoding b:
//!  W1 decode(b) == m                                (typed codec)
//!  W2 the type dispatcher (ln::verif_api::wire_decode, hook H3) maps type||b to the same type id,
//!     re-encodes to exactly type||b and leaves no byte unread
//!  W3 every strict prefix p of b: decoding never panics; if it succeeds with m' then encode(m') == p
//!     (a truncated message is never returned "filled in")
//!  W4 every single-byte mutation b' (several values per offset): never panics; if it decodes to m'
//!     then decode(encode(m')) == m' (re-encoding a decoded message is stable)
//!  W5 TLV extension rules for types that end in a TLV stream: an unknown odd record appended =>
//!     same message; an unknown even record => error; a non-minimally encoded length => error
//!  W6 arbitrary byte strings through the dispatcher never panic; unknown types are reported unknown
use bins::sk;
use bitcoin::constants::ChainHash;
use bitcoin::hashes::Hash;
use bitcoin::secp256k1::ecdsa::Signature;
use bitcoin::secp256k1::{Message as SecpMsg, PublicKey, Secp256k1};
use bitcoin::{Network, ScriptBuf, Transaction, TxIn, TxOut, Txid, Witness};
use lightning::ln::msgs::*;
use lightning::ln::types::ChannelId;
use lightning::ln::verif_api::wire_decode;
use lightning::ln::wire::Type;
use lightning::routing::gossip::{NodeAlias, NodeId};
use lightning::types::features::{ChannelFeatures, ChannelTypeFeatures, InitFeatures, NodeFeatures};
use lightning::types::payment::{PaymentHash, PaymentPreimage};
use lightning::util::ser::{Hostname, LengthReadable, Writeable};
use std::fmt::Debug;
use vcore::{Args, Fnv, Json, Report, Rng};

struct Ctx<'a> {
	args: &'a Args,
	rep: &'a mut Report,
	secp: Secp256k1<bitcoin::secp256k1::All>,
	mutate_budget: u64,
}

fn dec<T: LengthReadable>(b: &[u8]) -> Result<T, DecodeError> {
	let mut r = b;
	T::read_from_fixed_length_buffer(&mut r)
}

impl<'a> Ctx<'a> {
	fn violate(&mut self, name: &str, rule: &str, sig: &str, detail: String, bytes: &[u8]) {
		let body = Json::obj().set("property", "C13").set("rule", rule).set("message_type", name).set("signature", sig).set("detail", detail.clone()).set("bytes_hex", vcore::hex(&bytes[..bytes.len().min(4096)]));
		let path = self.args.write_replay(&format!("{}-{}-seed{}-{:x}", rule, name, self.args.seed, vcore::Fnv::new().bytes(bytes).get() & 0xffffff), &body);
		self.rep.violation("C13", rule, &format!("{}: {}", name, sig), detail, Some(path));
	}

	/// All monitors for one generated value.
	fn check<T: Writeable + LengthReadable + PartialEq + Debug + Type>(&mut self, name: &str, m: &T, tlv_tail: bool, rng: &mut Rng) {
		let b = match vcore::guarded(|| m.encode()) {
			Ok(b) => b,
			Err(p) => return self.violate(name, "W1-roundtrip", &format!("encoding a message panicked: {}", vcore::canon(&p)), format!("{:?}", m).chars().take(400).collect(), &[]),
		};
		self.rep.count("values_checked");
		self.rep.set_insert("message_types", name.to_string());
		self.rep.distinct(Fnv::new().str(name).u64(b.len() as u64 / 16).u64(tlv_tail as u64).get());
		// W1
		match vcore::guarded(|| dec::<T>(&b)) {
			Err(p) => return self.violate(name, "W1-roundtrip", "decoding an encoded message panicked", p, &b),
			Ok(Err(e)) => return self.violate(name, "W1-roundtrip", &format!("an encoded message does not decode: {:?}", e), format!("{:?}", m).chars().take(400).collect(), &b),
			Ok(Ok(m2)) => {
				if m2 != *m {
					return self.violate(name, "W1-roundtrip", "decode(encode(m)) != m", format!("{:?}\n vs {:?}", m, m2).chars().take(800).collect(), &b);
				}
			},
		}
		// W2 (messages the production dispatcher does not know yet - the option_simple_close pair, compiled in
		// only under `--cfg simple_close` - are judged by their codec alone)
		let mut framed = m.type_id().encode();
		framed.extend_from_slice(&b);
		if name == "closing_complete" || name == "closing_sig" {
			self.rep.count("codec_only_messages_not_in_the_production_dispatcher");
		} else {
		match vcore::guarded(|| wire_decode(&framed)) {
			Err(p) => self.violate(name, "W2-dispatch", "the type dispatcher panicked on a valid message", p, &framed),
			Ok(Err((e, _))) => self.violate(name, "W2-dispatch", &format!("the type dispatcher rejects a valid message: {:?}", e), String::new(), &framed),
			Ok(Ok(d)) => {
				self.rep.count("dispatcher_roundtrips");
				if !d.known || d.type_id != m.type_id() {
					self.violate(name, "W2-dispatch", "the type dispatcher maps the message to another type", format!("type {} known {}", d.type_id, d.known), &framed);
				} else if d.reencoded != framed {
					self.violate(name, "W2-dispatch", "the dispatcher's decode/re-encode changes the bytes", String::new(), &framed);
				} else if d.bytes_left != 0 {
					self.violate(name, "W2-dispatch", "the dispatcher left bytes of the message unread", format!("{}", d.bytes_left), &framed);
				}
			},
		}
		}
		// W3: every strict prefix
		let step = if b.len() > 600 { 1 + b.len() / 300 } else { 1 };
		let mut cut = 0;
		while cut < b.len() {
			let p = &b[..cut];
			self.rep.count("truncations_checked");
			match vcore::guarded(|| dec::<T>(p)) {
				Err(pn) => {
					self.violate(name, "W3-truncation", "decoding a truncated message panicked", format!("cut at {} of {}: {}", cut, b.len(), pn), p);
					break;
				},
				Ok(Ok(m2)) => {
					self.rep.count("truncations_that_decoded");
					if m2.encode() != p {
						self.violate(name, "W3-truncation", "a truncated message decoded to a message that was not fully present in the input", format!("cut at {} of {}: {:?}", cut, b.len(), m2).chars().take(500).collect(), p);
						break;
					}
				},
				Ok(Err(_)) => {},
			}
			cut += if cut + 80 >= b.len() { 1 } else { step };
		}
		// W4: single-byte mutations
		if self.mutate_budget > 0 {
			let stride = if b.len() > 400 { 1 + b.len() / 200 } else { 1 };
			let mut off = rng.below(stride as u64) as usize;
			while off < b.len() {
				for k in 0..4 {
					let mut bm = b.clone();
					bm[off] = match k {
						0 => bm[off] ^ (1 << rng.below(8)),
						1 => bm[off].wrapping_add(1),
						2 => bm[off].wrapping_sub(1),
						_ => rng.below(256) as u8,
					};
					if bm[off] == b[off] {
						continue;
					}
					self.rep.count("mutations_checked");
					match vcore::guarded(|| dec::<T>(&bm)) {
						Err(pn) => {
							self.violate(name, "W4-mutation", "decoding a mutated message panicked", format!("offset {} of {}: {}", off, b.len(), pn), &bm);
							return;
						},
						Ok(Ok(m2)) => {
							self.rep.count("mutations_that_decoded");
							let b2 = m2.encode();
							// W7: the signed gossip messages keep every byte they were decoded from (unknown address types and
							// trailing data are stored, because the signature covers them): whatever decodes re-encodes to exactly
							// the input - a decoder that reads past a declared inner length, or fills something in, does not
							if matches!(name, "node_announcement" | "channel_announcement" | "channel_update") {
								self.rep.count("w7_gossip_exact_reencodings_checked");
								if b2 != bm {
									self.violate(name, "W7-exact-reencoding", "a mutated gossip message decoded to a message that does not re-encode to the bytes it was read from", format!("offset {} of {}: byte {} -> {}", off, b.len(), b[off], bm[off]), &bm);
									return;
								}
							}
							match vcore::guarded(|| dec::<T>(&b2)) {
								Ok(Ok(m3)) if m3 == m2 => {},
								Ok(Ok(_)) => {
									self.violate(name, "W4-mutation", "re-encoding a decoded message does not decode to the same message", format!("offset {}", off), &bm);
									return;
								},
								Ok(Err(e)) => {
									self.violate(name, "W4-mutation", &format!("re-encoding a decoded message yields bytes that do not decode: {:?}", e), format!("offset {}", off), &bm);
									return;
								},
								Err(pn) => {
									self.violate(name, "W4-mutation", "re-decoding panicked", pn, &bm);
									return;
								},
							}
						},
						Ok(Err(_)) => {},
					}
				}
				off += stride;
			}
			self.mutate_budget -= 1;
		}
		// W8: data beyond what a message of this type expects is ignored (BOLT 1): for the messages that neither end in
		// a TLV stream nor keep excess data, a valid encoding followed by extra bytes decodes to an equal message
		if matches!(name, "error" | "warning" | "ping" | "pong" | "onion_message") {
			for extra in [1usize, 2, 19] {
				let mut ext = b.clone();
				ext.extend(rng.vec(extra));
				self.rep.count("w8_trailing_data_checks");
				match vcore::guarded(|| dec::<T>(&ext)) {
					Ok(Ok(m2)) if m2 == *m => {},
					Ok(Ok(_)) => self.violate(name, "W8-trailing-data", "data after the end of a message changed the decoded message", format!("{} extra bytes", extra), &ext),
					Ok(Err(e)) => self.violate(name, "W8-trailing-data", &format!("data after the end of a message was not ignored: {:?}", e), format!("{} extra bytes", extra), &ext),
					Err(p) => self.violate(name, "W8-trailing-data", "panic on data after the end of a message", p, &ext),
				}
			}
		}
		// W5: TLV extension rules
		if tlv_tail {
			let mut odd = b.clone();
			odd.extend_from_slice(&[0xff, 0xff, 0xff, 0xff, 0xff, 0xff, 0xff, 0xff, 0xff, 0x03, 1, 2, 3]); // type 2^64-1 (odd, unknown, sorts last), length 3
			self.rep.count("tlv_rule_checks");
			match vcore::guarded(|| dec::<T>(&odd)) {
				Ok(Ok(m2)) if m2 == *m => {},
				Ok(Ok(_)) => self.violate(name, "W5-tlv", "an unknown odd TLV record changed the decoded message", String::new(), &odd),
				Ok(Err(e)) => self.violate(name, "W5-tlv", &format!("an unknown odd TLV record was not ignored: {:?}", e), String::new(), &odd),
				Err(p) => self.violate(name, "W5-tlv", "panic on an unknown odd TLV record", p, &odd),
			}
			let mut even = b.clone();
			even.extend_from_slice(&[0xff, 0xff, 0xff, 0xff, 0xff, 0xff, 0xff, 0xff, 0xfe, 0x01, 7]); // type 2^64-2 (even, unknown)
			match vcore::guarded(|| dec::<T>(&even)) {
				Ok(Err(_)) => {},
				Ok(Ok(_)) => self.violate(name, "W5-tlv", "an unknown even TLV record was accepted", String::new(), &even),
				Err(p) => self.violate(name, "W5-tlv", "panic on an unknown even TLV record", p, &even),
			}
			let mut nonmin = b.clone();
			nonmin.extend_from_slice(&[0xff, 0xff, 0xff, 0xff, 0xff, 0xff, 0xff, 0xff, 0xff, 0xfd, 0x00, 0x03, 1, 2, 3]); // length 3 encoded in 3 bytes
			match vcore::guarded(|| dec::<T>(&nonmin)) {
				Ok(Err(_)) => {},
				Ok(Ok(_)) => self.violate(name, "W5-tlv", "a non-minimally encoded TLV length was accepted", String::new(), &nonmin),
				Err(p) => self.violate(name, "W5-tlv", "panic on a non-minimal TLV length", p, &nonmin),
			}
			let mut short = b.clone();
			short.extend_from_slice(&[0xff, 0xff, 0xff, 0xff, 0xff, 0xff, 0xff, 0xff, 0xff, 0x09, 1, 2, 3]); // declares 9 bytes, carries 3
			match vcore::guarded(|| dec::<T>(&short)) {
				Ok(Err(_)) => {},
				Ok(Ok(_)) => self.violate(name, "W5-tlv", "a TLV record longer than the remaining input was accepted", String::new(), &short),
				Err(p) => self.violate(name, "W5-tlv", "panic on an over-long TLV record", p, &short),
			}
		}
		if self.rep.samples.len() < self.rep.max_samples && rng.chance(1, 400) {
			self.rep.sample(Json::obj().set("type", name).set("len", b.len()).set("value", format!("{:?}", m).chars().take(300).collect::<String>()));
		}
	}
}

// ---------------------------------------------------------------------------------------------
// generators
// ---------------------------------------------------------------------------------------------
struct Gen<'a> {
	rng: &'a mut Rng,
	secp: Secp256k1<bitcoin::secp256k1::All>,
}
impl<'a> Gen<'a> {
	fn pk(&mut self) -> PublicKey {
		let a = self.rng.next() | 1;
		PublicKey::from_secret_key(&self.secp, &sk(a, 7))
	}
	fn sig(&mut self) -> Signature {
		let msg = SecpMsg::from_digest(self.rng.bytes());
		let a = self.rng.next() | 1;
		self.secp.sign_ecdsa(&msg, &sk(a, 9))
	}
	fn cid(&mut self) -> ChannelId {
		ChannelId(self.rng.bytes())
	}
	fn txid(&mut self) -> Txid {
		Txid::from_byte_array(self.rng.bytes())
	}
	fn chain(&mut self) -> ChainHash {
		if self.rng.chance(1, 2) {
			ChainHash::using_genesis_block(Network::Regtest)
		} else {
			ChainHash::from(self.rng.bytes::<32>())
		}
	}
	fn u64b(&mut self) -> u64 {
		*self.rng.pick(&[0u64, 1, 0xfc, 0xfd, 0xffff, 0x10000, 0xffff_ffff, 0x1_0000_0000, u64::MAX, 21_000_000 * 100_000_000]) ^ if self.rng.chance(1, 2) { self.rng.next() >> self.rng.below(64) } else { 0 }
	}
	fn u32b(&mut self) -> u32 {
		self.u64b() as u32
	}
	fn u16b(&mut self) -> u16 {
		self.u64b() as u16
	}
	fn len(&mut self, max: usize) -> usize {
		let c = [0usize, 1, 2, 252, 253, 254, 255, 256, 1000, max];
		(*self.rng.pick(&c)).min(max)
	}
	fn bytes(&mut self, max: usize) -> Vec<u8> {
		let n = self.len(max);
		self.rng.vec(n)
	}
	fn script(&mut self) -> ScriptBuf {
		match self.rng.below(4) {
			0 => ScriptBuf::new(),
			1 => ScriptBuf::new_p2wpkh(&bitcoin::WPubkeyHash::from_byte_array(self.rng.bytes())),
			2 => ScriptBuf::new_p2wsh(&bitcoin::WScriptHash::from_byte_array(self.rng.bytes())),
			_ => ScriptBuf::from_bytes(self.bytes(300)),
		}
	}
	fn opt<T>(&mut self, f: impl FnOnce(&mut Self) -> T) -> Option<T> {
		if self.rng.chance(1, 2) {
			Some(f(self))
		} else {
			None
		}
	}
	fn features_bytes(&mut self) -> Vec<u8> {
		let n = *self.rng.pick(&[0usize, 1, 2, 3, 7, 8, 9, 33]);
		let mut v = self.rng.vec(n);
		if let Some(l) = v.last_mut() {
			if *l == 0 {
				*l = 1;
			}
		}
		v
	}
	fn channel_type(&mut self) -> ChannelTypeFeatures {
		match self.rng.below(4) {
			0 => ChannelTypeFeatures::only_static_remote_key(),
			1 => ChannelTypeFeatures::anchors_zero_htlc_fee_and_dependencies(),
			2 => ChannelTypeFeatures::empty(),
			_ => ChannelTypeFeatures::from_le_bytes(self.features_bytes()),
		}
	}
	fn address(&mut self) -> SocketAddress {
		match self.rng.below(5) {
			0 => SocketAddress::TcpIpV4 { addr: self.rng.bytes(), port: self.u16b() },
			1 => SocketAddress::TcpIpV6 { addr: self.rng.bytes(), port: self.u16b() },
			2 => SocketAddress::OnionV2(self.rng.bytes()),
			3 => SocketAddress::OnionV3 { ed25519_pubkey: self.rng.bytes(), checksum: self.u16b(), version: self.rng.below(256) as u8, port: self.u16b() },
			_ => {
				let n = *self.rng.pick(&[1usize, 2, 63, 64, 200, 252, 253, 254, 255]);
				let s: String = (0..n).map(|i| if i % 17 == 16 { '.' } else { (b'a' + self.rng.below(26) as u8) as char }).collect();
				SocketAddress::Hostname { hostname: Hostname::try_from(s).expect("hostname"), port: self.u16b() }
			},
		}
	}
	fn onion_packet(&mut self) -> OnionPacket {
		let mut hop_data = [0u8; 1300];
		self.rng.fill(&mut hop_data);
		OnionPacket { version: self.rng.below(2) as u8, public_key: if self.rng.chance(9, 10) { Ok(self.pk()) } else { Err(bitcoin::secp256k1::Error::InvalidPublicKey) }, hop_data, hmac: self.rng.bytes() }
	}
	fn common_open(&mut self) -> CommonOpenChannelFields {
		CommonOpenChannelFields { chain_hash: self.chain(), temporary_channel_id: self.cid(), funding_satoshis: self.u64b(), dust_limit_satoshis: self.u64b(), max_htlc_value_in_flight_msat: self.u64b(), htlc_minimum_msat: self.u64b(), commitment_feerate_sat_per_1000_weight: self.u32b(), to_self_delay: self.u16b(), max_accepted_htlcs: self.u16b(), funding_pubkey: self.pk(), revocation_basepoint: self.pk(), payment_basepoint: self.pk(), delayed_payment_basepoint: self.pk(), htlc_basepoint: self.pk(), first_per_commitment_point: self.pk(), channel_flags: self.rng.below(256) as u8, shutdown_scriptpubkey: self.opt(|g| g.script()), channel_type: self.opt(|g| g.channel_type()) }
	}
	fn common_accept(&mut self) -> CommonAcceptChannelFields {
		CommonAcceptChannelFields { temporary_channel_id: self.cid(), dust_limit_satoshis: self.u64b(), max_htlc_value_in_flight_msat: self.u64b(), htlc_minimum_msat: self.u64b(), minimum_depth: self.u32b(), to_self_delay: self.u16b(), max_accepted_htlcs: self.u16b(), funding_pubkey: self.pk(), revocation_basepoint: self.pk(), payment_basepoint: self.pk(), delayed_payment_basepoint: self.pk(), htlc_basepoint: self.pk(), first_per_commitment_point: self.pk(), shutdown_scriptpubkey: self.opt(|g| g.script()), channel_type: self.opt(|g| g.channel_type()) }
	}
	fn tx(&mut self) -> Transaction {
		let nin = 1 + self.rng.below(3) as usize;
		let nout = 1 + self.rng.below(3) as usize;
		Transaction {
			version: bitcoin::transaction::Version(2),
			lock_time: bitcoin::locktime::absolute::LockTime::from_consensus(self.u32b()),
			input: (0..nin).map(|_| TxIn { previous_output: bitcoin::OutPoint { txid: self.txid(), vout: self.u32b() }, script_sig: ScriptBuf::new(), sequence: bitcoin::Sequence(self.u32b()), witness: { let n = self.rng.below(80) as usize; Witness::from_slice(&[self.rng.vec(n)]) } }).collect(),
			output: (0..nout).map(|_| TxOut { value: bitcoin::Amount::from_sat(self.rng.below(21_000_000 * 100_000_000)), script_pubkey: self.script() }).collect(),
		}
	}
}

fn run_one(ctx: &mut Ctx, rng: &mut Rng) {
	let mut r2 = rng.clone();
	let mut g = Gen { rng, secp: Secp256k1::new() };
	macro_rules! chk {
		($name: expr, $tlv: expr, $v: expr) => {{
			let v = $v;
			ctx.check($name, &v, $tlv, &mut r2);
		}};
	}
	chk!("init", true, Init { features: InitFeatures::from_le_bytes(g.features_bytes()), networks: g.opt(|g| (0..g.rng.below(4)).map(|_| g.chain()).collect()), remote_network_address: g.opt(|g| g.address()) });
	chk!("error", false, ErrorMessage { channel_id: g.cid(), data: String::from_utf8_lossy(&g.bytes(2000)).chars().filter(|c| *c != '\u{fffd}').collect() });
	chk!("warning", false, WarningMessage { channel_id: g.cid(), data: "x".repeat(g.len(3000)) });
	chk!("ping", false, Ping { ponglen: g.u16b(), byteslen: *g.rng.pick(&[0u16, 1, 3, 16, 63, 64, 65, 127, 128, 129, 1000, 4096, 65000, 65531]) });
	chk!("pong", false, Pong { byteslen: *g.rng.pick(&[0u16, 1, 2, 63, 64, 65, 200, 1000, 65531]) });
	chk!("peer_storage", false, PeerStorage { data: g.bytes(1024) });
	chk!("peer_storage_retrieval", false, PeerStorageRetrieval { data: g.bytes(1024) });
	chk!("open_channel", true, OpenChannel { common_fields: g.common_open(), push_msat: g.u64b(), channel_reserve_satoshis: g.u64b() });
	chk!("open_channel2", true, OpenChannelV2 { common_fields: g.common_open(), funding_feerate_sat_per_1000_weight: g.u32b(), locktime: g.u32b(), second_per_commitment_point: g.pk(), require_confirmed_inputs: g.opt(|_| ()), disable_channel_reserve: g.opt(|_| ()) });
	chk!("accept_channel", true, AcceptChannel { common_fields: g.common_accept(), channel_reserve_satoshis: g.u64b() });
	chk!("accept_channel2", true, AcceptChannelV2 { common_fields: g.common_accept(), funding_satoshis: g.u64b(), second_per_commitment_point: g.pk(), require_confirmed_inputs: g.opt(|_| ()), disable_channel_reserve: g.opt(|_| ()) });
	chk!("funding_created", true, FundingCreated { temporary_channel_id: g.cid(), funding_txid: g.txid(), funding_output_index: g.u16b(), signature: g.sig() });
	chk!("funding_signed", true, FundingSigned { channel_id: g.cid(), signature: g.sig() });
	chk!("channel_ready", true, ChannelReady { channel_id: g.cid(), next_per_commitment_point: g.pk(), short_channel_id_alias: g.opt(|g| g.u64b()) });
	chk!("stfu", true, Stfu { channel_id: g.cid(), initiator: g.rng.chance(1, 2) });
	chk!("splice_init", true, SpliceInit { channel_id: g.cid(), funding_contribution_satoshis: g.u64b() as i64, funding_feerate_per_kw: g.u32b(), locktime: g.u32b(), funding_pubkey: g.pk(), require_confirmed_inputs: g.opt(|_| ()) });
	chk!("splice_ack", true, SpliceAck { channel_id: g.cid(), funding_contribution_satoshis: g.u64b() as i64, funding_pubkey: g.pk(), require_confirmed_inputs: g.opt(|_| ()) });
	chk!("splice_locked", true, SpliceLocked { channel_id: g.cid(), splice_txid: g.txid() });
	chk!("tx_add_input", true, TxAddInput { channel_id: g.cid(), serial_id: g.u64b(), prevtx: g.opt(|g| g.tx()), prevtx_out: g.u32b(), sequence: g.u32b(), shared_input_txid: g.opt(|g| g.txid()) });
	chk!("tx_add_output", true, TxAddOutput { channel_id: g.cid(), serial_id: g.u64b(), sats: g.u64b(), script: g.script() });
	chk!("tx_remove_input", true, TxRemoveInput { channel_id: g.cid(), serial_id: g.u64b() });
	chk!("tx_remove_output", true, TxRemoveOutput { channel_id: g.cid(), serial_id: g.u64b() });
	chk!("tx_complete", true, TxComplete { channel_id: g.cid() });
	chk!("tx_signatures", true, TxSignatures { channel_id: g.cid(), tx_hash: g.txid(), witnesses: (0..g.rng.below(4)).map(|_| Witness::from_slice(&(0..g.rng.below(4)).map(|_| g.bytes(120)).collect::<Vec<_>>())).collect(), shared_input_signature: g.opt(|g| g.sig()) });
	chk!("tx_init_rbf", true, TxInitRbf { channel_id: g.cid(), locktime: g.u32b(), feerate_sat_per_1000_weight: g.u32b(), funding_output_contribution: g.opt(|g| g.u64b() as i64) });
	chk!("tx_ack_rbf", true, TxAckRbf { channel_id: g.cid(), funding_output_contribution: g.opt(|g| g.u64b() as i64) });
	chk!("tx_abort", true, TxAbort { channel_id: g.cid(), data: g.bytes(1000) });
	chk!("shutdown", true, Shutdown { channel_id: g.cid(), scriptpubkey: g.script() });
	chk!("closing_signed", true, ClosingSigned { channel_id: g.cid(), fee_satoshis: g.u64b(), signature: g.sig(), fee_range: g.opt(|g| ClosingSignedFeeRange { min_fee_satoshis: g.u64b(), max_fee_satoshis: g.u64b() }) });
	chk!("closing_complete", true, ClosingComplete { channel_id: g.cid(), closer_scriptpubkey: g.script(), closee_scriptpubkey: g.script(), fee_satoshis: g.u64b(), locktime: g.u32b(), closer_output_only: g.opt(|g| g.sig()), closee_output_only: g.opt(|g| g.sig()), closer_and_closee_outputs: g.opt(|g| g.sig()) });
	chk!("closing_sig", true, ClosingSig { channel_id: g.cid(), closer_scriptpubkey: g.script(), closee_scriptpubkey: g.script(), fee_satoshis: g.u64b(), locktime: g.u32b(), closer_output_only: g.opt(|g| g.sig()), closee_output_only: g.opt(|g| g.sig()), closer_and_closee_outputs: g.opt(|g| g.sig()) });
	chk!("start_batch", true, StartBatch { channel_id: g.cid(), batch_size: g.u16b(), message_type: g.opt(|g| g.u16b()) });
	chk!("update_add_htlc", true, UpdateAddHTLC { channel_id: g.cid(), htlc_id: g.u64b(), amount_msat: g.u64b(), payment_hash: PaymentHash(g.rng.bytes()), cltv_expiry: g.u32b(), skimmed_fee_msat: g.opt(|g| g.u64b()), onion_routing_packet: g.onion_packet(), blinding_point: g.opt(|g| g.pk()), hold_htlc: g.opt(|_| ()), accountable: g.opt(|g| g.rng.chance(1, 2)) });
	chk!("onion_message", false, OnionMessage { blinding_point: g.pk(), onion_routing_packet: lightning::onion_message::packet::Packet { version: 0, public_key: g.pk(), hop_data: { let n = *g.rng.pick(&[1300usize, 32768, 1, 100]); g.rng.vec(n) }, hmac: g.rng.bytes() } });
	chk!("update_fulfill_htlc", true, UpdateFulfillHTLC { channel_id: g.cid(), htlc_id: g.u64b(), payment_preimage: PaymentPreimage(g.rng.bytes()), attribution_data: None });
	{
		// private fields: build the value from hand-written bytes (channel_id | htlc_id | u16 len | reason)
		let reason = g.bytes(2000);
		let mut raw = g.cid().0.to_vec();
		raw.extend_from_slice(&g.u64b().to_be_bytes());
		raw.extend_from_slice(&(reason.len() as u16).to_be_bytes());
		raw.extend_from_slice(&reason);
		match dec::<UpdateFailHTLC>(&raw) {
			Ok(v) => ctx.check("update_fail_htlc", &v, true, &mut r2),
			Err(e) => ctx.violate("update_fail_htlc", "W1-roundtrip", &format!("hand-encoded update_fail_htlc does not decode: {:?}", e), String::new(), &raw),
		}
		let mut raw = g.cid().0.to_vec();
		raw.extend_from_slice(&g.u64b().to_be_bytes());
		raw.extend_from_slice(&g.rng.bytes::<32>());
		raw.extend_from_slice(&g.u16b().to_be_bytes());
		match dec::<UpdateFailMalformedHTLC>(&raw) {
			Ok(v) => ctx.check("update_fail_malformed_htlc", &v, false, &mut r2),
			Err(e) => ctx.violate("update_fail_malformed_htlc", "W1-roundtrip", &format!("hand-encoded update_fail_malformed_htlc does not decode: {:?}", e), String::new(), &raw),
		}
	}
	chk!("commitment_signed", true, CommitmentSigned { channel_id: g.cid(), signature: g.sig(), htlc_signatures: (0..*g.rng.pick(&[0u64, 1, 2, 30, 483])).map(|_| g.sig()).collect(), funding_txid: g.opt(|g| g.txid()) });
	chk!("revoke_and_ack", true, RevokeAndACK { channel_id: g.cid(), per_commitment_secret: g.rng.bytes(), next_per_commitment_point: g.pk(), release_htlc_message_paths: vec![] });
	chk!("update_fee", false, UpdateFee { channel_id: g.cid(), feerate_per_kw: g.u32b() });
	chk!("channel_reestablish", true, ChannelReestablish { channel_id: g.cid(), next_local_commitment_number: g.u64b(), next_remote_commitment_number: g.u64b(), your_last_per_commitment_secret: g.rng.bytes(), my_current_per_commitment_point: g.pk(), next_funding: g.opt(|g| NextFunding { txid: g.txid(), retransmit_flags: g.rng.below(256) as u8 }), my_current_funding_locked: g.opt(|g| FundingLocked { txid: g.txid(), retransmit_flags: g.rng.below(256) as u8 }) });
	chk!("announcement_signatures", false, AnnouncementSignatures { channel_id: g.cid(), short_channel_id: g.u64b(), node_signature: g.sig(), bitcoin_signature: g.sig() });
	chk!("channel_announcement", false, ChannelAnnouncement { node_signature_1: g.sig(), node_signature_2: g.sig(), bitcoin_signature_1: g.sig(), bitcoin_signature_2: g.sig(), contents: UnsignedChannelAnnouncement { features: ChannelFeatures::from_le_bytes(g.features_bytes()), chain_hash: g.chain(), short_channel_id: g.u64b(), node_id_1: NodeId::from_pubkey(&g.pk()), node_id_2: NodeId::from_pubkey(&g.pk()), bitcoin_key_1: NodeId::from_pubkey(&g.pk()), bitcoin_key_2: NodeId::from_pubkey(&g.pk()), excess_data: g.bytes(300) } });
	{
		// addresses in ascending type order as the encoder/decoder expect
		let mut addresses: Vec<SocketAddress> = (0..g.rng.below(5)).map(|_| g.address()).collect();
		addresses.sort_by_key(|a| match a {
			SocketAddress::TcpIpV4 { .. } => 1,
			SocketAddress::TcpIpV6 { .. } => 2,
			SocketAddress::OnionV2(_) => 3,
			SocketAddress::OnionV3 { .. } => 4,
			SocketAddress::Hostname { .. } => 5,
		});
		addresses.dedup_by_key(|a| match a {
			SocketAddress::TcpIpV4 { .. } => 1,
			SocketAddress::TcpIpV6 { .. } => 2,
			SocketAddress::OnionV2(_) => 3,
			SocketAddress::OnionV3 { .. } => 4,
			SocketAddress::Hostname { .. } => 5,
		});
		chk!("node_announcement", false, NodeAnnouncement { signature: g.sig(), contents: UnsignedNodeAnnouncement { features: NodeFeatures::from_le_bytes(g.features_bytes()), timestamp: g.u32b(), node_id: NodeId::from_pubkey(&g.pk()), rgb: g.rng.bytes(), alias: NodeAlias(g.rng.bytes()), addresses, excess_address_data: vec![], excess_data: g.bytes(200) } });
	}
	chk!("channel_update", false, ChannelUpdate { signature: g.sig(), contents: UnsignedChannelUpdate { chain_hash: g.chain(), short_channel_id: g.u64b(), timestamp: g.u32b(), message_flags: 1 | (g.rng.below(2) as u8) << 1, channel_flags: g.rng.below(4) as u8, cltv_expiry_delta: g.u16b(), htlc_minimum_msat: g.u64b(), htlc_maximum_msat: g.u64b(), fee_base_msat: g.u32b(), fee_proportional_millionths: g.u32b(), excess_data: g.bytes(200) } });
	chk!("query_channel_range", false, QueryChannelRange { chain_hash: g.chain(), first_blocknum: g.u32b(), number_of_blocks: g.u32b() });
	chk!("reply_channel_range", false, ReplyChannelRange { chain_hash: g.chain(), first_blocknum: g.u32b(), number_of_blocks: g.u32b(), sync_complete: g.rng.chance(1, 2), short_channel_ids: (0..*g.rng.pick(&[0u64, 1, 100, 8000])).map(|_| g.rng.next()).collect() });
	chk!("query_short_channel_ids", false, QueryShortChannelIds { chain_hash: g.chain(), short_channel_ids: (0..*g.rng.pick(&[0u64, 1, 100, 8000])).map(|_| g.rng.next()).collect() });
	chk!("reply_short_channel_ids_end", false, ReplyShortChannelIdsEnd { chain_hash: g.chain(), full_information: g.rng.chance(1, 2) });
	chk!("gossip_timestamp_filter", false, GossipTimestampFilter { chain_hash: g.chain(), first_timestamp: g.u32b(), timestamp_range: g.u32b() });
}

fn main() {
	vcore::install_quiet_panic_hook();
	let args = Args::parse();
	let mut rep = args.report();
	rep.max_samples = 8;
	let rounds = args.num("rounds", 480, 24_000);
	let random_strings = args.num("random", 40_000, 2_000_000);
	{
		let mut ctx = Ctx { args: &args, rep: &mut rep, secp: Secp256k1::new(), mutate_budget: 0 };
		let _ = &ctx.secp;
		let n = args.nshards.max(1);
		let mut i = args.shard;
		while i < rounds {
			let mut rng = Rng::derive(args.seed, i, 0xC13);
			ctx.mutate_budget = 48; // every message type of this round gets its mutation pass
			run_one(&mut ctx, &mut rng);
			ctx.rep.evaluations += 1;
			i += n;
		}
		// W6: arbitrary byte strings through the dispatcher
		let mut rng = Rng::derive(args.seed, args.shard, 0xC136);
		let known_types: Vec<u16> = vec![16, 17, 1, 18, 19, 7, 9, 32, 64, 33, 65, 34, 35, 2, 36, 38, 39, 66, 67, 68, 69, 70, 71, 72, 73, 74, 80, 81, 77, 127, 128, 130, 131, 135, 132, 133, 134, 136, 259, 256, 257, 258, 261, 262, 263, 264, 265, 513];
		for k in 0..random_strings / n {
			let len = *rng.pick(&[0usize, 1, 2, 3, 10, 34, 70, 130, 400, 1500]);
			let mut b = rng.vec(len);
			if b.len() >= 2 && k % 3 != 0 {
				let t = *rng.pick(&known_types);
				b[0] = (t >> 8) as u8;
				b[1] = t as u8;
			}
			ctx.rep.count("random_strings_dispatched");
			match vcore::guarded(|| wire_decode(&b)) {
				Err(p) => ctx.violate("random", "W6-total", &format!("the dispatcher panicked on arbitrary bytes: {}", vcore::canon(&p)), p, &b),
				Ok(Ok(d)) => {
					if d.known {
						ctx.rep.count("random_strings_that_decoded");
						// a decoded message re-encodes to something that decodes to the same rendering
						match vcore::guarded(|| wire_decode(&d.reencoded)) {
							Ok(Ok(d2)) if d2.debug == d.debug => {},
							_ => ctx.violate("random", "W6-total", "re-encoding a decoded arbitrary message does not decode to the same message", d.debug.chars().take(300).collect(), &b),
						}
					} else {
						ctx.rep.count("random_strings_unknown_type");
					}
				},
				Ok(Err(_)) => {},
			}
		}
	}
	rep.write_to(&args.out);
}
