//! C14 – onions deliver exactly each hop's instructions; failures name the right hop.
//!
//! Pure-function harness over the real onion code. Sender side: `onion_utils::create_payment_onion`.
//! Hop side: `onion_payment::peel_payment_onion` with one `KeysManager` per hop. Failure path:
//! `onion_utils::verif_build_failure_packet` / `verif_wrap_failure_packet` /
//! `verif_decode_failure_packet` (the `_verif` wrappers around build_failure_packet,
//! process_failure_packet+crypt_failure_packet and process_onion_failure_inner).
//!
//! The oracle knows the route because it generated it; expected per-hop values are plain sums over
//! the generated route, expected packet sizes come from an independent TLV size model, expected
//! failure learnings from an independent BOLT-4 flag classifier. Rules:
//!  R1 fit        create_payment_onion succeeds iff the modelled hop payloads (+32-byte HMACs) fit in
//!                1300 bytes; a route that does not fit is refused with an error, never a panic
//!  R2 first-hop  the returned first-hop amount / expiry are the sums over the route
//!  R3 forward    hop i peels (with its own key) exactly: next channel, amount to forward, outgoing expiry
//!  R4 size       the packet handed to the next hop is version 0, has a valid key and serialises to 1366 bytes
//!  R5 final      the last hop (and only it) recognises itself as final and decodes exactly the recipient
//!                fields sent (secret/total, metadata, custom TLVs, keysend preimage, amount, expiry)
//!  R6 tamper     every single-bit flip of version / ephemeral key / hop data / hmac / payment hash of the
//!                packet in flight is rejected by the hop that receives it (Err; never Ok, never a panic)
//!  R7 attribute  a failure built at hop k with that hop's shared secret and re-wrapped by hops k-1..0 is
//!                decoded by the sender to the learnings that (k, code, data) imply
//!  R8 holdtimes  the attribution data reports exactly the hold times the hops set (first 20 hops)
//!  R9 corrupt    a failure packet corrupted in flight is never blamed on a specific hop/channel, and the
//!                hold times reported are a correct prefix (ending at the corrupting pair)
//!  R10 blinded   inside a blinded tail (real `BlindedPaymentPath`, 0-3 forwarders) every hop forwards over the
//!                channel and with the expiry the recipient encoded and keeps at least its fee; the recipient
//!                accepts (gets at least the final value) both when the sender pays the oracle's per-hop fees and
//!                when it pays only the aggregate fee the path advertises (`payinfo`), and decodes its fields
//!
//! Also covered: a one-hop trampoline tail (the last hop is the only trampoline hop and the blinded recipient;
//! inner onion built by the sender, `TrampolineBlindedReceive` on the hop side). Longer trampoline routes are
//! not reachable through public entry points (`peel_payment_onion` refuses trampoline forwards).
//! Knobs: cases= flips= fails= sweep_every= trampoline=0|1 tramp_keysend=0|1 (the latter exhibits the
//! keysend-over-trampoline TLV mismatch and is off by default); only=<case index> replays one case
//! (every case is a pure function of seed and case index).
use bins::NullLogger;
use bitcoin::hashes::sha256::Hash as Sha256;
use bitcoin::hashes::{Hash, HashEngine};
use bitcoin::secp256k1::{All, PublicKey, Scalar, Secp256k1, SecretKey};
use lightning::blinded_path::payment::{BlindedPaymentPath, Bolt12RefundContext, ForwardTlvs, PaymentConstraints, PaymentContext, PaymentForwardNode, PaymentRelay, ReceiveTlvs};
use lightning::chain::channelmonitor::HTLC_FAIL_BACK_BUFFER;
use lightning::ln::channelmanager::{BlindedFailure, PendingHTLCInfo, PendingHTLCRouting};
use lightning::ln::msgs::{OnionPacket, UpdateAddHTLC, UpdateFailHTLC};
use lightning::ln::onion_payment::peel_payment_onion;
use lightning::ln::onion_utils::{create_payment_onion, verif_build_failure_packet, verif_decode_failure_packet, verif_wrap_failure_packet, AttributionData, VerifDecodedFailure};
use lightning::ln::outbound_payment::{RecipientCustomTlvs, RecipientOnionFields};
use lightning::ln::types::ChannelId;
use lightning::routing::gossip::NetworkUpdate;
use lightning::routing::router::{BlindedTail, Path, RouteHop, TrampolineHop};
use lightning::sign::{KeysManager, NodeSigner, RandomBytes, Recipient};
use lightning::types::features::{BlindedHopFeatures, ChannelFeatures, NodeFeatures};
use lightning::types::payment::{PaymentHash, PaymentPreimage, PaymentSecret};
use lightning::util::ser::{BigSize, LengthReadable, Readable, Writeable};
use vcore::{Args, Fnv, Json, Report, Rng};

const MAX_VALUE_MSAT: u64 = 21_000_000 * 100_000_000 * 1_000;
const HOP_DATA_LEN: usize = 1300;
const PACKET_LEN: usize = 1 + 33 + HOP_DATA_LEN + 32;
const MAX_ATTR_HOPS: usize = 20;
const KEYSEND_TLV: u64 = 5482373484;
const FAR_AWAY: u32 = 14 * 24 * 6;

const BADONION: u16 = 0x8000;
const PERM: u16 = 0x4000;
const NODE: u16 = 0x2000;
const UPDATE: u16 = 0x1000;

struct Node {
	km: KeysManager,
	id: PublicKey,
}
struct World {
	secp: Secp256k1<All>,
	nodes: Vec<Node>,
}
impl World {
	fn new() -> World {
		let secp = Secp256k1::new();
		let nodes = (0..56u8)
			.map(|i| {
				let mut seed = [0x42u8; 32];
				seed[0] = i;
				seed[31] = i.wrapping_mul(7).wrapping_add(1);
				let km = KeysManager::new(&seed, 1_700_000_000, i as u32, true);
				let id = km.get_node_id(Recipient::Node).unwrap();
				Node { km, id }
			})
			.collect();
		World { secp, nodes }
	}
}

#[derive(Clone, Debug)]
struct HopSpec {
	node: usize,
	scid: u64,
	fee: u64,
	delta: u32,
}
#[derive(Clone, Debug)]
struct BFwd {
	node: usize,
	scid: u64,
	base: u32,
	prop: u32,
	delta: u16,
	max_cltv: u32,
	htlc_min: u64,
}
#[derive(Clone, Debug)]
struct BlindSpec {
	fwd: Vec<BFwd>, // intro node first; empty = one-hop blinded path (intro node is the payee)
	payee: usize,
	min_final: u16,
	excess: u32,
	final_value: u64,
	secret: [u8; 32],
	entropy: [u8; 32],
	payee_max_cltv: u32,
	payee_htlc_min: u64,
	need: Vec<u64>, // minimal inbound amount per blinded forwarder (oracle side)
	/// Some(fee): the recipient is reached through a one-hop trampoline route (the last unblinded hop is the
	/// only trampoline hop and the recipient of a one-hop blinded path); the tail travels in an inner onion.
	tramp: Option<u64>,
	/// the sender pays the aggregate fee the blinded path advertises (instead of the oracle's own per-hop sum)
	payinfo_fee: bool,
}
#[derive(Clone, Debug)]
struct Case {
	hops: Vec<HopSpec>,
	blind: Option<BlindSpec>,
	height: u32,
	session: [u8; 32],
	prng: [u8; 32],
	hash: [u8; 32],
	preimage: Option<[u8; 32]>,
	secret: Option<[u8; 32]>,
	total_msat: u64,
	metadata: Option<Vec<u8>>,
	custom: Vec<(u64, Vec<u8>)>,
	fit: &'static str,
	limit: &'static str,
}

// ---------------------------------------------------------------------------------------------
// independent size model of the onion payloads
// ---------------------------------------------------------------------------------------------
fn tu_len(v: u64) -> usize {
	(64 - v.leading_zeros() as usize + 7) / 8
}
fn bigsize_len(v: u64) -> usize {
	if v < 0xfd {
		1
	} else if v <= 0xffff {
		3
	} else if v <= 0xffff_ffff {
		5
	} else {
		9
	}
}
fn tlv_len(typ: u64, vlen: usize) -> usize {
	bigsize_len(typ) + bigsize_len(vlen as u64) + vlen
}
fn framed(body: usize) -> usize {
	bigsize_len(body as u64) + body + 32
}
/// Total bytes the route needs inside hop_data (payloads with length prefix + one HMAC each).
fn model_len(c: &Case, path: &Path) -> usize {
	let n = c.hops.len();
	let mut total = 0;
	let mut custom = 0;
	for (t, v) in c.custom.iter() {
		custom += tlv_len(*t, v.len());
	}
	if c.preimage.is_some() {
		custom += tlv_len(KEYSEND_TLV, 32);
	}
	let tail_amt: u64 = match &c.blind {
		Some(b) => b.final_value,
		None => c.hops[n - 1].fee,
	};
	for i in 0..n {
		let out_amt: u64 = c.hops[i + 1..].iter().map(|h| h.fee).sum::<u64>() + if c.blind.is_some() { c.blind.as_ref().unwrap().final_value } else { 0 };
		let out_cltv: u64 = c.height as u64 + c.hops[i + 1..].iter().map(|h| h.delta as u64).sum::<u64>();
		if i + 1 < n {
			total += framed(tlv_len(2, tu_len(out_amt)) + tlv_len(4, tu_len(out_cltv)) + tlv_len(6, 8));
		} else if let (Some(bt), Some(tfee)) = (&path.blinded_tail, c.blind.as_ref().and_then(|b| b.tramp)) {
			// trampoline entrypoint payload carrying the inner onion (one blinded-receive payload)
			let b = c.blind.as_ref().unwrap();
			let mut inner = tlv_len(2, tu_len(b.final_value)) + tlv_len(4, tu_len(c.height as u64 + b.excess as u64)) + tlv_len(10, bt.hops[0].encrypted_payload.len()) + tlv_len(12, 33) + tlv_len(18, tu_len(c.total_msat));
			if c.preimage.is_some() {
				inner += tlv_len(20, 32);
			}
			for (t, v) in c.custom.iter() {
				inner += tlv_len(*t, v.len());
			}
			let packet = 1 + 33 + framed(inner) + 32;
			let mut body = tlv_len(2, tu_len(b.final_value + c.hops[n - 1].fee)) + tlv_len(4, tu_len(c.height as u64 + c.hops[n - 1].delta as u64)) + tlv_len(20, packet);
			if c.secret.is_some() {
				body += tlv_len(8, 32 + tu_len(b.final_value + tfee));
			}
			total += framed(body);
		} else if let Some(bt) = &path.blinded_tail {
			let last = bt.hops.len() - 1;
			for (j, bh) in bt.hops.iter().enumerate() {
				let mut body = tlv_len(10, bh.encrypted_payload.len());
				if j == 0 {
					body += tlv_len(12, 33);
				}
				if j == last {
					let b = c.blind.as_ref().unwrap();
					body += tlv_len(2, tu_len(b.final_value)) + tlv_len(4, tu_len(c.height as u64 + b.excess as u64)) + tlv_len(18, tu_len(c.total_msat)) + custom;
				}
				total += framed(body);
			}
		} else {
			let mut body = tlv_len(2, tu_len(tail_amt)) + tlv_len(4, tu_len(c.height as u64 + c.hops[n - 1].delta as u64));
			if c.secret.is_some() {
				body += tlv_len(8, 32 + tu_len(c.total_msat));
			}
			if let Some(m) = &c.metadata {
				body += tlv_len(16, m.len());
			}
			body += custom;
			total += framed(body);
		}
	}
	total
}

// ---------------------------------------------------------------------------------------------
// generator
// ---------------------------------------------------------------------------------------------
fn amount_of_len(rng: &mut Rng, bytes: u64) -> u64 {
	match bytes {
		0 => 0,
		b => {
			let lo = 1u64 << (8 * (b - 1));
			let hi = if b >= 8 { u64::MAX } else { (1u64 << (8 * b)) - 1 };
			match rng.below(4) {
				0 => lo,
				1 => hi,
				_ => rng.range(lo, hi),
			}
		},
	}
}
fn pick_scids(rng: &mut Rng, n: usize) -> Vec<u64> {
	let mut out: Vec<u64> = Vec::new();
	let boundary = [0u64, 1, 0xff, 0x100, 0xffff_ffff, 0x1_0000_0000, u64::MAX, u64::MAX - 1, 0x8000_0000_0000_0000];
	while out.len() < n {
		let s = if rng.chance(1, 3) { *rng.pick(&boundary) } else { rng.next() };
		if !out.contains(&s) {
			out.push(s);
		}
	}
	out
}
fn pick_nodes(rng: &mut Rng, pool: usize, n: usize) -> Vec<usize> {
	let mut idx: Vec<usize> = (0..pool).collect();
	rng.shuffle(&mut idx);
	idx.truncate(n);
	idx
}
fn pick_hops(rng: &mut Rng) -> usize {
	match rng.weighted(&[8, 8, 8, 18, 14, 6, 8, 6, 8, 4, 2, 2]) {
		0 => 1,
		1 => 2,
		2 => 3,
		3 => rng.range(4, 8) as usize,
		4 => rng.range(9, 18) as usize,
		5 => 19,
		6 => 20,
		7 => 21,
		8 => rng.range(22, 25) as usize,
		9 => 26,
		10 => 27,
		_ => rng.range(28, 31) as usize,
	}
}
fn pick_custom(rng: &mut Rng) -> Vec<(u64, Vec<u8>)> {
	let boundary = [1u64 << 16, (1 << 16) + 1, 77_776, 77_778, KEYSEND_TLV - 1, KEYSEND_TLV + 1, u64::MAX, u64::MAX - 1, 0xffff_ffff, 0x1_0000_0000];
	let n = match rng.below(6) {
		0 | 1 | 2 => 0,
		3 => 1,
		4 => 2,
		_ => rng.range(3, 5) as usize,
	};
	let mut out: Vec<(u64, Vec<u8>)> = Vec::new();
	while out.len() < n {
		let t = if rng.chance(1, 2) { *rng.pick(&boundary) } else { rng.range(1 << 16, u64::MAX) };
		if t == KEYSEND_TLV || t == 77_777 || out.iter().any(|(x, _)| *x == t) {
			continue;
		}
		let len = *rng.pick(&[0usize, 1, 2, 8, 32, 33, 100]);
		out.push((t, rng.vec(len)));
	}
	out
}

fn ceil_fee(amt: u64, base: u32, prop: u32) -> u64 {
	base as u64 + ((amt as u128 * prop as u128 + 999_999) / 1_000_000) as u64
}
fn floor_fee(amt: u64, base: u32, prop: u32) -> u64 {
	base as u64 + ((amt as u128 * prop as u128) / 1_000_000) as u64
}

fn gen_case(w: &World, rng: &mut Rng, ctx_tramp: bool, tramp_keysend: bool) -> Option<(Case, Option<BlindedPaymentPath>)> {
	// "tight": the longest routes that can fit at all (one-byte amounts, two-byte expiries, bare recipient fields)
	let tight = rng.chance(1, 12);
	let blinded = !tight && rng.chance(1, 4);
	let mut n = if tight { rng.range(23, 26) as usize } else { pick_hops(rng) };
	let fit = if tight { "random" } else { *rng.pick(&["random", "random", "random", "exact", "exact", "exact", "minus1", "plus1", "plus2"]) };
	let scale = if n >= 20 { rng.range(1, 2) } else if n >= 10 { rng.range(1, 5) } else { rng.range(1, 8) };
	let tramp = blinded && ctx_tramp && rng.chance(1, 4);
	let nb = if blinded && !tramp { rng.below(4) as usize } else { 0 };
	if blinded {
		n = n.min(20);
	}
	let nodes = pick_nodes(rng, w.nodes.len(), n + nb + 1);
	let scids = pick_scids(rng, n + nb + 1);
	let mut hops: Vec<HopSpec> = Vec::new();
	for i in 0..n {
		let last = i + 1 == n;
		let flen = rng.range(0, if last { scale } else { scale.min(7) });
		let fee = if last { amount_of_len(rng, flen).max(1) } else { amount_of_len(rng, flen) };
		let delta = if last { *rng.pick(&[0u32, 1, 18, 42, 144, 255, 256, 1000, 2016, 65535, 65536]) } else { *rng.pick(&[48u32, 48, 49, 72, 144, 255, 256, 1000, 2011, 2012]) };
		hops.push(HopSpec { node: nodes[i], scid: scids[i], fee, delta });
	}
	if tight {
		for (i, h) in hops.iter_mut().enumerate() {
			h.fee = if i + 1 == n { rng.range(1, 100) } else { rng.below(5) };
			h.delta = if i + 1 == n { rng.range(18, 60) as u32 } else { 48 + rng.below(2) as u32 };
		}
	}
	// keep the total below the 21M BTC cap the sender enforces
	let mut room = MAX_VALUE_MSAT - 1 - n as u64;
	for h in hops.iter_mut() {
		if h.fee > room / 2 {
			h.fee = room / 2;
		}
		room -= h.fee;
	}
	hops[n - 1].fee = hops[n - 1].fee.max(1);
	let sum_prev: u64 = hops[..n - 1].iter().map(|h| h.fee).sum();
	let mut limit = "";
	if !blinded && rng.chance(1, 10) && n < 6 {
		// the largest total the sender accepts, and one more
		if rng.chance(1, 2) {
			hops[n - 1].fee = MAX_VALUE_MSAT - 1 - sum_prev;
			limit = "amount_max";
		} else {
			hops[n - 1].fee = MAX_VALUE_MSAT - sum_prev;
			limit = "amount_over";
		}
	}

	// the recipient's side of a blinded tail (numbers only; the path is built once the height is fixed)
	let mut blind: Option<BlindSpec> = None;
	if blinded {
		let final_value = hops[n - 1].fee.min(1 << 40).max(1);
		let mut fwd = Vec::new();
		for j in 0..nb {
			fwd.push(BFwd {
				node: if j == 0 { nodes[n - 1] } else { nodes[n + j - 1] },
				scid: scids[n + j],
				base: *rng.pick(&[0u32, 1, 1000, 65_535, 1 << 20]),
				prop: *rng.pick(&[0u32, 1, 100, 999_999, 1_000_000, 1_500_000, 5000]),
				delta: *rng.pick(&[48u16, 49, 72, 144, 300]),
				max_cltv: u32::MAX,
				htlc_min: *rng.pick(&[0u64, 1]),
			});
		}
		let payee = if nb == 0 { nodes[n - 1] } else { nodes[n + nb - 1] };
		let min_final = *rng.pick(&[0u16, 18, 42, 144, 300]);
		let excess = *rng.pick(&[0u32, 0, 1, 40, 144, 1000]);
		// the minimal inbound amounts, walking back from the recipient
		let mut need = vec![0u64; nb + 1];
		need[nb] = final_value;
		for j in (0..nb).rev() {
			need[j] = need[j + 1] + ceil_fee(need[j + 1], fwd[j].base, fwd[j].prop);
		}
		// sender side: the introduction node is the last unblinded hop
		hops[n - 1].fee = need[0] - final_value;
		hops[n - 1].delta = min_final as u32 + fwd.iter().map(|f| f.delta as u32).sum::<u32>() + excess;
		let tfee = if tramp { Some(*rng.pick(&[0u64, 1, 255, 256, 70_000, 1 << 33])) } else { None };
		if let Some(f) = tfee {
			hops[n - 1].fee = f;
		}
		blind = Some(BlindSpec { fwd, payee, min_final, excess, final_value, secret: rng.bytes(), entropy: rng.bytes(), payee_max_cltv: u32::MAX, payee_htlc_min: if rng.chance(1, 3) { final_value } else { 0 }, need, tramp: tfee, payinfo_fee: false });
	}

	// block height the sender builds at
	let total_delta: u64 = hops.iter().map(|h| h.delta as u64).sum();
	let mut height = *rng.pick(&[0u32, 1, 40, 41, 200, 255, 256, 65_535, 65_536, 800_000, 0xff_ffff, 0x100_0000, 400_000_000]);
	if tight {
		height = rng.range(41, 60_000) as u32;
	} else if rng.chance(1, 10) {
		height = (499_999_999 - total_delta) as u32 - rng.below(3) as u32;
	}
	let recv_delta: u64 = match &blind {
		Some(b) => b.excess as u64 + b.min_final as u64,
		None => hops[n - 1].delta as u64,
	};
	if height as u64 + recv_delta < 41 {
		height = 41;
	}
	if height as u64 + total_delta >= 500_000_000 {
		height = (499_999_999 - total_delta) as u32;
	}
	if limit == "" && !tight && rng.chance(1, 20) {
		// the largest first-hop expiry the sender accepts, and one more
		if rng.chance(1, 2) {
			height = (499_999_999 - total_delta) as u32;
			limit = "expiry_max";
		} else {
			height = (500_000_000 - total_delta) as u32;
			limit = "expiry_over";
		}
	}

	let preimage: Option<[u8; 32]> = if rng.chance(1, 3) { Some(rng.bytes()) } else { None };
	let hash: [u8; 32] = match &preimage {
		Some(p) => Sha256::hash(p).to_byte_array(),
		None => rng.bytes(),
	};
	let preimage = if tight || (tramp && !tramp_keysend) { None } else { preimage };
	let custom = if tight { vec![] } else { pick_custom(rng) };
	let mut secret: Option<[u8; 32]> = if preimage.is_none() || rng.chance(1, 3) { Some(rng.bytes()) } else { None };
	let mut metadata: Option<Vec<u8>> = match rng.below(5) {
		0 | 1 => None,
		2 => Some(vec![]),
		3 => {
			let l = *rng.pick(&[1usize, 31, 32, 64, 252, 253, 254, 300]);
			Some(rng.vec(l))
		},
		_ => {
			let l = rng.below(40) as usize;
			Some(rng.vec(l))
		},
	};

	if tight {
		metadata = None;
	}
	let mut bpath: Option<BlindedPaymentPath> = None;
	if let Some(b) = blind.as_mut() {
		// constraints exactly at, or far above, the expiry each blinded hop will see
		let recv_cltv = height + b.excess + b.min_final as u32;
		if rng.chance(1, 3) {
			b.payee_max_cltv = recv_cltv;
		}
		let mut cl = recv_cltv;
		for j in (0..nb).rev() {
			cl += b.fwd[j].delta as u32;
			if rng.chance(1, 3) {
				b.fwd[j].max_cltv = cl;
			}
		}
		let inter: Vec<PaymentForwardNode> = b
			.fwd
			.iter()
			.map(|f| PaymentForwardNode {
				tlvs: ForwardTlvs {
					short_channel_id: f.scid,
					payment_relay: PaymentRelay { cltv_expiry_delta: f.delta, fee_proportional_millionths: f.prop, fee_base_msat: f.base },
					payment_constraints: PaymentConstraints { max_cltv_expiry: f.max_cltv, htlc_minimum_msat: f.htlc_min },
					features: BlindedHopFeatures::empty(),
					next_blinding_override: None,
				},
				node_id: w.nodes[f.node].id,
				htlc_maximum_msat: u64::MAX,
			})
			.collect();
		let payee_tlvs = ReceiveTlvs {
			payment_secret: PaymentSecret(b.secret),
			payment_constraints: PaymentConstraints { max_cltv_expiry: b.payee_max_cltv, htlc_minimum_msat: b.payee_htlc_min },
			payment_context: PaymentContext::Bolt12Refund(Bolt12RefundContext { payment_metadata: None }),
		};
		let entropy = RandomBytes::new(b.entropy);
		let bp = BlindedPaymentPath::new(&inter, w.nodes[b.payee].id, w.nodes[b.payee].km.get_receive_auth_key(), payee_tlvs, u64::MAX, b.min_final, &entropy, &w.secp).ok()?;
		if bp.payinfo.cltv_expiry_delta as u32 + b.excess != hops[n - 1].delta {
			return None;
		}
		if b.tramp.is_none() && !b.fwd.is_empty() && rng.chance(1, 2) {
			// pay what a sender pays that only knows the advertised aggregate fee of the blinded path
			b.payinfo_fee = true;
			hops[n - 1].fee = bp.payinfo.fee_base_msat as u64 + ((b.final_value as u128 * bp.payinfo.fee_proportional_millionths as u128) / 1_000_000) as u64;
		}
		metadata = None;
		if b.tramp.is_none() || rng.chance(1, 2) {
			secret = None;
		} else if secret.is_none() {
			secret = Some(rng.bytes());
		}
		bpath = Some(bp);
	}
	let final_value = blind.as_ref().map(|b| b.final_value).unwrap_or(hops[n - 1].fee);
	let total_msat = match rng.below(4) {
		0 => final_value,
		1 => MAX_VALUE_MSAT,
		2 => final_value.saturating_add(1).min(MAX_VALUE_MSAT),
		_ => rng.range(final_value.min(MAX_VALUE_MSAT), MAX_VALUE_MSAT),
	};
	let mut c = Case { hops, blind, height, session: rng.bytes(), prng: rng.bytes(), hash, preimage, secret, total_msat, metadata, custom, fit, limit };
	if SecretKey::from_slice(&c.session).is_err() {
		c.session[0] = 1;
	}
	// steer the total size to the boundary by resizing one variable-length recipient field
	if fit != "random" {
		let target = match fit {
			"exact" => HOP_DATA_LEN,
			"minus1" => HOP_DATA_LEN - 1,
			"plus1" => HOP_DATA_LEN + 1,
			_ => HOP_DATA_LEN + 2,
		};
		let path = build_path(w, &c, bpath.as_ref());
		let use_meta = c.blind.is_none() && rng.chance(2, 3);
		if !use_meta && c.custom.is_empty() {
			c.custom.push((rng.range(1 << 16, 77_000), vec![]));
		}
		let slot = if use_meta { usize::MAX } else { rng.below(c.custom.len() as u64) as usize };
		let mut best: Option<(usize, usize)> = None; // (distance, len)
		for len in 0..=1400usize {
			if use_meta {
				c.metadata = Some(vec![0; len]);
			} else {
				c.custom[slot].1 = vec![0; len];
			}
			let t = model_len(&c, &path);
			if t > target {
				break;
			}
			let d = target - t;
			if best.map_or(true, |(bd, _)| d <= bd) {
				best = Some((d, len));
			}
		}
		let len = best.map(|(_, l)| l).unwrap_or(0);
		if use_meta {
			c.metadata = Some(rng.vec(len));
		} else {
			c.custom[slot].1 = rng.vec(len);
		}
	}
	c.custom.sort_by_key(|(t, _)| *t);
	Some((c, bpath))
}

fn build_path(w: &World, c: &Case, bp: Option<&BlindedPaymentPath>) -> Path {
	let hops = c
		.hops
		.iter()
		.map(|h| RouteHop {
			pubkey: w.nodes[h.node].id,
			node_features: NodeFeatures::empty(),
			short_channel_id: h.scid,
			channel_features: ChannelFeatures::empty(),
			fee_msat: h.fee,
			cltv_expiry_delta: h.delta,
			maybe_announced_channel: true,
		})
		.collect();
	let blinded_tail = match (&c.blind, bp) {
		(Some(b), Some(bp)) => Some(BlindedTail {
			trampoline_hops: match b.tramp {
				Some(fee) => vec![TrampolineHop { pubkey: w.nodes[b.payee].id, node_features: NodeFeatures::empty(), fee_msat: fee, cltv_expiry_delta: c.hops[c.hops.len() - 1].delta }],
				None => vec![],
			},
			hops: bp.blinded_hops().to_vec(),
			blinding_point: bp.blinding_point(),
			excess_final_cltv_expiry_delta: b.excess,
			final_value_msat: b.final_value,
		}),
		_ => None,
	};
	Path { hops, blinded_tail }
}

fn case_json(c: &Case) -> Json {
	let hops: Vec<Json> = c.hops.iter().map(|h| Json::obj().set("node", h.node).set("scid", format!("{:#x}", h.scid)).set("fee_msat", h.fee).set("cltv_delta", h.delta)).collect();
	let mut j = Json::obj()
		.set("hops", Json::Arr(hops))
		.set("height", c.height)
		.set("session_priv", vcore::hex(&c.session))
		.set("prng_seed", vcore::hex(&c.prng))
		.set("payment_hash", vcore::hex(&c.hash))
		.set("keysend_preimage", c.preimage.map(|p| vcore::hex(&p)))
		.set("payment_secret", c.secret.map(|p| vcore::hex(&p)))
		.set("total_msat", c.total_msat)
		.set("metadata_len", c.metadata.as_ref().map(|m| m.len()))
		.set("custom_tlvs", Json::Arr(c.custom.iter().map(|(t, v)| Json::obj().set("type", *t).set("len", v.len())).collect()))
		.set("fit", c.fit)
		.set("limit", c.limit);
	if let Some(b) = &c.blind {
		j.put("blinded", format!("{:?}", b));
	}
	j
}

// ---------------------------------------------------------------------------------------------
// the check
// ---------------------------------------------------------------------------------------------
struct Ctx<'a> {
	args: &'a Args,
	rep: &'a mut Report,
	w: &'a World,
	flips_per_hop: u64,
	fail_rounds: u64,
	sweep_every: u64,
	trampoline: bool,
	tramp_keysend: bool,
}

struct Run<'a> {
	idx: u64,
	c: &'a Case,
}

impl<'a> Ctx<'a> {
	fn violate(&mut self, run: &Run, rule: &str, sig: &str, detail: String) {
		let name = format!("{}-seed{}-case{}", rule, self.args.seed, run.idx);
		let body = Json::obj().set("property", "C14").set("rule", rule).set("seed", self.args.seed).set("case", run.idx).set("signature", sig).set("detail", detail.clone()).set("input", case_json(run.c));
		let path = self.args.write_replay(&name, &body);
		self.rep.violation("C14", rule, sig, detail, Some(path));
	}
}

fn add_htlc(c: &Case, rng: &mut Rng, amount: u64, cltv: u32, pkt: OnionPacket, bp: Option<PublicKey>) -> UpdateAddHTLC {
	UpdateAddHTLC {
		channel_id: ChannelId(rng.bytes()),
		htlc_id: rng.next() >> 16,
		amount_msat: amount,
		payment_hash: PaymentHash(c.hash),
		cltv_expiry: cltv,
		skimmed_fee_msat: None,
		onion_routing_packet: pkt,
		blinding_point: bp,
		hold_htlc: None,
		accountable: if rng.chance(1, 2) { None } else { Some(rng.chance(1, 2)) },
	}
}

/// A block height at which the hop's policy checks accept (in_cltv -> out_cltv).
fn forward_height(rng: &mut Rng, in_cltv: u32, out_cltv: u32) -> Option<u32> {
	let lo = in_cltv.saturating_sub(FAR_AWAY);
	let hi = out_cltv.checked_sub(4)?.min(in_cltv.checked_sub(HTLC_FAIL_BACK_BUFFER + 1)?);
	if lo > hi {
		return None;
	}
	Some(match rng.below(3) {
		0 => lo,
		1 => hi,
		_ => rng.range(lo as u64, hi as u64) as u32,
	})
}
fn final_height(rng: &mut Rng, in_cltv: u32) -> Option<u32> {
	let hi = in_cltv.checked_sub(HTLC_FAIL_BACK_BUFFER + 2)?;
	Some(match rng.below(3) {
		0 => 0,
		1 => hi,
		_ => rng.range(0, hi as u64) as u32,
	})
}

fn flip_msg(msg: &UpdateAddHTLC, region: usize, bit: usize) -> UpdateAddHTLC {
	let mut m = msg.clone();
	let (byte, mask) = (bit / 8, 1u8 << (bit % 8));
	match region {
		0 => m.onion_routing_packet.version ^= mask,
		1 => {
			let mut k = msg.onion_routing_packet.public_key.unwrap().serialize();
			k[byte] ^= mask;
			m.onion_routing_packet.public_key = PublicKey::from_slice(&k);
		},
		2 => m.onion_routing_packet.hop_data[byte] ^= mask,
		3 => m.onion_routing_packet.hmac[byte] ^= mask,
		_ => m.payment_hash.0[byte] ^= mask,
	}
	m
}
fn routing_name(r: &PendingHTLCRouting) -> &'static str {
	match r {
		PendingHTLCRouting::Forward { .. } => "Forward",
		PendingHTLCRouting::TrampolineForward { .. } => "TrampolineForward",
		PendingHTLCRouting::Receive { .. } => "Receive",
		PendingHTLCRouting::ReceiveKeysend { .. } => "ReceiveKeysend",
	}
}
const REGION_NAMES: [&str; 5] = ["version", "ephemeral_key", "hop_data", "hmac", "payment_hash"];
const REGION_BITS: [usize; 5] = [8, 264, HOP_DATA_LEN * 8, 256, 256];

struct Expect {
	update: Option<NetworkUpdate>,
	scid: Option<u64>,
	perm: bool,
	blinded: bool,
}
/// What the origin must learn from failure `code`/`data` authenticated by hop k of `path`.
fn expect_failure(path: &Path, k: usize, code: u16, data: &[u8]) -> Expect {
	let n = path.hops.len();
	let nblinded = path.blinded_tail.as_ref().map_or(0, |b| b.hops.len());
	if k + 1 == n && nblinded > 1 {
		return Expect { update: None, scid: None, perm: false, blinded: true };
	}
	let is_final = k + 1 == n;
	let hop = &path.hops[k];
	let failing = if is_final { hop } else { &path.hops[k + 1] };
	let perm = code & PERM != 0;
	let recipient_failure = code == (PERM | 15) || code == 18 || code == 19 || code == 23;
	let payment_failed = recipient_failure && is_final;
	let mut update = None;
	let mut scid = None;
	if code & BADONION != 0 {
		update = Some(NetworkUpdate::ChannelFailure { short_channel_id: failing.short_channel_id, is_permanent: true });
	} else if code & NODE != 0 {
		update = Some(NetworkUpdate::NodeFailure { node_id: hop.pubkey, is_permanent: perm });
		scid = Some(hop.short_channel_id);
	} else if perm {
		if !payment_failed {
			update = Some(NetworkUpdate::ChannelFailure { short_channel_id: failing.short_channel_id, is_permanent: true });
			scid = Some(failing.short_channel_id);
		}
	} else if code & UPDATE != 0 {
		let dfs = match code & !UPDATE {
			11 | 12 => 8,
			13 => 4,
			20 => 2,
			_ => 0,
		};
		let well_formed = data.len() >= dfs + 2 && {
			let l = u16::from_be_bytes([data[dfs], data[dfs + 1]]) as usize;
			data.len() >= dfs + 2 + l
		};
		if well_formed {
			update = Some(NetworkUpdate::ChannelFailure { short_channel_id: failing.short_channel_id, is_permanent: false });
			scid = Some(failing.short_channel_id);
		} else {
			update = Some(NetworkUpdate::NodeFailure { node_id: hop.pubkey, is_permanent: true });
			scid = Some(hop.short_channel_id);
		}
	} else if payment_failed {
		if code == 18 || code == 19 {
			scid = Some(hop.short_channel_id);
		}
	} else {
		update = Some(NetworkUpdate::NodeFailure { node_id: hop.pubkey, is_permanent: true });
		scid = Some(hop.short_channel_id);
	}
	Expect { update, scid, perm: perm && is_final, blinded: false }
}

const KNOWN_CODES: [u16; 25] = [
	NODE | 2,
	PERM | NODE | 2,
	PERM | NODE | 3,
	BADONION | PERM | 4,
	BADONION | PERM | 5,
	BADONION | PERM | 6,
	UPDATE | 7,
	PERM | 8,
	PERM | 9,
	PERM | 10,
	UPDATE | 11,
	UPDATE | 12,
	UPDATE | 13,
	UPDATE | 14,
	PERM | 15,
	18,
	19,
	UPDATE | 20,
	21,
	PERM | 22,
	23,
	BADONION | PERM | 24,
	NODE | 25,
	NODE | 26,
	PERM | 27,
];

/// A failure packet as it travels back (`update_fail_htlc` reason + attribution data TLV).
#[derive(Clone)]
struct Fail {
	data: Vec<u8>,
	attr: Option<AttributionData>,
}
/// Through the wire format (the `reason` field is not public), as a peer would deliver it.
fn to_wire(f: &Fail) -> UpdateFailHTLC {
	let mut b = vec![0u8; 40];
	b.extend_from_slice(&(f.data.len() as u16).to_be_bytes());
	b.extend_from_slice(&f.data);
	if let Some(a) = &f.attr {
		let e = a.encode();
		b.push(1);
		b.extend_from_slice(&BigSize(e.len() as u64).encode());
		b.extend_from_slice(&e);
	}
	LengthReadable::read_from_fixed_length_buffer(&mut &b[..]).expect("update_fail_htlc decodes")
}

fn run_case(ctx: &mut Ctx, idx: u64, rng: &mut Rng) {
	let w = ctx.w;
	let (case, bp) = match gen_case(w, rng, ctx.trampoline, ctx.tramp_keysend) {
		Some(x) => x,
		None => {
			ctx.rep.count("blinded_path_construction_refused");
			return;
		},
	};
	let c = &case;
	let run = Run { idx, c };
	let n = c.hops.len();
	let path = build_path(w, c, bp.as_ref());
	let nblinded = path.blinded_tail.as_ref().map_or(0, |b| b.hops.len());
	let modelled = model_len(c, &path);
	let over_limit = c.limit == "amount_over" || c.limit == "expiry_over";
	let fits = modelled <= HOP_DATA_LEN && !over_limit;
	let session = SecretKey::from_slice(&c.session).unwrap();
	let mut recipient = match c.secret {
		Some(s) => RecipientOnionFields::secret_only(PaymentSecret(s), c.total_msat),
		None => RecipientOnionFields::spontaneous_empty(c.total_msat),
	};
	recipient.payment_metadata = c.metadata.clone();
	match RecipientCustomTlvs::new(c.custom.clone()) {
		Ok(t) => recipient = recipient.with_custom_tlvs(t),
		Err(()) => {
			ctx.rep.inconclusive("generator produced custom TLVs the library refuses");
			return;
		},
	}
	let preimage = c.preimage.map(PaymentPreimage);
	ctx.rep.count("onions_requested");
	ctx.rep.max("max_hops_requested", (n + nblinded.saturating_sub(1)) as u64);
	let built = vcore::guarded(|| create_payment_onion(&w.secp, &path, &session, &recipient, c.height, &PaymentHash(c.hash), &preimage, None, c.prng));
	let shape = Fnv::new().u64(n as u64).u64(nblinded as u64).u64(modelled as u64 / 64).u64(c.preimage.is_some() as u64).u64(c.metadata.as_ref().map_or(0, |m| 1 + m.len() as u64 / 64)).u64(c.custom.len() as u64).u64(fits as u64).get();
	ctx.rep.distinct(shape);
	// ---- R1
	let (packet, first_msat, first_cltv) = match built {
		Err(p) => {
			ctx.violate(&run, "R1-fit", &format!("building the onion panicked: {}", vcore::canon(&p)), format!("modelled {} bytes, {} hops: {}", modelled, n, p));
			return;
		},
		Ok(Err(e)) => {
			if fits {
				ctx.violate(&run, "R1-fit", "a route that fits in the packet was refused", format!("modelled {} bytes, {} hops (+{} blinded): {:?}", modelled, n, nblinded, e));
			} else {
				if over_limit {
					ctx.rep.count("over_limit_routes_refused");
				}
				ctx.rep.count("oversize_routes_refused");
				if modelled == HOP_DATA_LEN + 1 {
					ctx.rep.count("oversize_by_one_refused");
				}
			}
			return;
		},
		Ok(Ok(r)) => {
			if !fits {
				ctx.violate(&run, "R1-fit", "a route that does not fit in the packet was accepted", format!("modelled {} bytes, {} hops (+{} blinded)", modelled, n, nblinded));
				return;
			}
			r
		},
	};
	ctx.rep.count("onions_built");
	ctx.rep.max("max_hops_built", (n + nblinded.saturating_sub(1)) as u64);
	ctx.rep.max("max_modelled_len", modelled as u64);
	if modelled == HOP_DATA_LEN {
		ctx.rep.count("exact_fit_built");
	}
	if c.limit != "" {
		ctx.rep.count("at_limit_routes_built");
	}
	// ---- R2
	let tail_value = c.blind.as_ref().map_or(0, |b| b.final_value);
	let in_amt = |i: usize| -> u64 { c.hops[i..].iter().map(|h| h.fee).sum::<u64>() + tail_value };
	let in_cltv = |i: usize| -> u32 { c.height + c.hops[i..].iter().map(|h| h.delta).sum::<u32>() };
	if first_msat != in_amt(0) || first_cltv != in_cltv(0) {
		ctx.violate(&run, "R2-first-hop", "first-hop amount/expiry differ from the route's sums", format!("got ({}, {}), route says ({}, {})", first_msat, first_cltv, in_amt(0), in_cltv(0)));
	}
	if packet.encode().len() != PACKET_LEN || packet.version != 0 {
		ctx.violate(&run, "R4-size", "the sender's packet is not a version-0 packet of the fixed size", format!("{} bytes, version {}", packet.encode().len(), packet.version));
		return;
	}

	// ---- forward pass
	let total_hops = n + nblinded.saturating_sub(1);
	let is_tramp = c.blind.as_ref().map_or(false, |b| b.tramp.is_some());
	let mut secrets: Vec<[u8; 32]> = Vec::new();
	let mut pkt = packet;
	let mut amount = in_amt(0);
	let mut cltv = in_cltv(0);
	let mut blinding: Option<PublicKey> = None;
	let mut completed = false;
	let sweep_hop: Option<usize> = if ctx.sweep_every > 0 && rng.chance(1, ctx.sweep_every) { Some(rng.below(total_hops as u64) as usize) } else { None };
	for i in 0..total_hops {
		let last = i + 1 == total_hops;
		let in_blinded_part = nblinded > 0 && i + 1 >= n; // intro node and everything after it
		let node_idx = if i < n {
			c.hops[i].node
		} else {
			let b = c.blind.as_ref().unwrap();
			let j = i + 1 - n;
			if j < b.fwd.len() {
				b.fwd[j].node
			} else {
				b.payee
			}
		};
		let node = &w.nodes[node_idx];
		// what this hop must be told
		let (exp_scid, exp_amt, exp_cltv): (Option<u64>, u64, u32) = if !in_blinded_part {
			if last {
				(None, c.hops[i].fee, c.height + c.hops[i].delta)
			} else {
				(Some(c.hops[i + 1].scid), in_amt(i + 1), in_cltv(i + 1))
			}
		} else {
			let b = c.blind.as_ref().unwrap();
			let j = i + 1 - n;
			if last {
				(None, b.final_value, c.height + b.excess)
			} else {
				(Some(b.fwd[j].scid), 0, cltv - b.fwd[j].delta as u32)
			}
		};
		let height = if last { final_height(rng, cltv) } else { forward_height(rng, cltv, exp_cltv) };
		let height = match height {
			Some(h) => h,
			None => {
				ctx.rep.inconclusive("generator produced expiries no block height satisfies");
				return;
			},
		};
		let msg = add_htlc(c, rng, amount, cltv, pkt.clone(), blinding);
		ctx.rep.count("hops_peeled");
		let res = vcore::guarded(|| peel_payment_onion(&msg, &node.km, NullLogger, &w.secp, height, false));
		let info: PendingHTLCInfo = match res {
			Err(p) => {
				ctx.violate(&run, "R3-forward", &format!("peeling a well-formed onion panicked: {}", vcore::canon(&p)), format!("hop {} of {}: {}", i, total_hops, p));
				return;
			},
			Ok(Err(e)) if last && is_tramp && c.preimage.is_some() => {
				ctx.violate(&run, "R5-final", "a keysend preimage sent over a trampoline tail is not decodable by the recipient", format!("{:?} {}; hop {} of {}", e.reason, e.msg, i, total_hops));
				return;
			},
			Ok(Err(e)) => {
				ctx.violate(&run, if in_blinded_part && nblinded > 1 { "R10-blinded" } else if last { "R5-final" } else { "R3-forward" }, &format!("a hop could not peel its layer: {:?} {}", e.reason, e.msg), format!("hop {} of {} (blinded part: {}), in amount {} expiry {} height {}", i, total_hops, in_blinded_part, amount, cltv, height));
				return;
			},
			Ok(Ok(info)) => info,
		};
		secrets.push(info.incoming_shared_secret);
		if info.payment_hash.0 != c.hash || info.incoming_amt_msat != Some(amount) {
			ctx.violate(&run, "R3-forward", "the peeled HTLC info does not describe the incoming HTLC", format!("hop {}", i));
		}

		// ---- R6: single-bit corruption of what this hop received
		let mut flips: Vec<(usize, usize)> = Vec::new();
		for f in 0..ctx.flips_per_hop {
			let region = if f < 5 { f as usize } else { rng.weighted(&[1, 6, 10, 5, 5]) };
			let bit = if region == 2 {
				match rng.below(3) {
					0 => rng.below(64 * 8) as usize,
					1 => HOP_DATA_LEN * 8 - 1 - rng.below(100 * 8) as usize,
					_ => rng.below(HOP_DATA_LEN as u64 * 8) as usize,
				}
			} else {
				rng.below(REGION_BITS[region] as u64) as usize
			};
			flips.push((region, bit));
		}
		if sweep_hop == Some(i) {
			// every bit of version, ephemeral key, hmac and payment hash; a stride through hop_data
			for region in [0usize, 1, 3, 4] {
				for bit in 0..REGION_BITS[region] {
					flips.push((region, bit));
				}
			}
			let stride = 41;
			let mut bit = rng.below(stride) as usize;
			while bit < REGION_BITS[2] {
				flips.push((2, bit));
				bit += stride as usize;
			}
			ctx.rep.count("full_bit_sweeps");
		}
		for (region, bit) in flips {
			let bad = flip_msg(&msg, region, bit);
			ctx.rep.count("bitflips_checked");
			ctx.rep.count(&format!("bitflips_{}", REGION_NAMES[region]));
			match vcore::guarded(|| peel_payment_onion(&bad, &node.km, NullLogger, &w.secp, height, false)) {
				Ok(Err(e)) => {
					ctx.rep.set_insert("tamper_reject_reasons", format!("{:?}", e.reason));
				},
				Ok(Ok(_)) => {
					ctx.violate(&run, "R6-tamper", &format!("a packet with one flipped bit in {} was accepted", REGION_NAMES[region]), format!("hop {} of {}, bit {}", i, total_hops, bit));
					return;
				},
				Err(p) => {
					ctx.violate(&run, "R6-tamper", &format!("a packet with one flipped bit in {} made the hop panic: {}", REGION_NAMES[region], vcore::canon(&p)), format!("hop {} of {}, bit {}: {}", i, total_hops, bit, p));
					return;
				},
			}
		}

		if !last {
			match info.routing {
				PendingHTLCRouting::Forward { onion_packet, short_channel_id, blinded, incoming_cltv_expiry, .. } => {
					ctx.rep.count("forward_instructions_checked");
					if Some(short_channel_id) != exp_scid || info.outgoing_cltv_value != exp_cltv || incoming_cltv_expiry != Some(cltv) {
						ctx.violate(&run, if in_blinded_part { "R10-blinded" } else { "R3-forward" }, "a hop peeled a next channel / expiry other than the one addressed to it", format!("hop {} of {}: scid {:#x} cltv {} expected {:x?} {}", i, total_hops, short_channel_id, info.outgoing_cltv_value, exp_scid, exp_cltv));
						return;
					}
					if !in_blinded_part {
						if info.outgoing_amt_msat != exp_amt {
							ctx.violate(&run, "R3-forward", "a hop peeled an amount to forward other than the one addressed to it", format!("hop {} of {}: {} expected {}", i, total_hops, info.outgoing_amt_msat, exp_amt));
							return;
						}
						if blinded.is_some() {
							ctx.violate(&run, "R3-forward", "an unblinded hop decoded a blinded forward", format!("hop {}", i));
							return;
						}
					} else {
						let b = c.blind.as_ref().unwrap();
						let j = i + 1 - n;
						let f = &b.fwd[j];
						ctx.rep.count("blinded_forwards_checked");
						let out = info.outgoing_amt_msat;
						if out.checked_add(floor_fee(out, f.base, f.prop)).map_or(true, |t| t > amount) || (!b.payinfo_fee && out < b.need[j + 1]) {
							ctx.violate(&run, "R10-blinded", "a blinded hop forwards an amount that does not leave its fee or starves the recipient", format!("hop {}: in {} out {} base {} prop {} needed downstream {}", i, amount, out, f.base, f.prop, b.need[j + 1]));
							return;
						}
						if b.payinfo_fee {
							ctx.rep.count("blinded_forwards_at_advertised_fee");
						}
						let want_failure = if j == 0 { BlindedFailure::FromIntroductionNode } else { BlindedFailure::FromBlindedNode };
						match blinded {
							Some(bf) if bf.failure == want_failure && bf.next_blinding_override.is_none() => {
								// what the forwarding node hands to its peer as the next blinding point
								let ss = node.km.ecdh(Recipient::Node, &bf.inbound_blinding_point, None).unwrap().secret_bytes();
								let mut sha = Sha256::engine();
								sha.input(&bf.inbound_blinding_point.serialize());
								sha.input(&ss);
								let factor = Sha256::from_engine(sha).to_byte_array();
								blinding = bf.inbound_blinding_point.mul_tweak(&w.secp, &Scalar::from_be_bytes(factor).unwrap()).ok();
							},
							other => {
								ctx.violate(&run, "R10-blinded", "a hop inside the blinded tail did not decode a blinded forward of the right kind", format!("hop {}: {:?}", i, other.map(|b| b.failure)));
								return;
							},
						}
					}
					// ---- R4
					let ser = onion_packet.encode();
					if ser.len() != PACKET_LEN || onion_packet.version != 0 || onion_packet.public_key.is_err() {
						ctx.violate(&run, "R4-size", "the packet for the next hop changed size / version / lost its key", format!("hop {}: {} bytes version {} key ok {}", i, ser.len(), onion_packet.version, onion_packet.public_key.is_ok()));
						return;
					}
					ctx.rep.count("next_packets_checked");
					amount = info.outgoing_amt_msat;
					cltv = info.outgoing_cltv_value;
					pkt = onion_packet;
				},
				other => {
					ctx.violate(&run, "R3-forward", "an intermediate hop did not decode a forward", format!("hop {} of {}: {}", i, total_hops, routing_name(&other)));
					return;
				},
			}
		} else {
			// ---- R5
			if info.outgoing_amt_msat != exp_amt || info.outgoing_cltv_value != exp_cltv {
				ctx.violate(&run, "R5-final", "the final hop decoded another amount / expiry than the sender intended", format!("got ({}, {}) expected ({}, {})", info.outgoing_amt_msat, info.outgoing_cltv_value, exp_amt, exp_cltv));
				return;
			}
			let exp_data = match (&c.blind, c.secret) {
				(Some(b), _) => Some((b.secret, c.total_msat)),
				(None, Some(s)) => Some((s, c.total_msat)),
				(None, None) => None,
			};
			let exp_meta = if c.blind.is_some() { None } else { c.metadata.clone() };
			let exp_blinded_err = nblinded > 1;
			let (data, meta, tlvs, pre, ctxt, blinded_err, incoming) = match info.routing {
				PendingHTLCRouting::Receive { payment_data, payment_metadata, payment_context, incoming_cltv_expiry, custom_tlvs, requires_blinded_error, phantom_shared_secret, trampoline_shared_secret } => {
					if phantom_shared_secret.is_some() || trampoline_shared_secret.is_some() != is_tramp {
						ctx.violate(&run, "R5-final", "a receive was decoded as phantom / with the wrong trampoline status", format!("trampoline secret present: {}", trampoline_shared_secret.is_some()));
						return;
					}
					if is_tramp {
						ctx.rep.count("trampoline_receives_checked");
					}
					(Some((payment_data.payment_secret.0, payment_data.total_msat)), payment_metadata, custom_tlvs, None, payment_context, requires_blinded_error, incoming_cltv_expiry)
				},
				PendingHTLCRouting::ReceiveKeysend { payment_data, payment_preimage, payment_metadata, incoming_cltv_expiry, custom_tlvs, requires_blinded_error, payment_context, .. } => (payment_data.map(|d| (d.payment_secret.0, d.total_msat)), payment_metadata, custom_tlvs, Some(payment_preimage.0), payment_context, requires_blinded_error, incoming_cltv_expiry),
				other => {
					ctx.violate(&run, "R5-final", "the last hop did not recognise itself as final", routing_name(&other).to_string());
					return;
				},
			};
			ctx.rep.count("final_payloads_checked");
			if pre.is_some() {
				ctx.rep.count("keysend_receives_checked");
			}
			let mut wrong = Vec::new();
			if data != exp_data {
				wrong.push("payment secret/total");
			}
			if meta != exp_meta {
				wrong.push("payment metadata");
			}
			if tlvs != c.custom {
				wrong.push("custom TLVs");
			}
			if pre != c.preimage {
				wrong.push("keysend preimage");
			}
			if ctxt.is_some() != c.blind.is_some() {
				wrong.push("payment context");
			}
			if blinded_err != exp_blinded_err {
				wrong.push("blinded-error flag");
			}
			if incoming != cltv {
				wrong.push("incoming expiry");
			}
			if !wrong.is_empty() {
				ctx.violate(&run, "R5-final", &format!("the final hop decoded recipient fields other than those sent: {}", wrong.join(", ")), format!("{} hops", total_hops));
				return;
			}
			if let Some(b) = &c.blind {
				if amount < b.final_value {
					ctx.violate(&run, "R10-blinded", "the recipient of a blinded path received less than the final value", format!("{} < {}", amount, b.final_value));
				}
				ctx.rep.count("blinded_receives_checked");
			}
			completed = true;
		}
	}
	if !completed {
		return;
	}
	ctx.rep.count("routes_fully_peeled");
	ctx.rep.max("max_hops_fully_peeled", total_hops as u64);
	if ctx.rep.samples.len() < ctx.rep.max_samples && rng.chance(1, 40) {
		ctx.rep.sample(Json::obj().set("case", idx).set("hops", n).set("blinded_hops", nblinded).set("hop_data_bytes_used", modelled).set("input", case_json(c)));
	}

	// ---- failures
	for _ in 0..ctx.fail_rounds {
		fail_round(ctx, &run, rng, &path, &session, &secrets);
	}
	// ---- fulfil-side attribution data (hold times of a settled HTLC)
	fulfil_round(ctx, &run, rng, &path, &session, &secrets);
}

/// R8f: hold times carried back with a fulfilment. The last hop that speaks attribution data (usually the
/// final one) starts the data, every hop before it adds its own hold time; the origin must report the hold
/// times of the first min(that many, 20) hops exactly as set.
fn fulfil_round(ctx: &mut Ctx, run: &Run, rng: &mut Rng, path: &Path, session: &SecretKey, secrets: &[[u8; 32]]) {
	let w = ctx.w;
	let n = path.hops.len().min(secrets.len());
	if n == 0 {
		return;
	}
	// hops after `start` do not provide attribution data (or the chain was cut by a legacy hop)
	let start = if rng.chance(3, 4) { n - 1 } else { rng.below(n as u64) as usize };
	let holds: Vec<u32> = (0..=start).map(|_| rng.next() as u32 >> rng.below(32)).collect();
	let built = vcore::guarded(|| {
		let mut a: Option<AttributionData> = None;
		for j in (0..=start).rev() {
			a = Some(lightning::ln::onion_utils::verif_process_fulfill_attribution_data(a, &secrets[j], holds[j]));
		}
		a.unwrap()
	});
	let a = match built {
		Ok(a) => a,
		Err(p) => {
			ctx.violate(run, "R8-holdtimes", &format!("building fulfil attribution data panicked: {}", vcore::canon(&p)), p);
			return;
		},
	};
	ctx.rep.count("fulfil_hold_time_reports_checked");
	let want = (start + 1).min(MAX_ATTR_HOPS);
	match vcore::guarded(|| lightning::ln::onion_utils::verif_decode_fulfill_attribution_data(&w.secp, &NullLogger, path, session, a)) {
		Ok(got) => {
			ctx.rep.max("max_fulfil_hold_times_reported", got.len() as u64);
			if got != holds[..want] {
				ctx.violate(run, "R8-holdtimes", "the origin does not report the hold times the hops attached to a fulfilment", format!("{} hops, attribution starts at hop {}: expected {:?} got {:?}", path.hops.len(), start, &holds[..want], got));
			}
		},
		Err(p) => ctx.violate(run, "R8-holdtimes", &format!("decoding fulfil attribution data panicked: {}", vcore::canon(&p)), p),
	}
}

fn fail_round(ctx: &mut Ctx, run: &Run, rng: &mut Rng, path: &Path, session: &SecretKey, secrets: &[[u8; 32]]) {
	let w = ctx.w;
	// with a trampoline tail the last unblinded hop answers with a doubly wrapped failure (not modelled here)
	let is_tramp = path.blinded_tail.as_ref().map_or(false, |b| !b.trampoline_hops.is_empty());
	let n = if is_tramp { path.hops.len() - 1 } else { path.hops.len() };
	if n == 0 {
		return;
	}
	// failing position among the unblinded hops (the introduction node stands for the blinded tail)
	let k = match rng.below(5) {
		0 => 0,
		1 => n - 1,
		2 => (MAX_ATTR_HOPS - 1).min(n - 1),
		3 => MAX_ATTR_HOPS.min(n - 1),
		_ => rng.below(n as u64) as usize,
	};
	let nblinded = path.blinded_tail.as_ref().map_or(0, |b| b.hops.len());
	let mut code = if rng.chance(3, 4) { *rng.pick(&KNOWN_CODES) } else { (rng.next() as u16 & 0xf0ff) | if rng.chance(1, 2) { 0 } else { (rng.next() as u16) & 0x0f00 } };
	// 64529 is the longest failure data for which the node's own update_fail_htlc (with attribution data) still fits a message
	let dlen = if rng.chance(1, 40) { *rng.pick(&[64_529usize, 64_528, 60_000]) } else { *rng.pick(&[0usize, 0, 1, 2, 3, 4, 9, 10, 12, 32, 33, 100, 252, 253, 254, 255, 256, 257, 300, 1000, 5000]) };
	let mut data = rng.vec(dlen);
	if code & UPDATE != 0 && rng.chance(2, 3) {
		// a channel_update shaped payload: debug field, length, update
		let dfs = match code & !UPDATE {
			11 | 12 => 8,
			13 => 4,
			20 => 2,
			_ => 0,
		};
		let ulen = *rng.pick(&[0usize, 1, 130, 138]);
		data = rng.vec(dfs);
		data.extend_from_slice(&(ulen as u16).to_be_bytes());
		let short = rng.chance(1, 4) && ulen > 0;
		data.extend_from_slice(&rng.vec(if short { ulen - 1 } else { ulen }));
	}
	if k + 1 == n && nblinded > 1 {
		code = BADONION | PERM | 24;
		data = vec![0; 32];
	}
	// hold times: non-increasing towards the failing hop, or arbitrary
	let mut holds: Vec<u32> = (0..=k).map(|_| rng.next() as u32 >> rng.below(32)).collect();
	if rng.chance(2, 3) {
		holds.sort_by(|a, b| b.cmp(a));
	}
	// a hop (possibly the first one) that relays only the legacy part and drops attribution data
	let legacy_at: Option<usize> = if rng.chance(1, 5) { Some(rng.below(k as u64 + 1) as usize) } else { None };
	// corruption in flight: after hop j has processed the packet (j == 0: between first hop and origin)
	let corrupt: Option<(usize, bool)> = if legacy_at.is_none() && rng.chance(1, 3) { Some((rng.below(k as u64 + 1) as usize, rng.chance(1, 2))) } else { None };

	let exp = expect_failure(path, k, code, &data);
	ctx.rep.count("failures_built");
	ctx.rep.set_insert("failure_codes", format!("{:#06x}", code));
	let secret_of = |i: usize| -> &[u8; 32] { &secrets[i] };
	let built = vcore::guarded(|| {
		let p = verif_build_failure_packet(secret_of(k), code, &data, holds[k]);
		let mut msg = Fail { data: p.data, attr: p.attribution_data };
		let mut corrupted_attr = false;
		let mut legacy_applied = false;
		for j in (0..=k).rev() {
			if j < k {
				let mut p = to_wire(&msg).into();
				verif_wrap_failure_packet(&mut p, secret_of(j), holds[j]);
				msg = Fail { data: p.data, attr: p.attribution_data };
			}
			if legacy_at == Some(j) {
				// hop j does not speak attribution data: it relays the legacy 256-byte style packet only
				msg.attr = None;
				legacy_applied = true;
			}
			if let Some((cj, in_attr)) = corrupt {
				if cj == j {
					match (&msg.attr, in_attr) {
						(Some(a), true) => {
							let mut bytes = a.encode();
							let bit = rng.below(bytes.len() as u64 * 8) as usize;
							bytes[bit / 8] ^= 1 << (bit % 8);
							msg.attr = Some(AttributionData::read(&mut &bytes[..]).unwrap());
							corrupted_attr = true;
						},
						_ => {
							let bit = rng.below(msg.data.len() as u64 * 8) as usize;
							msg.data[bit / 8] ^= 1 << (bit % 8);
						},
					}
				}
			}
		}
		(msg, corrupted_attr, legacy_applied)
	});
	let (msg, corrupted_attr, legacy_applied) = match built {
		Ok(x) => x,
		Err(p) => {
			ctx.violate(run, "R7-attribute", &format!("building / wrapping a failure packet panicked: {}", vcore::canon(&p)), format!("hop {} code {:#x} data {} bytes: {}", k, code, data.len(), p));
			return;
		},
	};
	let had_attr = msg.attr.is_some();
	if legacy_applied {
		ctx.rep.count("legacy_relays_checked");
	}
	ctx.rep.max("max_failure_packet_len", msg.data.len() as u64);
	let decoded: VerifDecodedFailure = match vcore::guarded(|| verif_decode_failure_packet(&w.secp, &NullLogger, path, session, to_wire(&msg).into())) {
		Ok(d) => d,
		Err(p) => {
			ctx.violate(run, if corrupt.is_some() { "R9-corrupt" } else { "R7-attribute" }, &format!("decoding a failure packet panicked: {}", vcore::canon(&p)), format!("hop {} code {:#x} data {} bytes corrupt {:?}: {}", k, code, data.len(), corrupt, p));
			return;
		},
	};
	ctx.rep.count("failures_decoded");
	let describe = |d: &VerifDecodedFailure| format!("update {:?} scid {:x?} permanent {} within_blinded {} hold_times {:?}", d.network_update, d.short_channel_id, d.payment_failed_permanently, d.failed_within_blinded_path, d.hold_times);
	let ctxline = format!("failing hop {} of {}, code {:#06x}, data {} bytes, legacy at {:?}, corrupt {:?}", k, n, code, data.len(), legacy_at, corrupt);
	// how many hold times must be reported
	let blinded_break = exp.blinded;
	let clean_holds = if blinded_break { k.min(MAX_ATTR_HOPS) } else { (k + 1).min(MAX_ATTR_HOPS) };
	let data_corrupted = corrupt.is_some() && !corrupted_attr;
	if data_corrupted {
		// ---- R9 (message bytes corrupted after hop cj)
		let cj = corrupt.unwrap().0;
		ctx.rep.count("corrupted_failures_checked");
		// With a multi-hop blinded tail the origin cannot tell an unreadable failure from one raised inside the tail.
		let multi_blinded = nblinded > 1;
		if decoded.network_update.is_some() || decoded.short_channel_id.is_some() || (decoded.failed_within_blinded_path && !multi_blinded) {
			ctx.violate(run, "R9-corrupt", "a corrupted failure packet was blamed on a specific hop", format!("{}: {}", ctxline, describe(&decoded)));
			return;
		}
		let want = if had_attr { cj.min(clean_holds) } else { 0 };
		if decoded.hold_times[..] != holds[..want] {
			ctx.violate(run, "R9-corrupt", "the hold times reported for a corrupted failure are not exactly those of the hops before the corruption", format!("{}: expected {:?}; {}", ctxline, &holds[..want], describe(&decoded)));
		}
		return;
	}
	// ---- R7
	ctx.rep.count("failure_attributions_checked");
	if exp.blinded {
		ctx.rep.count("blinded_tail_failures_checked");
	}
	let got_update = decoded.network_update.clone();
	let want_update = exp.update.as_ref().map(|u| format!("{:?}", u));
	if got_update != want_update || decoded.short_channel_id != exp.scid || decoded.payment_failed_permanently != exp.perm || decoded.failed_within_blinded_path != exp.blinded {
		ctx.violate(run, "R7-attribute", "the origin attributes a failure to another hop / with other consequences than its code implies", format!("{}: expected update {:?} scid {:x?} permanent {} within_blinded {}; {}", ctxline, want_update, exp.scid, exp.perm, exp.blinded, describe(&decoded)));
		return;
	}
	// ---- R8
	if !had_attr {
		ctx.rep.count("failures_without_attribution_data");
		if !decoded.hold_times.is_empty() {
			ctx.violate(run, "R8-holdtimes", "hold times reported without attribution data", format!("{}: {}", ctxline, describe(&decoded)));
		}
		return;
	}
	ctx.rep.count("hold_time_reports_checked");
	if corrupted_attr {
		let cj = corrupt.unwrap().0;
		let least = cj.min(clean_holds).min(if legacy_applied { legacy_at.unwrap() } else { usize::MAX });
		let got = &decoded.hold_times;
		let lim = if legacy_applied { legacy_at.unwrap().min(clean_holds) } else { clean_holds };
		if got.len() < least || got.len() > lim || got[..] != holds[..got.len()] {
			ctx.violate(run, "R9-corrupt", "corrupted attribution data made the origin report hold times the hops did not set", format!("{}: expected a prefix of {:?} with at least {} entries; {}", ctxline, &holds[..lim], least, describe(&decoded)));
		}
		ctx.rep.count("corrupted_attribution_checked");
		return;
	}
	let want = if legacy_applied { legacy_at.unwrap().min(clean_holds) } else { clean_holds };
	if decoded.hold_times.len() > want && legacy_applied && decoded.hold_times[..want] == holds[..want] {
		ctx.rep.count("attribution_hmac_collisions");
		return;
	}
	if decoded.hold_times[..] != holds[..want] {
		ctx.violate(run, "R8-holdtimes", "the origin does not report the hold times the hops set", format!("{}: expected {:?}; {}", ctxline, &holds[..want], describe(&decoded)));
	} else {
		ctx.rep.add("hold_times_matched", want as u64);
		ctx.rep.max("max_hold_times_reported", want as u64);
	}
}

fn main() {
	vcore::install_quiet_panic_hook();
	let args = Args::parse();
	let mut rep = args.report();
	rep.max_samples = 6;
	let cases = args.num("cases", 32_000, 1_600_000);
	let flips_per_hop = args.num("flips", 12, 12);
	let fail_rounds = args.num("fails", 8, 8);
	let sweep_every = args.num("sweep_every", 16, 8);
	let world = World::new();
	{
		let mut ctx = Ctx { args: &args, rep: &mut rep, w: &world, flips_per_hop, fail_rounds, sweep_every, trampoline: args.num("trampoline", 1, 1) != 0, tramp_keysend: args.num("tramp_keysend", 0, 0) != 0 };
		let n = args.nshards.max(1);
		let mut i = args.shard;
		let only = args.num("only", u64::MAX, u64::MAX); // replay a single case index
		if only != u64::MAX {
			let mut rng = Rng::derive(args.seed, only, 0xC14);
			run_case(&mut ctx, only, &mut rng);
			ctx.rep.evaluations += 1;
			i = cases;
		}
		while i < cases {
			let mut rng = Rng::derive(args.seed, i, 0xC14);
			run_case(&mut ctx, i, &mut rng);
			ctx.rep.evaluations += 1;
			i += n;
		}
	}
	rep.write_to(&args.out);
}
