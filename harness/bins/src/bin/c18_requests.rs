//! C18 – payment requests round-trip and cannot be forged or altered.
//!
//! Builders are driven over their parameter space (boundary values first); every built object goes
//! through independent oracles:
//!
//! BOLT 11 (`lightning_invoice`)
//!  B11-R0  accessors of the built invoice equal the builder inputs
//!  B11-R1  `to_string` -> `parse` gives an equal invoice with equal accessors, re-encoding is stable;
//!          the signed hash equals SHA256(hrp || data) computed here from the string, and the key
//!          recovered here from that hash and the signature is the signer's key
//!  B11-R1u inputs the builder accepts but the wire format cannot carry (own signatures, rare)
//!  B11-R2  every single-character change of the string fails to parse
//!  B11-R3  with the bech32 checksum recomputed (own polymod): single 5-bit symbol changes, amount /
//!          currency / timestamp edits, field deletion / duplication / swap / insertion => parse error,
//!          OR exactly the signed content, OR a recovery-identified payee key different from the
//!          original key. Never the original key on different content.
//! BOLT 12 (`lightning::offers`)
//!  B12-R1  offer / refund (string and bytes), invoice request / invoice / static invoice (bytes)
//!          parse back to an equal object with equal accessors; accessors equal the builder inputs
//!  B12-S1  the signature of every signed object verifies under a merkle root computed here
//!  B12-R4  every single bit of a signed invoice request / invoice / static invoice flipped => error
//!  B12-R5  unknown even TLV => error; unknown odd TLV in the allowed ranges is kept, travels into
//!          the derived request and is covered by the signature (re-signed with own merkle code)
//!  B12-M1  metadata verification succeeds for what the originator created (and returns its ids)
//!  B12-M2  ... and is refused under another ExpandedKey / nonce, for objects that were not derived,
//!          for a request built against an altered, re-serialized offer, for an invoice that answers
//!          an altered request / refund (re-signed by the issuer)
//! Totality
//!  T1      arbitrary / structured / mutated strings and byte strings through every parser never panic
use bins::sk;
use bitcoin::constants::ChainHash;
use bitcoin::hashes::{sha256, Hash, HashEngine};
use bitcoin::secp256k1::ecdsa::{RecoverableSignature, RecoveryId};
use bitcoin::secp256k1::{All, Keypair, Message, PublicKey, Secp256k1, SecretKey};
use bitcoin::Network;
use lightning::blinded_path::message::BlindedMessagePath;
use lightning::blinded_path::payment::{BlindedPayInfo, BlindedPaymentPath};
use lightning::blinded_path::BlindedHop;
use lightning::ln::channelmanager::PaymentId;
use lightning::ln::inbound_payment::ExpandedKey;
use lightning::offers::invoice::{Bolt12Invoice, UnsignedBolt12Invoice};
use lightning::offers::invoice_request::{InvoiceRequest, InvoiceRequestVerifiedFromOffer, UnsignedInvoiceRequest};
use lightning::offers::nonce::Nonce;
use lightning::offers::offer::{Amount, Offer, OfferBuilder, Quantity};
use lightning::offers::refund::{Refund, RefundBuilder};
use lightning::offers::static_invoice::{StaticInvoice, StaticInvoiceBuilder};
use lightning::sign::EntropySource;
use lightning::types::features::BlindedHopFeatures;
use lightning::types::payment::PaymentHash;
use lightning::util::ser::{Readable, Writeable};
use lightning_invoice::{
	Bolt11Invoice, Bolt11InvoiceDescriptionRef, Currency, Fallback, InvoiceBuilder, PaymentSecret, RouteHint, RouteHintHop, RoutingFees, SignedRawBolt11Invoice, MAX_LENGTH, MAX_TIMESTAMP,
};
use std::str::FromStr;
use std::time::Duration;
use vcore::{Args, Fnv, Json, Report, Rng};

const MAX_VALUE_MSAT: u64 = 21_000_000 * 100_000_000 * 1000;

/// `unrep=0` switches off the (rare) inputs that the builders accept although the wire formats cannot
/// carry them (rule ids *-R1u-unrepresentable).
static UNREP: std::sync::atomic::AtomicBool = std::sync::atomic::AtomicBool::new(true);
fn unrep() -> bool {
	UNREP.load(std::sync::atomic::Ordering::Relaxed)
}

struct Ctx<'a> {
	args: &'a Args,
	rep: &'a mut Report,
	secp: Secp256k1<All>,
	case: u64,
	/// multiplier for the per-object mutation budgets
	budget: u64,
	/// (rule, signature) pairs already reported for the current case
	seen: std::collections::BTreeSet<String>,
}

impl<'a> Ctx<'a> {
	fn violate(&mut self, rule: &str, sig: &str, detail: String, witness: &[(&str, String)]) {
		if !self.seen.insert(format!("{}|{}", rule, sig)) {
			self.rep.count("repeated_violations_of_one_case_suppressed");
			return;
		}
		let mut body = Json::obj().set("property", "C18").set("rule", rule).set("seed", self.args.seed).set("case", self.case).set("signature", sig).set("detail", detail.clone());
		let mut h = Fnv::new();
		for (k, v) in witness {
			let v: String = v.chars().take(40_000).collect();
			h.str(&v);
			body.put(k, v);
		}
		let path = self.args.write_replay(&format!("{}-seed{}-case{}-{:x}", rule, self.args.seed, self.case, h.get() & 0xffffff), &body);
		self.rep.violation("C18", rule, sig, detail.chars().take(1500).collect(), Some(path));
	}
}

// ---------------------------------------------------------------------------------------------
// own bech32 (BIP 173) code: checksum, split, join
// ---------------------------------------------------------------------------------------------
const B32: &[u8; 32] = b"qpzry9x8gf2tvdw0s3jn54khce6mua7l";

fn b32_val(c: u8) -> Option<u8> {
	B32.iter().position(|x| *x == c).map(|p| p as u8)
}

fn polymod(values: impl Iterator<Item = u8>) -> u32 {
	const G: [u32; 5] = [0x3b6a57b2, 0x26508e6d, 0x1ea119fa, 0x3d4233dd, 0x2a1462b3];
	let mut chk = 1u32;
	for v in values {
		let b = chk >> 25;
		chk = ((chk & 0x1ff_ffff) << 5) ^ (v as u32);
		for (i, g) in G.iter().enumerate() {
			if (b >> i) & 1 == 1 {
				chk ^= g;
			}
		}
	}
	chk
}

fn b32_checksum(hrp: &str, data: &[u8]) -> [u8; 6] {
	let it = hrp.bytes().map(|c| c >> 5).chain(std::iter::once(0)).chain(hrp.bytes().map(|c| c & 31)).chain(data.iter().copied()).chain([0u8; 6]);
	let pm = polymod(it) ^ 1;
	std::array::from_fn(|i| ((pm >> (5 * (5 - i))) & 31) as u8)
}

/// hrp + '1' + data + checksum
fn b32_join(hrp: &str, data: &[u8]) -> String {
	let mut s = String::with_capacity(hrp.len() + data.len() + 7);
	s.push_str(hrp);
	s.push('1');
	for d in data.iter().chain(b32_checksum(hrp, data).iter()) {
		s.push(B32[*d as usize] as char);
	}
	s
}

/// Split a lower-case checksummed bech32 string into hrp and data symbols (checksum removed).
fn b32_split(s: &str) -> Option<(String, Vec<u8>)> {
	let p = s.rfind('1')?;
	let data: Option<Vec<u8>> = s.as_bytes()[p + 1..].iter().map(|c| b32_val(*c)).collect();
	let data = data?;
	if data.len() < 6 {
		return None;
	}
	Some((s[..p].to_string(), data[..data.len() - 6].to_vec()))
}

/// Pack 5-bit symbols into bytes, zero-padding the last byte (BOLT 11 signing rule).
fn pack5(data: &[u8]) -> Vec<u8> {
	let mut out = Vec::with_capacity(data.len() * 5 / 8 + 1);
	let (mut acc, mut bits) = (0u32, 0u32);
	for d in data {
		acc = (acc << 5) | *d as u32;
		bits += 5;
		if bits >= 8 {
			bits -= 8;
			out.push((acc >> bits) as u8);
			acc &= (1 << bits) - 1;
		}
	}
	if bits > 0 {
		out.push((acc << (8 - bits)) as u8);
	}
	out
}

/// bytes -> 5-bit symbols with zero padding
fn unpack8(bytes: &[u8]) -> Vec<u8> {
	let mut out = Vec::new();
	let (mut acc, mut bits) = (0u32, 0u32);
	for b in bytes {
		acc = (acc << 8) | *b as u32;
		bits += 8;
		while bits >= 5 {
			bits -= 5;
			out.push(((acc >> bits) & 31) as u8);
		}
		acc &= (1 << bits) - 1;
	}
	if bits > 0 {
		out.push(((acc << (5 - bits)) & 31) as u8);
	}
	out
}

/// SHA256(hrp || packed data without the 104 signature symbols)
fn b11_own_hash(hrp: &str, data: &[u8]) -> Option<[u8; 32]> {
	if data.len() < 104 {
		return None;
	}
	let mut e = sha256::Hash::engine();
	e.input(hrp.as_bytes());
	e.input(&pack5(&data[..data.len() - 104]));
	Some(sha256::Hash::from_engine(e).to_byte_array())
}

/// (start, end) symbol ranges of the tagged fields of a BOLT 11 data part (without signature)
fn b11_fields(data_nosig: &[u8]) -> Option<Vec<(usize, usize)>> {
	let mut out = vec![];
	let mut p = 7;
	while p < data_nosig.len() {
		if p + 3 > data_nosig.len() {
			return None;
		}
		let len = data_nosig[p + 1] as usize * 32 + data_nosig[p + 2] as usize;
		if p + 3 + len > data_nosig.len() {
			return None;
		}
		out.push((p, p + 3 + len));
		p += 3 + len;
	}
	Some(out)
}

// ---------------------------------------------------------------------------------------------
// own BOLT 12 TLV and merkle code
// ---------------------------------------------------------------------------------------------
#[derive(Clone, Debug)]
struct Rec {
	typ: u64,
	start: usize,
	tend: usize,
	vstart: usize,
	end: usize,
}

fn bigsize_read(b: &[u8], p: &mut usize) -> Option<u64> {
	let f = *b.get(*p)?;
	*p += 1;
	let n = match f {
		0xfd => 2,
		0xfe => 4,
		0xff => 8,
		_ => return Some(f as u64),
	};
	let s = b.get(*p..*p + n)?;
	*p += n;
	let mut v = 0u64;
	for x in s {
		v = (v << 8) | *x as u64;
	}
	Some(v)
}

fn bigsize_write(v: u64, out: &mut Vec<u8>) {
	if v < 0xfd {
		out.push(v as u8);
	} else if v <= 0xffff {
		out.push(0xfd);
		out.extend_from_slice(&(v as u16).to_be_bytes());
	} else if v <= 0xffff_ffff {
		out.push(0xfe);
		out.extend_from_slice(&(v as u32).to_be_bytes());
	} else {
		out.push(0xff);
		out.extend_from_slice(&v.to_be_bytes());
	}
}

fn tlv_split(b: &[u8]) -> Option<Vec<Rec>> {
	let mut out = vec![];
	let mut p = 0;
	while p < b.len() {
		let start = p;
		let typ = bigsize_read(b, &mut p)?;
		let tend = p;
		let len = bigsize_read(b, &mut p)? as usize;
		let vstart = p;
		let end = vstart.checked_add(len)?;
		if end > b.len() {
			return None;
		}
		out.push(Rec { typ, start, tend, vstart, end });
		p = end;
	}
	Some(out)
}

fn tlv_record(typ: u64, value: &[u8]) -> Vec<u8> {
	let mut out = vec![];
	bigsize_write(typ, &mut out);
	bigsize_write(value.len() as u64, &mut out);
	out.extend_from_slice(value);
	out
}

fn tlv_get<'a>(b: &'a [u8], typ: u64) -> Option<&'a [u8]> {
	tlv_split(b)?.iter().find(|r| r.typ == typ).map(|r| &b[r.vstart..r.end])
}

/// Replace / insert (sorted) / remove one record of a well-formed stream.
fn tlv_set(b: &[u8], typ: u64, value: Option<&[u8]>) -> Vec<u8> {
	let recs = tlv_split(b).expect("well-formed stream");
	let mut out = Vec::with_capacity(b.len() + 16);
	let mut done = false;
	for r in &recs {
		if !done && r.typ >= typ {
			if let Some(v) = value {
				out.extend_from_slice(&tlv_record(typ, v));
			}
			done = true;
			if r.typ == typ {
				continue;
			}
		}
		out.extend_from_slice(&b[r.start..r.end]);
	}
	if !done {
		if let Some(v) = value {
			out.extend_from_slice(&tlv_record(typ, v));
		}
	}
	out
}

fn tagged(tag: &sha256::Hash, parts: &[&[u8]]) -> sha256::Hash {
	let mut e = sha256::Hash::engine();
	e.input(tag.as_ref());
	e.input(tag.as_ref());
	for p in parts {
		e.input(p);
	}
	sha256::Hash::from_engine(e)
}

fn branch(tag: &sha256::Hash, a: sha256::Hash, b: sha256::Hash) -> sha256::Hash {
	if a.as_byte_array() < b.as_byte_array() {
		tagged(tag, &[a.as_ref(), b.as_ref()])
	} else {
		tagged(tag, &[b.as_ref(), a.as_ref()])
	}
}

fn merkle_fold(tag: &sha256::Hash, leaves: &[sha256::Hash]) -> sha256::Hash {
	if leaves.len() == 1 {
		return leaves[0];
	}
	// the left subtree takes the largest power of two strictly smaller than the number of leaves
	let mut p = 1;
	while p * 2 < leaves.len() {
		p *= 2;
	}
	branch(tag, merkle_fold(tag, &leaves[..p]), merkle_fold(tag, &leaves[p..]))
}

/// BOLT 12 signature digest of a TLV stream for message `name` ("invoice_request" / "invoice"),
/// written from the specification (signature records 240..=1000 are not covered).
fn b12_digest(name: &str, b: &[u8]) -> Option<[u8; 32]> {
	let recs = tlv_split(b)?;
	let first = recs.first()?;
	let mut nonce_src = b"LnNonce".to_vec();
	nonce_src.extend_from_slice(&b[first.start..first.end]);
	let nonce_tag = sha256::Hash::hash(&nonce_src);
	let leaf_tag = sha256::Hash::hash(b"LnLeaf");
	let branch_tag = sha256::Hash::hash(b"LnBranch");
	let leaves: Vec<sha256::Hash> = recs
		.iter()
		.filter(|r| !(240..=1000).contains(&r.typ))
		.map(|r| {
			let leaf = tagged(&leaf_tag, &[&b[r.start..r.end]]);
			let nonce = tagged(&nonce_tag, &[&b[r.start..r.tend]]);
			branch(&branch_tag, leaf, nonce)
		})
		.collect();
	if leaves.is_empty() {
		return None;
	}
	let root = merkle_fold(&branch_tag, &leaves);
	let tag = sha256::Hash::hash(format!("lightning{}signature", name).as_bytes());
	Some(tagged(&tag, &[root.as_ref()]).to_byte_array())
}

/// Verify the record 240 of `b` against `key` under the own digest.
fn b12_own_verify(secp: &Secp256k1<All>, name: &str, b: &[u8], key: &PublicKey) -> Result<(), String> {
	let d = b12_digest(name, b).ok_or("stream not well-formed")?;
	let sig = tlv_get(b, 240).ok_or("no signature record")?;
	let sig = bitcoin::secp256k1::schnorr::Signature::from_slice(sig).map_err(|e| format!("{:?}", e))?;
	secp.verify_schnorr(&sig, &Message::from_digest(d), &key.x_only_public_key().0).map_err(|e| format!("{:?}", e))
}

/// Replace (or add) the signature record with one made by `keys` over the own digest.
fn b12_resign(secp: &Secp256k1<All>, name: &str, b: &[u8], keys: &Keypair) -> Vec<u8> {
	let without = tlv_set(b, 240, None);
	let d = b12_digest(name, &without).expect("well-formed");
	let sig = secp.sign_schnorr_no_aux_rand(&Message::from_digest(d), keys);
	tlv_set(&without, 240, Some(&sig.serialize()[..]))
}

// ---------------------------------------------------------------------------------------------
// small generators
// ---------------------------------------------------------------------------------------------
fn rnd_sk(rng: &mut Rng) -> SecretKey {
	sk(rng.next() | 1, rng.next())
}
fn rnd_pk(rng: &mut Rng, secp: &Secp256k1<All>) -> PublicKey {
	PublicKey::from_secret_key(secp, &rnd_sk(rng))
}
/// boundary-biased u64
fn u64b(rng: &mut Rng) -> u64 {
	let base = *rng.pick(&[0u64, 1, 2, 31, 32, 0xfc, 0xfd, 1023, 1024, 0xffff, 0x10000, 0xffff_ffff, 0x1_0000_0000, u64::MAX, u64::MAX - 1, 1 << 35, (1 << 35) - 1, 1 << 60]);
	match rng.below(4) {
		0 => base,
		1 => base.wrapping_add(rng.below(3)).wrapping_sub(1),
		_ => rng.next() >> rng.below(64),
	}
}
fn text(rng: &mut Rng, bytes: usize) -> String {
	// valid UTF-8 of exactly `bytes` bytes, mixing ASCII, multi-byte and control characters
	let mut s = String::with_capacity(bytes);
	while s.len() < bytes {
		let left = bytes - s.len();
		let c = match rng.below(12) {
			0 if left >= 2 => 'é',
			1 if left >= 3 => '€',
			2 if left >= 4 => '😀',
			3 => '\n',
			4 => '\u{7f}',
			5 => ' ',
			_ => (b'a' + rng.below(26) as u8) as char,
		};
		s.push(c);
	}
	s
}

fn rtext(rng: &mut Rng, lens: &[usize]) -> String {
	let n = *rng.pick(lens);
	text(rng, n)
}
fn rvec(rng: &mut Rng, lens: &[usize]) -> Vec<u8> {
	let n = *rng.pick(lens);
	rng.vec(n)
}

// ---------------------------------------------------------------------------------------------
// BOLT 11
// ---------------------------------------------------------------------------------------------
#[derive(Clone, Debug)]
enum Op {
	Amount(u64),
	Payee(PublicKey),
	Expiry(Duration),
	Fb(Fallback),
	Hint(RouteHint),
}

#[derive(Clone, Debug)]
struct B11Params {
	currency: Currency,
	desc: Result<String, [u8; 32]>,
	hash: [u8; 32],
	secret: [u8; 32],
	ts: Duration,
	cltv: u64,
	ops: Vec<Op>,
	meta: Option<(Vec<u8>, bool)>,
	meta_first: bool,
	mpp: bool,
	signer: SecretKey,
	/// the builder must refuse these inputs
	expect_err: bool,
	/// the builder accepts these inputs but the wire format cannot carry them
	class: Option<&'static str>,
}

fn gen_hop(rng: &mut Rng, secp: &Secp256k1<All>, limits: bool) -> RouteHintHop {
	RouteHintHop {
		src_node_id: rnd_pk(rng, secp),
		short_channel_id: u64b(rng),
		fees: RoutingFees { base_msat: u64b(rng) as u32, proportional_millionths: u64b(rng) as u32 },
		cltv_expiry_delta: u64b(rng) as u16,
		htlc_minimum_msat: if limits { Some(u64b(rng)) } else { None },
		htlc_maximum_msat: if limits && rng.chance(1, 2) { Some(u64b(rng)) } else { None },
	}
}

fn gen_fallback(rng: &mut Rng, bad_len: bool) -> Fallback {
	use bitcoin::WitnessVersion;
	if bad_len {
		let n = *rng.pick(&[0usize, 1, 41, 42, 100]);
		return Fallback::SegWitProgram { version: WitnessVersion::V0, program: rng.vec(n) };
	}
	match rng.below(6) {
		0 => Fallback::PubKeyHash(bitcoin::PubkeyHash::from_byte_array(rng.bytes())),
		1 => Fallback::ScriptHash(bitcoin::ScriptHash::from_byte_array(rng.bytes())),
		2 => Fallback::SegWitProgram { version: WitnessVersion::V0, program: rng.vec(20) },
		3 => Fallback::SegWitProgram { version: WitnessVersion::V0, program: rng.vec(32) },
		4 => Fallback::SegWitProgram { version: WitnessVersion::V1, program: rng.vec(32) },
		_ => {
			let v = WitnessVersion::try_from(rng.range(2, 16) as u8).unwrap();
			let n = *rng.pick(&[2usize, 3, 20, 32, 39, 40]);
			Fallback::SegWitProgram { version: v, program: rng.vec(n) }
		},
	}
}

fn gen_b11(rng: &mut Rng, secp: &Secp256k1<All>) -> B11Params {
	let mut expect_err = false;
	let mut class = None;
	let currency = rng.pick(&[Currency::Bitcoin, Currency::BitcoinTestnet, Currency::Regtest, Currency::Simnet, Currency::Signet]).clone();
	let signer = rnd_sk(rng);
	let mut ops = vec![];
	// amount
	match rng.below(10) {
		0 | 1 => {},
		2 => ops.push(Op::Amount(*rng.pick(&[0u64, 1, 9, 10, 99, 100, 999, 1000, 100_000, 100_000_000, 100_000_000_000, 1_800_000_000_000_000_000, u64::MAX / 10, u64::MAX / 10 - 1]))),
		3 if rng.chance(1, 4) => {
			ops.push(Op::Amount(*rng.pick(&[u64::MAX / 10 + 1, MAX_VALUE_MSAT, u64::MAX, u64::MAX - 1])));
			expect_err = true;
		},
		4 => ops.push(Op::Amount((10u64.pow(rng.below(19) as u32) * rng.range(1, 9)).min(u64::MAX / 10))),
		_ => ops.push(Op::Amount(rng.next() % (u64::MAX / 10 + 1) >> rng.below(60))),
	}
	if rng.chance(1, 2) {
		ops.push(Op::Payee(PublicKey::from_secret_key(secp, &signer)));
	}
	if rng.chance(2, 3) {
		let secs = match rng.below(3) {
			0 => *rng.pick(&[0u64, 1, 31, 32, 1023, 1024, 3600, u32::MAX as u64, u64::MAX, u64::MAX - 1, 1 << 60, (1 << 60) - 1]),
			_ => u64b(rng),
		};
		ops.push(Op::Expiry(Duration::new(secs, if rng.chance(1, 3) { rng.below(1_000_000_000) as u32 } else { 0 })));
	}
	for _ in 0..*rng.pick(&[0u64, 0, 0, 1, 1, 2, 4]) {
		ops.push(Op::Fb(gen_fallback(rng, false)));
	}
	if unrep() && rng.chance(1, 48) {
		ops.push(Op::Fb(gen_fallback(rng, true)));
		class = Some("segwit fallback program length outside 2..=40");
	}
	let nh = *rng.pick(&[0u64, 0, 1, 1, 2, 3]);
	for _ in 0..nh {
		let hops = *rng.pick(&[0u64, 1, 1, 1, 2, 3, 12]);
		ops.push(Op::Hint(RouteHint((0..hops).map(|_| gen_hop(rng, secp, false)).collect())));
	}
	if rng.chance(1, 40) {
		ops.push(Op::Hint(RouteHint((0..13 + rng.below(3)).map(|_| gen_hop(rng, secp, false)).collect())));
		expect_err = true;
	}
	if unrep() && class.is_none() && !expect_err && rng.chance(1, 48) {
		ops.push(Op::Hint(RouteHint(vec![gen_hop(rng, secp, true)])));
		class = Some("route hint hop with htlc_minimum_msat / htlc_maximum_msat");
	}
	rng.shuffle(&mut ops);
	let desc = match rng.below(8) {
		0 => Err(rng.bytes()),
		1 => Ok(String::new()),
		2 => Ok(rtext(rng, &[1usize, 2, 4, 5, 638, 639])),
		3 if rng.chance(1, 3) => {
			expect_err = true;
			Ok(rtext(rng, &[640, 641, 642]))
		},
		_ => Ok(rtext(rng, &[3, 7, 10, 16, 25, 40, 79])),
	};
	let ts_secs = match rng.below(8) {
		0 => *rng.pick(&[0u64, 1, MAX_TIMESTAMP, MAX_TIMESTAMP - 1, 1 << 31, 1 << 32, (1 << 30) - 1, 31, 32]),
		1 if rng.chance(1, 3) => {
			expect_err = true;
			*rng.pick(&[MAX_TIMESTAMP + 1, u64::MAX, 1 << 36])
		},
		_ => rng.below(MAX_TIMESTAMP + 1) >> rng.below(20),
	};
	let ts = Duration::new(ts_secs, if rng.chance(1, 3) { rng.below(1_000_000_000) as u32 } else { 0 });
	let meta = match rng.below(8) {
		0 | 1 | 2 => None,
		3 => Some((rvec(rng, &[0usize, 1, 5, 638, 639]), rng.chance(1, 2))),
		4 if rng.chance(1, 3) => {
			expect_err = true;
			Some((rvec(rng, &[640, 641, 644]), rng.chance(1, 2)))
		},
		_ => Some((rvec(rng, &[2, 8, 16, 32, 33, 63]), rng.chance(1, 2))),
	};
	B11Params {
		currency,
		desc,
		hash: rng.bytes(),
		secret: rng.bytes(),
		ts,
		cltv: match rng.below(3) {
			0 => *rng.pick(&[0u64, 1, 18, 31, 32, 144, 1023, 1024, u16::MAX as u64, u32::MAX as u64, u64::MAX, 1 << 60]),
			_ => u64b(rng),
		},
		ops,
		meta,
		meta_first: rng.chance(1, 2),
		mpp: rng.chance(1, 2),
		signer,
		expect_err,
		class,
	}
}

/// An invoice whose string is as close as possible to MAX_LENGTH (from below, or just above).
fn gen_b11_big(rng: &mut Rng, secp: &Secp256k1<All>, over: bool) -> Option<B11Params> {
	let mut p = gen_b11(rng, secp);
	p.currency = Currency::Bitcoin;
	p.expect_err = false;
	p.class = if over { Some("string longer than MAX_LENGTH") } else { None };
	p.ops = (0..6).map(|_| Op::Hint(RouteHint((0..12).map(|_| gen_hop(rng, secp, false)).collect()))).collect();
	p.ops.push(Op::Amount(2_500_000));
	p.meta = Some((rng.vec(200), true));
	p.ts = Duration::from_secs(1_700_000_000);
	p.desc = Ok(String::new());
	let l0 = b11_build(&p, secp, &mut rng.clone()).ok()?.to_string().len();
	let want = |d: usize| l0 + (8 * d).div_ceil(5);
	let d = if over { (0..=639).find(|d| want(*d) > MAX_LENGTH)? } else { (0..=639).rev().find(|d| want(*d) <= MAX_LENGTH)? };
	p.desc = Ok("x".repeat(d));
	Some(p)
}

fn b11_build(p: &B11Params, secp: &Secp256k1<All>, rng: &mut Rng) -> Result<Bolt11Invoice, lightning_invoice::CreationError> {
	let mut ops = p.ops.clone();
	macro_rules! sprinkle {
		($b:ident, $all:expr) => {
			while !ops.is_empty() && ($all || rng.chance(1, 3)) {
				$b = match ops.remove(0) {
					Op::Amount(a) => $b.amount_milli_satoshis(a),
					Op::Payee(k) => $b.payee_pub_key(k),
					Op::Expiry(e) => $b.expiry_time(e),
					Op::Fb(f) => $b.fallback(f),
					Op::Hint(h) => $b.private_route(h),
				};
			}
		};
	}
	macro_rules! finish {
		($b:expr) => {{
			let mut b = $b;
			sprinkle!(b, false);
			if p.mpp {
				b = b.basic_mpp();
			}
			sprinkle!(b, true);
			b.build_signed(|h| secp.sign_ecdsa_recoverable(h, &p.signer))
		}};
	}
	let mut b = InvoiceBuilder::new(p.currency.clone());
	sprinkle!(b, false);
	let mut b = match &p.desc {
		Ok(s) => b.description(s.clone()),
		Err(h) => b.description_hash(sha256::Hash::from_byte_array(*h)),
	};
	sprinkle!(b, false);
	let mut b = b.payment_hash(PaymentHash(p.hash));
	sprinkle!(b, false);
	let mut b = b.duration_since_epoch(p.ts);
	sprinkle!(b, false);
	let mut b = b.min_final_cltv_expiry_delta(p.cltv);
	sprinkle!(b, false);
	let sec = PaymentSecret(p.secret);
	match p.meta.clone() {
		None => finish!(b.payment_secret(sec)),
		Some((m, true)) if p.meta_first => finish!(b.payment_metadata(m).payment_secret(sec)),
		Some((m, false)) if p.meta_first => finish!(b.optional_payment_metadata(m).payment_secret(sec)),
		Some((m, true)) => finish!(b.payment_secret(sec).payment_metadata(m)),
		Some((m, false)) => finish!(b.payment_secret(sec).optional_payment_metadata(m)),
	}
}

fn b11_snapshot(i: &Bolt11Invoice) -> String {
	let a = (i.currency(), i.network(), i.amount_milli_satoshis(), i.payment_hash(), i.payment_secret().clone(), format!("{:?}", i.description()), i.payee_pub_key().cloned(), i.recover_payee_pub_key(), i.get_payee_pub_key(), i.duration_since_epoch(), i.expiry_time(), i.expires_at());
	let b = (i.min_final_cltv_expiry_delta(), i.fallbacks(), i.fallback_addresses(), i.route_hints(), i.private_routes(), i.payment_metadata().cloned(), i.features().cloned(), i.signable_hash(), i.would_expire(Duration::from_secs(1 << 34)), i.expiration_remaining_from_epoch(Duration::from_secs(1_000_000)));
	format!("{:?} {:?}", a, b)
}

/// B11-R0: the accessors of an invoice agree with the builder inputs.
fn b11_expect(p: &B11Params, i: &Bolt11Invoice, secp: &Secp256k1<All>) -> Result<(), String> {
	macro_rules! eq {
		($name:expr, $a:expr, $b:expr) => {
			if $a != $b {
				return Err(format!("{}: invoice exposes {:?}, the builder was given {:?}", $name, $a, $b));
			}
		};
	}
	let first = |f: &dyn Fn(&Op) -> bool| p.ops.iter().find(|o| f(o)).cloned();
	eq!("currency", i.currency(), p.currency);
	let amt = match first(&|o| matches!(o, Op::Amount(_))) {
		Some(Op::Amount(a)) => Some(a),
		_ => None,
	};
	eq!("amount", i.amount_milli_satoshis(), amt);
	eq!("payment hash", i.payment_hash(), PaymentHash(p.hash));
	eq!("payment secret", *i.payment_secret(), PaymentSecret(p.secret));
	match (&p.desc, i.description()) {
		(Ok(s), Bolt11InvoiceDescriptionRef::Direct(d)) if d.as_inner().0 == *s => {},
		(Err(h), Bolt11InvoiceDescriptionRef::Hash(d)) if d.0.to_byte_array() == *h => {},
		(a, b) => return Err(format!("description: invoice exposes {:?}, the builder was given {:?}", b, a)),
	}
	eq!("timestamp", i.duration_since_epoch(), Duration::from_secs(p.ts.as_secs()));
	let exp = match first(&|o| matches!(o, Op::Expiry(_))) {
		Some(Op::Expiry(e)) => Duration::from_secs(e.as_secs()),
		_ => Duration::from_secs(3600),
	};
	eq!("expiry", i.expiry_time(), exp);
	eq!("min_final_cltv_expiry_delta", i.min_final_cltv_expiry_delta(), p.cltv);
	let fbs: Vec<Fallback> = p.ops.iter().filter_map(|o| if let Op::Fb(f) = o { Some(f.clone()) } else { None }).collect();
	eq!("fallbacks", i.fallbacks().into_iter().cloned().collect::<Vec<_>>(), fbs);
	let hints: Vec<RouteHint> = p.ops.iter().filter_map(|o| if let Op::Hint(h) = o { Some(h.clone()) } else { None }).collect();
	eq!("route hints", i.route_hints(), hints);
	eq!("payment metadata", i.payment_metadata().cloned(), p.meta.as_ref().map(|m| m.0.clone()));
	let signer_pk = PublicKey::from_secret_key(secp, &p.signer);
	let explicit = p.ops.iter().any(|o| matches!(o, Op::Payee(_)));
	eq!("explicit payee key", i.payee_pub_key().cloned(), if explicit { Some(signer_pk) } else { None });
	eq!("payee key", i.get_payee_pub_key(), signer_pk);
	eq!("recovered payee key", i.recover_payee_pub_key(), Some(signer_pk));
	let f = match i.features() {
		Some(f) => f,
		None => return Err("features: none exposed".into()),
	};
	let got = (f.requires_payment_secret(), f.requires_variable_length_onion(), f.supports_payment_metadata(), f.requires_payment_metadata(), f.supports_basic_mpp(), f.requires_basic_mpp(), f.requires_unknown_bits());
	let want = (true, true, p.meta.is_some(), p.meta.as_ref().map(|m| m.1).unwrap_or(false), p.mpp, false, false);
	eq!("features (secret req, onion req, metadata, metadata req, mpp, mpp req, unknown req)", got, want);
	Ok(())
}

fn b11_same_content(a: &Bolt11Invoice, b: &Bolt11Invoice) -> bool {
	a.signable_hash() == b.signable_hash() && a.clone().into_signed_raw().raw_invoice() == b.clone().into_signed_raw().raw_invoice()
}

/// B11-R3 verdict for one string derived from `orig` by a content edit with a valid checksum.
fn b11_judge(ctx: &mut Ctx, orig: &Bolt11Invoice, orig_str: &str, mutated: &str, what: &str) {
	if mutated == orig_str {
		return;
	}
	ctx.rep.count("b11_recomputed_checksum_mutations");
	match vcore::guarded(|| Bolt11Invoice::from_str(mutated)) {
		Err(p) => ctx.violate("T1-total", &format!("parsing a mutated BOLT11 string panicked: {}", vcore::canon(&p)), p, &[("original", orig_str.into()), ("input", mutated.into()), ("mutation", what.into())]),
		Ok(Err(_)) => ctx.rep.count("b11_mutations_rejected"),
		Ok(Ok(m)) => {
			if b11_same_content(&m, orig) {
				ctx.rep.count("b11_mutations_accepted_same_signed_content");
			} else if m.payee_pub_key().is_none() && m.get_payee_pub_key() != orig.get_payee_pub_key() {
				ctx.rep.count("b11_mutations_accepted_unrelated_recovered_key");
			} else {
				let sig = if m.get_payee_pub_key() == orig.get_payee_pub_key() { "an altered BOLT11 invoice is accepted under the original payee key" } else { "an altered BOLT11 invoice is accepted under an explicit payee key it was not signed by" };
				ctx.violate("B11-R3-forgery", &format!("{} ({})", sig, what), format!("original {:?}\naccepted {:?}", orig, m), &[("original", orig_str.into()), ("input", mutated.into()), ("mutation", what.into())]);
			}
		},
	}
}

fn b11_mutations(ctx: &mut Ctx, inv: &Bolt11Invoice, s: &str, hrp: &str, data: &[u8], rng: &mut Rng) {
	let cap = (700 * ctx.budget) as usize;
	// R2: single characters, checksum untouched
	let bytes = s.as_bytes();
	let stride = 1 + bytes.len() / cap;
	let mut pos = rng.below(stride as u64) as usize;
	while pos < bytes.len() {
		for k in 0..2 {
			let c = bytes[pos];
			let r = if k == 0 {
				B32[((b32_val(c).unwrap_or(0) as u64 + 1 + rng.below(31)) % 32) as usize]
			} else {
				match rng.below(4) {
					0 if c.is_ascii_lowercase() => c.to_ascii_uppercase(),
					1 => *rng.pick(&[b'b', b'i', b'o', b'1', b' ', b'+', 0xc3]),
					2 => c ^ (1 << rng.below(7)),
					_ => B32[rng.below(32) as usize],
				}
			};
			if r == c {
				continue;
			}
			let mut m = bytes.to_vec();
			m[pos] = r;
			let m = String::from_utf8_lossy(&m).into_owned();
			ctx.rep.count("b11_single_char_mutations");
			match vcore::guarded(|| Bolt11Invoice::from_str(&m)) {
				Err(p) => ctx.violate("T1-total", &format!("parsing a mutated BOLT11 string panicked: {}", vcore::canon(&p)), p, &[("input", m.clone())]),
				Ok(Err(_)) => {},
				Ok(Ok(_)) => {
					ctx.violate("B11-R2-checksum", "a BOLT11 string changed in one character still parses", format!("position {} of {}: {:?} -> {:?}", pos, bytes.len(), c as char, r as char), &[("original", s.into()), ("input", m.clone())]);
					return;
				},
			}
		}
		pos += stride;
	}
	// R3a: single symbols of the data part (timestamp: every alternative), checksum recomputed
	let stride = 1 + data.len() / cap;
	let mut pos = 0usize;
	while pos < data.len() {
		let alts: Vec<u8> = if pos < 7 { (1..32).collect() } else { vec![1 << rng.below(5), 1 + rng.below(31) as u8] };
		for a in alts {
			let mut d = data.to_vec();
			d[pos] ^= a;
			let what = if pos < 7 { "timestamp symbol" } else if pos >= data.len() - 104 { "signature symbol" } else { "data symbol" };
			b11_judge(ctx, inv, s, &b32_join(hrp, &d), what);
		}
		pos += if pos < 7 || pos + 110 >= data.len() { 1 } else { stride };
	}
	// R3a': the whole timestamp set to boundary values (all symbols 31 = 2^35-1, all 0, 2^34)
	for ts in [[31u8; 7], [0u8; 7], [16, 0, 0, 0, 0, 0, 0]] {
		let mut d = data.to_vec();
		if d.len() > 7 && d[..7] != ts {
			d[..7].copy_from_slice(&ts);
			b11_judge(ctx, inv, s, &b32_join(hrp, &d), "timestamp boundary");
		}
	}
	// R3b: amount / currency edits of the hrp
	let cur_len = hrp.len() - 2 - hrp[2..].trim_start_matches(|c: char| !c.is_ascii_digit()).len();
	let (cur, amt) = hrp[2..].split_at(cur_len);
	let mut hrps: Vec<(String, &str)> = vec![];
	for c in ["bc", "tb", "bcrt", "sb", "tbs", "x"] {
		if c != cur {
			hrps.push((format!("ln{}{}", c, amt), "currency"));
		}
	}
	if amt.is_empty() {
		for a in ["1m", "2500u", "10p", "1p", "1", "0n", "18446744073709551615p", "18446744073709551616p", "20000000000m"] {
			hrps.push((format!("ln{}{}", cur, a), "amount added"));
		}
	} else {
		let digits: String = amt.chars().filter(|c| c.is_ascii_digit()).collect();
		let pre: String = amt.chars().filter(|c| !c.is_ascii_digit()).collect();
		hrps.push((format!("ln{}", cur), "amount removed"));
		for i in 0..digits.len() {
			let mut d = digits.clone().into_bytes();
			d[i] = b'0' + (d[i] - b'0' + 1 + rng.below(9) as u8) % 10;
			hrps.push((format!("ln{}{}{}", cur, String::from_utf8(d).unwrap(), pre), "amount digit"));
		}
		hrps.push((format!("ln{}{}0{}", cur, digits, pre), "amount digit appended"));
		hrps.push((format!("ln{}0{}{}", cur, digits, pre), "amount leading zero"));
		hrps.push((format!("ln{}1{}{}", cur, digits, pre), "amount digit prepended"));
		if digits.len() > 1 {
			hrps.push((format!("ln{}{}{}", cur, &digits[..digits.len() - 1], pre), "amount digit removed"));
		}
		for m in ["m", "u", "n", "p", ""] {
			if m != pre {
				hrps.push((format!("ln{}{}{}", cur, digits, m), "amount multiplier"));
			}
		}
		// the same value written with another multiplier
		if let (Ok(v), "u") = (digits.parse::<u64>(), pre.as_str()) {
			hrps.push((format!("ln{}{}n", cur, v.saturating_mul(1000)), "amount rescaled"));
		}
	}
	for (h, what) in hrps {
		b11_judge(ctx, inv, s, &b32_join(&h, data), what);
	}
	// R3c: whole fields
	let body = &data[..data.len() - 104];
	let sig = &data[data.len() - 104..];
	if let Some(fields) = b11_fields(body) {
		let rebuild = |fs: Vec<Vec<u8>>| -> String {
			let mut d = body[..7].to_vec();
			for f in fs {
				d.extend_from_slice(&f);
			}
			d.extend_from_slice(sig);
			b32_join(hrp, &d)
		};
		let fv: Vec<Vec<u8>> = fields.iter().map(|(a, b)| body[*a..*b].to_vec()).collect();
		for i in 0..fv.len() {
			let mut f = fv.clone();
			f.remove(i);
			b11_judge(ctx, inv, s, &rebuild(f), "field removed");
			let mut f = fv.clone();
			f.insert(i, fv[i].clone());
			b11_judge(ctx, inv, s, &rebuild(f), "field duplicated");
			if i + 1 < fv.len() {
				let mut f = fv.clone();
				f.swap(i, i + 1);
				b11_judge(ctx, inv, s, &rebuild(f), "fields swapped");
			}
			let mut f = fv.clone();
			f[i][0] = *rng.pick(&[0u8, 2, 4, 31, 19, 6, 24]);
			b11_judge(ctx, inv, s, &rebuild(f), "field tag changed");
			let mut f = fv.clone();
			let extra = match rng.below(3) {
				0 => vec![*rng.pick(&[0u8, 2, 31]), 0, 0],
				1 => {
					let mut v = vec![6u8, 0, 2];
					v.extend_from_slice(&[rng.below(32) as u8, rng.below(32) as u8]);
					v
				},
				_ => {
					let mut v = vec![9u8, 1, 1, 17];
					v.extend_from_slice(&unpack8(&rng.vec(20)));
					v
				},
			};
			f.insert(i, extra);
			b11_judge(ctx, inv, s, &rebuild(f), "field inserted");
		}
		// the data part truncated / extended in front of the signature
		let mut d = body.to_vec();
		d.push(0);
		d.extend_from_slice(sig);
		b11_judge(ctx, inv, s, &b32_join(hrp, &d), "symbol appended to the data");
	}
}

/// Build, check accessors, round-trip, mutate. Returns the string when an invoice was produced.
fn b11_case(ctx: &mut Ctx, p: &B11Params, rng: &mut Rng, mutate: bool) -> Option<String> {
	let secp = ctx.secp.clone();
	let wit = |p: &B11Params| vec![("params", format!("{:?}", p))];
	let inv = match vcore::guarded(|| b11_build(p, &secp, &mut rng.clone())) {
		Err(pn) => {
			ctx.violate("B11-R1-roundtrip", &format!("the BOLT11 builder panicked: {}", vcore::canon(&pn)), pn, &wit(p));
			return None;
		},
		Ok(Err(e)) => {
			ctx.rep.count("b11_builder_rejected");
			if !p.expect_err {
				ctx.violate("B11-R0-builder", &format!("the BOLT11 builder refuses inputs that are within the documented ranges: {}", vcore::canon(&format!("{:?}", e))), format!("{:?}", e), &wit(p));
			}
			return None;
		},
		Ok(Ok(i)) => i,
	};
	if p.expect_err {
		ctx.violate("B11-R0-builder", "the BOLT11 builder accepted inputs outside its documented limits", format!("{:?}", inv), &wit(p));
		return None;
	}
	ctx.rep.count("b11_built");
	let nfields = inv.tagged_fields().count();
	ctx.rep.distinct(Fnv::new().str("b11").str(&format!("{:?}", p.currency)).u64(nfields as u64).u64(p.ops.iter().map(|o| match o { Op::Amount(_) => 1, Op::Payee(_) => 16, Op::Expiry(_) => 256, Op::Fb(_) => 4096, Op::Hint(_) => 65536 }).sum()).u64(p.desc.is_ok() as u64).u64(p.meta.is_some() as u64 * 2 + p.mpp as u64).get());
	let r1 = if p.class.is_some() { "B11-R1u-unrepresentable" } else { "B11-R1-roundtrip" };
	let cls = p.class.map(|c| format!(" [{}]", c)).unwrap_or_default();
	if let Err(e) = b11_expect(p, &inv, &secp) {
		ctx.violate("B11-R0-builder", &format!("a built BOLT11 invoice does not expose what the builder was given: {}", vcore::canon(e.split(':').next().unwrap_or(""))), e, &wit(p));
	}
	ctx.rep.count("b11_accessor_checks");
	let s = match vcore::guarded(|| inv.to_string()) {
		Ok(s) => s,
		Err(pn) => {
			ctx.violate(r1, &format!("serializing a built BOLT11 invoice panicked{}: {}", cls, vcore::canon(&pn)), pn, &wit(p));
			return None;
		},
	};
	ctx.rep.max("b11_max_string_length", s.len() as u64);
	if s.len() == MAX_LENGTH {
		ctx.rep.count("b11_exactly_max_length");
	}
	let parsed = match vcore::guarded(|| (Bolt11Invoice::from_str(&s), SignedRawBolt11Invoice::from_str(&s))) {
		Err(pn) => {
			ctx.violate("T1-total", &format!("parsing a built BOLT11 invoice panicked: {}", vcore::canon(&pn)), pn, &[("input", s.clone())]);
			return None;
		},
		Ok(r) => r,
	};
	ctx.rep.count("b11_roundtrips");
	match parsed {
		(Ok(q), Ok(raw)) => {
			if q != inv {
				ctx.violate(r1, &format!("a parsed BOLT11 invoice differs from the built one{}", cls), format!("built  {:?}\nparsed {:?}", inv, q), &[("input", s.clone()), ("params", format!("{:?}", p))]);
			} else if b11_snapshot(&q) != b11_snapshot(&inv) {
				ctx.violate(r1, "a parsed BOLT11 invoice exposes other accessor values than the built one", format!("built  {}\nparsed {}", b11_snapshot(&inv), b11_snapshot(&q)), &[("input", s.clone())]);
			} else if q.to_string() != s {
				ctx.violate(r1, "re-encoding a parsed BOLT11 invoice changes the string", q.to_string(), &[("input", s.clone())]);
			} else if raw != inv.clone().into_signed_raw() || !raw.check_signature() {
				ctx.violate(r1, "the signed-raw parse of a BOLT11 string differs from the built invoice", format!("{:?}", raw), &[("input", s.clone())]);
			}
		},
		(a, b) => {
			let e = format!("{:?} / {:?}", a.err(), b.err());
			let short: String = e.chars().take_while(|c| *c != '{' && *c != '/').take(90).collect();
			ctx.violate(r1, &format!("a built BOLT11 invoice does not parse back{}: {}", cls, vcore::canon(short.trim())), e, &[("input", s.clone()), ("params", format!("{:?}", p))]);
			return Some(s);
		},
	}
	// independent reading of the string: hash and key recovery
	let (hrp, data) = match b32_split(&s) {
		Some(x) if b32_join(&x.0, &x.1) == s => x,
		_ => {
			ctx.violate(r1, "a built BOLT11 string is not lower-case bech32 with a valid checksum", String::new(), &[("input", s.clone())]);
			return Some(s);
		},
	};
	ctx.rep.count("b11_own_hash_and_recovery_checks");
	let own = b11_own_hash(&hrp, &data);
	if own != Some(inv.signable_hash()) {
		ctx.violate(r1, "the signed hash of a BOLT11 invoice is not SHA256(hrp || data) of its string", format!("own {:?} library {:?}", own.map(|h| vcore::hex(&h)), vcore::hex(&inv.signable_hash())), &[("input", s.clone())]);
	} else {
		let sigb = pack5(&data[data.len() - 104..]);
		let rec = RecoveryId::from_i32(sigb[64] as i32).ok().and_then(|id| RecoverableSignature::from_compact(&sigb[..64], id).ok()).and_then(|sig| secp.recover_ecdsa(&Message::from_digest(own.unwrap()), &sig).ok());
		if rec != Some(PublicKey::from_secret_key(&secp, &p.signer)) {
			ctx.violate(r1, "the key recovered from a BOLT11 string is not the signer's key", format!("{:?}", rec), &[("input", s.clone())]);
		}
	}
	if ctx.rep.samples.len() < ctx.rep.max_samples && rng.chance(1, 20) {
		ctx.rep.sample(Json::obj().set("kind", "bolt11").set("string", s.chars().take(300).collect::<String>()).set("fields", nfields));
	}
	if mutate && p.class.is_none() {
		b11_mutations(ctx, &inv, &s, &hrp, &data, rng);
	}
	Some(s)
}

// ---------------------------------------------------------------------------------------------
// BOLT 12: generators
// ---------------------------------------------------------------------------------------------
struct FixedEntropy([u8; 32]);
impl EntropySource for FixedEntropy {
	fn get_secure_random_bytes(&self) -> [u8; 32] {
		self.0
	}
}

const NETWORKS: [Network; 4] = [Network::Bitcoin, Network::Testnet, Network::Signet, Network::Regtest];
fn chain_of(n: Network) -> ChainHash {
	ChainHash::using_genesis_block(n)
}
fn network_of(c: ChainHash) -> Option<Network> {
	NETWORKS.iter().copied().find(|n| chain_of(*n) == c)
}
/// far enough in the future that wall-clock expiry checks inside the builders never trigger
const FUTURE: u64 = 4_000_000_000;

fn gen_hops(rng: &mut Rng, secp: &Secp256k1<All>) -> Vec<BlindedHop> {
	let n = *rng.pick(&[1u64, 1, 2, 2, 3, 5]);
	(0..n)
		.map(|_| {
			let len = *rng.pick(&[0usize, 1, 16, 43, 44, 50, 100, 252, 253, 254, 300]);
			BlindedHop { blinded_node_id: rnd_pk(rng, secp), encrypted_payload: rng.vec(len) }
		})
		.collect()
}

fn gen_msg_path(rng: &mut Rng, secp: &Secp256k1<All>) -> BlindedMessagePath {
	let plain = BlindedMessagePath::from_blinded_path(rnd_pk(rng, secp), rnd_pk(rng, secp), gen_hops(rng, secp));
	if rng.chance(1, 4) {
		// introduction node given as a directed short channel id: only constructible from bytes
		let mut b = plain.encode();
		let mut v = vec![rng.below(2) as u8];
		v.extend_from_slice(&u64b(rng).to_be_bytes());
		b.splice(0..33, v);
		if let Ok(p) = BlindedMessagePath::read(&mut &b[..]) {
			return p;
		}
	}
	plain
}

fn gen_pay_path(rng: &mut Rng, secp: &Secp256k1<All>) -> BlindedPaymentPath {
	let payinfo = BlindedPayInfo {
		fee_base_msat: u64b(rng) as u32,
		fee_proportional_millionths: u64b(rng) as u32,
		cltv_expiry_delta: u64b(rng) as u16,
		htlc_minimum_msat: u64b(rng),
		htlc_maximum_msat: u64b(rng),
		features: if rng.chance(1, 3) { BlindedHopFeatures::from_le_bytes(vec![0, 0x80 >> rng.below(4) * 2]) } else { BlindedHopFeatures::empty() },
	};
	BlindedPaymentPath::from_blinded_path_and_payinfo(rnd_pk(rng, secp), rnd_pk(rng, secp), gen_hops(rng, secp), payinfo)
}

fn gen_pay_paths(rng: &mut Rng, secp: &Secp256k1<All>) -> Vec<BlindedPaymentPath> {
	(0..*rng.pick(&[1u64, 1, 2, 3])).map(|_| gen_pay_path(rng, secp)).collect()
}

fn gen_len_text(rng: &mut Rng) -> String {
	let n = match rng.below(10) {
		0 => *rng.pick(&[0usize, 1, 0xfc, 0xfd, 0xfe, 0x100]),
		1 if rng.chance(1, 4) => *rng.pick(&[0xffffusize, 0x10000, 0xfffe]),
		_ => rng.below(40) as usize,
	};
	text(rng, n)
}

#[derive(Clone, Debug)]
struct OfferParams {
	/// 0 explicit key and metadata, 1 metadata derived (no paths), 2 signing key derived (paths)
	kind: u8,
	meta: Option<Vec<u8>>,
	amount: Option<u64>,
	desc: Option<String>,
	expiry: Option<Duration>,
	issuer: Option<String>,
	paths: Vec<BlindedMessagePath>,
	quantity: Quantity,
	chains: Vec<Network>,
	nonce: [u8; 16],
	expect_err: bool,
	#[allow(dead_code)]
	subsecond: bool,
}

fn gen_offer(rng: &mut Rng, secp: &Secp256k1<All>, kind: u8, usable: bool) -> OfferParams {
	let mut expect_err = false;
	let amount = match rng.below(8) {
		0 | 1 => None,
		2 => Some(*rng.pick(&[1u64, 2, 0xfc, 0xfd, 0xffff, 0x10000, 1000, MAX_VALUE_MSAT, MAX_VALUE_MSAT - 1])),
		3 if !usable && rng.chance(1, 2) => {
			expect_err = true;
			Some(*rng.pick(&[0u64, MAX_VALUE_MSAT + 1, u64::MAX]))
		},
		_ => Some(1 + (rng.below(MAX_VALUE_MSAT) >> rng.below(60))),
	};
	let mut subsecond = false;
	let expiry = match rng.below(6) {
		0 | 1 => None,
		2 if !usable => Some(Duration::from_secs(*rng.pick(&[0u64, 1, 0xfc, 0xfd, 1_000_000_000]))),
		3 => Some(Duration::from_secs(*rng.pick(&[FUTURE, u32::MAX as u64 + 1, u64::MAX, u64::MAX - 1, 1 << 40]))),
		4 if unrep() && !usable && rng.chance(1, 6) => {
			subsecond = true;
			Some(Duration::new(FUTURE + rng.below(1000), 1 + rng.below(999_999_999) as u32))
		},
		_ => Some(Duration::from_secs(FUTURE + (rng.next() >> rng.range(1, 40)))),
	};
	let quantity = match rng.below(6) {
		0 | 1 | 2 => Quantity::One,
		3 => Quantity::Unbounded,
		4 => Quantity::Bounded(std::num::NonZeroU64::new(*rng.pick(&[1u64, 2, 0xfd, u64::MAX])).unwrap()),
		_ => Quantity::Bounded(std::num::NonZeroU64::new(1 + rng.below(1000)).unwrap()),
	};
	let chains = match rng.below(6) {
		0 | 1 | 2 => vec![],
		3 => vec![Network::Bitcoin],
		4 => vec![*rng.pick(&NETWORKS)],
		_ => {
			let mut c = NETWORKS.to_vec();
			rng.shuffle(&mut c);
			c.truncate(rng.range(2, 4) as usize);
			if rng.chance(1, 3) {
				c.push(c[0]);
			}
			c
		},
	};
	let npaths = match kind {
		1 => 0,
		2 => rng.range(1, 3),
		_ => *rng.pick(&[0u64, 0, 1, 2]),
	};
	OfferParams {
		kind,
		meta: if kind == 0 && rng.chance(1, 2) { Some(rvec(rng, &[0usize, 1, 16, 32, 48, 0xfc, 0xfd, 300])) } else { None },
		amount,
		desc: if rng.chance(2, 3) { Some(gen_len_text(rng)) } else { None },
		expiry,
		issuer: if rng.chance(1, 3) { Some(gen_len_text(rng)) } else { None },
		paths: (0..npaths).map(|_| gen_msg_path(rng, secp)).collect(),
		quantity,
		chains,
		nonce: rng.bytes(),
		expect_err,
		subsecond,
	}
}

struct Party {
	node: Keypair,
	key: ExpandedKey,
}
fn gen_party(rng: &mut Rng, secp: &Secp256k1<All>) -> Party {
	Party { node: Keypair::from_secret_key(secp, &rnd_sk(rng)), key: ExpandedKey::new(rng.bytes()) }
}

fn build_offer(p: &OfferParams, who: &Party, secp: &Secp256k1<All>) -> Result<Offer, String> {
	macro_rules! fill {
		($b:expr) => {{
			let mut b = $b;
			for c in &p.chains {
				b = b.chain(*c);
			}
			if let Some(a) = p.amount {
				b = b.amount_msats(a);
			}
			if let Some(d) = &p.desc {
				b = b.description(d.clone());
			}
			if let Some(e) = p.expiry {
				b = b.absolute_expiry(e);
			}
			if let Some(i) = &p.issuer {
				b = b.issuer(i.clone());
			}
			for path in &p.paths {
				b = b.path(path.clone());
			}
			b = b.supported_quantity(p.quantity);
			b.build().map_err(|e| format!("{:?}", e))
		}};
	}
	if p.kind == 0 {
		let mut b = OfferBuilder::new(who.node.public_key());
		if let Some(m) = &p.meta {
			b = b.metadata(m.clone()).map_err(|e| format!("{:?}", e))?;
		}
		fill!(b)
	} else {
		let nonce = Nonce::try_from(&p.nonce[..]).unwrap();
		fill!(OfferBuilder::deriving_signing_pubkey(who.node.public_key(), &who.key, nonce, secp))
	}
}

macro_rules! offer_snap {
	($o:expr) => {
		format!(
			"{:?}",
			($o.chains(), $o.metadata().cloned(), $o.amount(), $o.description().map(|d| d.0.to_string()), $o.offer_features().clone(), $o.absolute_expiry(), $o.issuer().map(|d| d.0.to_string()), $o.paths().to_vec(), $o.supported_quantity(), $o.issuer_signing_pubkey())
		)
	};
}

fn offer_expect(p: &OfferParams, o: &Offer, who: &Party) -> Result<(), String> {
	macro_rules! eq {
		($name:expr, $a:expr, $b:expr) => {
			if $a != $b {
				return Err(format!("{}: offer exposes {:?}, the builder was given {:?}", $name, $a, $b));
			}
		};
	}
	eq!("amount", o.amount(), p.amount.map(|a| Amount::Bitcoin { amount_msats: a }));
	let desc = p.desc.clone().or(if p.amount.is_some() { Some(String::new()) } else { None });
	eq!("description", o.description().map(|d| d.0.to_string()), desc);
	eq!("absolute expiry", o.absolute_expiry(), p.expiry);
	eq!("issuer", o.issuer().map(|d| d.0.to_string()), p.issuer.clone());
	eq!("paths", o.paths().to_vec(), p.paths.clone());
	eq!("supported quantity", o.supported_quantity(), p.quantity);
	let mut chains: Vec<ChainHash> = vec![];
	for c in &p.chains {
		if !chains.contains(&chain_of(*c)) {
			chains.push(chain_of(*c));
		}
	}
	if chains.is_empty() {
		chains.push(chain_of(Network::Bitcoin));
	}
	eq!("chains", o.chains(), chains);
	eq!("features", o.offer_features().clone(), lightning::types::features::OfferFeatures::empty());
	match p.kind {
		0 => {
			eq!("metadata", o.metadata().cloned(), p.meta.clone());
			eq!("signing key", o.issuer_signing_pubkey(), Some(who.node.public_key()));
		},
		1 => {
			eq!("metadata length", o.metadata().map(|m| m.len()), Some(48));
			eq!("metadata nonce", o.metadata().map(|m| m[..16].to_vec()), Some(p.nonce.to_vec()));
			eq!("signing key", o.issuer_signing_pubkey(), Some(who.node.public_key()));
		},
		_ => {
			eq!("metadata", o.metadata().cloned(), None::<Vec<u8>>);
			if o.issuer_signing_pubkey().is_none() || o.issuer_signing_pubkey() == Some(who.node.public_key()) {
				return Err("signing key: a derived key was expected".into());
			}
		},
	}
	Ok(())
}

/// B12-R1 for offers: string and bytes.
fn offer_roundtrip(ctx: &mut Ctx, o: &Offer, what: &str) {
	let s = o.to_string();
	let bytes: Vec<u8> = o.as_ref().to_vec();
	ctx.rep.count("offer_roundtrips");
	ctx.rep.max("offer_max_bytes", bytes.len() as u64);
	let wit = [("offer", s.chars().take(20_000).collect::<String>()), ("what", what.to_string())];
	match vcore::guarded(|| (Offer::from_str(&s), Offer::try_from(bytes.clone()), o.encode())) {
		Err(pn) => ctx.violate("T1-total", &format!("parsing a built offer panicked: {}", vcore::canon(&pn)), pn, &wit),
		Ok((Ok(a), Ok(b), enc)) => {
			if a != *o || b != *o || enc != bytes || a.as_ref() != &bytes[..] {
				ctx.violate("B12-R1-roundtrip", "a parsed offer differs from the built one", format!("{:?}\n{:?}", o, a), &wit);
			} else if offer_snap!(a) != offer_snap!(o) || offer_snap!(b) != offer_snap!(o) || a.id() != o.id() || a.expects_quantity() != o.expects_quantity() {
				let diff = if a.absolute_expiry() != o.absolute_expiry() && a.absolute_expiry().map(|d| d.as_secs()) == o.absolute_expiry().map(|d| d.as_secs()) { " (sub-second part of the expiry)" } else { "" };
				ctx.violate(if diff.is_empty() { "B12-R1-roundtrip" } else { "B12-R1u-unrepresentable" }, &format!("a parsed offer exposes other accessor values than the built one{}", diff), format!("built  {}\nparsed {}", offer_snap!(o), offer_snap!(a)), &wit);
			} else if a.to_string() != s {
				ctx.violate("B12-R1-roundtrip", "re-encoding a parsed offer changes the string", a.to_string(), &wit);
			}
		},
		Ok((a, b, _)) => {
			let e = format!("{:?} / {:?}", a.err(), b.err());
			ctx.violate("B12-R1-roundtrip", &format!("a built offer does not parse back: {}", vcore::canon(&e)), e, &wit);
		},
	}
}

// ---------------------------------------------------------------------------------------------
// BOLT 12: invoice requests
// ---------------------------------------------------------------------------------------------
#[derive(Clone, Debug)]
struct ReqParams {
	chain: Option<Network>,
	amount: Option<u64>,
	quantity: Option<u64>,
	note: Option<String>,
	hrn: bool,
	payment_id: [u8; 32],
	nonce: [u8; 16],
}

/// Request parameters that are valid for `offer` (None when the offer cannot be requested from).
fn gen_req(rng: &mut Rng, offer: &Offer) -> Option<ReqParams> {
	let nets: Vec<Network> = offer.chains().into_iter().filter_map(network_of).collect();
	if nets.is_empty() {
		return None;
	}
	let chain = if nets.contains(&Network::Bitcoin) && rng.chance(1, 2) { None } else { Some(*rng.pick(&nets)) };
	if chain.is_none() && !nets.contains(&Network::Bitcoin) {
		return None;
	}
	let quantity = match offer.supported_quantity() {
		Quantity::One => None,
		Quantity::Unbounded => Some(*rng.pick(&[1u64, 2, 0xfd, 1000])),
		Quantity::Bounded(n) => Some(match rng.below(3) {
			0 => 1,
			1 => n.get(),
			_ => rng.range(1, n.get()),
		}),
	};
	let amount = match offer.amount() {
		Some(Amount::Bitcoin { amount_msats }) => {
			let base = amount_msats.checked_mul(quantity.unwrap_or(1)).filter(|b| *b <= MAX_VALUE_MSAT)?;
			match rng.below(4) {
				0 => Some(base),
				1 => Some(base + rng.below(MAX_VALUE_MSAT - base + 1).min(1000)),
				2 => Some(MAX_VALUE_MSAT),
				_ => None,
			}
		},
		Some(Amount::Currency { .. }) => return None,
		None => Some(match rng.below(3) {
			0 => *rng.pick(&[0u64, 1, 0xfc, 0xfd, 0xffff, 0x10000, MAX_VALUE_MSAT]),
			_ => rng.below(MAX_VALUE_MSAT + 1) >> rng.below(60),
		}),
	};
	Some(ReqParams { chain, amount, quantity, note: if rng.chance(1, 2) { Some(gen_len_text(rng)) } else { None }, hrn: rng.chance(1, 5), payment_id: rng.bytes(), nonce: rng.bytes() })
}

fn build_request(offer: &Offer, payer: &Party, r: &ReqParams, secp: &Secp256k1<All>) -> Result<InvoiceRequest, String> {
	let e = |e| format!("{:?}", e);
	let mut b = offer.request_invoice(&payer.key, Nonce::try_from(&r.nonce[..]).unwrap(), secp, PaymentId(r.payment_id)).map_err(e)?;
	if let Some(c) = r.chain {
		b = b.chain(c).map_err(e)?;
	}
	if let Some(q) = r.quantity {
		b = b.quantity(q).map_err(e)?;
	}
	if let Some(a) = r.amount {
		b = b.amount_msats(a).map_err(e)?;
	}
	if let Some(n) = &r.note {
		b = b.payer_note(n.clone());
	}
	if r.hrn {
		b = b.sourced_from_human_readable_name(lightning::onion_message::dns_resolution::HumanReadableName::new("satoshi", "example.com").unwrap());
	}
	b.build_and_sign().map_err(e)
}

macro_rules! req_snap {
	($o:expr) => {
		format!(
			"{} {:?}",
			offer_snap!($o),
			($o.payer_metadata().to_vec(), $o.chain(), $o.amount_msats(), $o.has_amount_msats(), $o.invoice_request_features().clone(), $o.quantity(), $o.payer_signing_pubkey(), $o.payer_note().map(|d| d.0.to_string()), $o.offer_from_hrn().clone())
		)
	};
}

fn req_expect(offer: &Offer, r: &ReqParams, q: &InvoiceRequest) -> Result<(), String> {
	macro_rules! eq {
		($name:expr, $a:expr, $b:expr) => {
			if $a != $b {
				return Err(format!("{}: request exposes {:?}, expected {:?}", $name, $a, $b));
			}
		};
	}
	eq!("offer fields", offer_snap!(q), offer_snap!(offer));
	eq!("chain", q.chain(), chain_of(r.chain.unwrap_or(Network::Bitcoin)));
	let inferred = match offer.amount() {
		Some(Amount::Bitcoin { amount_msats }) => Some(amount_msats * r.quantity.unwrap_or(1)),
		_ => None,
	};
	eq!("amount", q.amount_msats(), r.amount.or(inferred));
	eq!("has amount", q.has_amount_msats(), r.amount.is_some());
	eq!("quantity", q.quantity(), r.quantity);
	eq!("payer note", q.payer_note().map(|d| d.0.to_string()), r.note.clone());
	eq!("human readable name", q.offer_from_hrn().is_some(), r.hrn);
	eq!("payer metadata length", q.payer_metadata().len(), 48);
	eq!("payer metadata nonce", q.payer_metadata()[32..].to_vec(), r.nonce.to_vec());
	Ok(())
}

/// B12-R4: every single bit of a signed stream flipped must fail to parse.
fn bitflips<T: std::fmt::Debug>(ctx: &mut Ctx, kind: &str, bytes: &[u8], rng: &mut Rng, parse: impl Fn(Vec<u8>) -> Result<T, lightning::offers::parse::Bolt12ParseError>) {
	// one object in four is swept completely (up to 1500 bytes), the others at sampled offsets
	let cap = if rng.chance(1, 4) { 1200 * ctx.budget } else { 120 * ctx.budget } as usize;
	let stride = 1 + bytes.len() / cap;
	let mut pos = rng.below(stride as u64) as usize;
	// record headers are always covered
	let heads: Vec<usize> = tlv_split(bytes).map(|r| r.iter().flat_map(|r| r.start..r.vstart).collect()).unwrap_or_default();
	let mut todo: Vec<usize> = heads;
	while pos < bytes.len() {
		todo.push(pos);
		pos += stride;
	}
	todo.sort();
	todo.dedup();
	for pos in todo {
		for bit in 0..8 {
			let mut m = bytes.to_vec();
			m[pos] ^= 1 << bit;
			ctx.rep.count(&format!("{}_bitflips", kind));
			match vcore::guarded(|| parse(m.clone())) {
				Err(pn) => {
					ctx.violate("T1-total", &format!("parsing a bit-flipped {} panicked: {}", kind, vcore::canon(&pn)), pn, &[("input_hex", vcore::hex(&m)), ("original_hex", vcore::hex(bytes))]);
					return;
				},
				Ok(Err(_)) => {},
				Ok(Ok(x)) => {
					let typ = tlv_split(bytes).and_then(|r| r.iter().find(|r| r.start <= pos && pos < r.end).map(|r| r.typ));
					ctx.violate("B12-R4-bitflip", &format!("a signed {} with one bit flipped still parses", kind), format!("byte {} bit {} (record type {:?}) of {} bytes\n{:?}", pos, bit, typ, bytes.len(), x), &[("input_hex", vcore::hex(&m)), ("original_hex", vcore::hex(bytes))]);
					return;
				},
			}
		}
	}
}

fn request_roundtrip(ctx: &mut Ctx, q: &InvoiceRequest, rng: &mut Rng, flips: bool) -> Vec<u8> {
	let bytes = q.encode();
	ctx.rep.count("invoice_request_roundtrips");
	ctx.rep.max("invoice_request_max_bytes", bytes.len() as u64);
	let wit = [("invoice_request_hex", vcore::hex(&bytes))];
	match vcore::guarded(|| InvoiceRequest::try_from(bytes.clone())) {
		Err(pn) => ctx.violate("T1-total", &format!("parsing a built invoice request panicked: {}", vcore::canon(&pn)), pn, &wit),
		Ok(Ok(a)) => {
			if a != *q || a.encode() != bytes || a.signature() != q.signature() {
				ctx.violate("B12-R1-roundtrip", "a parsed invoice request differs from the built one", format!("{:?}\n{:?}", q, a), &wit);
			} else if req_snap!(a) != req_snap!(q) {
				ctx.violate("B12-R1-roundtrip", "a parsed invoice request exposes other accessor values than the built one", format!("built  {}\nparsed {}", req_snap!(q), req_snap!(a)), &wit);
			}
		},
		Ok(Err(e)) => ctx.violate("B12-R1-roundtrip", &format!("a built invoice request does not parse back: {}", vcore::canon(&format!("{:?}", e))), format!("{:?}", e), &wit),
	}
	ctx.rep.count("b12_own_merkle_signature_checks");
	let secp = ctx.secp.clone();
	if let Err(e) = b12_own_verify(&secp, "invoice_request", &bytes, &q.payer_signing_pubkey()) {
		ctx.violate("B12-S1-signature", "the signature of a built invoice request does not verify under the specification's merkle root", e, &wit);
	}
	// the unsigned form is a parser of its own
	let unsigned = tlv_set(&bytes, 240, None);
	if let Err(pn) = vcore::guarded(|| UnsignedInvoiceRequest::try_from(unsigned.clone()).map(|u| u.tagged_hash().as_digest().as_ref().to_vec())) {
		ctx.violate("T1-total", &format!("parsing an unsigned invoice request panicked: {}", vcore::canon(&pn)), pn, &wit);
	}
	if flips {
		bitflips(ctx, "invoice_request", &bytes, rng, InvoiceRequest::try_from);
	}
	bytes
}

// ---------------------------------------------------------------------------------------------
// BOLT 12: invoices
// ---------------------------------------------------------------------------------------------
#[derive(Clone, Debug)]
struct InvParams {
	paths: Vec<BlindedPaymentPath>,
	hash: [u8; 32],
	created_at: Duration,
	relative_expiry: Option<u32>,
	fallbacks: Vec<u8>,
	fb_bytes: [u8; 32],
	mpp: bool,
	#[allow(dead_code)]
	subsecond: bool,
}

fn gen_inv(rng: &mut Rng, secp: &Secp256k1<All>) -> InvParams {
	let subsecond = unrep() && rng.chance(1, 40);
	InvParams {
		paths: gen_pay_paths(rng, secp),
		hash: rng.bytes(),
		created_at: Duration::new(
			match rng.below(4) {
				0 => *rng.pick(&[0u64, 1, 0xfc, 0xfd, 0xffff, 0x10000, u32::MAX as u64, u64::MAX, u64::MAX - 7200]),
				_ => 1_700_000_000 + rng.below(1 << 28),
			},
			if subsecond { 1 + rng.below(999_999_999) as u32 } else { 0 },
		),
		relative_expiry: match rng.below(4) {
			0 => None,
			1 => Some(*rng.pick(&[0u32, 1, 0xfc, 0xfd, 7200, 0xffff, 0x10000, u32::MAX])),
			_ => Some(rng.next() as u32 >> rng.below(32)),
		},
		fallbacks: (0..*rng.pick(&[0u64, 0, 1, 2, 3])).map(|_| rng.below(3) as u8).collect(),
		fb_bytes: rng.bytes(),
		mpp: rng.chance(1, 2),
		subsecond,
	}
}

macro_rules! inv_fill {
	($b:expr, $p:expr, $secp:expr) => {{
		let mut b = $b;
		if let Some(e) = $p.relative_expiry {
			b = b.relative_expiry(e);
		}
		for f in &$p.fallbacks {
			b = match f {
				0 => b.fallback_v0_p2wsh(&bitcoin::WScriptHash::from_byte_array($p.fb_bytes)),
				1 => b.fallback_v0_p2wpkh(&bitcoin::WPubkeyHash::from_slice(&$p.fb_bytes[..20]).unwrap()),
				_ => b.fallback_v1_p2tr_tweaked(&bitcoin::key::TweakedPublicKey::dangerous_assume_tweaked(Keypair::from_secret_key($secp, &sk(7, $p.fb_bytes[0] as u64 + 1)).x_only_public_key().0)),
			};
		}
		if $p.mpp {
			b = b.allow_mpp();
		}
		b
	}};
}

fn inv_snap(i: &Bolt12Invoice) -> String {
	let a = (i.is_for_refund(), i.is_for_offer(), i.offer_chains(), i.chain(), i.metadata().cloned(), i.amount(), i.offer_features().cloned(), i.description().map(|d| d.0.to_string()), i.absolute_expiry(), i.issuer().map(|d| d.0.to_string()), i.message_paths().to_vec(), i.supported_quantity());
	let b = (i.issuer_signing_pubkey(), i.payer_metadata().to_vec(), i.invoice_request_features().clone(), i.quantity(), i.payer_signing_pubkey(), i.payer_note().map(|d| d.0.to_string()), i.payment_hash(), i.amount_msats(), i.payment_paths().to_vec(), i.created_at(), i.relative_expiry(), i.fallbacks());
	let c = (i.invoice_features().clone(), i.signing_pubkey(), i.signature(), i.signable_hash(), i.offer_id().map(|o| o.0), i.is_expired_no_std(Duration::from_secs(1_800_000_000)));
	format!("{:?} {:?} {:?}", a, b, c)
}

fn inv_expect(p: &InvParams, i: &Bolt12Invoice, amount: u64, signer: Option<PublicKey>) -> Result<(), String> {
	macro_rules! eq {
		($name:expr, $a:expr, $b:expr) => {
			if $a != $b {
				return Err(format!("{}: invoice exposes {:?}, expected {:?}", $name, $a, $b));
			}
		};
	}
	eq!("payment hash", i.payment_hash(), PaymentHash(p.hash));
	eq!("amount", i.amount_msats(), amount);
	eq!("created at", i.created_at(), p.created_at);
	eq!("relative expiry", i.relative_expiry(), Duration::from_secs(p.relative_expiry.map(|e| e as u64).unwrap_or(7200)));
	eq!("payment paths", i.payment_paths().to_vec(), p.paths.clone());
	eq!("mpp feature", i.invoice_features().supports_basic_mpp(), p.mpp);
	eq!("fallback count", i.fallbacks().len(), p.fallbacks.len());
	if let Some(k) = signer {
		eq!("signing key", i.signing_pubkey(), k);
	}
	Ok(())
}

/// B12-R1 / S1 / R4 for an invoice; returns its bytes.
fn invoice_roundtrip(ctx: &mut Ctx, i: &Bolt12Invoice, rng: &mut Rng, flips: bool) -> Vec<u8> {
	let bytes = i.encode();
	ctx.rep.count("invoice_roundtrips");
	ctx.rep.max("invoice_max_bytes", bytes.len() as u64);
	let wit = [("invoice_hex", vcore::hex(&bytes))];
	match vcore::guarded(|| Bolt12Invoice::try_from(bytes.clone())) {
		Err(pn) => ctx.violate("T1-total", &format!("parsing a built invoice panicked: {}", vcore::canon(&pn)), pn, &wit),
		Ok(Ok(a)) => {
			if a != *i || a.encode() != bytes {
				ctx.violate("B12-R1-roundtrip", "a parsed BOLT12 invoice differs from the built one", format!("{:?}\n{:?}", i, a), &wit);
			} else if inv_snap(&a) != inv_snap(i) {
				let diff = if a.created_at() != i.created_at() && a.created_at().as_secs() == i.created_at().as_secs() { " (sub-second part of created_at)" } else { "" };
				ctx.violate(if diff.is_empty() { "B12-R1-roundtrip" } else { "B12-R1u-unrepresentable" }, &format!("a parsed BOLT12 invoice exposes other accessor values than the built one{}", diff), format!("built  {}\nparsed {}", inv_snap(i), inv_snap(&a)), &wit);
			}
		},
		Ok(Err(e)) => ctx.violate("B12-R1-roundtrip", &format!("a built BOLT12 invoice does not parse back: {}", vcore::canon(&format!("{:?}", e))), format!("{:?}", e), &wit),
	}
	ctx.rep.count("b12_own_merkle_signature_checks");
	let secp = ctx.secp.clone();
	match b12_own_verify(&secp, "invoice", &bytes, &i.signing_pubkey()) {
		Err(e) => ctx.violate("B12-S1-signature", "the signature of a built BOLT12 invoice does not verify under the specification's merkle root", e, &wit),
		Ok(()) => {
			if b12_digest("invoice", &bytes) != Some(i.signable_hash()) {
				ctx.violate("B12-S1-signature", "the signable hash of a BOLT12 invoice is not the specification's digest", String::new(), &wit);
			}
		},
	}
	let unsigned = tlv_set(&bytes, 240, None);
	if let Err(pn) = vcore::guarded(|| UnsignedBolt12Invoice::try_from(unsigned.clone()).map(|u| u.tagged_hash().as_digest().as_ref().to_vec())) {
		ctx.violate("T1-total", &format!("parsing an unsigned invoice panicked: {}", vcore::canon(&pn)), pn, &wit);
	}
	if flips {
		bitflips(ctx, "invoice", &bytes, rng, Bolt12Invoice::try_from);
	}
	bytes
}

/// B12-R5 on a signed invoice whose signing key we hold.
fn invoice_tlv_rules(ctx: &mut Ctx, bytes: &[u8], keys: &Keypair, rng: &mut Rng) {
	let secp = ctx.secp.clone();
	let val = rvec(rng, &[0usize, 1, 3, 32, 0xfc, 0xfd]);
	let odd = *rng.pick(&[161u64, 163, 177, 235, 237, 239, 3_000_000_001, 3_999_999_999]);
	let even = *rng.pick(&[178u64, 180, 234, 238, 3_000_000_000, 3_999_999_998]);
	let with_odd = b12_resign(&secp, "invoice", &tlv_set(bytes, odd, Some(&val)), keys);
	ctx.rep.count("tlv_unknown_odd_checks");
	match vcore::guarded(|| Bolt12Invoice::try_from(with_odd.clone())) {
		Ok(Ok(i)) => {
			if i.encode() != with_odd {
				ctx.violate("B12-R5-tlv", "an unknown odd record of a signed invoice is not kept", String::new(), &[("input_hex", vcore::hex(&with_odd))]);
			}
			// the record is covered by the signature
			let rec = tlv_split(&with_odd).unwrap().into_iter().find(|r| r.typ == odd).unwrap();
			let mut m = with_odd.clone();
			let at = if rec.end > rec.vstart { rec.vstart + rng.below((rec.end - rec.vstart) as u64) as usize } else { rec.vstart - 1 };
			m[at] ^= 1 << rng.below(8);
			if let Ok(Ok(_)) = vcore::guarded(|| Bolt12Invoice::try_from(m.clone())) {
				ctx.violate("B12-R5-tlv", "an unknown odd record of a signed invoice is not covered by the signature", format!("type {}", odd), &[("input_hex", vcore::hex(&m))]);
			}
		},
		Ok(Err(e)) => ctx.violate("B12-R5-tlv", &format!("an invoice with an unknown odd record in an allowed range is refused: {}", vcore::canon(&format!("{:?}", e))), format!("type {} {:?}", odd, e), &[("input_hex", vcore::hex(&with_odd))]),
		Err(pn) => ctx.violate("T1-total", &format!("parsing an invoice with an unknown record panicked: {}", vcore::canon(&pn)), pn, &[("input_hex", vcore::hex(&with_odd))]),
	}
	let with_even = b12_resign(&secp, "invoice", &tlv_set(bytes, even, Some(&val)), keys);
	ctx.rep.count("tlv_unknown_even_checks");
	match vcore::guarded(|| Bolt12Invoice::try_from(with_even.clone())) {
		Ok(Ok(_)) => ctx.violate("B12-R5-tlv", "an invoice with an unknown even record is accepted", format!("type {}", even), &[("input_hex", vcore::hex(&with_even))]),
		Ok(Err(_)) => {},
		Err(pn) => ctx.violate("T1-total", &format!("parsing an invoice with an unknown record panicked: {}", vcore::canon(&pn)), pn, &[("input_hex", vcore::hex(&with_even))]),
	}
	// re-signed by somebody else: must fail
	let other = Keypair::from_secret_key(&secp, &rnd_sk(rng));
	let forged = b12_resign(&secp, "invoice", &tlv_set(bytes, 168, Some(&rng.bytes::<32>()[..])), &other);
	ctx.rep.count("b12_foreign_signature_checks");
	if let Ok(Ok(_)) = vcore::guarded(|| Bolt12Invoice::try_from(forged.clone())) {
		ctx.violate("B12-R4-bitflip", "an invoice altered and signed by another key is accepted", String::new(), &[("input_hex", vcore::hex(&forged))]);
	}
}

// ---------------------------------------------------------------------------------------------
// BOLT 12: altered copies
// ---------------------------------------------------------------------------------------------
fn tu64(v: u64) -> Vec<u8> {
	let b = v.to_be_bytes();
	b[b.iter().position(|x| *x != 0).unwrap_or(8)..].to_vec()
}
fn from_tu64(b: &[u8]) -> u64 {
	b.iter().fold(0u64, |a, x| (a << 8) | *x as u64)
}

/// Altered, re-serialized copies of an offer: (field name, bytes).
fn alter_offer(b: &[u8], rng: &mut Rng, secp: &Secp256k1<All>) -> Vec<(&'static str, Vec<u8>)> {
	let mut out: Vec<(&'static str, Vec<u8>)> = vec![];
	match tlv_get(b, 8) {
		Some(v) => {
			let a = from_tu64(v);
			out.push(("amount", tlv_set(b, 8, Some(&tu64(if a > 1 { a - 1 } else { a + 1 })))));
			out.push(("amount", tlv_set(b, 8, Some(&tu64((a / 2).max(1) + (a == 1) as u64)))));
		},
		None => {
			let with_desc = if tlv_get(b, 10).is_none() { tlv_set(b, 10, Some(b"")) } else { b.to_vec() };
			out.push(("amount", tlv_set(&with_desc, 8, Some(&tu64(1 + rng.below(100_000))))));
		},
	}
	let mut d = tlv_get(b, 10).map(|v| v.to_vec()).unwrap_or_default();
	d.push(b'x');
	out.push(("description", tlv_set(b, 10, Some(&d))));
	let e = tlv_get(b, 14).map(from_tu64);
	out.push(("absolute_expiry", tlv_set(b, 14, Some(&tu64(if e == Some(FUTURE + 77) { FUTURE + 78 } else { FUTURE + 77 })))));
	if e.is_some() {
		out.push(("absolute_expiry", tlv_set(b, 14, None)));
	}
	match tlv_get(b, 18) {
		Some(v) => {
			out.push(("issuer", tlv_set(b, 18, None)));
			let mut v = v.to_vec();
			v.insert(0, b'I');
			out.push(("issuer", tlv_set(b, 18, Some(&v))));
		},
		None => out.push(("issuer", tlv_set(b, 18, Some(b"someone else")))),
	}
	match tlv_get(b, 20) {
		Some(v) => {
			out.push(("quantity_max", tlv_set(b, 20, None)));
			out.push(("quantity_max", tlv_set(b, 20, Some(&tu64(from_tu64(v).wrapping_add(1))))));
		},
		None => out.push(("quantity_max", tlv_set(b, 20, Some(&tu64(rng.below(9)))))),
	}
	match tlv_get(b, 2) {
		Some(v) => {
			out.push(("chains", tlv_set(b, 2, None)));
			let mut v = v.to_vec();
			v.extend_from_slice(chain_of(Network::Bitcoin).as_bytes());
			out.push(("chains", tlv_set(b, 2, Some(&v))));
		},
		None => {
			let mut v = chain_of(Network::Bitcoin).as_bytes().to_vec();
			v.extend_from_slice(chain_of(Network::Testnet).as_bytes());
			out.push(("chains", tlv_set(b, 2, Some(&v))));
		},
	}
	out.push(("features", tlv_set(b, 12, Some(&[0x80 >> (2 * rng.below(4))]))));
	if let Some(v) = tlv_get(b, 16) {
		let mut v = v.to_vec();
		let n = v.len();
		v[n - 1] ^= 1 << rng.below(8);
		out.push(("paths", tlv_set(b, 16, Some(&v))));
		let mut v2 = tlv_get(b, 16).unwrap().to_vec();
		v2.extend_from_slice(&gen_msg_path(rng, secp).encode());
		out.push(("paths", tlv_set(b, 16, Some(&v2))));
	}
	out.push(("issuer_id", tlv_set(b, 22, Some(&rnd_pk(rng, secp).serialize()[..]))));
	if let Some(v) = tlv_get(b, 22) {
		if v.len() == 33 {
			// the same x coordinate with the other parity
			let mut v = v.to_vec();
			v[0] ^= 1;
			out.push(("issuer_id parity", tlv_set(b, 22, Some(&v))));
		}
	}
	match tlv_get(b, 4) {
		Some(v) if !v.is_empty() => {
			let mut v = v.to_vec();
			let at = rng.below(v.len() as u64) as usize;
			v[at] ^= 1 << rng.below(8);
			out.push(("metadata", tlv_set(b, 4, Some(&v))));
		},
		_ => out.push(("metadata", tlv_set(b, 4, Some(&rvec(rng, &[1usize, 16, 32, 48]))))),
	}
	let odd = *rng.pick(&[1u64, 3, 23, 79, 1_000_000_001, 1_999_999_999]);
	out.push(("unknown odd record", tlv_set(b, odd, Some(&rvec(rng, &[0usize, 1, 8, 0xfd])))));
	out
}

/// Altered copies of the request part of a refund or of an invoice (types 0, 10..18, 80..91).
fn alter_request_part(b: &[u8], rng: &mut Rng, secp: &Secp256k1<All>) -> Vec<(&'static str, Vec<u8>)> {
	let mut out: Vec<(&'static str, Vec<u8>)> = vec![];
	let mut d = tlv_get(b, 89).map(|v| v.to_vec()).unwrap_or_default();
	d.extend_from_slice(b"+1");
	out.push(("payer_note", tlv_set(b, 89, Some(&d))));
	let mut d = tlv_get(b, 10).map(|v| v.to_vec()).unwrap_or_default();
	d.push(b'x');
	out.push(("description", tlv_set(b, 10, Some(&d))));
	if let Some(v) = tlv_get(b, 82) {
		let a = from_tu64(v);
		let a2 = if a > 0 { a - 1 } else { a + 1 };
		let mut m = tlv_set(b, 82, Some(&tu64(a2)));
		if tlv_get(b, 170).is_some() {
			m = tlv_set(&m, 170, Some(&tu64(a2)));
		}
		out.push(("amount", m));
	}
	match tlv_get(b, 86) {
		Some(v) => out.push(("quantity", tlv_set(b, 86, Some(&tu64(from_tu64(v).wrapping_add(1).max(1)))))),
		None if tlv_get(b, 22).is_none() && tlv_get(b, 16).is_none() => out.push(("quantity", tlv_set(b, 86, Some(&tu64(3))))),
		None => {},
	}
	out.push(("absolute_expiry", tlv_set(b, 14, Some(&tu64(FUTURE + 5 + tlv_get(b, 14).map(from_tu64).unwrap_or(0) % 1000)))));
	out.push(("issuer", tlv_set(b, 18, Some(b"another issuer"))));
	out.push(("payer_id", tlv_set(b, 88, Some(&rnd_pk(rng, secp).serialize()[..]))));
	if let Some(v) = tlv_get(b, 88) {
		if v.len() == 33 {
			let mut v = v.to_vec();
			v[0] ^= 1;
			out.push(("payer_id parity", tlv_set(b, 88, Some(&v))));
		}
	}
	if let Some(v) = tlv_get(b, 0) {
		if !v.is_empty() {
			let mut v = v.to_vec();
			let at = rng.below(v.len() as u64) as usize;
			v[at] ^= 1 << rng.below(8);
			out.push(("payer_metadata", tlv_set(b, 0, Some(&v))));
		}
	}
	out.push(("unknown odd record", tlv_set(b, *rng.pick(&[93u64, 159, 2_000_000_001]), Some(&rvec(rng, &[0usize, 4, 40])))));
	out
}

// ---------------------------------------------------------------------------------------------
// BOLT 12: the offer flow
// ---------------------------------------------------------------------------------------------
fn sign_invoice(secp: &Secp256k1<All>, unsigned: UnsignedBolt12Invoice, keys: &Keypair) -> Result<Bolt12Invoice, String> {
	unsigned.sign(|m: &UnsignedBolt12Invoice| Ok(secp.sign_schnorr_no_aux_rand(m.tagged_hash().as_digest(), keys))).map_err(|e| format!("{:?}", e))
}

fn verify_req(kind: u8, q: &InvoiceRequest, key: &ExpandedKey, nonce: Nonce, secp: &Secp256k1<All>) -> Result<InvoiceRequestVerifiedFromOffer, ()> {
	if kind == 2 {
		q.clone().verify_using_recipient_data(nonce, key, secp)
	} else {
		q.clone().verify_using_metadata(key, secp)
	}
}

fn offer_flow(ctx: &mut Ctx, rng: &mut Rng, kind: u8) {
	let secp = ctx.secp.clone();
	let (recipient, payer, stranger) = (gen_party(rng, &secp), gen_party(rng, &secp), gen_party(rng, &secp));
	let usable = rng.chance(3, 4);
	let p = gen_offer(rng, &secp, kind, usable);
	let pw = vec![("offer_params", format!("{:?}", p).chars().take(6000).collect::<String>())];
	let offer = match vcore::guarded(|| build_offer(&p, &recipient, &secp)) {
		Err(pn) => return ctx.violate("B12-R1-roundtrip", &format!("the offer builder panicked: {}", vcore::canon(&pn)), pn, &pw),
		Ok(Err(e)) => {
			ctx.rep.count("offer_builder_rejected");
			if !p.expect_err {
				ctx.rep.inconclusive(format!("offer generator produced inputs the builder refuses: {}", e));
			}
			return;
		},
		Ok(Ok(o)) => o,
	};
	if p.expect_err {
		return ctx.violate("B12-R0-builder", "the offer builder accepted an amount outside its documented limits", format!("{:?}", offer), &pw);
	}
	ctx.rep.count("offers_built");
	ctx.rep.distinct(Fnv::new().str("offer").u64(kind as u64).u64(p.amount.is_some() as u64 | (p.desc.is_some() as u64) << 1 | (p.expiry.is_some() as u64) << 2 | (p.issuer.is_some() as u64) << 3).u64(p.paths.len() as u64).u64(p.chains.len() as u64).str(&format!("{:?}", p.quantity).chars().take(7).collect::<String>()).get());
	if let Err(e) = offer_expect(&p, &offer, &recipient) {
		ctx.violate("B12-R0-builder", &format!("a built offer does not expose what the builder was given: {}", vcore::canon(e.split(':').next().unwrap_or(""))), e, &pw);
	}
	offer_roundtrip(ctx, &offer, "built");
	// R5 on the unsigned offer: unknown even refused, unknown odd kept
	let val = rvec(rng, &[0usize, 1, 9, 0xfc, 0xfd]);
	let odd = *rng.pick(&[1u64, 3, 5, 23, 25, 79, 1_000_000_001, 1_999_999_999]);
	let even = *rng.pick(&[24u64, 26, 78, 1_000_000_000, 1_999_999_998]);
	let ob: Vec<u8> = offer.as_ref().to_vec();
	ctx.rep.count("tlv_unknown_even_checks");
	let with_even = tlv_set(&ob, even, Some(&val));
	match vcore::guarded(|| Offer::try_from(with_even.clone())) {
		Ok(Ok(_)) => ctx.violate("B12-R5-tlv", "an offer with an unknown even record is accepted", format!("type {}", even), &[("input_hex", vcore::hex(&with_even))]),
		Ok(Err(_)) => {},
		Err(pn) => ctx.violate("T1-total", &format!("parsing an offer with an unknown record panicked: {}", vcore::canon(&pn)), pn, &[("input_hex", vcore::hex(&with_even))]),
	}
	ctx.rep.count("tlv_unknown_odd_checks");
	let with_odd = tlv_set(&ob, odd, Some(&val));
	let mut extended: Option<Offer> = None;
	match vcore::guarded(|| Offer::try_from(with_odd.clone())) {
		Ok(Ok(o)) => {
			if o.as_ref() != &with_odd[..] || o.encode() != with_odd {
				ctx.violate("B12-R5-tlv", "an unknown odd record of an offer is not kept", String::new(), &[("input_hex", vcore::hex(&with_odd))]);
			} else {
				offer_roundtrip(ctx, &o, "with an unknown odd record");
				extended = Some(o);
			}
		},
		Ok(Err(e)) => ctx.violate("B12-R5-tlv", &format!("an offer with an unknown odd record in an allowed range is refused: {}", vcore::canon(&format!("{:?}", e))), format!("type {} {:?}", odd, e), &[("input_hex", vcore::hex(&with_odd))]),
		Err(pn) => ctx.violate("T1-total", &format!("parsing an offer with an unknown record panicked: {}", vcore::canon(&pn)), pn, &[("input_hex", vcore::hex(&with_odd))]),
	}
	if !usable {
		return;
	}
	// for offers that are not tied to derived material the flow continues on the extended copy
	let carried = if kind == 0 && rng.chance(1, 2) { extended.map(|o| (o, odd, val.clone())) } else { None };
	let base: &Offer = carried.as_ref().map(|c| &c.0).unwrap_or(&offer);
	let r = match gen_req(rng, base) {
		Some(r) => r,
		None => return ctx.rep.count("offers_not_requestable"),
	};
	let req = match vcore::guarded(|| build_request(base, &payer, &r, &secp)) {
		Err(pn) => return ctx.violate("B12-R1-roundtrip", &format!("the invoice request builder panicked: {}", vcore::canon(&pn)), pn, &pw),
		Ok(Err(e)) => return ctx.rep.inconclusive(format!("request generator produced inputs the builder refuses: {}", e)),
		Ok(Ok(q)) => q,
	};
	ctx.rep.count("invoice_requests_built");
	let rw = vec![("offer", base.to_string().chars().take(20_000).collect::<String>()), ("request_params", format!("{:?}", r)), ("invoice_request_hex", vcore::hex(&req.encode()))];
	if let Err(e) = req_expect(base, &r, &req) {
		ctx.violate("B12-R0-builder", &format!("a built invoice request does not expose what the builder was given: {}", vcore::canon(e.split(':').next().unwrap_or(""))), e, &rw);
	}
	let req_bytes = request_roundtrip(ctx, &req, rng, true);
	if let Some((_, t, v)) = &carried {
		ctx.rep.count("tlv_unknown_odd_carried_into_request");
		if tlv_get(&req_bytes, *t) != Some(&v[..]) {
			ctx.violate("B12-R5-tlv", "an unknown odd record of the offer is missing from the invoice request built against it", format!("type {}", t), &rw);
		}
	}
	// M1 / M2 on the request
	let nonce = Nonce::try_from(&p.nonce[..]).unwrap();
	let other_nonce = Nonce::try_from(&rng.bytes::<16>()[..]).unwrap();
	let verified = verify_req(kind, &req, &recipient.key, nonce, &secp);
	let refused = |ctx: &mut Ctx, name: &str, res: Result<InvoiceRequestVerifiedFromOffer, ()>| {
		ctx.rep.count("metadata_verifications_expected_refused");
		if res.is_ok() {
			ctx.violate("B12-M2-refuse", &format!("invoice request verification succeeds {}", name), format!("offer kind {}", kind), &rw);
		}
	};
	match kind {
		0 => {
			refused(ctx, "for an offer that carries no derived metadata (verify_using_metadata)", req.clone().verify_using_metadata(&recipient.key, &secp));
			refused(ctx, "for an offer that carries no derived metadata (verify_using_recipient_data)", req.clone().verify_using_recipient_data(nonce, &recipient.key, &secp));
		},
		1 => {
			refused(ctx, "under another node's ExpandedKey", req.clone().verify_using_metadata(&stranger.key, &secp));
			refused(ctx, "under the payer's ExpandedKey", req.clone().verify_using_metadata(&payer.key, &secp));
			refused(ctx, "via recipient data for an offer whose signing key is not derived", req.clone().verify_using_recipient_data(nonce, &recipient.key, &secp));
		},
		_ => {
			refused(ctx, "under another node's ExpandedKey", req.clone().verify_using_recipient_data(nonce, &stranger.key, &secp));
			refused(ctx, "under another nonce", req.clone().verify_using_recipient_data(other_nonce, &recipient.key, &secp));
			refused(ctx, "via offer metadata for an offer that has none", req.clone().verify_using_metadata(&recipient.key, &secp));
		},
	}
	if kind != 0 {
		ctx.rep.count("metadata_verifications_expected_ok");
		match &verified {
			Err(()) => ctx.violate("B12-M1-verify", "verification of a request for the originator's own offer is refused", format!("offer kind {}", kind), &rw),
			Ok(v) => {
				let derived = matches!(v, InvoiceRequestVerifiedFromOffer::DerivedKeys(_));
				if v.offer_id() != offer.id() || derived != (kind == 2) {
					ctx.violate("B12-M1-verify", "verification of a request returns another offer id or key kind", format!("offer kind {} derived {}", kind, derived), &rw);
				}
			},
		}
		// requests against altered copies of the offer
		for (field, bytes2) in alter_offer(&ob, rng, &secp) {
			if bytes2 == ob {
				continue;
			}
			let o2 = match vcore::guarded(|| Offer::try_from(bytes2.clone())) {
				Err(pn) => {
					ctx.violate("T1-total", &format!("parsing an altered offer panicked: {}", vcore::canon(&pn)), pn, &[("input_hex", vcore::hex(&bytes2))]);
					continue;
				},
				Ok(Err(_)) => {
					ctx.rep.count("altered_offers_unparseable");
					continue;
				},
				Ok(Ok(o)) => o,
			};
			let q2 = match gen_req(rng, &o2).and_then(|r2| vcore::guarded(|| build_request(&o2, &payer, &r2, &secp)).ok().and_then(|r| r.ok())) {
				Some(q) => q,
				None => {
					ctx.rep.count("altered_offers_not_requestable");
					continue;
				},
			};
			ctx.rep.count("requests_against_altered_offers");
			if verify_req(kind, &q2, &recipient.key, nonce, &secp).is_ok() {
				ctx.violate("B12-M2-refuse", &format!("a request built against a copy of the offer altered in `{}` verifies", field), format!("offer kind {}", kind), &[("offer_hex", vcore::hex(&ob)), ("altered_offer_hex", vcore::hex(&bytes2)), ("invoice_request_hex", vcore::hex(&q2.encode()))]);
			}
			if kind == 2 && o2.chains().len() <= 1 {
				ctx.rep.count("static_invoices_against_altered_offers");
				let r = vcore::guarded(|| StaticInvoiceBuilder::for_offer_using_derived_keys(&o2, gen_pay_paths(&mut rng.clone(), &secp), vec![gen_msg_path(&mut rng.clone(), &secp)], Duration::from_secs(1_700_000_000), &recipient.key, nonce, &secp).is_ok());
				if let Ok(true) = r {
					ctx.violate("B12-M2-refuse", &format!("a static invoice can be built for a copy of the offer altered in `{}`", field), String::new(), &[("offer_hex", vcore::hex(&ob)), ("altered_offer_hex", vcore::hex(&bytes2))]);
				}
			}
		}
	}
	// the invoice
	let ip = gen_inv(rng, &secp);
	let built: Result<Result<Bolt12Invoice, String>, String> = vcore::guarded(|| match (kind, verified) {
		(0, _) => {
			let b = req.respond_with_no_std(ip.paths.clone(), PaymentHash(ip.hash), ip.created_at).map_err(|e| format!("{:?}", e))?;
			sign_invoice(&secp, inv_fill!(b, ip, &secp).build().map_err(|e| format!("{:?}", e))?, &recipient.node)
		},
		(_, Ok(InvoiceRequestVerifiedFromOffer::ExplicitKeys(v))) => {
			let b = v.respond_with_no_std(ip.paths.clone(), PaymentHash(ip.hash), ip.created_at).map_err(|e| format!("{:?}", e))?;
			sign_invoice(&secp, inv_fill!(b, ip, &secp).build().map_err(|e| format!("{:?}", e))?, &recipient.node)
		},
		(_, Ok(InvoiceRequestVerifiedFromOffer::DerivedKeys(v))) => {
			let b = v.respond_using_derived_keys_no_std(ip.paths.clone(), PaymentHash(ip.hash), ip.created_at).map_err(|e| format!("{:?}", e))?;
			inv_fill!(b, ip, &secp).build_and_sign(&secp).map_err(|e| format!("{:?}", e))
		},
		(_, Err(())) => Err("request not verified".into()),
	});
	let inv = match built {
		Err(pn) => return ctx.violate("B12-R1-roundtrip", &format!("the invoice builder panicked: {}", vcore::canon(&pn)), pn, &rw),
		Ok(Err(e)) => return ctx.rep.inconclusive(format!("invoice could not be built: {}", e)),
		Ok(Ok(i)) => i,
	};
	ctx.rep.count("invoices_built");
	ctx.rep.distinct(Fnv::new().str("invoice").u64(kind as u64).u64(ip.paths.len() as u64).u64(ip.fallbacks.len() as u64).u64(ip.relative_expiry.is_some() as u64 * 2 + ip.mpp as u64).u64(r.amount.is_some() as u64 * 4 + r.quantity.is_some() as u64 * 2 + r.note.is_some() as u64).get());
	let iw = vec![("invoice_hex", vcore::hex(&inv.encode())), ("invoice_params", format!("{:?}", ip).chars().take(4000).collect::<String>())];
	let want_amount = req.amount_msats().unwrap_or(0);
	if let Err(e) = inv_expect(&ip, &inv, want_amount, base.issuer_signing_pubkey()) {
		ctx.violate("B12-R0-builder", &format!("a built BOLT12 invoice does not expose what the builder was given: {}", vcore::canon(e.split(':').next().unwrap_or(""))), e, &iw);
	}
	if inv.offer_id().map(|o| o.0) != Some(base.id().0) || inv.payer_signing_pubkey() != req.payer_signing_pubkey() || inv.payer_metadata() != req.payer_metadata() || inv.quantity() != req.quantity() || inv.is_for_refund() {
		ctx.violate("B12-R0-builder", "a built BOLT12 invoice does not reflect the request it answers", inv_snap(&inv), &iw);
	}
	let inv_bytes = invoice_roundtrip(ctx, &inv, rng, true);
	if let Some((_, t, v)) = &carried {
		if tlv_get(&inv_bytes, *t) != Some(&v[..]) {
			ctx.violate("B12-R5-tlv", "an unknown odd record of the offer is missing from the invoice", format!("type {}", t), &iw);
		}
	}
	ctx.rep.count("metadata_verifications_expected_ok");
	match inv.verify_using_metadata(&payer.key, &secp) {
		Ok(id) if id.0 == r.payment_id => {},
		Ok(id) => ctx.violate("B12-M1-verify", "invoice verification returns another payment id", vcore::hex(&id.0), &iw),
		Err(()) => {
			let why = if carried.is_some() { " (the offer carries an unknown odd record)" } else { "" };
			ctx.violate("B12-M1-verify", &format!("verification of the invoice answering the payer's own request is refused{}", why), String::new(), &iw)
		},
	}
	for (name, k) in [("another node's", &stranger.key), ("the recipient's", &recipient.key)] {
		ctx.rep.count("metadata_verifications_expected_refused");
		if inv.verify_using_metadata(k, &secp).is_ok() {
			ctx.violate("B12-M2-refuse", &format!("invoice verification succeeds under {} ExpandedKey", name), String::new(), &iw);
		}
	}
	if kind != 2 {
		invoice_tlv_rules(ctx, &inv_bytes, &recipient.node, rng);
		// the issuer answers an altered request
		for (field, b2) in alter_request_part(&inv_bytes, rng, &secp) {
			let b2 = b12_resign(&secp, "invoice", &b2, &recipient.node);
			match vcore::guarded(|| Bolt12Invoice::try_from(b2.clone())) {
				Err(pn) => ctx.violate("T1-total", &format!("parsing an altered invoice panicked: {}", vcore::canon(&pn)), pn, &[("input_hex", vcore::hex(&b2))]),
				Ok(Err(_)) => ctx.rep.count("altered_invoices_unparseable"),
				Ok(Ok(i2)) => {
					ctx.rep.count("invoices_answering_altered_requests");
					if i2.verify_using_metadata(&payer.key, &secp).is_ok() {
						ctx.violate("B12-M2-refuse", &format!("an invoice answering a request altered in `{}` verifies for the payer", field), String::new(), &[("invoice_hex", vcore::hex(&inv_bytes)), ("altered_invoice_hex", vcore::hex(&b2))]);
					}
				},
			}
		}
	}
	if ctx.rep.samples.len() < ctx.rep.max_samples && rng.chance(1, 6) {
		ctx.rep.sample(Json::obj().set("kind", "bolt12 offer flow").set("offer_kind", kind).set("offer", base.to_string().chars().take(200).collect::<String>()).set("request_bytes", req_bytes.len()).set("invoice_bytes", inv_bytes.len()));
	}
	// static invoice
	if kind == 2 && offer.chains().len() <= 1 {
		static_flow(ctx, rng, &offer, &recipient, &stranger, nonce, other_nonce);
	}
}

fn static_snap(i: &StaticInvoice) -> String {
	let a = (i.chain(), i.metadata().cloned(), i.amount(), i.offer_features().clone(), i.description().map(|d| d.0.to_string()), i.absolute_expiry(), i.issuer().map(|d| d.0.to_string()), i.offer_message_paths().to_vec(), i.held_htlc_available_paths().to_vec(), i.supported_quantity(), i.issuer_signing_pubkey());
	let b = (i.payment_paths().to_vec(), i.created_at(), i.relative_expiry(), i.fallbacks(), i.invoice_features().clone(), i.signing_pubkey(), i.signature(), i.offer_id().0, i.is_offer_expired_no_std(Duration::from_secs(FUTURE - 1)));
	format!("{:?} {:?}", a, b)
}

fn static_flow(ctx: &mut Ctx, rng: &mut Rng, offer: &Offer, recipient: &Party, stranger: &Party, nonce: Nonce, other_nonce: Nonce) {
	let secp = ctx.secp.clone();
	let ip = gen_inv(rng, &secp);
	let held: Vec<BlindedMessagePath> = (0..rng.range(1, 2)).map(|_| gen_msg_path(rng, &secp)).collect();
	let ow = vec![("offer", offer.to_string().chars().take(20_000).collect::<String>())];
	let mk = |key: &ExpandedKey, n: Nonce| -> Result<StaticInvoice, String> {
		let b = StaticInvoiceBuilder::for_offer_using_derived_keys(offer, ip.paths.clone(), held.clone(), ip.created_at, key, n, &secp).map_err(|e| format!("{:?}", e))?;
		inv_fill!(b, ip, &secp).build_and_sign(&secp).map_err(|e| format!("{:?}", e))
	};
	ctx.rep.count("metadata_verifications_expected_ok");
	let si = match vcore::guarded(|| mk(&recipient.key, nonce)) {
		Err(pn) => return ctx.violate("B12-R1-roundtrip", &format!("the static invoice builder panicked: {}", vcore::canon(&pn)), pn, &ow),
		Ok(Err(e)) => return ctx.violate("B12-M1-verify", &format!("a static invoice for the originator's own offer is refused: {}", vcore::canon(&e)), e, &ow),
		Ok(Ok(s)) => s,
	};
	ctx.rep.count("static_invoices_built");
	for (name, r) in [("another node's ExpandedKey", vcore::guarded(|| mk(&stranger.key, nonce))), ("another nonce", vcore::guarded(|| mk(&recipient.key, other_nonce)))] {
		ctx.rep.count("metadata_verifications_expected_refused");
		if let Ok(Ok(_)) = r {
			ctx.violate("B12-M2-refuse", &format!("a static invoice can be built for the offer under {}", name), String::new(), &ow);
		}
	}
	let bytes = si.encode();
	let wit = [("static_invoice_hex", vcore::hex(&bytes))];
	let checks: [(&str, bool); 10] = [
		("payment paths", si.payment_paths() == &ip.paths[..]),
		("created at", si.created_at() == ip.created_at),
		("relative expiry", si.relative_expiry() == Duration::from_secs(ip.relative_expiry.map(|e| e as u64).unwrap_or(3600 * 24 * 14))),
		("held htlc available paths", si.held_htlc_available_paths() == &held[..]),
		("signing key", Some(si.signing_pubkey()) == offer.issuer_signing_pubkey()),
		("offer id", si.offer_id().0 == offer.id().0),
		("offer message paths", si.offer_message_paths() == offer.paths()),
		("offer amount", si.amount() == offer.amount()),
		("offer expiry", si.absolute_expiry() == offer.absolute_expiry()),
		("mpp feature", si.invoice_features().supports_basic_mpp() == ip.mpp),
	];
	if let Some((name, _)) = checks.iter().find(|c| !c.1) {
		ctx.violate("B12-R0-builder", &format!("a built static invoice does not expose what the builder was given: {}", name), static_snap(&si), &wit);
	}
	ctx.rep.count("static_invoice_roundtrips");
	ctx.rep.max("static_invoice_max_bytes", bytes.len() as u64);
	match vcore::guarded(|| StaticInvoice::try_from(bytes.clone())) {
		Err(pn) => ctx.violate("T1-total", &format!("parsing a built static invoice panicked: {}", vcore::canon(&pn)), pn, &wit),
		Ok(Ok(a)) => {
			if a != si || a.encode() != bytes {
				ctx.violate("B12-R1-roundtrip", "a parsed static invoice differs from the built one", format!("{:?}\n{:?}", si, a), &wit);
			} else if static_snap(&a) != static_snap(&si) {
				let diff = if a.created_at() != si.created_at() && a.created_at().as_secs() == si.created_at().as_secs() { " (sub-second part of created_at)" } else { "" };
				ctx.violate(if diff.is_empty() { "B12-R1-roundtrip" } else { "B12-R1u-unrepresentable" }, &format!("a parsed static invoice exposes other accessor values than the built one{}", diff), format!("built  {}\nparsed {}", static_snap(&si), static_snap(&a)), &wit);
			}
		},
		Ok(Err(e)) => ctx.violate("B12-R1-roundtrip", &format!("a built static invoice does not parse back: {}", vcore::canon(&format!("{:?}", e))), format!("{:?}", e), &wit),
	}
	ctx.rep.count("b12_own_merkle_signature_checks");
	if let Err(e) = b12_own_verify(&secp, "static_invoice", &bytes, &si.signing_pubkey()) {
		ctx.violate("B12-S1-signature", "the signature of a built static invoice does not verify under the specification's merkle root", e, &wit);
	}
	bitflips(ctx, "static_invoice", &bytes, rng, |b| StaticInvoice::try_from(b));
}

// ---------------------------------------------------------------------------------------------
// BOLT 12: the refund flow
// ---------------------------------------------------------------------------------------------
#[derive(Clone, Debug)]
struct RefundParams {
	derived: bool,
	meta: Vec<u8>,
	amount: u64,
	desc: Option<String>,
	expiry: Option<Duration>,
	issuer: Option<String>,
	paths: Vec<BlindedMessagePath>,
	chain: Option<Network>,
	quantity: Option<u64>,
	note: Option<String>,
	payment_id: [u8; 32],
	nonce: [u8; 16],
	expect_err: bool,
}

fn gen_refund(rng: &mut Rng, secp: &Secp256k1<All>, usable: bool) -> RefundParams {
	let mut expect_err = false;
	let amount = match rng.below(6) {
		0 => *rng.pick(&[0u64, 1, 0xfc, 0xfd, 0xffff, 0x10000, MAX_VALUE_MSAT, MAX_VALUE_MSAT - 1]),
		1 if !usable && rng.chance(1, 2) => {
			expect_err = true;
			*rng.pick(&[MAX_VALUE_MSAT + 1, u64::MAX])
		},
		_ => rng.below(MAX_VALUE_MSAT + 1) >> rng.below(60),
	};
	let expiry = match rng.below(5) {
		0 | 1 => None,
		2 if !usable => Some(Duration::from_secs(*rng.pick(&[0u64, 1, 0xfd, 1_000_000_000]))),
		3 => Some(Duration::from_secs(*rng.pick(&[FUTURE, u64::MAX, 1 << 40]))),
		_ => Some(Duration::from_secs(FUTURE + (rng.next() >> rng.range(1, 40)))),
	};
	RefundParams {
		derived: rng.chance(2, 3),
		meta: rvec(rng, &[0usize, 1, 16, 31, 32, 33, 48, 80, 0xfd]),
		amount,
		desc: if rng.chance(2, 3) { Some(gen_len_text(rng)) } else { None },
		expiry,
		issuer: if rng.chance(1, 3) { Some(gen_len_text(rng)) } else { None },
		paths: (0..*rng.pick(&[0u64, 0, 1, 2])).map(|_| gen_msg_path(rng, secp)).collect(),
		chain: if rng.chance(1, 2) { Some(*rng.pick(&NETWORKS)) } else { None },
		quantity: if rng.chance(1, 3) { Some(u64b(rng)) } else { None },
		note: if rng.chance(1, 2) { Some(gen_len_text(rng)) } else { None },
		payment_id: rng.bytes(),
		nonce: rng.bytes(),
		expect_err,
	}
}

fn build_refund(p: &RefundParams, payer: &Party, secp: &Secp256k1<All>) -> Result<Refund, String> {
	macro_rules! fill {
		($b:expr) => {{
			let mut b = $b;
			if let Some(d) = &p.desc {
				b = b.description(d.clone());
			}
			if let Some(e) = p.expiry {
				b = b.absolute_expiry(e);
			}
			if let Some(i) = &p.issuer {
				b = b.issuer(i.clone());
			}
			for path in &p.paths {
				b = b.path(path.clone());
			}
			if let Some(c) = p.chain {
				b = b.chain(c);
			}
			if let Some(q) = p.quantity {
				b = b.quantity(q);
			}
			if let Some(n) = &p.note {
				b = b.payer_note(n.clone());
			}
			b.build().map_err(|e| format!("{:?}", e))
		}};
	}
	if p.derived {
		fill!(RefundBuilder::deriving_signing_pubkey(payer.node.public_key(), &payer.key, Nonce::try_from(&p.nonce[..]).unwrap(), secp, p.amount, PaymentId(p.payment_id)).map_err(|e| format!("{:?}", e))?)
	} else {
		fill!(RefundBuilder::new(p.meta.clone(), payer.node.public_key(), p.amount).map_err(|e| format!("{:?}", e))?)
	}
}

fn refund_snap(r: &Refund) -> String {
	format!("{:?}", (r.description().0.to_string(), r.absolute_expiry(), r.issuer().map(|d| d.0.to_string()), r.paths().to_vec(), r.payer_metadata().to_vec(), r.chain(), r.amount_msats(), r.features().clone(), r.quantity(), r.payer_signing_pubkey(), r.payer_note().map(|d| d.0.to_string()), r.is_expired_no_std(Duration::from_secs(FUTURE - 1))))
}

fn refund_expect(p: &RefundParams, r: &Refund, payer: &Party) -> Result<(), String> {
	macro_rules! eq {
		($name:expr, $a:expr, $b:expr) => {
			if $a != $b {
				return Err(format!("{}: refund exposes {:?}, the builder was given {:?}", $name, $a, $b));
			}
		};
	}
	eq!("amount", r.amount_msats(), p.amount);
	eq!("description", r.description().0.to_string(), p.desc.clone().unwrap_or_default());
	eq!("absolute expiry", r.absolute_expiry(), p.expiry);
	eq!("issuer", r.issuer().map(|d| d.0.to_string()), p.issuer.clone());
	eq!("paths", r.paths().to_vec(), p.paths.clone());
	eq!("chain", r.chain(), chain_of(p.chain.unwrap_or(Network::Bitcoin)));
	eq!("quantity", r.quantity(), p.quantity);
	eq!("payer note", r.payer_note().map(|d| d.0.to_string()), p.note.clone());
	if !p.derived {
		eq!("payer metadata", r.payer_metadata().to_vec(), p.meta.clone());
		eq!("payer key", r.payer_signing_pubkey(), payer.node.public_key());
	} else if p.paths.is_empty() {
		eq!("payer metadata length", r.payer_metadata().len(), 80);
		eq!("payer key", r.payer_signing_pubkey(), payer.node.public_key());
	} else {
		eq!("payer metadata length", r.payer_metadata().len(), 48);
		if r.payer_signing_pubkey() == payer.node.public_key() {
			return Err("payer key: a derived key was expected".into());
		}
	}
	Ok(())
}

fn refund_flow(ctx: &mut Ctx, rng: &mut Rng) {
	let secp = ctx.secp.clone();
	let (recipient, payer, stranger) = (gen_party(rng, &secp), gen_party(rng, &secp), gen_party(rng, &secp));
	let usable = rng.chance(3, 4);
	let p = gen_refund(rng, &secp, usable);
	let pw = vec![("refund_params", format!("{:?}", p).chars().take(6000).collect::<String>())];
	let refund = match vcore::guarded(|| build_refund(&p, &payer, &secp)) {
		Err(pn) => return ctx.violate("B12-R1-roundtrip", &format!("the refund builder panicked: {}", vcore::canon(&pn)), pn, &pw),
		Ok(Err(e)) => {
			ctx.rep.count("refund_builder_rejected");
			if !p.expect_err {
				ctx.rep.inconclusive(format!("refund generator produced inputs the builder refuses: {}", e));
			}
			return;
		},
		Ok(Ok(r)) => r,
	};
	if p.expect_err {
		return ctx.violate("B12-R0-builder", "the refund builder accepted an amount outside its documented limits", format!("{:?}", refund), &pw);
	}
	ctx.rep.count("refunds_built");
	ctx.rep.distinct(Fnv::new().str("refund").u64(p.derived as u64).u64(p.paths.len() as u64).u64(p.desc.is_some() as u64 | (p.expiry.is_some() as u64) << 1 | (p.issuer.is_some() as u64) << 2 | (p.chain.is_some() as u64) << 3 | (p.quantity.is_some() as u64) << 4 | (p.note.is_some() as u64) << 5).get());
	if let Err(e) = refund_expect(&p, &refund, &payer) {
		ctx.violate("B12-R0-builder", &format!("a built refund does not expose what the builder was given: {}", vcore::canon(e.split(':').next().unwrap_or(""))), e, &pw);
	}
	// R1: string and bytes
	let s = refund.to_string();
	let rb: Vec<u8> = refund.as_ref().to_vec();
	let wit = vec![("refund", s.chars().take(20_000).collect::<String>())];
	ctx.rep.count("refund_roundtrips");
	match vcore::guarded(|| (Refund::from_str(&s), Refund::try_from(rb.clone()))) {
		Err(pn) => ctx.violate("T1-total", &format!("parsing a built refund panicked: {}", vcore::canon(&pn)), pn, &wit),
		Ok((Ok(a), Ok(b))) => {
			if a != refund || b != refund || refund.encode() != rb || a.as_ref() != &rb[..] {
				ctx.violate("B12-R1-roundtrip", "a parsed refund differs from the built one", format!("{:?}\n{:?}", refund, a), &wit);
			} else if refund_snap(&a) != refund_snap(&refund) || refund_snap(&b) != refund_snap(&refund) {
				ctx.violate("B12-R1-roundtrip", "a parsed refund exposes other accessor values than the built one", format!("built  {}\nparsed {}", refund_snap(&refund), refund_snap(&a)), &wit);
			} else if a.to_string() != s {
				ctx.violate("B12-R1-roundtrip", "re-encoding a parsed refund changes the string", a.to_string(), &wit);
			}
		},
		Ok((a, b)) => {
			let e = format!("{:?} / {:?}", a.err(), b.err());
			ctx.violate("B12-R1-roundtrip", &format!("a built refund does not parse back: {}", vcore::canon(&e)), e, &wit);
		},
	}
	if !usable {
		return;
	}
	// invoice for the refund, signed with an explicit or a derived key
	let ip = gen_inv(rng, &secp);
	let derived_signer = rng.chance(1, 3);
	let entropy = FixedEntropy(rng.bytes());
	let respond = |r: &Refund, ip: &InvParams, derived_signer: bool| -> Result<Bolt12Invoice, String> {
		if derived_signer {
			let b = r.respond_using_derived_keys_no_std(ip.paths.clone(), PaymentHash(ip.hash), ip.created_at, &recipient.key, &entropy).map_err(|e| format!("{:?}", e))?;
			inv_fill!(b, ip, &secp).build_and_sign(&secp).map_err(|e| format!("{:?}", e))
		} else {
			let b = r.respond_with_no_std(ip.paths.clone(), PaymentHash(ip.hash), recipient.node.public_key(), ip.created_at).map_err(|e| format!("{:?}", e))?;
			sign_invoice(&secp, inv_fill!(b, ip, &secp).build().map_err(|e| format!("{:?}", e))?, &recipient.node)
		}
	};
	let inv = match vcore::guarded(|| respond(&refund, &ip, derived_signer)) {
		Err(pn) => return ctx.violate("B12-R1-roundtrip", &format!("the invoice builder panicked: {}", vcore::canon(&pn)), pn, &wit),
		Ok(Err(e)) => return ctx.rep.inconclusive(format!("refund invoice could not be built: {}", e)),
		Ok(Ok(i)) => i,
	};
	ctx.rep.count("invoices_built");
	ctx.rep.count("refund_invoices_built");
	let iw = vec![("refund", s.chars().take(20_000).collect::<String>()), ("invoice_hex", vcore::hex(&inv.encode()))];
	if let Err(e) = inv_expect(&ip, &inv, p.amount, if derived_signer { None } else { Some(recipient.node.public_key()) }) {
		ctx.violate("B12-R0-builder", &format!("a built BOLT12 invoice does not expose what the builder was given: {}", vcore::canon(e.split(':').next().unwrap_or(""))), e, &iw);
	}
	if !inv.is_for_refund() || inv.offer_id().is_some() || inv.payer_signing_pubkey() != refund.payer_signing_pubkey() || inv.payer_metadata() != refund.payer_metadata() || inv.message_paths() != refund.paths() || inv.absolute_expiry() != refund.absolute_expiry() || inv.chain() != refund.chain() {
		ctx.violate("B12-R0-builder", "a built BOLT12 invoice does not reflect the refund it answers", inv_snap(&inv), &iw);
	}
	let inv_bytes = invoice_roundtrip(ctx, &inv, rng, true);
	let res = inv.verify_using_metadata(&payer.key, &secp);
	if p.derived {
		ctx.rep.count("metadata_verifications_expected_ok");
		match res {
			Ok(id) if id.0 == p.payment_id => {},
			Ok(id) => ctx.violate("B12-M1-verify", "invoice verification returns another payment id", vcore::hex(&id.0), &iw),
			Err(()) => ctx.violate("B12-M1-verify", "verification of the invoice answering the payer's own refund is refused", String::new(), &iw),
		}
	} else {
		ctx.rep.count("metadata_verifications_expected_refused");
		if res.is_ok() {
			ctx.violate("B12-M2-refuse", "invoice verification succeeds for a refund that carries no derived metadata", String::new(), &iw);
		}
	}
	for (name, k) in [("another node's", &stranger.key), ("the recipient's", &recipient.key)] {
		ctx.rep.count("metadata_verifications_expected_refused");
		if inv.verify_using_metadata(k, &secp).is_ok() {
			ctx.violate("B12-M2-refuse", &format!("invoice verification succeeds under {} ExpandedKey", name), String::new(), &iw);
		}
	}
	if !derived_signer {
		invoice_tlv_rules(ctx, &inv_bytes, &recipient.node, rng);
	}
	if p.derived {
		// invoices for altered copies of the refund
		for (field, b2) in alter_request_part(&rb, rng, &secp) {
			if b2 == rb {
				continue;
			}
			let r2 = match vcore::guarded(|| Refund::try_from(b2.clone())) {
				Err(pn) => {
					ctx.violate("T1-total", &format!("parsing an altered refund panicked: {}", vcore::canon(&pn)), pn, &[("input_hex", vcore::hex(&b2))]);
					continue;
				},
				Ok(Err(_)) => {
					ctx.rep.count("altered_refunds_unparseable");
					continue;
				},
				Ok(Ok(r)) => r,
			};
			match vcore::guarded(|| respond(&r2, &ip, false)) {
				Ok(Ok(i2)) => {
					ctx.rep.count("invoices_answering_altered_requests");
					if i2.verify_using_metadata(&payer.key, &secp).is_ok() {
						ctx.violate("B12-M2-refuse", &format!("an invoice answering a refund altered in `{}` verifies for the payer", field), String::new(), &[("refund_hex", vcore::hex(&rb)), ("altered_refund_hex", vcore::hex(&b2)), ("invoice_hex", vcore::hex(&i2.encode()))]);
					}
				},
				_ => ctx.rep.count("altered_refunds_not_answerable"),
			}
		}
	}
}

// ---------------------------------------------------------------------------------------------
// Totality
// ---------------------------------------------------------------------------------------------
fn feed_str(ctx: &mut Ctx, s: &str) {
	ctx.rep.count("totality_strings");
	let r = vcore::guarded(|| {
		let mut ok = 0u32;
		ok += Bolt11Invoice::from_str(s).map(|i| i.to_string().len()).is_ok() as u32;
		ok += SignedRawBolt11Invoice::from_str(s).map(|i| (i.check_signature(), i.recover_payee_pub_key().is_ok())).is_ok() as u32;
		ok += Offer::from_str(s).map(|o| o.to_string().len()).is_ok() as u32;
		ok += Refund::from_str(s).map(|o| o.to_string().len()).is_ok() as u32;
		ok += lightning_invoice::RawHrp::from_str(s).is_ok() as u32;
		ok
	});
	match r {
		Err(pn) => ctx.violate("T1-total", &format!("a string parser panicked: {}", vcore::canon(&pn)), pn, &[("input", s.to_string()), ("input_hex", vcore::hex(s.as_bytes()))]),
		Ok(n) if n > 0 => ctx.rep.count("totality_inputs_accepted"),
		Ok(_) => {},
	}
}

fn feed_bytes(ctx: &mut Ctx, b: &[u8]) {
	ctx.rep.count("totality_byte_strings");
	let r = vcore::guarded(|| {
		let mut ok = 0u32;
		ok += Offer::try_from(b.to_vec()).map(|o| (o.to_string().len(), o.id().0)).is_ok() as u32;
		ok += Refund::try_from(b.to_vec()).map(|o| o.to_string().len()).is_ok() as u32;
		ok += InvoiceRequest::try_from(b.to_vec()).is_ok() as u32;
		ok += UnsignedInvoiceRequest::try_from(b.to_vec()).is_ok() as u32;
		ok += Bolt12Invoice::try_from(b.to_vec()).is_ok() as u32;
		ok += UnsignedBolt12Invoice::try_from(b.to_vec()).is_ok() as u32;
		ok += StaticInvoice::try_from(b.to_vec()).is_ok() as u32;
		ok += BlindedMessagePath::read(&mut &b[..]).is_ok() as u32;
		ok
	});
	match r {
		Err(pn) => ctx.violate("T1-total", &format!("a byte-stream parser panicked: {}", vcore::canon(&pn)), pn, &[("input_hex", vcore::hex(b))]),
		Ok(n) if n > 0 => ctx.rep.count("totality_inputs_accepted"),
		Ok(_) => {},
	}
}

/// A syntactically well-formed random TLV stream over the record types the parsers know.
fn random_tlv_stream(rng: &mut Rng, secp: &Secp256k1<All>) -> Vec<u8> {
	let pool: [u64; 40] = [0, 2, 4, 6, 8, 10, 12, 14, 16, 18, 20, 22, 80, 82, 84, 86, 88, 89, 90, 91, 160, 162, 164, 166, 168, 170, 172, 174, 176, 236, 240, 1, 79, 93, 161, 241, 1000, 1_000_000_001, 2_000_000_001, 3_000_000_001];
	let mut types: Vec<u64> = pool.iter().copied().filter(|_| rng.chance(1, 3)).collect();
	types.sort();
	let mut out = vec![];
	for t in types {
		let v: Vec<u8> = match rng.below(8) {
			0 => vec![],
			1 => rnd_pk(rng, secp).serialize().to_vec(),
			2 => tu64(u64b(rng)),
			3 => rng.bytes::<32>().to_vec(),
			4 => gen_msg_path(rng, secp).encode(),
			5 => rng.bytes::<64>().to_vec(),
			6 => text(rng, 12).into_bytes(),
			_ => rvec(rng, &[1usize, 2, 3, 9, 33, 34, 65, 0xfd]),
		};
		out.extend_from_slice(&tlv_record(t, &v));
	}
	out
}

fn totality_round(ctx: &mut Ctx, rng: &mut Rng, corpus_s: &[String], corpus_b: &[Vec<u8>]) {
	let secp = ctx.secp.clone();
	match rng.below(10) {
		0 => {
			let n = *rng.pick(&[0usize, 1, 2, 7, 50, 300]);
			feed_bytes(ctx, &rng.vec(n));
			let raw = rng.vec(n);
			feed_str(ctx, &String::from_utf8_lossy(&raw));
		},
		1 | 2 => {
			// random symbols behind a plausible hrp, with a valid checksum so that field parsers run
			let hrp = *rng.pick(&["lnbc", "lntb10u", "lnbcrt1m", "lnsb", "lntbs2500n", "lnbc20p", "lnbc18446744073709551615p", "lnbc99999999999999999999", "ln", "lnx", "lnbc1x", "lno", "lnr", "lni", "LNBC"]);
			let n = *rng.pick(&[0usize, 6, 7, 103, 104, 111, 112, 150, 300, 1200]);
			let mut data: Vec<u8> = (0..n).map(|_| rng.below(32) as u8).collect();
			if n > 120 && rng.chance(2, 3) {
				// plausible tagged fields after the timestamp
				let mut p = 7;
				while p + 3 < n - 104 {
					let len = (*rng.pick(&[0usize, 1, 5, 33, 52, 53, 82, 200])).min(n - 104 - p - 3);
					data[p] = *rng.pick(&[1u8, 13, 19, 23, 6, 24, 9, 3, 16, 27, 5, 0, 31]);
					data[p + 1] = (len / 32) as u8;
					data[p + 2] = (len % 32) as u8;
					p += 3 + len;
				}
			}
			feed_str(ctx, &b32_join(hrp, &data));
			let mut nochk = String::from(hrp);
			nochk.push('1');
			nochk.extend(data.iter().map(|d| B32[*d as usize] as char));
			feed_str(ctx, &nochk);
		},
		3 | 4 => {
			if corpus_s.is_empty() {
				return;
			}
			let s = rng.pick(corpus_s).clone();
			let mut b = s.into_bytes();
			match rng.below(6) {
				0 => b.truncate(rng.below(b.len() as u64 + 1) as usize),
				1 => {
					let at = rng.below(b.len() as u64 + 1) as usize;
					b.insert(at, *rng.pick(&[b'+', b' ', b'\n', b'1', b'q', b'Q', 0xe2]));
				},
				2 => {
					let at = rng.below(b.len() as u64) as usize;
					b.remove(at);
				},
				3 => b.make_ascii_uppercase(),
				4 => {
					let at = rng.below(b.len() as u64) as usize;
					b.splice(at..at, b"+\r\n  ".iter().copied());
				},
				_ => {
					// splice two corpus strings and recompute the checksum when it is BOLT 11
					let other = rng.pick(corpus_s).as_bytes().to_vec();
					let cut = rng.below(b.len() as u64) as usize;
					b.truncate(cut);
					b.extend_from_slice(&other[rng.below(other.len() as u64) as usize..]);
				},
			}
			let s = String::from_utf8_lossy(&b).into_owned();
			feed_str(ctx, &s);
			if let Some((hrp, data)) = b32_split(&s.to_lowercase()) {
				if data.len() >= 6 {
					feed_str(ctx, &b32_join(&hrp, &data));
					feed_str(ctx, &b32_join(&hrp, &data[..data.len() - rng.below(6) as usize]));
				}
			}
		},
		5 | 6 => feed_bytes(ctx, &random_tlv_stream(rng, &secp)),
		_ => {
			if corpus_b.is_empty() {
				return;
			}
			let mut b = rng.pick(corpus_b).clone();
			match rng.below(6) {
				0 => b.truncate(rng.below(b.len() as u64 + 1) as usize),
				1 => {
					// a length field pushed to a boundary value
					if let Some(recs) = tlv_split(&b) {
						let r = rng.pick(&recs).clone();
						let mut nb = b[..r.tend].to_vec();
						bigsize_write(*rng.pick(&[0u64, 1, 0xfc, 0xfd, 0xffff, 0x10000, u32::MAX as u64, u64::MAX]), &mut nb);
						nb.extend_from_slice(&b[r.vstart..]);
						b = nb;
					}
				},
				2 => {
					// drop or duplicate a record
					if let Some(recs) = tlv_split(&b) {
						let r = rng.pick(&recs).clone();
						if rng.chance(1, 2) {
							b.drain(r.start..r.end);
						} else {
							let dup = b[r.start..r.end].to_vec();
							b.splice(r.end..r.end, dup);
						}
					}
				},
				3 => {
					// a value emptied or replaced
					if let Some(recs) = tlv_split(&b) {
						let r = rng.pick(&recs).clone();
						let v = rvec(rng, &[0usize, 1, 8, 33, 64]);
						b = tlv_set(&b, r.typ, Some(&v));
					}
				},
				4 => {
					let other = rng.pick(corpus_b).clone();
					let cut = rng.below(b.len() as u64 + 1) as usize;
					b.truncate(cut);
					b.extend_from_slice(&other[rng.below(other.len() as u64 + 1) as usize..]);
				},
				_ => {
					for _ in 0..1 + rng.below(4) {
						let at = rng.below(b.len() as u64) as usize;
						b[at] = rng.below(256) as u8;
					}
				},
			}
			feed_bytes(ctx, &b);
			// the same bytes behind each bech32 prefix
			if rng.chance(1, 4) {
				let sym = unpack8(&b);
				for hrp in ["lno", "lnr"] {
					let mut s = format!("{}1", hrp);
					s.extend(sym.iter().map(|d| B32[*d as usize] as char));
					feed_str(ctx, &s);
				}
			}
		},
	}
}

fn main() {
	vcore::install_quiet_panic_hook();
	let args = Args::parse();
	let mut rep = args.report();
	rep.max_samples = 8;
	let cases = args.num("cases", 400, 20_000);
	let totality = args.num("totality", 16_000, 800_000);
	let budget = args.num("budget", 1, 1).max(1);
	UNREP.store(args.num("unrep", 1, 1) != 0, std::sync::atomic::Ordering::Relaxed);
	{
		let mut ctx = Ctx { args: &args, rep: &mut rep, secp: Secp256k1::new(), case: 0, budget, seen: Default::default() };
		let n = args.nshards.max(1);
		let mut corpus_s: Vec<String> = vec![];
		let mut corpus_b: Vec<Vec<u8>> = vec![];
		let mut i = args.shard;
		while i < cases {
			let mut rng = Rng::derive(args.seed, i, 0xC18);
			ctx.case = i;
			ctx.seen.clear();
			let secp = ctx.secp.clone();
			let kind = rng.below(8);
			let big = rng.below(64);
			let r = vcore::guarded(|| match kind {
				0 | 1 | 2 => {
					let p = if big == 0 {
						gen_b11_big(&mut rng, &secp, false)
					} else if big == 1 && unrep() {
						gen_b11_big(&mut rng, &secp, true)
					} else {
						Some(gen_b11(&mut rng, &secp))
					};
					match p {
						Some(p) => b11_case(&mut ctx, &p, &mut rng, true),
						None => {
							ctx.rep.inconclusive("could not size a maximum-length BOLT11 invoice");
							None
						},
					}
				},
				3 => {
					offer_flow(&mut ctx, &mut rng, 0);
					None
				},
				4 => {
					offer_flow(&mut ctx, &mut rng, 1);
					None
				},
				5 | 6 => {
					offer_flow(&mut ctx, &mut rng, 2);
					None
				},
				_ => {
					refund_flow(&mut ctx, &mut rng);
					None
				},
			});
			match r {
				Err(pn) => ctx.violate("T1-total", &format!("panic while building or checking a payment request: {}", vcore::canon(&pn)), pn, &[("case", format!("{}", i))]),
				Ok(Some(s)) => {
					if corpus_s.len() < 64 {
						corpus_s.push(s);
					}
				},
				Ok(None) => {},
			}
			ctx.rep.evaluations += 1;
			i += n;
		}
		// corpus for the totality rounds: a few fresh objects of every kind
		let mut rng = Rng::derive(args.seed, args.shard, 0xC18C);
		let secp = ctx.secp.clone();
		for k in 0..6u8 {
			let who = gen_party(&mut rng, &secp);
			let payer = gen_party(&mut rng, &secp);
			let p = gen_offer(&mut rng, &secp, k % 3, true);
			if p.expect_err {
				continue;
			}
			if let Ok(Ok(o)) = vcore::guarded(|| build_offer(&p, &who, &secp)) {
				corpus_s.push(o.to_string());
				corpus_b.push(o.as_ref().to_vec());
				if let Some(r) = gen_req(&mut rng, &o) {
					if let Ok(Ok(q)) = vcore::guarded(|| build_request(&o, &payer, &r, &secp)) {
						corpus_b.push(q.encode());
						if k % 3 == 0 {
							let ip = gen_inv(&mut rng, &secp);
							if let Ok(Ok(i)) = vcore::guarded(|| {
								let b = q.respond_with_no_std(ip.paths.clone(), PaymentHash(ip.hash), ip.created_at).map_err(|e| format!("{:?}", e))?;
								sign_invoice(&secp, inv_fill!(b, ip, &secp).build().map_err(|e| format!("{:?}", e))?, &who.node)
							}) {
								corpus_b.push(i.encode());
							}
						}
					}
				}
			}
			let rp = gen_refund(&mut rng, &secp, true);
			if let Ok(Ok(r)) = vcore::guarded(|| build_refund(&rp, &payer, &secp)) {
				corpus_s.push(r.to_string());
				corpus_b.push(r.as_ref().to_vec());
			}
		}
		if corpus_s.iter().all(|s| !s.starts_with("lnbc") && !s.starts_with("lntb") && !s.starts_with("lnsb")) {
			let p = gen_b11(&mut Rng::derive(args.seed, args.shard, 0xB11), &secp);
			if let Ok(Ok(i)) = vcore::guarded(|| b11_build(&p, &secp, &mut rng.clone())) {
				corpus_s.push(i.to_string());
			}
		}
		ctx.case = u64::MAX;
		ctx.seen.clear();
		for _ in 0..totality / n {
			totality_round(&mut ctx, &mut rng, &corpus_s, &corpus_b);
		}
	}
	rep.write_to(&args.out);
}
