//! C12 (output sweeper part) – an OutputSweeper read back from what it persisted behaves like the
//! original: twin histories. A sweeper with an in-memory store is fed a random history (tracking of
//! spendable outputs with and without delay, blocks with and without its own sweep transactions
//! confirming, fee changes); the bytes it persisted are read back into a second sweeper over a copy
//! of the store; from then on both receive the same further history and after every step their
//! tracked outputs (library equality), best block and the transactions they broadcast must agree.
use bins::NullLogger;
use bitcoin::block::{Header, Version};
use bitcoin::hashes::Hash;
use bitcoin::{Amount, BlockHash, CompactTarget, Transaction, TxMerkleNode, TxOut, Txid};
use lightning::chain::chaininterface::{BroadcasterInterface, ConfirmationTarget, FeeEstimator, TransactionType};
use lightning::chain::transaction::OutPoint;
use lightning::chain::{BlockLocator, Confirm, Filter};
use lightning::sign::{ChangeDestinationSourceSync, KeysManager, SignerProvider, SpendableOutputDescriptor};
use lightning::util::persist::{KVStoreSync, OUTPUT_SWEEPER_PERSISTENCE_KEY, OUTPUT_SWEEPER_PERSISTENCE_PRIMARY_NAMESPACE, OUTPUT_SWEEPER_PERSISTENCE_SECONDARY_NAMESPACE};
use lightning::util::ser::ReadableArgs;
use lightning::util::sweep::OutputSweeperSync;
use std::collections::BTreeMap;
use std::sync::atomic::{AtomicU32, Ordering};
use std::sync::{Arc, Mutex};
use vcore::{Args, Fnv, Json, Report, Rng};

#[derive(Default)]
struct MemStore(Mutex<BTreeMap<(String, String, String), Vec<u8>>>);
impl KVStoreSync for MemStore {
	fn read(&self, p: &str, s: &str, k: &str) -> Result<Vec<u8>, bitcoin::io::Error> {
		self.0.lock().unwrap().get(&(p.into(), s.into(), k.into())).cloned().ok_or_else(|| bitcoin::io::Error::new(bitcoin::io::ErrorKind::NotFound, "nf"))
	}
	fn write(&self, p: &str, s: &str, k: &str, b: Vec<u8>) -> Result<(), bitcoin::io::Error> {
		self.0.lock().unwrap().insert((p.into(), s.into(), k.into()), b);
		Ok(())
	}
	fn remove(&self, p: &str, s: &str, k: &str, _l: bool) -> Result<(), bitcoin::io::Error> {
		self.0.lock().unwrap().remove(&(p.into(), s.into(), k.into()));
		Ok(())
	}
	fn list(&self, p: &str, s: &str) -> Result<Vec<String>, bitcoin::io::Error> {
		Ok(self.0.lock().unwrap().keys().filter(|x| x.0 == p && x.1 == s).map(|x| x.2.clone()).collect())
	}
}
#[derive(Default)]
struct RecB(Mutex<Vec<Transaction>>);
impl BroadcasterInterface for RecB {
	fn broadcast_transactions(&self, txs: &[(&Transaction, TransactionType)]) {
		for (t, _) in txs {
			self.0.lock().unwrap().push((*t).clone());
		}
	}
}
struct Fee(AtomicU32);
impl FeeEstimator for Fee {
	fn get_est_sat_per_1000_weight(&self, _t: ConfirmationTarget) -> u32 {
		self.0.load(Ordering::SeqCst)
	}
}
struct Change(Arc<KeysManager>);
impl ChangeDestinationSourceSync for Change {
	fn get_change_destination_script(&self) -> Result<bitcoin::ScriptBuf, ()> {
		self.0.get_destination_script([7; 32])
	}
}
type Sweeper = OutputSweeperSync<Arc<RecB>, Arc<Change>, Arc<Fee>, Arc<dyn Filter + Send + Sync>, Arc<MemStore>, NullLogger, Arc<KeysManager>>;

#[derive(Clone, Debug)]
enum Op {
	Track { n: usize, delay: Option<u32>, exclude_static: bool },
	Block { confirm_last_sweep: bool },
	Fee(u32),
	Regenerate,
}

struct Side {
	sw: Sweeper,
	bc: Arc<RecB>,
	fee: Arc<Fee>,
	height: u32,
	tip: BlockHash,
	broadcasts: Vec<String>,
	/// blocks given so far: (header, height, confirmed transactions)
	blocks: Vec<(Header, u32, Vec<Transaction>)>,
}

fn header(prev: BlockHash, nonce: u32) -> Header {
	Header { version: Version::NO_SOFT_FORK_SIGNALLING, prev_blockhash: prev, merkle_root: TxMerkleNode::all_zeros(), time: 1_700_000_000 + nonce, bits: CompactTarget::from_consensus(0x207fffff), nonce }
}

fn apply(s: &mut Side, op: &Op, keys: &Arc<KeysManager>, ctr: u64, nonce: u32) {
	match op {
		Op::Track { n, delay, exclude_static } => {
			let script = keys.get_destination_script([0; 32]).unwrap();
			let descs: Vec<SpendableOutputDescriptor> = (0..*n)
				.map(|i| {
					let mut t = [0u8; 32];
					t[..8].copy_from_slice(&(ctr * 16 + i as u64 + 1).to_le_bytes());
					SpendableOutputDescriptor::StaticOutput { outpoint: OutPoint { txid: Txid::from_byte_array(t), index: i as u16 }, output: TxOut { value: Amount::from_sat(10_000 + 1_000 * ((ctr + i as u64) % 90)), script_pubkey: script.clone() }, channel_keys_id: Some([0; 32]) }
				})
				.collect();
			let _ = s.sw.track_spendable_outputs(descs, None, None, *exclude_static, delay.map(|d| s.height + d));
		},
		Op::Block { confirm_last_sweep } => {
			let h = header(s.tip, nonce);
			s.height += 1;
			s.tip = h.block_hash();
			let last = s.bc.0.lock().unwrap().last().cloned();
			let mut txs = vec![];
			if let (true, Some(tx)) = (*confirm_last_sweep, last) {
				let td: Vec<(usize, &Transaction)> = vec![(1, &tx)];
				s.sw.transactions_confirmed(&h, &td, s.height);
				txs.push(tx);
			}
			s.sw.best_block_updated(&h, s.height);
			s.blocks.push((h, s.height, txs));
		},
		Op::Fee(f) => s.fee.0.store(*f, Ordering::SeqCst),
		Op::Regenerate => {
			let _ = s.sw.regenerate_and_broadcast_spend_if_necessary();
		},
	}
	let mut q = s.bc.0.lock().unwrap();
	for t in q.iter() {
		let id = canon_tx(t);
		if !s.broadcasts.contains(&id) {
			s.broadcasts.push(id);
		}
	}
	let keep = q.last().cloned();
	q.clear();
	if let Some(k) = keep {
		q.push(k);
	}
}

/// Tracked outputs with the spending transaction reduced to its txid: the signatures of two sweeps built
/// by the same key manager differ (fresh randomness per signature), the transaction they sign does not.
/// A sweep transaction up to the order of its inputs and its witnesses.
fn canon_tx(t: &Transaction) -> String {
	let mut ins: Vec<String> = t.input.iter().map(|i| format!("{}#{}", i.previous_output, i.sequence.0)).collect();
	ins.sort();
	format!("lock_time {} in {:?} out {:?}", t.lock_time, ins, t.output.iter().map(|o| (o.value.to_sat(), o.script_pubkey.to_hex_string())).collect::<Vec<_>>())
}
fn tracked(s: &Sweeper) -> Vec<String> {
	use lightning::util::sweep::OutputSpendStatus::*;
	let mut v: Vec<String> = s
		.tracked_spendable_outputs()
		.iter()
		.map(|t| {
			let st = match &t.status {
				PendingInitialBroadcast { delayed_until_height } => format!("initial delayed_until={:?}", delayed_until_height),
				PendingFirstConfirmation { first_broadcast_hash, latest_broadcast_height, latest_spending_tx } => format!("first-confirmation first={} latest_height={} tx={}", first_broadcast_hash, latest_broadcast_height, canon_tx(latest_spending_tx)),
				PendingThresholdConfirmations { first_broadcast_hash, latest_broadcast_height, latest_spending_tx, confirmation_height, confirmation_hash } => format!("threshold first={} latest_height={} tx={} conf={}@{}", first_broadcast_hash, latest_broadcast_height, canon_tx(latest_spending_tx), confirmation_hash, confirmation_height),
			};
			format!("{:?} chan={:?} {}", t.descriptor, t.channel_id, st)
		})
		.collect();
	v.sort();
	v
}

fn gen_op(rng: &mut Rng) -> Op {
	match rng.below(10) {
		0..=2 => Op::Track { n: 1 + rng.below(3) as usize, delay: if rng.chance(1, 3) { Some(1 + rng.below(8) as u32) } else { None }, exclude_static: rng.chance(1, 8) },
		3..=7 => Op::Block { confirm_last_sweep: rng.chance(1, 2) },
		8 => Op::Fee(*rng.pick(&[253u32, 500, 1000, 5000, 20_000])),
		_ => Op::Regenerate,
	}
}

fn one_case(args: &Args, ci: u64, rng: &mut Rng, rep: &mut Report) {
	let mut seed = [0u8; 32];
	seed[..8].copy_from_slice(&(args.seed ^ (ci << 16)).to_le_bytes());
	let keys = Arc::new(KeysManager::new(&seed, 42, 42, true));
	let genesis = bitcoin::constants::genesis_block(bitcoin::Network::Regtest).header.block_hash();
	let mk = |store: Arc<MemStore>, fee: u32| -> (Arc<RecB>, Arc<Fee>, Arc<MemStore>) { (Arc::new(RecB::default()), Arc::new(Fee(AtomicU32::new(fee))), store) };
	let (bc, fee, store) = mk(Arc::new(MemStore::default()), 253);
	let sw: Sweeper = OutputSweeperSync::new(BlockLocator::new(genesis, 0), bc.clone(), fee.clone(), None, keys.clone(), Arc::new(Change(keys.clone())), store.clone(), NullLogger);
	let mut a = Side { sw, bc, fee, height: 0, tip: genesis, broadcasts: vec![], blocks: vec![] };
	let pre: Vec<Op> = (0..(3 + rng.below(40))).map(|_| gen_op(rng)).collect();
	let mut ctr = 0u64;
	let mut nonce = 0u32;
	for op in pre.iter() {
		ctr += 1;
		nonce += 1;
		apply(&mut a, op, &keys, ctr, nonce);
	}
	// what it persisted
	let bytes = match store.read(OUTPUT_SWEEPER_PERSISTENCE_PRIMARY_NAMESPACE, OUTPUT_SWEEPER_PERSISTENCE_SECONDARY_NAMESPACE, OUTPUT_SWEEPER_PERSISTENCE_KEY) {
		Ok(b) => b,
		Err(_) => {
			rep.count("sweeper_cases_nothing_persisted_yet");
			return;
		},
	};
	rep.count("sweepers_roundtripped");
	let store2 = Arc::new(MemStore::default());
	*store2.0.lock().unwrap() = store.0.lock().unwrap().clone();
	let (bc2, fee2, _) = mk(store2.clone(), a.fee.0.load(Ordering::SeqCst));
	let viol = |rep: &mut Report, sig: &str, detail: String, pre: &[Op], post: &[Op]| {
		let body = Json::obj().set("property", "C12").set("rule", "Z5-sweeper").set("seed", args.seed).set("case", ci).set("detail", detail.clone()).set("history_before_roundtrip", Json::Arr(pre.iter().map(|o| Json::Str(format!("{:?}", o))).collect())).set("history_after_roundtrip", Json::Arr(post.iter().map(|o| Json::Str(format!("{:?}", o))).collect()));
		let path = args.write_replay(&format!("Z5-sweeper-seed{}-case{}", args.seed, ci), &body);
		rep.violation("C12", "Z5-sweeper", sig, detail, Some(path));
	};
	let read = vcore::guarded(|| <(BlockLocator, Sweeper)>::read(&mut &bytes[..], (bc2.clone(), fee2.clone(), None, keys.clone(), Arc::new(Change(keys.clone())), store2.clone(), NullLogger)));
	let (bl, sw2) = match read {
		Ok(Ok(x)) => x,
		Ok(Err(e)) => return viol(rep, &format!("an output sweeper does not read back: {}", vcore::canon(&format!("{:?}", e))), format!("{:?}", e), &pre, &[]),
		Err(p) => return viol(rep, &format!("reading an output sweeper back panics: {}", vcore::canon(&p)), p, &pre, &[]),
	};
	let mut b = Side { sw: sw2, bc: bc2, fee: fee2, height: a.height, tip: a.tip, broadcasts: vec![], blocks: vec![] };
	// what is persisted may lag behind the chain (the sweeper persists when its state changes): like any
	// chain listener that was read back, the copy is first brought to the tip from its own best block
	if bl.height > a.height {
		return viol(rep, "an output sweeper read back reports a best block the original never saw", format!("{} vs {}", bl.height, a.height), &pre, &[]);
	}
	for (h, height, txs) in a.blocks.iter().filter(|x| x.1 > bl.height) {
		if !txs.is_empty() {
			let td: Vec<(usize, &Transaction)> = txs.iter().map(|t| (1usize, t)).collect();
			b.sw.transactions_confirmed(h, &td, *height);
		}
		b.sw.best_block_updated(h, *height);
	}
	b.bc.0.lock().unwrap().clear();
	// the pending sweep the original last broadcast is known to the chain the copy lives on as well
	if let Some(t) = a.bc.0.lock().unwrap().last().cloned() {
		b.bc.0.lock().unwrap().push(t);
	}
	a.broadcasts.clear();
	if b.sw.current_best_block().height != a.sw.current_best_block().height {
		return viol(rep, "an output sweeper read back and synced reports another best block", format!("{} vs {}", b.sw.current_best_block().height, a.height), &pre, &[]);
	}
	if tracked(&a.sw) != tracked(&b.sw) {
		return viol(rep, "an output sweeper read back tracks different outputs than the original", format!("{:?} vs {:?}", a.sw.tracked_spendable_outputs().len(), b.sw.tracked_spendable_outputs().len()), &pre, &[]);
	}
	let post: Vec<Op> = (0..(3 + rng.below(30))).map(|_| gen_op(rng)).collect();
	for (i, op) in post.iter().enumerate() {
		ctr += 1;
		nonce += 1;
		apply(&mut a, op, &keys, ctr, nonce);
		apply(&mut b, op, &keys, ctr, nonce);
		rep.count("sweeper_state_comparisons");
		if tracked(&a.sw) != tracked(&b.sw) {
			let (ta, tb) = (tracked(&a.sw), tracked(&b.sw));
			let only_a: Vec<&String> = ta.iter().filter(|x| !tb.contains(x)).take(2).collect();
			let only_b: Vec<&String> = tb.iter().filter(|x| !ta.contains(x)).take(2).collect();
			let dump = |s: &Side| -> String { s.bc.0.lock().unwrap().last().map(|t| format!("lock_time {} inputs {:?} outputs {:?}", t.lock_time, t.input.iter().map(|i| ({ let x = i.previous_output.to_string(); x[x.len() - 12..].to_string() }, i.sequence.0)).collect::<Vec<_>>(), t.output.iter().map(|o| (o.value.to_sat(), o.script_pubkey.to_hex_string()[..12].to_string())).collect::<Vec<_>>())).unwrap_or_default() };
			return viol(rep, "an output sweeper read back tracks different outputs than the original after further identical events", format!("step {} {:?}: TXA {} TXB {} only original {:?} | only read back {:?}", i, op, dump(&a), dump(&b), only_a, only_b), &pre, &post);
		}
		if a.broadcasts != b.broadcasts {
			return viol(rep, "an output sweeper read back broadcasts different sweeps than the original after further identical events", format!("step {} {:?}: {:?} vs {:?}", i, op, a.broadcasts, b.broadcasts), &pre, &post);
		}
	}
	rep.add("sweeper_sweeps_broadcast_after_roundtrip", a.broadcasts.len() as u64);
	let mut h = Fnv::new();
	h.u64(pre.len() as u64 / 4).u64(post.len() as u64 / 4).u64(a.sw.tracked_spendable_outputs().len() as u64).u64(a.broadcasts.len() as u64);
	rep.distinct(h.get());
}

fn main() {
	vcore::install_quiet_panic_hook();
	let args = Args::parse();
	let mut rep = args.report();
	let cases = args.num("cases", 4_800, 240_000);
	bins::shard_runs(&args, cases, &mut rep, |ci, rng, rep| one_case(&args, ci, rng, rep));
	rep.write_to(&args.out);
}
