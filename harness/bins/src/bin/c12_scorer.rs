//! C12 (scorer part) – a ProbabilisticScorer read back from its serialization behaves like the
//! original: twin histories. A scorer is fed a random history of path results and time, written
//! and read back; from then on original and copy receive the same further history (more results,
//! long and short time jumps) and after every step every public estimate
//! (liquidity range, historical buckets, historical and live success probabilities) of every
//! channel and direction must agree. A second round trip is taken at a random later point.
use bins::{sk, NullLogger};
use bitcoin::constants::ChainHash;
use bitcoin::secp256k1::{PublicKey, Secp256k1};
use bitcoin::Network;
use lightning::ln::msgs::{UnsignedChannelAnnouncement, UnsignedChannelUpdate};
use lightning::routing::gossip::{NetworkGraph, NodeId};
use lightning::routing::router::{Path, RouteHop};
use lightning::routing::scoring::{ProbabilisticScorer, ProbabilisticScoringDecayParameters, ProbabilisticScoringFeeParameters, ScoreUpdate};
use lightning::types::features::{ChannelFeatures, NodeFeatures};
use lightning::util::ser::{ReadableArgs, Writeable};
use std::time::Duration;
use vcore::{Args, Fnv, Json, Report, Rng};

struct NoUtxo;
impl lightning::routing::utxo::UtxoLookup for NoUtxo {
	fn get_utxo(&self, _c: &ChainHash, _s: u64, _n: std::sync::Arc<lightning::util::wakers::Notifier>) -> lightning::routing::utxo::UtxoResult {
		lightning::routing::utxo::UtxoResult::Sync(Err(lightning::routing::utxo::UtxoLookupError::UnknownTx))
	}
}

type Scorer<'a> = ProbabilisticScorer<&'a NetworkGraph<NullLogger>, NullLogger>;

struct Net {
	graph: NetworkGraph<NullLogger>,
	pks: Vec<PublicKey>,
	chans: Vec<(u64, usize, usize, u64)>, // scid, a, b, capacity msat
}

fn build_net(seed: u64, rng: &mut Rng) -> Net {
	let secp = Secp256k1::new();
	let n = 3 + rng.below(5) as usize;
	let pks: Vec<PublicKey> = (0..n).map(|i| PublicKey::from_secret_key(&secp, &sk(seed, 100 + i as u64))).collect();
	let graph = NetworkGraph::new(Network::Regtest, NullLogger);
	let mut chans = vec![];
	let nch = n + rng.below(n as u64) as usize;
	let now = std::time::SystemTime::now().duration_since(std::time::UNIX_EPOCH).unwrap().as_secs() as u32;
	for c in 0..nch {
		let a = if c < n - 1 { c } else { rng.below(n as u64) as usize };
		let mut b = if c < n - 1 { c + 1 } else { rng.below(n as u64) as usize };
		if a == b {
			b = (a + 1) % n;
		}
		let scid = 1000 + c as u64;
		let (lo, hi) = if NodeId::from_pubkey(&pks[a]) < NodeId::from_pubkey(&pks[b]) { (a, b) } else { (b, a) };
		let cap_msat = *rng.pick(&[100_000u64, 1_000_000, 50_000_000, 1_000_000_000, 16_000_000_000]);
		let ann = UnsignedChannelAnnouncement { features: ChannelFeatures::empty(), chain_hash: ChainHash::using_genesis_block(Network::Regtest), short_channel_id: scid, node_id_1: NodeId::from_pubkey(&pks[lo]), node_id_2: NodeId::from_pubkey(&pks[hi]), bitcoin_key_1: NodeId::from_pubkey(&PublicKey::from_secret_key(&secp, &sk(seed, 500 + 2 * c as u64))), bitcoin_key_2: NodeId::from_pubkey(&PublicKey::from_secret_key(&secp, &sk(seed, 501 + 2 * c as u64))), excess_data: vec![] };
		if graph.update_channel_from_unsigned_announcement::<&NoUtxo>(&ann, &None).is_err() {
			continue;
		}
		for dir in 0..2u8 {
			let upd = UnsignedChannelUpdate { chain_hash: ChainHash::using_genesis_block(Network::Regtest), short_channel_id: scid, timestamp: now - 100, message_flags: 1, channel_flags: dir, cltv_expiry_delta: 40, htlc_minimum_msat: 1, htlc_maximum_msat: cap_msat, fee_base_msat: 1000, fee_proportional_millionths: 100, excess_data: vec![] };
			let _ = graph.update_channel_unsigned(&upd);
		}
		chans.push((scid, lo, hi, cap_msat));
	}
	Net { graph, pks, chans }
}

fn random_path(net: &Net, rng: &mut Rng) -> Option<(Path, Vec<u64>)> {
	// a walk of 1..4 hops along channels
	let len = 1 + rng.below(4) as usize;
	let mut cur = rng.below(net.pks.len() as u64) as usize;
	let mut hops = vec![];
	let mut scids = vec![];
	let amt = *rng.pick(&[1u64, 1_000, 50_000, 900_000, 10_000_000, 400_000_000, 5_000_000_000]);
	for _ in 0..len {
		let opts: Vec<&(u64, usize, usize, u64)> = net.chans.iter().filter(|c| (c.1 == cur || c.2 == cur) && !scids.contains(&c.0)).collect();
		if opts.is_empty() {
			break;
		}
		let c = **rng.pick(&opts);
		let next = if c.1 == cur { c.2 } else { c.1 };
		hops.push(RouteHop { pubkey: net.pks[next], node_features: NodeFeatures::empty(), short_channel_id: c.0, channel_features: ChannelFeatures::empty(), fee_msat: 10, cltv_expiry_delta: 40, maybe_announced_channel: true });
		scids.push(c.0);
		cur = next;
	}
	if hops.is_empty() {
		return None;
	}
	hops.last_mut().unwrap().fee_msat = amt;
	Some((Path { hops, blinded_tail: None }, scids))
}

#[derive(Clone, Debug)]
enum Op {
	Fail(usize, usize), // path index, failing hop index
	Success(usize),
	ProbeFail(usize, usize),
	ProbeSuccess(usize),
	Time(u64), // seconds to advance, then time_passed
}

fn apply(s: &mut Scorer, op: &Op, paths: &[(Path, Vec<u64>)], now: &mut u64) {
	match op {
		Op::Fail(p, h) => s.payment_path_failed(&paths[*p].0, paths[*p].1[*h % paths[*p].1.len()], Duration::from_secs(*now)),
		Op::Success(p) => s.payment_path_successful(&paths[*p].0, Duration::from_secs(*now)),
		Op::ProbeFail(p, h) => s.probe_failed(&paths[*p].0, paths[*p].1[*h % paths[*p].1.len()], Duration::from_secs(*now)),
		Op::ProbeSuccess(p) => s.probe_successful(&paths[*p].0, Duration::from_secs(*now)),
		Op::Time(d) => {
			*now += *d;
			s.time_passed(Duration::from_secs(*now));
		},
	}
}

fn snapshot(s: &Scorer, net: &Net) -> Vec<String> {
	let fee = ProbabilisticScoringFeeParameters::default();
	let mut out = vec![];
	for (scid, a, b, cap) in net.chans.iter() {
		for t in [*a, *b] {
			let target = NodeId::from_pubkey(&net.pks[t]);
			let range = s.estimated_channel_liquidity_range(*scid, &target);
			let hist = s.historical_estimated_channel_liquidity_probabilities(*scid, &target);
			let mut probs = vec![];
			for amt in [1u64, cap / 100 + 1, cap / 2, *cap - 1] {
				probs.push((s.historical_estimated_payment_success_probability(*scid, &target, amt, &fee, false).map(|p| p.to_bits()), s.historical_estimated_payment_success_probability(*scid, &target, amt, &fee, true).map(|p| p.to_bits()), s.live_estimated_payment_success_probability(*scid, &target, amt, &fee).map(|p| p.to_bits())));
			}
			out.push(format!("scid {} to {}: range {:?} hist {:?} probs {:?}", scid, t, range, hist, probs));
		}
	}
	out
}

fn gen_op(rng: &mut Rng, npaths: usize) -> Op {
	let p = rng.below(npaths as u64) as usize;
	match rng.below(12) {
		0..=3 => Op::Fail(p, rng.below(4) as usize),
		4..=6 => Op::Success(p),
		7 => Op::ProbeFail(p, rng.below(4) as usize),
		8 => Op::ProbeSuccess(p),
		// time: seconds, hours, around the half lives (6 h liquidity offsets, 14 d history), long
		_ => Op::Time(*rng.pick(&[1u64, 59, 3_600, 6 * 3_600 - 1, 6 * 3_600, 6 * 3_600 + 1, 86_400, 7 * 86_400, 14 * 86_400 - 1, 14 * 86_400, 14 * 86_400 + 1, 30 * 86_400, 200 * 86_400])),
	}
}

fn one_case(args: &Args, ci: u64, rng: &mut Rng, rep: &mut Report) {
	let net = build_net(args.seed ^ (ci << 8), rng);
	if net.chans.is_empty() {
		return;
	}
	let mut paths = vec![];
	for _ in 0..8 {
		if let Some(p) = random_path(&net, rng) {
			paths.push(p);
		}
	}
	if paths.is_empty() {
		return;
	}
	let decay = if rng.chance(1, 3) { ProbabilisticScoringDecayParameters { historical_no_updates_half_life: Duration::from_secs(*rng.pick(&[3_600u64, 86_400, 14 * 86_400])), liquidity_offset_half_life: Duration::from_secs(*rng.pick(&[600u64, 6 * 3_600, 86_400])) } } else { ProbabilisticScoringDecayParameters::default() };
	let mut now: u64 = 1_700_000_000;
	let mut orig: Scorer = ProbabilisticScorer::new(decay, &net.graph, NullLogger);
	let pre: Vec<Op> = (0..(5 + rng.below(60))).map(|_| gen_op(rng, paths.len())).collect();
	for op in pre.iter() {
		apply(&mut orig, op, &paths, &mut now);
	}
	let bytes = orig.encode();
	rep.count("scorers_roundtripped");
	let mut copy: Scorer = match vcore::guarded(|| <Scorer as ReadableArgs<_>>::read(&mut &bytes[..], (decay, &net.graph, NullLogger))) {
		Ok(Ok(c)) => c,
		other => {
			let why = match other {
				Ok(Err(e)) => format!("{:?}", e),
				Err(p) => format!("panic: {}", p),
				_ => unreachable!(),
			};
			let body = Json::obj().set("property", "C12").set("rule", "Z5-scorer").set("seed", args.seed).set("case", ci).set("why", why.clone()).set("history", Json::Arr(pre.iter().map(|o| Json::Str(format!("{:?}", o))).collect()));
			let path = args.write_replay(&format!("Z5-scorer-seed{}-case{}", args.seed, ci), &body);
			rep.violation("C12", "Z5-scorer", &format!("a scorer does not read back: {}", vcore::canon(&why)), why, Some(path));
			return;
		},
	};
	let mut now2 = now;
	let post: Vec<Op> = (0..(5 + rng.below(40))).map(|_| gen_op(rng, paths.len())).collect();
	let second_rt_at = rng.below(post.len() as u64) as usize;
	let mut failed: Option<(usize, String, String)> = None;
	let (a0, b0) = (snapshot(&orig, &net), snapshot(&copy, &net));
	rep.count("scorer_estimate_comparisons");
	if a0 != b0 {
		let k = a0.iter().zip(b0.iter()).position(|(x, y)| x != y).unwrap();
		failed = Some((0, a0[k].clone(), b0[k].clone()));
	}
	let mut time_ops = 0;
	for (i, op) in post.iter().enumerate() {
		if failed.is_some() {
			break;
		}
		apply(&mut orig, op, &paths, &mut now);
		apply(&mut copy, op, &paths, &mut now2);
		if matches!(op, Op::Time(_)) {
			time_ops += 1;
			rep.count("scorer_time_steps_after_roundtrip");
		}
		let (a, b) = (snapshot(&orig, &net), snapshot(&copy, &net));
		rep.count("scorer_estimate_comparisons");
		if a != b {
			let k = a.iter().zip(b.iter()).position(|(x, y)| x != y).unwrap();
			failed = Some((i + 1, a[k].clone(), b[k].clone()));
		}
		if i == second_rt_at && failed.is_none() {
			let b2 = copy.encode();
			match <Scorer as ReadableArgs<_>>::read(&mut &b2[..], (decay, &net.graph, NullLogger)) {
				Ok(c) => {
					copy = c;
					rep.count("scorers_roundtripped");
				},
				Err(e) => failed = Some((i + 1, "second round trip".into(), format!("{:?}", e))),
			}
		}
	}
	let mut h = Fnv::new();
	h.u64(net.chans.len() as u64).u64(pre.len() as u64 / 8).u64(post.len() as u64 / 8).u64(time_ops);
	rep.distinct(h.get());
	if let Some((step, a, b)) = failed {
		let body = Json::obj().set("property", "C12").set("rule", "Z5-scorer").set("seed", args.seed).set("case", ci).set("diverged_after_step", step as u64).set("original", a.clone()).set("read_back", b.clone()).set("history_before_roundtrip", Json::Arr(pre.iter().map(|o| Json::Str(format!("{:?}", o))).collect())).set("history_after_roundtrip", Json::Arr(post.iter().map(|o| Json::Str(format!("{:?}", o))).collect()));
		let path = args.write_replay(&format!("Z5-scorer-seed{}-case{}", args.seed, ci), &body);
		let when = if step == 0 { "right after the round trip" } else { "after further identical updates" };
		rep.violation("C12", "Z5-scorer", &format!("a scorer read back from its serialization gives different estimates than the original {}", when), format!("case {} step {}: original {} | read back {}", ci, step, a.chars().take(300).collect::<String>(), b.chars().take(300).collect::<String>()), Some(path));
	}
}

/// Collection-length boundaries of the persisted encoding: scorers tracking 65534, 65535 and 65536 channels
/// (the length prefix changes form at 0xffff) are written and read back; a sample of channels is compared.
fn boundary_case(args: &Args, rep: &mut Report) {
	let secp = Secp256k1::new();
	let pks: Vec<PublicKey> = (0..2).map(|i| PublicKey::from_secret_key(&secp, &sk(args.seed, 900 + i as u64))).collect();
	let graph = NetworkGraph::new(Network::Regtest, NullLogger);
	let (lo, hi) = if NodeId::from_pubkey(&pks[0]) < NodeId::from_pubkey(&pks[1]) { (0, 1) } else { (1, 0) };
	let now_ts = std::time::SystemTime::now().duration_since(std::time::UNIX_EPOCH).unwrap().as_secs() as u32;
	let total = 65_540u64;
	let mut chans = vec![];
	for c in 0..total {
		let scid = 10_000 + c;
		let ann = UnsignedChannelAnnouncement { features: ChannelFeatures::empty(), chain_hash: ChainHash::using_genesis_block(Network::Regtest), short_channel_id: scid, node_id_1: NodeId::from_pubkey(&pks[lo]), node_id_2: NodeId::from_pubkey(&pks[hi]), bitcoin_key_1: NodeId::from_pubkey(&pks[lo]), bitcoin_key_2: NodeId::from_pubkey(&pks[hi]), excess_data: vec![] };
		if graph.update_channel_from_unsigned_announcement::<&NoUtxo>(&ann, &None).is_err() {
			continue;
		}
		for dir in 0..2u8 {
			let upd = UnsignedChannelUpdate { chain_hash: ChainHash::using_genesis_block(Network::Regtest), short_channel_id: scid, timestamp: now_ts - 100, message_flags: 1, channel_flags: dir, cltv_expiry_delta: 40, htlc_minimum_msat: 1, htlc_maximum_msat: 1_000_000_000, fee_base_msat: 0, fee_proportional_millionths: 0, excess_data: vec![] };
			let _ = graph.update_channel_unsigned(&upd);
		}
		chans.push((scid, lo, hi, 1_000_000_000u64));
	}
	let net = Net { graph, pks, chans };
	let decay = ProbabilisticScoringDecayParameters::default();
	let mut orig: Scorer = ProbabilisticScorer::new(decay, &net.graph, NullLogger);
	let now = 1_700_000_000u64;
	let mut tracked = 0usize;
	for target in [65_534usize, 65_535, 65_536] {
		while tracked < target && tracked < net.chans.len() {
			let (scid, _, b, _) = net.chans[tracked];
			let path = Path { hops: vec![RouteHop { pubkey: net.pks[b], node_features: NodeFeatures::empty(), short_channel_id: scid, channel_features: ChannelFeatures::empty(), fee_msat: 1_000 + tracked as u64, cltv_expiry_delta: 40, maybe_announced_channel: true }], blinded_tail: None };
			orig.payment_path_failed(&path, scid, Duration::from_secs(now));
			tracked += 1;
		}
		let bytes = orig.encode();
		rep.count("scorer_collection_length_boundary_roundtrips");
		let sample = Net { graph: NetworkGraph::new(Network::Regtest, NullLogger), pks: net.pks.clone(), chans: vec![net.chans[0], net.chans[tracked / 2], net.chans[tracked - 1]] };
		let fail = |why: String, rep: &mut Report| {
			let body = Json::obj().set("property", "C12").set("rule", "Z5-scorer").set("seed", args.seed).set("case", "collection-length boundary").set("channels_tracked", tracked as u64).set("why", why.clone());
			let path = args.write_replay(&format!("Z5-scorer-boundary-{}", tracked), &body);
			rep.violation("C12", "Z5-scorer", &format!("a scorer tracking a boundary number of channels does not read back unchanged: {}", vcore::canon(&why)), format!("{} channels tracked: {}", tracked, why), Some(path));
		};
		match vcore::guarded(|| <Scorer as ReadableArgs<_>>::read(&mut &bytes[..], (decay, &net.graph, NullLogger))) {
			Ok(Ok(copy)) => {
				let (a, b) = (snapshot(&orig, &sample), snapshot(&copy, &sample));
				rep.count("scorer_estimate_comparisons");
				if a != b {
					fail(format!("estimates differ: {:?} vs {:?}", a.first(), b.first()), rep);
				}
			},
			Ok(Err(e)) => fail(format!("{:?}", e), rep),
			Err(p) => fail(format!("panic: {}", p), rep),
		}
	}
}

fn main() {
	vcore::install_quiet_panic_hook();
	let args = Args::parse();
	let mut rep = args.report();
	if args.shard == 0 && args.kv.get("only").is_none() {
		boundary_case(&args, &mut rep);
	}
	let cases = args.num("cases", 4_800, 240_000);
	bins::shard_runs(&args, cases, &mut rep, |ci, rng, rep| one_case(&args, ci, rng, rep));
	rep.write_to(&args.out);
}
