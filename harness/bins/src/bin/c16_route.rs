//! C16 – independent validator of routes returned by `find_route` on generated network graphs.
//!
//! The oracle knows the graph because it generated it (policies, capacities, first hops, hints);
//! it never consults the router's own data structures. Rules (see DESIGN.md §6 C16):
//!  V1 path count / length / CLTV / fee limits / excluded channels respected
//!  V2 each path is a connected chain payer -> payee over known, enabled, usable channels
//!     (usable = both directions announced by a channel_update, as the library defines it)
//!  V3 each hop carries >= htlc_minimum and (jointly over paths) <= min(htlc_maximum, capacity)
//!     apart from amounts raised to meet a later minimum
//!  V4 every forwarding node is paid >= base + prop * forwarded / 1e6 of the channel it forwards over,
//!     and is given >= that channel's cltv_expiry_delta
//!  V5 delivered >= requested, no superfluous part
//!  V6 completeness. Hard rule in the *slack regime* (every channel has ample limits, tiny minimum,
//!     small fees/CLTV, no binding limit): payee reachable => find_route succeeds. In the general
//!     regime a budgeted exhaustive search decides whether a feasible single path exists; failures
//!     there are tallied (known finding F3, pinned witnesses re-run from files).
//!  V7 Route::get_total_fees equals the hop fees (including the fees paid for blinded tails) plus the
//!     amount delivered above the request
//!
//! Blinded payees (`PaymentParameters::blinded`): a path ends in a `blinded_tail` that must be one of the
//! supplied blinded payment paths (same blinding point and hops, not one of
//! `previously_failed_blinded_path_idxs`); the unblinded hops form a connected chain payer -> introduction
//! node; `final_value_msat` is what the recipient gets; the last unblinded hop's `fee_msat` is the fee paid
//! for the whole blinded path and must be >= fee_base + floor(final_value * fee_prop / 1e6) (the rounding of
//! the library's `compute_fees`; never less, rounding up is not demanded); payinfo.htlc_minimum <=
//! final_value, and the final values of all parts using one blinded path together <= payinfo.htlc_maximum
//! (apart from raised amounts); total CLTV = unblinded hops + payinfo.cltv_expiry_delta + excess final
//! delta <= max_total_cltv_expiry_delta. For one-hop blinded paths (the introduction node is the
//! recipient) nobody forwards inside the blinded path, so the payinfo (fee, limits, CLTV) is not enforced:
//! the library documents that it ignores it there; deviations are counted as observations.
//! Route hints may be 1-3 hops long; each hint hop is an independent private edge src -> next node. A hint
//! hop naming the scid of an announced channel is accepted under either reading (see `validate`).
use bins::{pk, EnvLogger, NullLogger};
use bitcoin::constants::ChainHash;
use bitcoin::secp256k1::PublicKey;
use bitcoin::{Amount, Network, TxOut};
use lightning::blinded_path::payment::{BlindedPayInfo, BlindedPaymentPath};
use lightning::blinded_path::BlindedHop;
use lightning::ln::chan_utils::make_funding_redeemscript;
use lightning::ln::channel_state::{ChannelCounterparty, ChannelDetails};
use lightning::ln::msgs::{UnsignedChannelAnnouncement, UnsignedChannelUpdate};
use lightning::ln::types::ChannelId;
use lightning::routing::gossip::{NetworkGraph, NodeId};
use lightning::routing::router::{build_route_from_hops, find_route, InFlightHtlcs, PaymentParameters, Route, RouteHint, RouteHintHop, RouteParameters, ScorerAccountingForInFlightHtlcs};
use lightning::routing::scoring::{FixedPenaltyScorer, ProbabilisticScorer, ProbabilisticScoringDecayParameters, ProbabilisticScoringFeeParameters, ScoreUpdate};
use lightning::routing::utxo::{UtxoLookup, UtxoResult};
use lightning::types::features::{BlindedHopFeatures, Bolt11InvoiceFeatures, Bolt12InvoiceFeatures, ChannelFeatures, InitFeatures};
use lightning::types::routing::RoutingFees;
use lightning::util::wakers::Notifier;
use std::collections::{BTreeMap, HashMap};
use std::sync::{Arc, OnceLock};
use vcore::{Args, Fnv, Json, Report, Rng};

#[derive(Clone, Copy, Debug, PartialEq)]
struct Pol {
	enabled: bool,
	cltv: u16,
	min: u64,
	max: u64,
	base: u32,
	prop: u32,
}
#[derive(Clone, Debug)]
struct Chan {
	a: usize, // node_id_1 (lower id)
	b: usize,
	cap_sat: Option<u64>, // known to the graph only with utxo lookup
	pol: [Option<Pol>; 2], // [a->b, b->a]
}
#[derive(Clone, Debug)]
struct FirstHop {
	scid: u64,
	peer: usize,
	limit: u64,
	min: u64,
}
#[derive(Clone, Debug)]
struct HintHop {
	src: usize,
	dst: usize,
	scid: u64,
	pol: Pol,
}
/// One blinded payment path offered by a blinded payee.
#[derive(Clone, Debug)]
struct BlindedSpec {
	intro: usize,
	n_hops: usize, // blinded_hops.len(); 1 = the introduction node is the recipient
	base: u32,
	prop: u32,
	cltv: u16,
	min: u64,
	max: u64,
	id: u64, // selects the blinding point / blinded node ids (unique within a query)
}
impl BlindedSpec {
	fn one_hop(&self) -> bool {
		self.n_hops == 1
	}
	/// What the oracle enforces for the blinded part: the payinfo, except for one-hop paths where nobody
	/// forwards inside the blinded path (the library documents that it ignores the payinfo there).
	fn pol(&self) -> Pol {
		if self.one_hop() {
			Pol { enabled: true, cltv: 0, min: 0, max: u64::MAX, base: 0, prop: 0 }
		} else {
			Pol { enabled: true, cltv: self.cltv, min: self.min, max: self.max, base: self.base, prop: self.prop }
		}
	}
}
/// The blinded payee as a node of the reference searches.
const VP: usize = usize::MAX;
const BLINDED_EDGE_BASE: u64 = u64::MAX - 64;
const BLINDED_IDS: u64 = 16;

fn blinded_keys() -> &'static Vec<PublicKey> {
	static K: OnceLock<Vec<PublicKey>> = OnceLock::new();
	K.get_or_init(|| (0..BLINDED_IDS * 4).map(|i| pk(0xB11D_ED, i + 1)).collect())
}
fn blinded_path(sp: &BlindedSpec, keys: &[PublicKey]) -> BlindedPaymentPath {
	let bk = blinded_keys();
	let b = (sp.id % BLINDED_IDS) as usize * 4;
	let hops = (0..sp.n_hops.min(3)).map(|h| BlindedHop { blinded_node_id: bk[b + 1 + h], encrypted_payload: vec![sp.id as u8; 3 + h] }).collect();
	BlindedPaymentPath::from_blinded_path_and_payinfo(keys[sp.intro], bk[b], hops, BlindedPayInfo { fee_base_msat: sp.base, fee_proportional_millionths: sp.prop, cltv_expiry_delta: sp.cltv, htlc_minimum_msat: sp.min, htlc_maximum_msat: sp.max, features: BlindedHopFeatures::empty() })
}

/// Everything that defines one generated network.
#[derive(Clone, Debug)]
struct Scenario {
	key_seed: u64,
	n_public: usize,
	n_extra: usize,
	slack: bool,
	chans: BTreeMap<u64, Chan>,
}
/// Everything that defines one routing query.
#[derive(Clone, Debug)]
struct Query {
	payer: usize,
	payee: usize,
	amt: u64,
	mpp: bool,
	first: Option<Vec<FirstHop>>,
	hints: Vec<Vec<HintHop>>,
	blinded: Vec<BlindedSpec>, // non-empty = the payee is blinded (`payee` is then unused)
	failed_blinded: Vec<u64>,
	final_cltv: u32,
	max_path_count: Option<u8>,
	max_path_length: Option<u8>,
	max_total_cltv: Option<u32>,
	saturation: Option<u8>,
	excluded: Vec<u64>,
	fee_limit: Option<Option<u64>>, // None = library default
	scorer_mode: u64,               // 0,1 fixed; 2 probabilistic; 3 probabilistic + in-flight
	fixed_penalty: u64,
	seed_bytes: [u8; 32],
}

struct Utxos(HashMap<u64, TxOut>);
impl UtxoLookup for Utxos {
	fn get_utxo(&self, _c: &ChainHash, scid: u64, _n: Arc<Notifier>) -> UtxoResult {
		UtxoResult::Sync(self.0.get(&scid).cloned().ok_or(lightning::routing::utxo::UtxoLookupError::UnknownTx))
	}
}

fn fee_for(p: &Pol, amt: u64) -> u64 {
	p.base as u64 + ((amt as u128 * p.prop as u128) / 1_000_000) as u64
}

impl Scenario {
	fn keys(&self) -> Vec<PublicKey> {
		(0..self.n_public + self.n_extra).map(|i| pk(self.key_seed, i as u64 + 1)).collect()
	}
	fn gen(gi: u64, rng: &mut Rng, thorough: bool) -> Scenario {
		let slack = rng.chance(1, 3);
		let big = thorough && !slack && rng.chance(1, 8);
		let n = if big { 20 + rng.below(40) as usize } else { 4 + rng.below(12) as usize };
		let n_extra = rng.below(3) as usize;
		let mut sc = Scenario { key_seed: gi + 1, n_public: n, n_extra, slack, chans: BTreeMap::new() };
		let keys = sc.keys();
		let with_utxo = rng.chance(1, 2);
		let m = n + rng.below(2 * n as u64) as usize;
		for c in 0..m {
			let a = rng.below(n as u64) as usize;
			let mut b = rng.below(n as u64) as usize;
			if a == b {
				b = (a + 1) % n;
			}
			let scid = 1000 + c as u64;
			let (ida, idb) = (NodeId::from_pubkey(&keys[a]), NodeId::from_pubkey(&keys[b]));
			let (loi, hii) = if ida < idb { (a, b) } else { (b, a) };
			let mut pols = [None, None];
			let cap;
			if slack {
				cap = 16_000_000 + rng.below(50_000);
				for dir in 0..2 {
					pols[dir] = Some(Pol { enabled: !rng.chance(1, 10), cltv: 6 + rng.below(34) as u16, min: rng.below(2), max: cap * 1000, base: *rng.pick(&[0u32, 1, 1000]), prop: *rng.pick(&[0u32, 1, 100, 1000]) });
				}
				if rng.chance(1, 12) {
					pols[rng.below(2) as usize] = None; // unusable channel
				}
			} else {
				cap = *rng.pick(&[1_000u64, 10_000, 100_000, 1_000_000, 16_000_000]) + rng.below(50_000);
				let capm = cap * 1000;
				for dir in 0..2 {
					if rng.chance(1, 8) {
						continue;
					}
					let r = 1_000_000 + rng.below(capm);
					pols[dir] = Some(Pol {
						enabled: !rng.chance(1, 10),
						cltv: *rng.pick(&[6u16, 18, 40, 72, 144]) + rng.below(10) as u16,
						min: *rng.pick(&[0u64, 1, 1000, 100_000, 5_000_000]),
						max: (*rng.pick(&[capm, capm / 2, capm / 10 + 1, r])).min(capm).max(1),
						base: *rng.pick(&[0u32, 1, 1000, 50_000, 2_000_000]),
						prop: *rng.pick(&[0u32, 1, 100, 10_000, 500_000, 1_000_000]),
					});
				}
			}
			sc.chans.insert(scid, Chan { a: loi, b: hii, cap_sat: if with_utxo { Some(cap) } else { None }, pol: pols });
		}
		sc
	}
	/// A star: payer 0, payee 1, k+1 intermediaries each joined to both by free channels that carry exactly
	/// floor(amount/k) (so that no k of them deliver an amount that is not a multiple of k), and one more
	/// intermediary with roomy channels that charge a fee. Queries ask for amounts around k and k+1 parts
	/// with max_path_count = k: the part-count limit is binding.
	fn star(gi: u64, rng: &mut Rng) -> (Scenario, Vec<Query>) {
		let k = 2 + rng.below(4) as usize; // allowed parts
		let m = *rng.pick(&[1_000u64, 33_333, 250_001, 1_000_000]) + rng.below(3);
		let n = k + 4;
		let mut sc = Scenario { key_seed: gi + 1, n_public: n, n_extra: 0, slack: false, chans: BTreeMap::new() };
		let keys = sc.keys();
		let mut scid = 1000u64;
		let mut add = |sc: &mut Scenario, a: usize, b: usize, max: u64, base: u32, prop: u32| {
			let (ida, idb) = (NodeId::from_pubkey(&keys[a]), NodeId::from_pubkey(&keys[b]));
			let (lo, hi) = if ida < idb { (a, b) } else { (b, a) };
			let pol = Some(Pol { enabled: true, cltv: 18, min: 0, max, base, prop });
			sc.chans.insert(scid, Chan { a: lo, b: hi, cap_sat: None, pol: [pol, pol] });
			scid += 1;
		};
		for x in 2..(k + 3) {
			add(&mut sc, 0, x, m, 0, 0);
			add(&mut sc, x, 1, m, 0, 0);
		}
		let big = k + 3;
		let with_big = rng.chance(2, 3);
		if with_big {
			add(&mut sc, 0, big, 100 * m * (k as u64 + 2), 0, 0);
			add(&mut sc, big, 1, 100 * m * (k as u64 + 2), *rng.pick(&[1u32, 1000]), *rng.pick(&[0u32, 1000]));
		}
		let km = k as u64 * m;
		let amounts = [km - 1, km, km + 1, km + m / 2, km + m - 1, km + m];
		let qs = amounts.iter().map(|amt| Query { payer: 0, payee: 1, amt: *amt, mpp: true, first: None, hints: vec![], blinded: vec![], failed_blinded: vec![], final_cltv: 18, max_path_count: Some(k as u8), max_path_length: None, max_total_cltv: None, saturation: Some(0), excluded: vec![], fee_limit: Some(None), scorer_mode: rng.below(2), fixed_penalty: *rng.pick(&[0u64, 500]), seed_bytes: rng.bytes() }).collect();
		(sc, qs)
	}
	/// Feed the scenario to a fresh NetworkGraph through the public gossip API.
	fn build(&self, rep: &mut Report, now: u32) -> NetworkGraph<NullLogger> {
		let chain = ChainHash::using_genesis_block(Network::Regtest);
		let keys = self.keys();
		let graph = NetworkGraph::new(Network::Regtest, NullLogger);
		let mut utxos = Utxos(HashMap::new());
		for (scid, c) in self.chans.iter() {
			if let Some(cap) = c.cap_sat {
				utxos.0.insert(*scid, TxOut { value: Amount::from_sat(cap), script_pubkey: make_funding_redeemscript(&keys[c.a], &keys[c.b]).to_p2wsh() });
			}
		}
		for (scid, c) in self.chans.iter() {
			let (lo, hi) = (NodeId::from_pubkey(&keys[c.a]), NodeId::from_pubkey(&keys[c.b]));
			let ann = UnsignedChannelAnnouncement { features: ChannelFeatures::empty(), chain_hash: chain, short_channel_id: *scid, node_id_1: lo, node_id_2: hi, bitcoin_key_1: lo, bitcoin_key_2: hi, excess_data: vec![] };
			let lookup = if c.cap_sat.is_some() { Some(&utxos) } else { None };
			if let Err(e) = graph.update_channel_from_unsigned_announcement(&ann, &lookup) {
				rep.inconclusive(format!("generator: announcement rejected: {:?}", e.err));
				continue;
			}
			for dir in 0..2u8 {
				if let Some(p) = c.pol[dir as usize] {
					let upd = UnsignedChannelUpdate { chain_hash: chain, short_channel_id: *scid, timestamp: now - 1000 + dir as u32, message_flags: 1, channel_flags: dir | if p.enabled { 0 } else { 2 }, cltv_expiry_delta: p.cltv, htlc_minimum_msat: p.min, htlc_maximum_msat: p.max, fee_base_msat: p.base, fee_proportional_millionths: p.prop, excess_data: vec![] };
					if let Err(e) = graph.update_channel_unsigned(&upd) {
						rep.inconclusive(format!("generator: update rejected: {:?}", e.err));
					}
				}
			}
		}
		graph
	}
}

impl Query {
	/// The node the reference searches start from (they walk backwards, like the router).
	fn target(&self) -> usize {
		if self.blinded.is_empty() {
			self.payee
		} else {
			VP
		}
	}
	fn gen(sc: &Scenario, rng: &mut Rng) -> Query {
		let n = sc.n_public;
		let payer = rng.below(n as u64) as usize;
		let blinded_payee = rng.chance(3, 10);
		// outside the slack regime: blinded paths with modest fees and limits around a fraction of the amount,
		// preferably right behind generous first hops, so that multi-part routes over several blinded paths
		// (and several parts over one blinded path) actually come about
		let friendly = blinded_payee && !sc.slack && rng.chance(1, 3);
		let private_payee = !blinded_payee && sc.n_extra > 0 && rng.chance(1, 4);
		let mut payee = if private_payee { n + rng.below(sc.n_extra as u64) as usize } else { rng.below(n as u64) as usize };
		if payee == payer {
			payee = (payer + 1) % n;
		}
		let amt = if sc.slack { *rng.pick(&[1u64, 1000, 50_000, 1_000_000, 20_000_000]) + rng.below(1000) } else { *rng.pick(&[1u64, 999, 1000, 50_000, 1_000_000, 20_000_000, 400_000_000, 3_000_000_000, 40_000_000_000]) + rng.below(1000) };
		let mut first = None;
		if friendly {
			// two to four first hops towards one or two peers, limits around a fraction of the amount
			let pool: Vec<usize> = (0..1 + rng.below(2))
				.map(|_| {
					let p = if sc.n_extra > 0 && rng.chance(1, 6) { n + rng.below(sc.n_extra as u64) as usize } else { rng.below(n as u64) as usize };
					if p == payer {
						(p + 1) % n
					} else {
						p
					}
				})
				.collect();
			let mut v = vec![];
			for k in 0..2 + rng.below(3) {
				v.push(FirstHop { scid: 500_000 + k, peer: pool[rng.below(pool.len() as u64) as usize], limit: *rng.pick(&[amt / 2 + 1, amt / 2 + 1, amt / 3 + 1, amt, 100_000_000_000]) + *rng.pick(&[0u64, 0, 2000]), min: rng.below(2) });
			}
			first = Some(v);
		} else if rng.chance(1, 3) {
			let mut v = vec![];
			for k in 0..1 + rng.below(4) {
				// peers are announced nodes or, sometimes, nodes the graph does not know (reachable only this way)
				let mut peer = if sc.n_extra > 0 && rng.chance(1, 6) { n + rng.below(sc.n_extra as u64) as usize } else { rng.below(n as u64) as usize };
				if peer == payer {
					peer = (peer + 1) % n;
				}
				let (limit, min) = if sc.slack {
					(amt * 1000 + 1_000_000, rng.below(2))
				} else { (*rng.pick(&[amt, amt / 2 + 1, amt * 2, amt + amt / 50 + 60_000, 100_000_000_000]), *rng.pick(&[0u64, 1, 1000, amt / 2])) };
				v.push(FirstHop { scid: 500_000 + k, peer, limit, min });
			}
			first = Some(v);
		}
		let mut blinded: Vec<BlindedSpec> = vec![];
		let mut failed_blinded = vec![];
		if blinded_payee {
			let k = 1 + rng.below(4) as usize;
			let id0 = rng.below(BLINDED_IDS / 4) * 4;
			let peers: Vec<usize> = first.iter().flatten().map(|f| f.peer).collect();
			for j in 0..k {
				let n_hops = if friendly { *rng.pick(&[1usize, 2, 2, 2, 2, 3, 3, 3]) } else { *rng.pick(&[1usize, 2, 2, 3]) };
				let mut intro = match rng.below(8) {
					0 if !friendly => payer,
					1 | 2 if !peers.is_empty() => peers[rng.below(peers.len() as u64) as usize],
					3..=6 if friendly && !peers.is_empty() => peers[rng.below(peers.len() as u64) as usize],
					3 if sc.n_extra > 0 => n + rng.below(sc.n_extra as u64) as usize,
					_ => rng.below(n as u64) as usize,
				};
				if j > 0 && rng.chance(1, 4) {
					intro = blinded[rng.below(j as u64) as usize].intro; // two paths sharing one introduction node
				}
				if n_hops == 1 {
					// the library refuses requests whose one-hop blinded paths name different nodes: mostly keep them aligned
					if let Some(o) = blinded.iter().find(|b| b.n_hops == 1) {
						if !rng.chance(1, 8) {
							intro = o.intro;
						}
					}
				}
				let sp = if sc.slack {
					BlindedSpec { intro, n_hops, base: *rng.pick(&[0u32, 1, 1000]), prop: *rng.pick(&[0u32, 1, 100, 1000]), cltv: rng.below(41) as u16, min: rng.below(2), max: *rng.pick(&[u64::MAX, amt, amt + 1, amt * 1000 + 1_000_000]), id: id0 + j as u64 }
				} else if friendly {
					BlindedSpec { intro, n_hops, base: *rng.pick(&[0u32, 1, 1000]), prop: *rng.pick(&[0u32, 100, 10_000]), cltv: *rng.pick(&[0u16, 18, 40, 144]), min: rng.below(2), max: *rng.pick(&[amt / 2 + 1, amt / 2 + 1, amt / 3 + 1, amt / 4 + 1, amt, amt, u64::MAX]), id: id0 + j as u64 }
				} else {
					BlindedSpec {
						intro,
						n_hops,
						base: *rng.pick(&[0u32, 0, 1, 1000, 1000, 50_000, u32::MAX]),
						prop: *rng.pick(&[0u32, 0, 1, 100, 100, 10_000, 500_000, 1_000_000, u32::MAX]),
						cltv: *rng.pick(&[0u16, 18, 40, 40, 144, 144, 500, 920, 1000, u16::MAX]),
						min: *rng.pick(&[0u64, 0, 1, 1, 1000, amt.saturating_sub(1), amt, amt + 1, amt * 2, amt * 3, amt * 3 + 1]),
						max: *rng.pick(&[u64::MAX, u64::MAX, amt * 3 + 7, amt, amt, amt.saturating_sub(1), amt / 2 + 1, amt / 2 + 1, amt / 3 + 1, amt / 4 + 1, 0]),
						id: id0 + j as u64,
					}
				};
				blinded.push(sp);
			}
			if rng.chance(1, 5) {
				for _ in 0..1 + rng.below(2) {
					failed_blinded.push(rng.below(k as u64 + 1)); // may also name an index one past the end
				}
			}
		}
		let mut hints: Vec<Vec<HintHop>> = vec![];
		if !blinded_payee && (private_payee || rng.chance(1, 5)) {
			// public channels ending at the payee: a hint may name one of them
			let at_payee: Vec<(u64, usize)> = sc.chans.iter().filter(|(_, c)| c.a == payee || c.b == payee).map(|(s, c)| (*s, if c.a == payee { c.b } else { c.a })).collect();
			for k in 0..1 + rng.below(3) {
				let len = if rng.chance(1, 2) { 1 } else { 2 + rng.below(2) as usize };
				// chain of private channels nodes[0] -> nodes[1] -> .. -> payee
				let mut nodes: Vec<usize> = vec![];
				for h in 0..len {
					let v = if h == 0 && rng.chance(1, 8) {
						payer // a hint starting at the payer itself
					} else if h > 0 && sc.n_extra > 0 && rng.chance(1, 2) {
						n + rng.below(sc.n_extra as u64) as usize
					} else {
						rng.below(n as u64) as usize
					};
					nodes.push(v);
				}
				nodes.push(payee);
				let mut scids: Vec<u64> = (0..len as u64).map(|h| 900_000 + k * 8 + h).collect();
				if rng.chance(1, 5) && !sc.chans.is_empty() {
					// the last hop names an announced channel: consistently (the channel really connects that node
					// to the payee) or not (any announced scid)
					if !at_payee.is_empty() && rng.chance(2, 3) {
						let (s, other) = at_payee[rng.below(at_payee.len() as u64) as usize];
						scids[len - 1] = s;
						nodes[len - 1] = other;
					} else {
						scids[len - 1] = 1000 + rng.below(sc.chans.len() as u64);
					}
				}
				// the library refuses hints whose source is the payee; a hop to itself is meaningless; two hints
				// describing one scid differently would leave open which description counts
				if (0..len).any(|h| nodes[h] == payee || nodes[h] == nodes[h + 1]) || hints.iter().flatten().any(|x| scids.contains(&x.scid)) {
					continue;
				}
				let mut hint = vec![];
				for h in 0..len {
					let p = if sc.slack { Pol { enabled: true, cltv: 10 + rng.below(30) as u16, min: rng.below(2), max: u64::MAX, base: *rng.pick(&[0u32, 1000]), prop: *rng.pick(&[0u32, 100]) } } else { Pol { enabled: true, cltv: 40 + rng.below(40) as u16, min: *rng.pick(&[0u64, 1, 1000, 2_000_000]), max: *rng.pick(&[u64::MAX, amt, amt * 3 + 7, amt / 2 + 1]), base: *rng.pick(&[0u32, 1000, 30_000]), prop: *rng.pick(&[0u32, 100, 20_000]) } };
					hint.push(HintHop { src: nodes[h], dst: nodes[h + 1], scid: scids[h], pol: p });
				}
				hints.push(hint);
			}
		}
		let final_cltv = 18 + rng.below(100) as u32;
		let mpp = rng.chance(1, 2) || (friendly && rng.chance(3, 4));
		let mut q = Query { payer, payee, amt, mpp, first, hints, blinded, failed_blinded, final_cltv, max_path_count: None, max_path_length: None, max_total_cltv: None, saturation: None, excluded: vec![], fee_limit: None, scorer_mode: rng.below(4), fixed_penalty: *rng.pick(&[0u64, 500, 100_000]), seed_bytes: rng.bytes() };
		if rng.chance(1, 3) {
			q.saturation = Some(rng.below(4) as u8);
		}
		if rng.chance(1, 5) && !sc.chans.is_empty() {
			for _ in 0..1 + rng.below(3) {
				// previously failed channels of every kind: announced, route-hint (any hop), payer's own first hops
				let pick = match rng.below(4) {
					0 if !q.hints.is_empty() => {
						let h = &q.hints[rng.below(q.hints.len() as u64) as usize];
						h[rng.below(h.len() as u64) as usize].scid
					},
					1 if q.first.as_ref().map(|f| !f.is_empty()).unwrap_or(false) => {
						let f = q.first.as_ref().unwrap();
						f[rng.below(f.len() as u64) as usize].scid
					},
					_ => 1000 + rng.below(sc.chans.len() as u64),
				};
				q.excluded.push(pick);
			}
		}
		if sc.slack {
			q.fee_limit = Some(None);
			q.scorer_mode = rng.below(2);
			q.fixed_penalty = *rng.pick(&[0u64, 500]);
		} else {
			if rng.chance(1, 4) {
				q.max_path_count = Some(1 + rng.below(4) as u8);
			}
			if rng.chance(1, 4) {
				q.max_path_length = Some(1 + rng.below(6) as u8);
			}
			if rng.chance(1, 4) {
				q.max_total_cltv = Some(final_cltv + rng.below(400) as u32);
				if !q.blinded.is_empty() && rng.chance(1, 2) {
					// around the blinded path's own delta (the library keeps 80 blocks back for the shadow offset when it can)
					q.max_total_cltv = Some(q.blinded[0].cltv as u32 + *rng.pick(&[0u32, 1, 40, 79, 80, 81, 200]));
				}
			}
			q.fee_limit = match rng.below(4) {
				0 => Some(None),
				1 => Some(Some(rng.below(amt / 10 + 10))),
				2 => Some(Some(0)),
				_ => None,
			};
			if friendly && rng.chance(1, 2) {
				q.fee_limit = Some(None);
				q.max_total_cltv = None;
			}
		}
		q
	}
	fn route_params(&self, keys: &[PublicKey]) -> RouteParameters {
		let mut feats = Bolt11InvoiceFeatures::empty();
		if self.mpp {
			feats.set_basic_mpp_optional();
		}
		let mut pp = if self.blinded.is_empty() {
			PaymentParameters::from_node_id(keys[self.payee], self.final_cltv).with_bolt11_features(feats).unwrap()
		} else {
			let mut pp = PaymentParameters::blinded(self.blinded.iter().map(|b| blinded_path(b, keys)).collect());
			if self.mpp {
				let mut f = Bolt12InvoiceFeatures::empty();
				f.set_basic_mpp_optional();
				pp = pp.with_bolt12_features(f).unwrap();
			}
			pp.previously_failed_blinded_path_idxs = self.failed_blinded.clone();
			pp
		};
		let rhints: Vec<RouteHint> = self
			.hints
			.iter()
			.map(|h| RouteHint(h.iter().map(|x| RouteHintHop { src_node_id: keys[x.src], short_channel_id: x.scid, fees: RoutingFees { base_msat: x.pol.base, proportional_millionths: x.pol.prop }, cltv_expiry_delta: x.pol.cltv, htlc_minimum_msat: Some(x.pol.min), htlc_maximum_msat: if x.pol.max == u64::MAX { None } else { Some(x.pol.max) } }).collect()))
			.collect();
		if !rhints.is_empty() {
			pp = pp.with_route_hints(rhints).unwrap();
		}
		if let Some(v) = self.max_path_count {
			pp.max_path_count = v;
		}
		if let Some(v) = self.max_path_length {
			pp.max_path_length = v;
		}
		if let Some(v) = self.max_total_cltv {
			pp.max_total_cltv_expiry_delta = v;
		}
		if let Some(v) = self.saturation {
			pp.max_channel_saturation_power_of_half = v;
		}
		pp.previously_failed_channels = self.excluded.clone();
		let mut rp = RouteParameters::from_payment_params_and_value(pp, self.amt);
		if let Some(l) = self.fee_limit {
			rp.max_total_routing_fee_msat = l;
		}
		rp
	}
	fn describe(&self, sc: &Scenario, gi: u64) -> String {
		format!(
			"graph={} slack={} nodes={}+{} chans={} payer={} payee={} amt={} mpp={} first={} hints={:?} blinded={} failed_blinded={:?} fee_limit={:?} max_paths={:?} max_len={:?} max_cltv={:?} saturation={:?} excluded={:?} scorer={}",
			gi,
			sc.slack,
			sc.n_public,
			sc.n_extra,
			sc.chans.len(),
			self.payer,
			self.payee,
			self.amt,
			self.mpp,
			self.first.as_ref().map(|f| f.len() as i64).unwrap_or(-1),
			self.hints.iter().map(|h| h.len()).collect::<Vec<_>>(),
			self.blinded.iter().map(|b| format!("[intro {} hops {} base {} prop {} cltv {} min {} max {}]", b.intro, b.n_hops, b.base, b.prop, b.cltv, b.min, b.max)).collect::<Vec<_>>().join(""),
			self.failed_blinded,
			self.fee_limit,
			self.max_path_count,
			self.max_path_length,
			self.max_total_cltv,
			self.saturation,
			self.excluded,
			self.scorer_mode
		)
	}
}

fn first_hop_details(fh: &FirstHop, peer: PublicKey, idx: u64) -> ChannelDetails {
	let mut id = [0u8; 32];
	id[..8].copy_from_slice(&fh.scid.to_be_bytes());
	ChannelDetails {
		channel_id: ChannelId(id),
		counterparty: ChannelCounterparty { node_id: peer, features: InitFeatures::empty(), unspendable_punishment_reserve: 0, forwarding_info: None, outbound_htlc_minimum_msat: None, outbound_htlc_maximum_msat: None },
		funding_txo: None,
		channel_type: None,
		short_channel_id: Some(fh.scid),
		outbound_scid_alias: None,
		inbound_scid_alias: None,
		channel_value_satoshis: fh.limit / 1000 + 10_000,
		unspendable_punishment_reserve: None,
		user_channel_id: idx as u128,
		feerate_sat_per_1000_weight: None,
		outbound_capacity_msat: fh.limit,
		next_outbound_htlc_limit_msat: fh.limit,
		next_outbound_htlc_minimum_msat: fh.min,
		next_splice_out_maximum_sat: 0,
		inbound_capacity_msat: 0,
		confirmations_required: None,
		confirmations: Some(10),
		force_close_spend_delay: None,
		is_outbound: true,
		is_channel_ready: true,
		channel_shutdown_state: None,
		is_usable: true,
		is_announced: fh.scid % 2 == 0,
		inbound_htlc_minimum_msat: None,
		inbound_htlc_maximum_msat: None,
		config: None,
		pending_inbound_htlcs: vec![],
		pending_outbound_htlcs: vec![],
		funding_redeem_script: None,
		current_dust_exposure_msat: None,
		splice_details: None,
	}
}

/// Edges usable for forwarding into `node`: (from, policy (None = payer's first hop), max, min, scid)
fn edges_into(sc: &Scenario, q: &Query, node: usize) -> Vec<(usize, Option<Pol>, u64, u64, u64)> {
	let mut edges = vec![];
	if node == VP {
		// the blinded paths lead from their introduction nodes to the payee. Paths starting at the payer
		// itself are not usable by the library (a path needs at least one unblinded hop) and previously
		// failed ones must not be used.
		for (i, sp) in q.blinded.iter().enumerate() {
			if sp.intro == q.payer || q.failed_blinded.contains(&(i as u64)) {
				continue;
			}
			let p = sp.pol();
			edges.push((sp.intro, Some(p), p.max, p.min, BLINDED_EDGE_BASE + i as u64));
		}
		return edges;
	}
	if let Some(fhs) = &q.first {
		for fh in fhs.iter().filter(|f| f.peer == node && !q.excluded.contains(&f.scid)) {
			edges.push((q.payer, None, fh.limit, fh.min, fh.scid));
		}
	}
	for (scid, c) in sc.chans.iter() {
		if q.excluded.contains(scid) || c.pol[0].is_none() || c.pol[1].is_none() {
			continue; // LDK treats a channel as usable only once both directions have an update
		}
		for dir in 0..2 {
			let (from, to) = if dir == 0 { (c.a, c.b) } else { (c.b, c.a) };
			if to != node || (from == q.payer && q.first.is_some()) {
				continue; // with first hops given, the payer's graph channels are not used
			}
			let p = c.pol[dir].unwrap();
			if p.enabled {
				edges.push((from, Some(p), p.max.min(c.cap_sat.map(|s| s * 1000).unwrap_or(u64::MAX)), p.min, *scid));
			}
		}
	}
	// every hint hop is an independent private edge. Hops naming an announced channel's scid are left out
	// here: the library then takes the announced channel's data instead (the searches stay conservative).
	for hop in q.hints.iter().flat_map(|h| h.iter()).filter(|x| x.dst == node && !q.excluded.contains(&x.scid) && !sc.chans.contains_key(&x.scid)) {
		edges.push((hop.src, Some(hop.pol), hop.pol.max, hop.pol.min, hop.scid));
	}
	edges
}

/// Exhaustive (budgeted) search for one feasible simple path payer -> payee delivering `amt`,
/// walking backwards from the payee. Some(true/false), or None if the budget ran out.
#[allow(clippy::too_many_arguments)]
fn feasible(sc: &Scenario, q: &Query, node: usize, amt: u64, len_left: usize, visited: &mut Vec<usize>, budget: &mut u64, trail: &mut Vec<String>) -> Option<bool> {
	if *budget == 0 {
		return None;
	}
	*budget -= 1;
	if len_left == 0 {
		return Some(false);
	}
	let mut unknown = false;
	for (from, pol, max, min, scid) in edges_into(sc, q, node) {
		if amt > max || amt < min || visited.contains(&from) {
			continue;
		}
		if from == q.payer {
			trail.push(format!("{}->{} scid {} carries {} (max {} min {})", from, node, scid, amt, max, min));
			return Some(true);
		}
		let p = match pol {
			Some(p) => p,
			None => continue,
		};
		if node == VP && p.cltv > 144 {
			continue; // the search does not track CLTV totals: leave out blinded paths that could hit the limit
		}
		let need = amt + fee_for(&p, amt);
		visited.push(from);
		// a blinded tail does not count towards the path length
		let r = feasible(sc, q, from, need, if node == VP { len_left } else { len_left - 1 }, visited, budget, trail);
		visited.pop();
		match r {
			Some(true) => {
				trail.push(format!("{}->{} scid {} carries {} (max {} min {} base {} prop {})", from, node, scid, amt, max, min, p.base, p.prop));
				return Some(true);
			},
			Some(false) => {},
			None => unknown = true,
		}
	}
	if unknown {
		None
	} else {
		Some(false)
	}
}

/// Plain reachability payer -> payee (used in the slack regime where every edge has ample limits).
fn reachable(sc: &Scenario, q: &Query) -> bool {
	let mut seen = vec![q.target()];
	let mut stack = vec![q.target()];
	while let Some(node) = stack.pop() {
		for (from, _, max, min, _) in edges_into(sc, q, node) {
			if node == VP && (q.amt > max || q.amt < min) {
				continue; // a blinded path that cannot carry the amount in one part
			}
			if from == q.payer {
				return true;
			}
			if !seen.contains(&from) {
				seen.push(from);
				stack.push(from);
			}
		}
	}
	false
}

const KNOWN_DEBUG_ASSERT: &str = "assertion failed: *used_liquidity_msat <= hop_max_msat";

struct Ctx<'a> {
	args: &'a Args,
	gi: u64,
}
impl<'a> Ctx<'a> {
	fn violate(&self, rep: &mut Report, rule: &str, sig: &str, sc: &Scenario, q: &Query, extra: String) {
		let detail = format!("{} {}", q.describe(sc, self.gi), extra);
		let body = Json::obj().set("property", "C16").set("rule", rule).set("signature", sig).set("seed", self.args.seed).set("graph_index", self.gi).set("detail", detail.clone()).set("witness", witness_text(sc, q)).set("how_to_replay", "save the 'witness' text to a file and run: c16_route --prop C16 witness=<file>");
		let path = self.args.write_replay(&format!("{}-seed{}-g{}", rule, self.args.seed, self.gi), &body);
		rep.violation("C16", rule, sig, detail, Some(path));
	}
}

fn main() {
	vcore::install_quiet_panic_hook();
	let args = Args::parse();
	let mut rep = args.report();
	let now = std::time::SystemTime::now().duration_since(std::time::UNIX_EPOCH).unwrap().as_secs() as u32;
	if let Some(list) = args.kv.get("witness") {
		// re-run pinned witnesses (known findings / replays)
		for path in list.split(',').filter(|s| !s.is_empty()) {
			let text = std::fs::read_to_string(path).unwrap_or_else(|e| panic!("cannot read witness {}: {}", path, e));
			let (sc, q) = parse_witness(&text);
			let ctx = Ctx { args: &args, gi: 0 };
			let graph = sc.build(&mut rep, now);
			let prob = ProbabilisticScorer::new(ProbabilisticScoringDecayParameters::default(), &graph, NullLogger);
			let name = std::path::Path::new(path).file_name().unwrap().to_string_lossy().to_string();
			run_query(&ctx, &mut rep, &sc, &q, &graph, &prob, &InFlightHtlcs::new(), Some(&name));
			rep.evaluations += 1;
		}
		rep.write_to(&args.out);
		return;
	}
	let graphs = args.num("graphs", 24_000, 800_000);
	let queries = args.num("queries", 16, 24);
	bins::shard_runs(&args, graphs, &mut rep, |gi, rng, rep| {
		if let Some(o) = args.kv.get("only") {
			if o.parse::<u64>().unwrap() != gi {
				return;
			}
		}
		let ctx = Ctx { args: &args, gi };
		if (gi / 16) % 12 == 5 {
			// the part-count boundary
			let (sc, qs) = Scenario::star(gi, rng);
			let graph = sc.build(rep, now);
			let prob = ProbabilisticScorer::new(ProbabilisticScoringDecayParameters::default(), &graph, NullLogger);
			let inflight = InFlightHtlcs::new();
			for (qi, q) in qs.iter().enumerate() {
				if let Some(d) = args.kv.get("dump_witness") {
					if d == &format!("{}:{}", gi, qi) {
						println!("{}", witness_text(&sc, q));
					}
				}
				rep.count("part_count_boundary_queries");
				if let Some(r) = run_query(&ctx, rep, &sc, q, &graph, &prob, &inflight, None) {
					rep.count("part_count_boundary_routes");
					if r.paths.len() == q.max_path_count.unwrap() as usize {
						rep.count("part_count_boundary_routes_using_every_allowed_part");
					}
				}
			}
			return;
		}
		let sc = Scenario::gen(gi, rng, args.thorough());
		let graph = sc.build(rep, now);
		let keys = sc.keys();
		let mut prob = ProbabilisticScorer::new(ProbabilisticScoringDecayParameters::default(), &graph, NullLogger);
		let mut inflight = InFlightHtlcs::new();
		if sc.slack {
			rep.count("graphs_slack_regime");
		}
		for qi in 0..queries {
			let q = Query::gen(&sc, rng);
			if let Some(d) = args.kv.get("dump_witness") {
				if d == &format!("{}:{}", gi, qi) {
					println!("{}", witness_text(&sc, &q));
				}
			}
			let route = run_query(&ctx, rep, &sc, &q, &graph, &prob, &inflight, None);
			let want_sample = rng.chance(1, 50);
			let feed = rng.chance(1, 2);
			let succeed = rng.chance(1, 2);
			let fail_at = rng.next();
			if let Some(route) = route {
				if want_sample {
					rep.sample(Json::obj().set("query", q.describe(&sc, gi)).set("query_index", qi).set("paths", Json::Arr(route.paths.iter().map(|p| Json::Arr(p.hops.iter().map(|h| Json::obj().set("scid", h.short_channel_id).set("fee_msat", h.fee_msat).set("cltv_delta", h.cltv_expiry_delta)).collect())).collect())).set("blinded_tails", Json::Arr(route.paths.iter().map(|p| match &p.blinded_tail { Some(t) => Json::obj().set("blinded_hops", t.hops.len() as u64).set("final_value_msat", t.final_value_msat).set("excess_final_cltv_expiry_delta", t.excess_final_cltv_expiry_delta), None => Json::obj() }).collect())));
				}
				// feed scorer / in-flight state so that later queries see non-trivial scorer states
				if feed {
					for p in route.paths.iter() {
						inflight.process_path(p, keys[q.payer]);
						if succeed {
							prob.payment_path_successful(p, std::time::Duration::from_secs(now as u64));
						} else {
							let h = &p.hops[(fail_at % p.hops.len() as u64) as usize];
							prob.payment_path_failed(p, h.short_channel_id, std::time::Duration::from_secs(now as u64));
						}
					}
				}
			}
		}
	});
	rep.write_to(&args.out);
}

#[allow(clippy::too_many_arguments)]
fn run_query(ctx: &Ctx, rep: &mut Report, sc: &Scenario, q: &Query, graph: &NetworkGraph<NullLogger>, prob: &ProbabilisticScorer<&NetworkGraph<NullLogger>, NullLogger>, inflight: &InFlightHtlcs, pinned: Option<&str>) -> Option<Route> {
	let keys = sc.keys();
	let rp = q.route_params(&keys);
	let details: Vec<ChannelDetails> = q.first.iter().flatten().enumerate().map(|(i, f)| first_hop_details(f, keys[f.peer], i as u64)).collect();
	let detail_refs: Vec<&ChannelDetails> = details.iter().collect();
	let fh = if q.first.is_some() { Some(&detail_refs[..]) } else { None };
	let fixed = FixedPenaltyScorer::with_penalty(q.fixed_penalty);
	let prob_params = ProbabilisticScoringFeeParameters::default();
	if ctx.args.flag("trace") {
		eprintln!("QUERY {}", q.describe(sc, ctx.gi));
		eprintln!("{}", witness_text(sc, q));
	}
	let res = vcore::guarded(|| match q.scorer_mode {
		0 | 1 => find_route(&keys[q.payer], &rp, graph, fh, EnvLogger, &fixed, &Default::default(), &q.seed_bytes),
		2 => find_route(&keys[q.payer], &rp, graph, fh, NullLogger, prob, &prob_params, &q.seed_bytes),
		_ => {
			let s = ScorerAccountingForInFlightHtlcs::new(prob, inflight);
			find_route(&keys[q.payer], &rp, graph, fh, NullLogger, &s, &prob_params, &q.seed_bytes)
		},
	});
	rep.count("queries");
	match res {
		Err(p) => {
			if p.starts_with(KNOWN_DEBUG_ASSERT) {
				// A debug-only assertion of the library that fires exactly when a path's value was raised to
				// meet an htlc_minimum (which the property explicitly allows). Production builds return the
				// route. Observation, not a violation: see DESIGN.md §6 C16.
				rep.count("ldk_debug_assert_used_liquidity_observed");
			} else {
				// (a blinded payee one of whose introduction nodes is a peer behind a supplied first hop is the setting of
				// the known finding F23; the signature says so, so that a panic elsewhere keeps its own)
				let intro_behind_first_hop = q.first.as_ref().map(|f| q.blinded.iter().any(|b| f.iter().any(|h| h.peer == b.intro))).unwrap_or(false);
				let setting = if intro_behind_first_hop { " with a blinded payee introduced by a first-hop peer" } else { "" };
				ctx.violate(rep, "V0-panic", &format!("panic in find_route{}: {}", setting, vcore::canon(&p)), sc, q, p);
			}
			None
		},
		Ok(Err(e)) => {
			rep.count("no_route_answers");
			if ctx.args.flag("trace") {
				eprintln!("  => Err({})", e);
			}
			let fixed_scorer = q.scorer_mode <= 1;
			// documented refusal: one-hop blinded paths (introduction node = recipient) naming different nodes
			let mut one_hop_intros: Vec<usize> = q.blinded.iter().filter(|b| b.one_hop()).map(|b| b.intro).collect();
			one_hop_intros.sort();
			one_hop_intros.dedup();
			if one_hop_intros.len() > 1 {
				rep.count("refusals_one_hop_blinded_paths_disagree");
			} else if sc.slack {
				rep.count("completeness_slack_evaluated");
				if !q.blinded.is_empty() {
					rep.count("completeness_blinded_evaluated");
				}
				if reachable(sc, q) {
					let sig = if q.blinded.is_empty() { "find_route failed although the payee is reachable over channels with ample limits and no limit is binding" } else { "find_route failed although a blinded path's introduction node is reachable over channels with ample limits and no limit is binding" };
					ctx.violate(rep, "V6-completeness-slack", sig, sc, q, format!("err={}", e));
				} else {
					rep.count("completeness_slack_confirmed_unreachable");
					if !q.blinded.is_empty() {
						rep.count("completeness_blinded_confirmed_unreachable");
						// the library cannot express a path that starts inside a blinded tail (a path needs one
						// unblinded hop) and refuses: a documented refusal, counted
						if q.blinded.iter().enumerate().any(|(i, b)| b.intro == q.payer && !q.failed_blinded.contains(&(i as u64)) && b.pol().min <= q.amt && q.amt <= b.pol().max) {
							rep.count("refusals_payee_only_reachable_through_paths_introduced_by_the_payer");
						}
					}
				}
			} else if fixed_scorer && rp.max_total_routing_fee_msat.is_none() && rp.payment_params.max_total_cltv_expiry_delta >= 1008 {
				let mut budget = 200_000u64;
				let mut trail = vec![];
				let maxlen = (rp.payment_params.max_path_length as usize).min(19);
				rep.count("completeness_general_evaluated");
				if !q.blinded.is_empty() {
					rep.count("completeness_general_blinded_evaluated");
				}
				match feasible(sc, q, q.target(), q.amt, maxlen, &mut vec![q.target()], &mut budget, &mut trail) {
					Some(true) => {
						rep.count("completeness_general_router_failed_with_feasible_path");
						if let Some(name) = pinned {
							ctx.violate(rep, "V6-completeness-general", &format!("F3 pinned witness {}: find_route fails although a feasible single path exists", name), sc, q, format!("feasible_path={:?}", trail));
						} else if rep.get("general_failure_witnesses_written") < ctx.args.num("obs_witnesses", 3, 3) {
							rep.count("general_failure_witnesses_written");
							let body = Json::obj().set("property", "C16").set("rule", "V6-completeness-general (observation, known finding F3 class)").set("detail", q.describe(sc, ctx.gi)).set("feasible_path", format!("{:?}", trail)).set("witness", witness_text(sc, q));
							ctx.args.write_replay(&format!("observation-V6-general-seed{}-g{}", ctx.args.seed, ctx.gi), &body);
						}
					},
					Some(false) => rep.count("completeness_general_confirmed_infeasible"),
					None => rep.count("completeness_general_search_budget_exhausted"),
				}
			}
			None
		},
		Ok(Ok(route)) => {
			rep.count("routes");
			if sc.slack {
				rep.count("routes_slack_regime");
			}
			if ctx.args.flag("trace") {
				for (pi, p) in route.paths.iter().enumerate() {
					eprintln!("  => path {}: {}{}", pi, p.hops.iter().map(|h| format!("-[{} fee {} cltv {}]->{} ", h.short_channel_id, h.fee_msat, h.cltv_expiry_delta, keys.iter().position(|k| *k == h.pubkey).map(|i| i as i64).unwrap_or(-1))).collect::<String>(), p.blinded_tail.as_ref().map(|t| format!("+ blinded tail of {} hops, final value {}, excess cltv {}", t.hops.len(), t.final_value_msat, t.excess_final_cltv_expiry_delta)).unwrap_or_default());
				}
			}
			if !q.blinded.is_empty() {
				rep.count("routes_to_blinded_payees");
				if sc.slack {
					rep.count("routes_to_blinded_payees_slack_regime");
				}
				if q.blinded.iter().any(|b| b.intro == q.payer) {
					rep.count("payer_is_introduction_node");
				}
				if q.blinded.iter().enumerate().any(|(i, a)| q.blinded.iter().skip(i + 1).any(|b| b.intro == a.intro)) {
					rep.count("routes_with_shared_introduction_node_offered");
				}
			}
			if q.hints.iter().any(|h| h.len() > 1) {
				rep.count("routes_with_multi_hop_hints_offered");
			}
			validate(ctx, rep, sc, q, &route, &rp);
			// V8: asked to build a route along the very nodes of a returned single path over public channels only,
			// build_route_from_hops either refuses or returns one path through those nodes that satisfies the same rules
			if route.paths.len() == 1 && q.blinded.is_empty() && q.first.is_none() && q.hints.is_empty() && pinned.is_none() && route.paths[0].hops.len() >= 1 {
				let hops: Vec<PublicKey> = route.paths[0].hops.iter().map(|h| h.pubkey).collect();
				rep.count("v8_build_route_from_hops_calls");
				match vcore::guarded(|| build_route_from_hops(&keys[q.payer], &hops, &rp, graph, NullLogger, &q.seed_bytes)) {
					Ok(Ok(r2)) => {
						rep.count("v8_build_route_from_hops_routes");
						// (with multi-path payments allowed the amount may be split over parallel channels of the same nodes)
						let same = !r2.paths.is_empty() && r2.paths.iter().all(|p| p.blinded_tail.is_none() && p.hops.iter().map(|h| h.pubkey).collect::<Vec<_>>() == hops);
						if r2.paths.len() > 1 {
							rep.count("v8_build_route_from_hops_routes_with_several_parts");
						}
						if !same {
							ctx.violate(rep, "V8-route-from-hops", "build_route_from_hops returned a path that does not run through exactly the given nodes", sc, q, format!("{} paths", r2.paths.len()));
						} else {
							validate(ctx, rep, sc, q, &r2, &rp);
						}
					},
					Ok(Err(_)) => rep.count("v8_build_route_from_hops_refused"),
					Err(p) => {
						if p.starts_with(KNOWN_DEBUG_ASSERT) {
							rep.count("ldk_debug_assert_used_liquidity_observed");
						} else {
							ctx.violate(rep, "V0-panic", &format!("panic in build_route_from_hops: {}", vcore::canon(&p)), sc, q, p);
						}
					},
				}
			}
			let mut h = Fnv::new();
			h.u64(q.blinded.len() as u64).u64(q.hints.iter().map(|x| x.len()).max().unwrap_or(0) as u64).u64(q.failed_blinded.is_empty() as u64).u64(q.excluded.is_empty() as u64);
			for p in route.paths.iter() {
				h.u64(p.blinded_tail.as_ref().map(|t| t.hops.len() as u64).unwrap_or(0));
			}
			h.u64(route.paths.len() as u64).u64(q.mpp as u64).u64(q.first.is_some() as u64).u64(q.hints.len() as u64).u64(q.fee_limit.map(|f| f.is_some() as u64 + 1).unwrap_or(0)).u64(q.scorer_mode).u64(q.amt.ilog10() as u64).u64(sc.slack as u64);
			for p in route.paths.iter() {
				h.u64(p.hops.len() as u64);
			}
			rep.distinct(h.get());
			if route.paths.len() > 1 {
				rep.count("mpp_routes");
			}
			rep.max("max_paths", route.paths.len() as u64);
			rep.max("max_hops", route.paths.iter().map(|p| p.hops.len()).max().unwrap_or(0) as u64);
			Some(route)
		},
	}
}

fn validate(ctx: &Ctx, rep: &mut Report, sc: &Scenario, q: &Query, route: &Route, rp: &RouteParameters) {
	let keys = sc.keys();
	let pp = &rp.payment_params;
	let amt = q.amt;
	if route.paths.is_empty() {
		ctx.violate(rep, "V1-empty", "route with no paths", sc, q, String::new());
		return;
	}
	if route.paths.len() > pp.max_path_count as usize {
		ctx.violate(rep, "V1-path-count", "more paths than max_path_count", sc, q, format!("paths={}", route.paths.len()));
	}
	let blinded_payee = !q.blinded.is_empty();
	let bpaths: Vec<BlindedPaymentPath> = q.blinded.iter().map(|b| blinded_path(b, &keys)).collect();
	// (kind, scid, dir) -> (amount, hard max); kind 0 = announced channel, 1 = route hint, 2 = payer's first hop
	let mut used: HashMap<(u8, u64, usize), (u64, u64)> = HashMap::new();
	let mut blinded_used: BTreeMap<usize, (u64, u64)> = BTreeMap::new(); // offered blinded path -> (sum of final values, parts)
	let mut total = 0u64;
	let mut total_fee = 0u64;
	let mut minpart = u64::MAX;
	let fin_of = |p: &lightning::routing::router::Path| match &p.blinded_tail {
		Some(t) => t.final_value_msat,
		None => p.hops.last().map(|h| h.fee_msat).unwrap_or(0),
	};
	let delivered_total: u64 = route.paths.iter().map(fin_of).fold(0u64, |a, b| a.saturating_add(b));
	let raised_total = delivered_total.saturating_sub(amt);
	for path in route.paths.iter() {
		rep.count("paths");
		let tail = path.blinded_tail.as_ref();
		if tail.is_some() && !blinded_payee {
			ctx.violate(rep, "V2-blinded", "blinded tail although payee is not blinded", sc, q, String::new());
			return;
		}
		if tail.is_none() && blinded_payee {
			ctx.violate(rep, "V2-blinded-missing", "path without a blinded tail although the payee is blinded", sc, q, String::new());
			return;
		}
		// the tail must be one of the blinded paths the payee supplied
		let mut spec_idx = None;
		if let Some(t) = tail {
			spec_idx = bpaths.iter().position(|b| b.blinding_point() == t.blinding_point && b.blinded_hops() == &t.hops[..]);
			if spec_idx.is_none() {
				ctx.violate(rep, "V2-blinded-tail", "blinded tail is none of the supplied blinded paths", sc, q, String::new());
				return;
			}
			if !t.trampoline_hops.is_empty() {
				ctx.violate(rep, "V2-blinded-tail", "blinded tail with trampoline hops that nobody asked for", sc, q, String::new());
				return;
			}
		}
		let spec = spec_idx.map(|i| &q.blinded[i]);
		if path.hops.is_empty() {
			// only legitimate when the payer itself is the tail's introduction node (the library never does this)
			if spec.map(|s| s.intro == q.payer).unwrap_or(false) {
				rep.count("paths_starting_in_the_blinded_tail");
			} else {
				ctx.violate(rep, "V2-empty-path", "empty path", sc, q, String::new());
				return;
			}
		}
		if path.hops.len() > pp.max_path_length as usize {
			ctx.violate(rep, "V1-path-length", if tail.is_some() && q.first.as_ref().map(|f| q.blinded.iter().any(|b| f.iter().any(|h| h.peer == b.intro))).unwrap_or(false) { "path to a blinded payee introduced by a first-hop peer has more unblinded hops than max_path_length" } else if tail.is_some() { "path to a blinded payee has more unblinded hops than max_path_length" } else { "path longer than max_path_length" }, sc, q, format!("len={}", path.hops.len()));
		}
		let fin = fin_of(path);
		total = total.saturating_add(fin);
		minpart = minpart.min(fin);
		let nh = path.hops.len();
		// fee paid for the use of the whole blinded path: carried by the last unblinded hop
		let blinded_fee_paid = if tail.is_some() { path.hops.last().map(|h| h.fee_msat).unwrap_or(0) } else { 0 };
		if nh > 0 {
			let want_end = match spec {
				Some(s) => keys[s.intro],
				None => keys[q.payee],
			};
			if path.hops[nh - 1].pubkey != want_end {
				if spec.is_some() {
					ctx.violate(rep, "V2-blinded-intro", "unblinded part of the path does not end at the blinded tail's introduction node", sc, q, String::new());
				} else {
					ctx.violate(rep, "V2-endpoint", "path does not end at the payee", sc, q, String::new());
				}
				return;
			}
		}
		let mut amts = vec![0u64; nh];
		if nh > 0 {
			let last = nh - 1;
			amts[last] = fin.saturating_add(blinded_fee_paid);
			total_fee = total_fee.saturating_add(blinded_fee_paid);
			for i in (0..last).rev() {
				amts[i] = amts[i + 1].saturating_add(path.hops[i].fee_msat);
				total_fee = total_fee.saturating_add(path.hops[i].fee_msat);
			}
		}
		let spec_cltv = spec.map(|s| s.pol().cltv as u32).unwrap_or(0);
		let excess = tail.map(|t| t.excess_final_cltv_expiry_delta).unwrap_or(0);
		let cltv_total: u32 = match tail {
			// unblinded hops + the blinded path's own delta + the excess final delta (whether or not the last
			// hop's field carries them)
			Some(_) if nh > 0 => path.hops[..nh - 1].iter().map(|h| h.cltv_expiry_delta).fold(0u32, |a, b| a.saturating_add(b)).saturating_add(path.hops[nh - 1].cltv_expiry_delta.max(spec_cltv.saturating_add(excess))),
			Some(_) => spec_cltv.saturating_add(excess),
			None => path.hops.iter().map(|h| h.cltv_expiry_delta).fold(0u32, |a, b| a.saturating_add(b)),
		};
		if tail.is_some() {
			rep.count("blinded_cltv_total_evaluations");
			if q.max_total_cltv.is_some() {
				rep.count("blinded_cltv_total_evaluations_with_custom_limit");
			}
		}
		if cltv_total > pp.max_total_cltv_expiry_delta {
			ctx.violate(rep, "V1-cltv", if tail.is_some() { "total CLTV delta (unblinded hops plus blinded path plus excess) above max_total_cltv_expiry_delta" } else { "total CLTV delta above max_total_cltv_expiry_delta" }, sc, q, format!("total={}", cltv_total));
		}
		let mut cur = q.payer;
		let mut hint_hops_of: Vec<Option<usize>> = vec![None; nh]; // which multi-hop hint a hop belongs to
		for (i, hop) in path.hops.iter().enumerate() {
			rep.count("hops");
			let to = match keys.iter().position(|k| *k == hop.pubkey) {
				Some(t) => t,
				None => {
					ctx.violate(rep, "V2-unknown-node", "hop to a node that is not in the graph", sc, q, String::new());
					return;
				},
			};
			if !q.excluded.is_empty() {
				rep.count("previously_failed_evaluations");
			}
			if q.excluded.contains(&hop.short_channel_id) {
				ctx.violate(rep, "V1-excluded", "route uses a previously failed channel", sc, q, format!("scid={}", hop.short_channel_id));
			}
			let (pol, hard_max, dir, kind): (Option<Pol>, u64, usize, u8);
			// readings of this hop: a hint hop src -> dst with this scid, and/or an announced channel between
			// the two nodes with this scid
			let hint_named = q.hints.iter().any(|h| h.iter().any(|x| x.scid == hop.short_channel_id));
			let hint_reading = q.hints.iter().enumerate().flat_map(|(hi, h)| h.iter().map(move |x| (hi, h.len(), x))).find(|(_, _, x)| x.scid == hop.short_channel_id && x.src == cur && x.dst == to);
			let public_reading = sc.chans.get(&hop.short_channel_id).and_then(|c| if c.a == cur && c.b == to { Some((c, 0usize)) } else if c.b == cur && c.a == to { Some((c, 1usize)) } else { None });
			if let Some(fh) = q.first.as_ref().and_then(|f| if i == 0 { f.iter().find(|x| x.scid == hop.short_channel_id) } else { None }) {
				if fh.peer != to {
					ctx.violate(rep, "V2-first-hop", "first hop channel does not lead to the hop's node", sc, q, format!("scid={}", fh.scid));
					return;
				}
				if amts[0] < fh.min {
					ctx.violate(rep, "V3-min", "first hop carries less than next_outbound_htlc_minimum_msat", sc, q, format!("amt={} min={}", amts[0], fh.min));
				}
				pol = None;
				hard_max = fh.limit;
				dir = 0;
				kind = 2;
				rep.count("hops_first_hop_details");
				if to >= sc.n_public {
					rep.count("hops_first_hop_to_unannounced_node");
				}
			} else if let (Some((hi, hlen, hh)), Some((c, d))) = (hint_reading, public_reading.filter(|(c, d)| c.pol[*d].is_some() && c.pol[1 - *d].is_some())) {
				// A hint hop naming an announced, usable channel between the same two nodes. The library takes
				// the announced policy and does not look at the disabled flag; the invoice vouches for the
				// channel. The property does not say which of the two advertised policies counts: accept
				// either (the weaker demand of the two on every item).
				let pp_ = c.pol[d].unwrap();
				let pub_max = pp_.max.min(c.cap_sat.map(|s| s * 1000).unwrap_or(u64::MAX));
				pol = Some(Pol { enabled: true, cltv: hh.pol.cltv.min(pp_.cltv), min: hh.pol.min.min(pp_.min), max: hh.pol.max.max(pub_max), base: 0, prop: 0 });
				// fee: the smaller of the two demands at this amount (base/prop of `pol` are not used below)
				hard_max = hh.pol.max.max(pub_max);
				dir = d;
				kind = 0;
				rep.count("hops_route_hint");
				rep.count("hops_hint_naming_announced_channel_both_readings");
				if !pp_.enabled {
					rep.count("hops_hint_naming_announced_channel_disabled_direction_used");
				}
				if hlen > 1 {
					hint_hops_of[i] = Some(hi);
				}
				if i > 0 {
					let need = fee_for(&hh.pol, amts[i]).min(fee_for(&pp_, amts[i]));
					let paid = path.hops[i - 1].fee_msat;
					rep.count("fee_rule_evaluations");
					if paid < need {
						ctx.violate(rep, "V4-fee", "forwarding node paid less than both the hinted and the announced policy fee", sc, q, format!("hop={} paid={} policy_fee={} forwarded={}", i, paid, need, amts[i]));
					}
				}
			} else if let Some((hi, hlen, hh)) = hint_reading {
				pol = Some(hh.pol);
				hard_max = hh.pol.max;
				dir = 0;
				kind = 1;
				rep.count("hops_route_hint");
				if hlen > 1 {
					hint_hops_of[i] = Some(hi);
					rep.count("hops_of_multi_hop_hints");
				}
				if hh.src == q.payer {
					rep.count("hops_hint_starting_at_payer");
				}
				if sc.chans.contains_key(&hh.scid) {
					rep.count("hops_hint_naming_announced_channel_hint_reading");
				}
			} else if let Some((c, d)) = public_reading {
				if i == 0 && q.first.is_some() {
					if hint_named {
						// a route hint between other nodes names this scid (see the report of this check)
						rep.count("hops_announced_channel_from_payer_despite_first_hops_named_by_unrelated_hint");
						if !ctx.args.flag("hint_alias_observe") {
							ctx.violate(rep, "V2-first-hop", "first hops were supplied but the route leaves the payer over an announced channel whose scid a route hint between other nodes names", sc, q, format!("scid={}", hop.short_channel_id));
							return;
						}
					} else {
						ctx.violate(rep, "V2-first-hop", "first hops were supplied but the route leaves the payer over a graph channel", sc, q, format!("scid={}", hop.short_channel_id));
						return;
					}
				}
				dir = d;
				kind = 0;
				let p = match c.pol[dir] {
					Some(p) => p,
					None => {
						ctx.violate(rep, "V2-no-update", "hop uses a direction for which no channel_update exists", sc, q, format!("scid={}", hop.short_channel_id));
						return;
					},
				};
				if c.pol[1 - dir].is_none() {
					ctx.violate(rep, "V2-no-update", "hop uses a channel for which one direction has no channel_update (not usable)", sc, q, format!("scid={}", hop.short_channel_id));
				}
				if !p.enabled {
					if hint_named {
						// a route hint (between other nodes) names this scid: see the report of this check
						rep.count("hops_disabled_announced_channel_named_by_unrelated_hint");
						if !ctx.args.flag("hint_alias_observe") {
							ctx.violate(rep, "V2-disabled", "hop uses a disabled direction of an announced channel whose scid a route hint between other nodes names", sc, q, format!("scid={}", hop.short_channel_id));
						}
					} else {
						ctx.violate(rep, "V2-disabled", "hop uses a disabled direction", sc, q, format!("scid={}", hop.short_channel_id));
					}
				}
				if hint_named {
					rep.count("hops_hint_naming_announced_channel_public_reading");
				}
				pol = Some(p);
				hard_max = p.max.min(c.cap_sat.map(|s| s * 1000).unwrap_or(u64::MAX));
			} else if hint_named {
				ctx.violate(rep, "V2-hint", "hint channel used between the wrong nodes", sc, q, format!("scid={}", hop.short_channel_id));
				return;
			} else if sc.chans.contains_key(&hop.short_channel_id) {
				ctx.violate(rep, "V2-connectivity", "hop does not connect the previous node to the next over that channel", sc, q, format!("hop={} scid={}", i, hop.short_channel_id));
				return;
			} else {
				ctx.violate(rep, "V2-unknown-channel", "hop over a channel that exists nowhere", sc, q, format!("scid={}", hop.short_channel_id));
				return;
			}
			if let Some(p) = pol {
				if amts[i] < p.min {
					ctx.violate(rep, "V3-min", "hop carries less than the channel's htlc_minimum_msat", sc, q, format!("hop={} amt={} min={}", i, amts[i], p.min));
				}
				if i > 0 {
					let both = hint_reading.is_some() && kind == 0;
					if !both {
						let need = fee_for(&p, amts[i]);
						let paid = path.hops[i - 1].fee_msat;
						rep.count("fee_rule_evaluations");
						if hint_hops_of[i].is_some() {
							rep.count("fee_rule_evaluations_multi_hop_hints");
						}
						if paid < need {
							rep.count("underpaid_hops");
							let sig = if raised_total > 0 { "forwarding node paid less than its policy fee on a route whose final value was raised above the requested amount" } else { "forwarding node paid less than its policy fee" };
							ctx.violate(rep, "V4-fee", sig, sc, q, format!("hop={} paid={} policy_fee={} forwarded={} base={} prop={}", i, paid, need, amts[i], p.base, p.prop));
						} else if paid > need {
							rep.count("overpaid_hops");
						}
					}
					if path.hops[i - 1].cltv_expiry_delta < p.cltv as u32 {
						ctx.violate(rep, "V4-cltv", "forwarding node given less than its cltv_expiry_delta", sc, q, format!("hop={} got={} policy={}", i, path.hops[i - 1].cltv_expiry_delta, p.cltv));
					}
				}
			}
			let e = used.entry((kind, hop.short_channel_id, dir)).or_insert((0, hard_max));
			e.0 = e.0.saturating_add(amts[i]);
			cur = to;
		}
		if (1..nh).any(|i| hint_hops_of[i].is_some() && hint_hops_of[i] == hint_hops_of[i - 1]) {
			rep.count("multi_hop_hints_used"); // at least two consecutive hops of one hint were travelled
		}
		match (tail, spec_idx) {
			(Some(_), Some(si)) => {
				let sp = &q.blinded[si];
				rep.count("blinded_tails_validated");
				if !q.failed_blinded.is_empty() {
					rep.count("previously_failed_blinded_evaluations");
				}
				if q.failed_blinded.contains(&(si as u64)) {
					ctx.violate(rep, "V1-failed-blinded", "route uses a previously failed blinded path", sc, q, format!("idx={}", si));
				}
				if nh == 1 && q.first.as_ref().map(|f| f.iter().any(|x| x.scid == path.hops[0].short_channel_id)).unwrap_or(false) {
					rep.count("blinded_intro_directly_behind_first_hop");
				}
				if q.blinded.iter().enumerate().any(|(j, o)| j != si && o.intro == sp.intro) {
					rep.count("blinded_tails_with_shared_introduction_node");
				}
				if nh > 0 && path.hops[nh - 1].cltv_expiry_delta < spec_cltv.saturating_add(excess) {
					ctx.violate(rep, "V4-blinded-cltv", "last unblinded hop's CLTV delta below the blinded path's cltv_expiry_delta plus the excess final delta", sc, q, format!("got={} blinded={} excess={}", path.hops[nh - 1].cltv_expiry_delta, spec_cltv, excess));
				}
				let e = blinded_used.entry(si).or_insert((0, 0));
				e.0 = e.0.saturating_add(fin);
				e.1 += 1;
				if sp.one_hop() {
					// the introduction node is the recipient: nobody forwards inside the blinded path, the
					// payinfo is documented to be ignored. Observations only.
					rep.count("one_hop_blinded_paths");
					if fin < sp.min || fin > sp.max {
						rep.count("one_hop_blinded_payinfo_limits_not_applied_observed");
					}
					if blinded_fee_paid < sp.base as u64 + ((fin as u128 * sp.prop as u128) / 1_000_000) as u64 {
						rep.count("one_hop_blinded_payinfo_fee_not_paid_observed");
					}
				} else {
					rep.count("multi_hop_blinded_paths");
					let p = sp.pol();
					if fin < p.min {
						ctx.violate(rep, "V3-blinded-min", "blinded path carries less than its payinfo htlc_minimum_msat", sc, q, format!("final_value={} min={}", fin, p.min));
					}
					if nh > 0 {
						// aggregate fee of the blinded path on the amount the recipient gets, rounded as the library's
						// compute_fees does (floor); at least that much must reach the introduction node on top
						let need = fee_for(&p, fin);
						rep.count("blinded_fee_rule_evaluations");
						if p.base != 0 || p.prop != 0 {
							rep.count("blinded_fee_rule_evaluations_nonzero_fee");
						}
						if blinded_fee_paid < need {
							let sig = if raised_total > 0 { "introduction node receives less than final value plus the blinded path's fee on a route whose final value was raised above the requested amount" } else { "introduction node receives less than final value plus the blinded path's fee" };
							ctx.violate(rep, "V4-blinded-fee", sig, sc, q, format!("paid={} payinfo_fee={} final_value={} base={} prop={}", blinded_fee_paid, need, fin, p.base, p.prop));
						} else if blinded_fee_paid > need {
							rep.count("overpaid_blinded_paths");
						}
						let ceil = p.base as u64 + ((fin as u128 * p.prop as u128 + 999_999) / 1_000_000) as u64;
						if blinded_fee_paid < ceil {
							rep.count("blinded_fee_below_rounded_up_fee_observed");
						}
					}
				}
			},
			_ => {
				if nh > 0 && path.hops[nh - 1].cltv_expiry_delta < q.final_cltv {
					ctx.violate(rep, "V4-final-cltv", "final hop CLTV delta below the payee's final_cltv_expiry_delta", sc, q, String::new());
				}
			},
		}
	}
	for ((kind, scid, dir), (amt_used, hard_max)) in used.iter() {
		rep.count("joint_max_rule_evaluations");
		if *amt_used > *hard_max {
			// only legitimate when explained by amounts raised to meet a later minimum (reported as fees)
			if raised_total == 0 || *amt_used > hard_max.saturating_add(raised_total).saturating_add(total_fee) {
				ctx.violate(rep, "V3-max", "channel carries more than min(htlc_maximum, capacity) counted jointly over the paths", sc, q, format!("scid={} dir={} kind={} carried={} max={}", scid, dir, kind, amt_used, hard_max));
			} else {
				rep.count("joint_max_exceeded_within_raised_slack");
			}
		}
	}
	for (si, (sum, parts)) in blinded_used.iter() {
		let sp = &q.blinded[*si];
		if sp.one_hop() {
			continue;
		}
		rep.count("blinded_joint_maximum_evaluations");
		if *parts > 1 {
			rep.count("blinded_joint_maximum_evaluations_several_parts");
		}
		if *sum > sp.max {
			if raised_total == 0 || *sum > sp.max.saturating_add(raised_total) {
				ctx.violate(rep, "V3-blinded-max", "blinded path carries more than its payinfo htlc_maximum_msat counted jointly over the paths using it", sc, q, format!("idx={} carried={} max={} parts={}", si, sum, sp.max, parts));
			} else {
				rep.count("blinded_joint_max_exceeded_within_raised_slack");
			}
		}
	}
	if blinded_used.len() > 1 {
		rep.count("routes_over_several_blinded_paths");
	}
	if total < amt {
		ctx.violate(rep, "V5-short", "paths deliver less than the requested amount", sc, q, format!("delivered={}", total));
	}
	if raised_total > 0 {
		rep.count("routes_with_raised_final_value");
		if blinded_payee {
			rep.count("routes_with_raised_final_value_blinded");
		}
	}
	if route.paths.len() > 1 && total - minpart >= amt {
		ctx.violate(rep, "V5-superfluous", "a part could be removed and the rest still delivers the requested amount", sc, q, format!("delivered={} smallest_part={}", total, minpart));
	}
	// the route's own fee report: hop fees (incl. blinded path fees) plus what is delivered above the request
	rep.count("total_fee_report_evaluations");
	let reported = route.get_total_fees();
	if reported != total_fee.saturating_add(raised_total) {
		ctx.violate(rep, "V7-total-fees", "Route::get_total_fees differs from the hop fees plus the amount delivered above the request", sc, q, format!("reported={} hop_fees={} raised={}", reported, total_fee, raised_total));
	}
	if let Some(mx) = rp.max_total_routing_fee_msat {
		if total_fee > mx {
			ctx.violate(rep, "V1-fee-limit", "total fees above max_total_routing_fee_msat", sc, q, format!("fees={} limit={}", total_fee, mx));
		} else if total_fee + raised_total > mx {
			rep.count("fee_limit_exceeded_only_by_overpayment");
		}
	}
}

// ---------------------------------------------------------------------------------------------
// Witness files: a complete, generator-independent description of (scenario, query)
// ---------------------------------------------------------------------------------------------
fn pol_text(p: &Option<Pol>) -> String {
	match p {
		None => "-".to_string(),
		Some(p) => format!("{}:{}:{}:{}:{}:{}", p.enabled as u8, p.cltv, p.min, p.max, p.base, p.prop),
	}
}
fn pol_parse(s: &str) -> Option<Pol> {
	if s == "-" {
		return None;
	}
	let v: Vec<u64> = s.split(':').map(|x| x.parse().unwrap()).collect();
	Some(Pol { enabled: v[0] == 1, cltv: v[1] as u16, min: v[2], max: v[3], base: v[4] as u32, prop: v[5] as u32 })
}
fn opt<T: std::fmt::Display>(o: &Option<T>) -> String {
	o.as_ref().map(|v| v.to_string()).unwrap_or_else(|| "-".into())
}
fn witness_text(sc: &Scenario, q: &Query) -> String {
	let mut s = format!("scenario {} {} {} {}\n", sc.key_seed, sc.n_public, sc.n_extra, sc.slack as u8);
	for (scid, c) in sc.chans.iter() {
		s += &format!("chan {} {} {} {} {} {}\n", scid, c.a, c.b, opt(&c.cap_sat), pol_text(&c.pol[0]), pol_text(&c.pol[1]));
	}
	let fee = match q.fee_limit {
		None => "default".to_string(),
		Some(None) => "none".to_string(),
		Some(Some(v)) => v.to_string(),
	};
	s += &format!("query {} {} {} {} {} {} {} {} {} {} {} {}\n", q.payer, q.payee, q.amt, q.mpp as u8, q.final_cltv, opt(&q.max_path_count), opt(&q.max_path_length), opt(&q.max_total_cltv), opt(&q.saturation), fee, q.scorer_mode, q.fixed_penalty);
	s += &format!("seedbytes {}\n", vcore::hex(&q.seed_bytes));
	if let Some(f) = &q.first {
		s += "firsthops\n";
		for fh in f {
			s += &format!("first {} {} {} {}\n", fh.scid, fh.peer, fh.limit, fh.min);
		}
	}
	for h in q.hints.iter() {
		// "hint" starts a new hint, "hinthop" appends a further hop (towards the payee) to it
		for (i, x) in h.iter().enumerate() {
			s += &format!("{} {} {} {} {}\n", if i == 0 { "hint" } else { "hinthop" }, x.scid, x.src, x.dst, pol_text(&Some(x.pol)));
		}
	}
	for b in q.blinded.iter() {
		s += &format!("blinded {} {} {} {} {} {} {} {}\n", b.intro, b.n_hops, b.base, b.prop, b.cltv, b.min, b.max, b.id);
	}
	for e in q.failed_blinded.iter() {
		s += &format!("failedblinded {}\n", e);
	}
	for e in q.excluded.iter() {
		s += &format!("excluded {}\n", e);
	}
	s
}
fn parse_witness(text: &str) -> (Scenario, Query) {
	let mut sc = Scenario { key_seed: 1, n_public: 0, n_extra: 0, slack: false, chans: BTreeMap::new() };
	let mut q = Query { payer: 0, payee: 0, amt: 0, mpp: false, first: None, hints: vec![], blinded: vec![], failed_blinded: vec![], final_cltv: 18, max_path_count: None, max_path_length: None, max_total_cltv: None, saturation: None, excluded: vec![], fee_limit: None, scorer_mode: 0, fixed_penalty: 0, seed_bytes: [0; 32] };
	let o = |s: &str| -> Option<u64> {
		if s == "-" {
			None
		} else {
			Some(s.parse().unwrap())
		}
	};
	for line in text.lines() {
		let t: Vec<&str> = line.split_whitespace().collect();
		if t.is_empty() {
			continue;
		}
		match t[0] {
			"scenario" => {
				sc.key_seed = t[1].parse().unwrap();
				sc.n_public = t[2].parse().unwrap();
				sc.n_extra = t[3].parse().unwrap();
				sc.slack = t[4] == "1";
			},
			"chan" => {
				sc.chans.insert(t[1].parse().unwrap(), Chan { a: t[2].parse().unwrap(), b: t[3].parse().unwrap(), cap_sat: o(t[4]), pol: [pol_parse(t[5]), pol_parse(t[6])] });
			},
			"query" => {
				q.payer = t[1].parse().unwrap();
				q.payee = t[2].parse().unwrap();
				q.amt = t[3].parse().unwrap();
				q.mpp = t[4] == "1";
				q.final_cltv = t[5].parse().unwrap();
				q.max_path_count = o(t[6]).map(|v| v as u8);
				q.max_path_length = o(t[7]).map(|v| v as u8);
				q.max_total_cltv = o(t[8]).map(|v| v as u32);
				q.saturation = o(t[9]).map(|v| v as u8);
				q.fee_limit = match t[10] {
					"default" => None,
					"none" => Some(None),
					v => Some(Some(v.parse().unwrap())),
				};
				q.scorer_mode = t[11].parse().unwrap();
				q.fixed_penalty = t[12].parse().unwrap();
			},
			"seedbytes" => q.seed_bytes.copy_from_slice(&vcore::unhex(t[1]).unwrap()),
			"firsthops" => q.first = Some(vec![]),
			"first" => q.first.as_mut().unwrap().push(FirstHop { scid: t[1].parse().unwrap(), peer: t[2].parse().unwrap(), limit: t[3].parse().unwrap(), min: t[4].parse().unwrap() }),
			"hint" => q.hints.push(vec![HintHop { scid: t[1].parse().unwrap(), src: t[2].parse().unwrap(), dst: t[3].parse().unwrap(), pol: pol_parse(t[4]).unwrap() }]),
			"hinthop" => q.hints.last_mut().expect("hinthop after hint").push(HintHop { scid: t[1].parse().unwrap(), src: t[2].parse().unwrap(), dst: t[3].parse().unwrap(), pol: pol_parse(t[4]).unwrap() }),
			"blinded" => q.blinded.push(BlindedSpec { intro: t[1].parse().unwrap(), n_hops: t[2].parse().unwrap(), base: t[3].parse().unwrap(), prop: t[4].parse().unwrap(), cltv: t[5].parse().unwrap(), min: t[6].parse().unwrap(), max: t[7].parse().unwrap(), id: t[8].parse().unwrap() }),
			"failedblinded" => q.failed_blinded.push(t[1].parse().unwrap()),
			"excluded" => q.excluded.push(t[1].parse().unwrap()),
			_ => {},
		}
	}
	(sc, q)
}
