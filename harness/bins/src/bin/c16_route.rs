//! C16 – independent validator of routes returned by `find_route` on generated network graphs.
//!
//! The oracle knows the graph because it generated it (policies, capacities, first hops, hints);
//! it never consults the router's own data structures. Rules (see DESIGN.md §6 C16):
//!  V1 path count / length / CLTV / fee limits / excluded channels respected
//!  V2 each path is a connected chain payer -> payee over known, enabled, usable channels
//!     (usable = both directions announced by a channel_update, as the library defines it)
//!  V3 each hop carries >= htlc_minimum and (jointly over paths) <= min(htlc_maximum, capacity)
//!     apart from amounts raised to meet a later minimum
//!  V4 every forwarding node is paid >= base + prop * forwarded / 1e6 of the channel it forwards over,
//!     and is given >= that channel's cltv_expiry_delta
//!  V5 delivered >= requested, no superfluous part
//!  V6 completeness. Hard rule in the *slack regime* (every channel has ample limits, tiny minimum,
//!     small fees/CLTV, no binding limit): payee reachable => find_route succeeds. In the general
//!     regime a budgeted exhaustive search decides whether a feasible single path exists; failures
//!     there are tallied (known finding F3, pinned witnesses re-run from files).
use bins::{pk, EnvLogger, NullLogger};
use bitcoin::constants::ChainHash;
use bitcoin::secp256k1::PublicKey;
use bitcoin::{Amount, Network, TxOut};
use lightning::ln::chan_utils::make_funding_redeemscript;
use lightning::ln::channel_state::{ChannelCounterparty, ChannelDetails};
use lightning::ln::msgs::{UnsignedChannelAnnouncement, UnsignedChannelUpdate};
use lightning::ln::types::ChannelId;
use lightning::routing::gossip::{NetworkGraph, NodeId};
use lightning::routing::router::{find_route, InFlightHtlcs, PaymentParameters, Route, RouteHint, RouteHintHop, RouteParameters, ScorerAccountingForInFlightHtlcs};
use lightning::routing::scoring::{FixedPenaltyScorer, ProbabilisticScorer, ProbabilisticScoringDecayParameters, ProbabilisticScoringFeeParameters, ScoreUpdate};
use lightning::routing::utxo::{UtxoLookup, UtxoResult};
use lightning::types::features::{Bolt11InvoiceFeatures, ChannelFeatures, InitFeatures};
use lightning::types::routing::RoutingFees;
use lightning::util::wakers::Notifier;
use std::collections::{BTreeMap, HashMap};
use std::sync::Arc;
use vcore::{Args, Fnv, Json, Report, Rng};

#[derive(Clone, Copy, Debug, PartialEq)]
struct Pol {
	enabled: bool,
	cltv: u16,
	min: u64,
	max: u64,
	base: u32,
	prop: u32,
}
#[derive(Clone, Debug)]
struct Chan {
	a: usize, // node_id_1 (lower id)
	b: usize,
	cap_sat: Option<u64>, // known to the graph only with utxo lookup
	pol: [Option<Pol>; 2], // [a->b, b->a]
}
#[derive(Clone, Debug)]
struct FirstHop {
	scid: u64,
	peer: usize,
	limit: u64,
	min: u64,
}
#[derive(Clone, Debug)]
struct HintHop {
	src: usize,
	dst: usize,
	scid: u64,
	pol: Pol,
}
/// Everything that defines one generated network.
#[derive(Clone, Debug)]
struct Scenario {
	key_seed: u64,
	n_public: usize,
	n_extra: usize,
	slack: bool,
	chans: BTreeMap<u64, Chan>,
}
/// Everything that defines one routing query.
#[derive(Clone, Debug)]
struct Query {
	payer: usize,
	payee: usize,
	amt: u64,
	mpp: bool,
	first: Option<Vec<FirstHop>>,
	hints: Vec<Vec<HintHop>>,
	final_cltv: u32,
	max_path_count: Option<u8>,
	max_path_length: Option<u8>,
	max_total_cltv: Option<u32>,
	saturation: Option<u8>,
	excluded: Vec<u64>,
	fee_limit: Option<Option<u64>>, // None = library default
	scorer_mode: u64,               // 0,1 fixed; 2 probabilistic; 3 probabilistic + in-flight
	fixed_penalty: u64,
	seed_bytes: [u8; 32],
}

struct Utxos(HashMap<u64, TxOut>);
impl UtxoLookup for Utxos {
	fn get_utxo(&self, _c: &ChainHash, scid: u64, _n: Arc<Notifier>) -> UtxoResult {
		UtxoResult::Sync(self.0.get(&scid).cloned().ok_or(lightning::routing::utxo::UtxoLookupError::UnknownTx))
	}
}

fn fee_for(p: &Pol, amt: u64) -> u64 {
	p.base as u64 + ((amt as u128 * p.prop as u128) / 1_000_000) as u64
}

impl Scenario {
	fn keys(&self) -> Vec<PublicKey> {
		(0..self.n_public + self.n_extra).map(|i| pk(self.key_seed, i as u64 + 1)).collect()
	}
	fn gen(gi: u64, rng: &mut Rng, thorough: bool) -> Scenario {
		let slack = rng.chance(1, 3);
		let big = thorough && !slack && rng.chance(1, 8);
		let n = if big { 20 + rng.below(40) as usize } else { 4 + rng.below(12) as usize };
		let n_extra = rng.below(3) as usize;
		let mut sc = Scenario { key_seed: gi + 1, n_public: n, n_extra, slack, chans: BTreeMap::new() };
		let keys = sc.keys();
		let with_utxo = rng.chance(1, 2);
		let m = n + rng.below(2 * n as u64) as usize;
		for c in 0..m {
			let a = rng.below(n as u64) as usize;
			let mut b = rng.below(n as u64) as usize;
			if a == b {
				b = (a + 1) % n;
			}
			let scid = 1000 + c as u64;
			let (ida, idb) = (NodeId::from_pubkey(&keys[a]), NodeId::from_pubkey(&keys[b]));
			let (loi, hii) = if ida < idb { (a, b) } else { (b, a) };
			let mut pols = [None, None];
			let cap;
			if slack {
				cap = 16_000_000 + rng.below(50_000);
				for dir in 0..2 {
					pols[dir] = Some(Pol { enabled: !rng.chance(1, 10), cltv: 6 + rng.below(34) as u16, min: rng.below(2), max: cap * 1000, base: *rng.pick(&[0u32, 1, 1000]), prop: *rng.pick(&[0u32, 1, 100, 1000]) });
				}
				if rng.chance(1, 12) {
					pols[rng.below(2) as usize] = None; // unusable channel
				}
			} else {
				cap = *rng.pick(&[1_000u64, 10_000, 100_000, 1_000_000, 16_000_000]) + rng.below(50_000);
				let capm = cap * 1000;
				for dir in 0..2 {
					if rng.chance(1, 8) {
						continue;
					}
					let r = 1_000_000 + rng.below(capm);
					pols[dir] = Some(Pol {
						enabled: !rng.chance(1, 10),
						cltv: *rng.pick(&[6u16, 18, 40, 72, 144]) + rng.below(10) as u16,
						min: *rng.pick(&[0u64, 1, 1000, 100_000, 5_000_000]),
						max: (*rng.pick(&[capm, capm / 2, capm / 10 + 1, r])).min(capm).max(1),
						base: *rng.pick(&[0u32, 1, 1000, 50_000, 2_000_000]),
						prop: *rng.pick(&[0u32, 1, 100, 10_000, 500_000, 1_000_000]),
					});
				}
			}
			sc.chans.insert(scid, Chan { a: loi, b: hii, cap_sat: if with_utxo { Some(cap) } else { None }, pol: pols });
		}
		sc
	}
	/// Feed the scenario to a fresh NetworkGraph through the public gossip API.
	fn build(&self, rep: &mut Report, now: u32) -> NetworkGraph<NullLogger> {
		let chain = ChainHash::using_genesis_block(Network::Regtest);
		let keys = self.keys();
		let graph = NetworkGraph::new(Network::Regtest, NullLogger);
		let mut utxos = Utxos(HashMap::new());
		for (scid, c) in self.chans.iter() {
			if let Some(cap) = c.cap_sat {
				utxos.0.insert(*scid, TxOut { value: Amount::from_sat(cap), script_pubkey: make_funding_redeemscript(&keys[c.a], &keys[c.b]).to_p2wsh() });
			}
		}
		for (scid, c) in self.chans.iter() {
			let (lo, hi) = (NodeId::from_pubkey(&keys[c.a]), NodeId::from_pubkey(&keys[c.b]));
			let ann = UnsignedChannelAnnouncement { features: ChannelFeatures::empty(), chain_hash: chain, short_channel_id: *scid, node_id_1: lo, node_id_2: hi, bitcoin_key_1: lo, bitcoin_key_2: hi, excess_data: vec![] };
			let lookup = if c.cap_sat.is_some() { Some(&utxos) } else { None };
			if let Err(e) = graph.update_channel_from_unsigned_announcement(&ann, &lookup) {
				rep.inconclusive(format!("generator: announcement rejected: {:?}", e.err));
				continue;
			}
			for dir in 0..2u8 {
				if let Some(p) = c.pol[dir as usize] {
					let upd = UnsignedChannelUpdate { chain_hash: chain, short_channel_id: *scid, timestamp: now - 1000 + dir as u32, message_flags: 1, channel_flags: dir | if p.enabled { 0 } else { 2 }, cltv_expiry_delta: p.cltv, htlc_minimum_msat: p.min, htlc_maximum_msat: p.max, fee_base_msat: p.base, fee_proportional_millionths: p.prop, excess_data: vec![] };
					if let Err(e) = graph.update_channel_unsigned(&upd) {
						rep.inconclusive(format!("generator: update rejected: {:?}", e.err));
					}
				}
			}
		}
		graph
	}
}

impl Query {
	fn gen(sc: &Scenario, rng: &mut Rng) -> Query {
		let n = sc.n_public;
		let payer = rng.below(n as u64) as usize;
		let private_payee = sc.n_extra > 0 && rng.chance(1, 4);
		let mut payee = if private_payee { n + rng.below(sc.n_extra as u64) as usize } else { rng.below(n as u64) as usize };
		if payee == payer {
			payee = (payer + 1) % n;
		}
		let amt = if sc.slack { *rng.pick(&[1u64, 1000, 50_000, 1_000_000, 20_000_000]) + rng.below(1000) } else { *rng.pick(&[1u64, 999, 1000, 50_000, 1_000_000, 20_000_000, 400_000_000, 3_000_000_000, 40_000_000_000]) + rng.below(1000) };
		let mut first = None;
		if rng.chance(1, 3) {
			let mut v = vec![];
			for k in 0..1 + rng.below(4) {
				let mut peer = rng.below(n as u64) as usize;
				if peer == payer {
					peer = (peer + 1) % n;
				}
				let (limit, min) = if sc.slack { (amt * 1000 + 1_000_000, rng.below(2)) } else { (*rng.pick(&[amt, amt / 2 + 1, amt * 2, amt + amt / 50 + 60_000, 100_000_000_000]), *rng.pick(&[0u64, 1, 1000, amt / 2])) };
				v.push(FirstHop { scid: 500_000 + k, peer, limit, min });
			}
			first = Some(v);
		}
		let mut hints: Vec<Vec<HintHop>> = vec![];
		if private_payee || rng.chance(1, 5) {
			for k in 0..1 + rng.below(3) {
				let src = rng.below(n as u64) as usize;
				if src == payee {
					continue;
				}
				let p = if sc.slack { Pol { enabled: true, cltv: 10 + rng.below(30) as u16, min: rng.below(2), max: u64::MAX, base: *rng.pick(&[0u32, 1000]), prop: *rng.pick(&[0u32, 100]) } } else { Pol { enabled: true, cltv: 40 + rng.below(40) as u16, min: *rng.pick(&[0u64, 1, 1000, 2_000_000]), max: *rng.pick(&[u64::MAX, amt, amt * 3 + 7, amt / 2 + 1]), base: *rng.pick(&[0u32, 1000, 30_000]), prop: *rng.pick(&[0u32, 100, 20_000]) } };
				hints.push(vec![HintHop { src, dst: payee, scid: 900_000 + k, pol: p }]);
			}
		}
		let final_cltv = 18 + rng.below(100) as u32;
		let mpp = rng.chance(1, 2);
		let mut q = Query { payer, payee, amt, mpp, first, hints, final_cltv, max_path_count: None, max_path_length: None, max_total_cltv: None, saturation: None, excluded: vec![], fee_limit: None, scorer_mode: rng.below(4), fixed_penalty: *rng.pick(&[0u64, 500, 100_000]), seed_bytes: rng.bytes() };
		if rng.chance(1, 3) {
			q.saturation = Some(rng.below(4) as u8);
		}
		if rng.chance(1, 5) && !sc.chans.is_empty() {
			for _ in 0..1 + rng.below(3) {
				// previously failed channels of every kind: announced, route-hint, payer's own first hops
				let pick = match rng.below(4) {
					0 if !q.hints.is_empty() => q.hints[rng.below(q.hints.len() as u64) as usize][0].scid,
					1 if q.first.as_ref().map(|f| !f.is_empty()).unwrap_or(false) => {
						let f = q.first.as_ref().unwrap();
						f[rng.below(f.len() as u64) as usize].scid
					},
					_ => 1000 + rng.below(sc.chans.len() as u64),
				};
				q.excluded.push(pick);
			}
		}
		if sc.slack {
			q.fee_limit = Some(None);
			q.scorer_mode = rng.below(2);
			q.fixed_penalty = *rng.pick(&[0u64, 500]);
		} else {
			if rng.chance(1, 4) {
				q.max_path_count = Some(1 + rng.below(4) as u8);
			}
			if rng.chance(1, 4) {
				q.max_path_length = Some(1 + rng.below(6) as u8);
			}
			if rng.chance(1, 4) {
				q.max_total_cltv = Some(final_cltv + rng.below(400) as u32);
			}
			q.fee_limit = match rng.below(4) {
				0 => Some(None),
				1 => Some(Some(rng.below(amt / 10 + 10))),
				2 => Some(Some(0)),
				_ => None,
			};
		}
		q
	}
	fn route_params(&self, keys: &[PublicKey]) -> RouteParameters {
		let mut feats = Bolt11InvoiceFeatures::empty();
		if self.mpp {
			feats.set_basic_mpp_optional();
		}
		let mut pp = PaymentParameters::from_node_id(keys[self.payee], self.final_cltv).with_bolt11_features(feats).unwrap();
		let rhints: Vec<RouteHint> = self
			.hints
			.iter()
			.map(|h| RouteHint(h.iter().map(|x| RouteHintHop { src_node_id: keys[x.src], short_channel_id: x.scid, fees: RoutingFees { base_msat: x.pol.base, proportional_millionths: x.pol.prop }, cltv_expiry_delta: x.pol.cltv, htlc_minimum_msat: Some(x.pol.min), htlc_maximum_msat: if x.pol.max == u64::MAX { None } else { Some(x.pol.max) } }).collect()))
			.collect();
		if !rhints.is_empty() {
			pp = pp.with_route_hints(rhints).unwrap();
		}
		if let Some(v) = self.max_path_count {
			pp.max_path_count = v;
		}
		if let Some(v) = self.max_path_length {
			pp.max_path_length = v;
		}
		if let Some(v) = self.max_total_cltv {
			pp.max_total_cltv_expiry_delta = v;
		}
		if let Some(v) = self.saturation {
			pp.max_channel_saturation_power_of_half = v;
		}
		pp.previously_failed_channels = self.excluded.clone();
		let mut rp = RouteParameters::from_payment_params_and_value(pp, self.amt);
		if let Some(l) = self.fee_limit {
			rp.max_total_routing_fee_msat = l;
		}
		rp
	}
	fn describe(&self, sc: &Scenario, gi: u64) -> String {
		format!(
			"graph={} slack={} nodes={}+{} chans={} payer={} payee={} amt={} mpp={} first={} hints={} fee_limit={:?} max_paths={:?} max_len={:?} max_cltv={:?} saturation={:?} excluded={:?} scorer={}",
			gi,
			sc.slack,
			sc.n_public,
			sc.n_extra,
			sc.chans.len(),
			self.payer,
			self.payee,
			self.amt,
			self.mpp,
			self.first.as_ref().map(|f| f.len() as i64).unwrap_or(-1),
			self.hints.len(),
			self.fee_limit,
			self.max_path_count,
			self.max_path_length,
			self.max_total_cltv,
			self.saturation,
			self.excluded,
			self.scorer_mode
		)
	}
}

fn first_hop_details(fh: &FirstHop, peer: PublicKey, idx: u64) -> ChannelDetails {
	let mut id = [0u8; 32];
	id[..8].copy_from_slice(&fh.scid.to_be_bytes());
	ChannelDetails {
		channel_id: ChannelId(id),
		counterparty: ChannelCounterparty { node_id: peer, features: InitFeatures::empty(), unspendable_punishment_reserve: 0, forwarding_info: None, outbound_htlc_minimum_msat: None, outbound_htlc_maximum_msat: None },
		funding_txo: None,
		channel_type: None,
		short_channel_id: Some(fh.scid),
		outbound_scid_alias: None,
		inbound_scid_alias: None,
		channel_value_satoshis: fh.limit / 1000 + 10_000,
		unspendable_punishment_reserve: None,
		user_channel_id: idx as u128,
		feerate_sat_per_1000_weight: None,
		outbound_capacity_msat: fh.limit,
		next_outbound_htlc_limit_msat: fh.limit,
		next_outbound_htlc_minimum_msat: fh.min,
		next_splice_out_maximum_sat: 0,
		inbound_capacity_msat: 0,
		confirmations_required: None,
		confirmations: Some(10),
		force_close_spend_delay: None,
		is_outbound: true,
		is_channel_ready: true,
		channel_shutdown_state: None,
		is_usable: true,
		is_announced: fh.scid % 2 == 0,
		inbound_htlc_minimum_msat: None,
		inbound_htlc_maximum_msat: None,
		config: None,
		pending_inbound_htlcs: vec![],
		pending_outbound_htlcs: vec![],
		funding_redeem_script: None,
		current_dust_exposure_msat: None,
		splice_details: None,
	}
}

/// Edges usable for forwarding into `node`: (from, policy (None = payer's first hop), max, min, scid)
fn edges_into(sc: &Scenario, q: &Query, node: usize) -> Vec<(usize, Option<Pol>, u64, u64, u64)> {
	let mut edges = vec![];
	if let Some(fhs) = &q.first {
		for fh in fhs.iter().filter(|f| f.peer == node && !q.excluded.contains(&f.scid)) {
			edges.push((q.payer, None, fh.limit, fh.min, fh.scid));
		}
	}
	for (scid, c) in sc.chans.iter() {
		if q.excluded.contains(scid) || c.pol[0].is_none() || c.pol[1].is_none() {
			continue; // LDK treats a channel as usable only once both directions have an update
		}
		for dir in 0..2 {
			let (from, to) = if dir == 0 { (c.a, c.b) } else { (c.b, c.a) };
			if to != node || (from == q.payer && q.first.is_some()) {
				continue; // with first hops given, the payer's graph channels are not used
			}
			let p = c.pol[dir].unwrap();
			if p.enabled {
				edges.push((from, Some(p), p.max.min(c.cap_sat.map(|s| s * 1000).unwrap_or(u64::MAX)), p.min, *scid));
			}
		}
	}
	for hop in q.hints.iter().flat_map(|h| h.iter()).filter(|x| x.dst == node && !q.excluded.contains(&x.scid)) {
		edges.push((hop.src, Some(hop.pol), hop.pol.max, hop.pol.min, hop.scid));
	}
	edges
}

/// Exhaustive (budgeted) search for one feasible simple path payer -> payee delivering `amt`,
/// walking backwards from the payee. Some(true/false), or None if the budget ran out.
#[allow(clippy::too_many_arguments)]
fn feasible(sc: &Scenario, q: &Query, node: usize, amt: u64, len_left: usize, visited: &mut Vec<usize>, budget: &mut u64, trail: &mut Vec<String>) -> Option<bool> {
	if *budget == 0 {
		return None;
	}
	*budget -= 1;
	if len_left == 0 {
		return Some(false);
	}
	let mut unknown = false;
	for (from, pol, max, min, scid) in edges_into(sc, q, node) {
		if amt > max || amt < min || visited.contains(&from) {
			continue;
		}
		if from == q.payer {
			trail.push(format!("{}->{} scid {} carries {} (max {} min {})", from, node, scid, amt, max, min));
			return Some(true);
		}
		let p = match pol {
			Some(p) => p,
			None => continue,
		};
		let need = amt + fee_for(&p, amt);
		visited.push(from);
		let r = feasible(sc, q, from, need, len_left - 1, visited, budget, trail);
		visited.pop();
		match r {
			Some(true) => {
				trail.push(format!("{}->{} scid {} carries {} (max {} min {} base {} prop {})", from, node, scid, amt, max, min, p.base, p.prop));
				return Some(true);
			},
			Some(false) => {},
			None => unknown = true,
		}
	}
	if unknown {
		None
	} else {
		Some(false)
	}
}

/// Plain reachability payer -> payee (used in the slack regime where every edge has ample limits).
fn reachable(sc: &Scenario, q: &Query) -> bool {
	let mut seen = vec![q.payee];
	let mut stack = vec![q.payee];
	while let Some(node) = stack.pop() {
		for (from, _, _, _, _) in edges_into(sc, q, node) {
			if from == q.payer {
				return true;
			}
			if !seen.contains(&from) {
				seen.push(from);
				stack.push(from);
			}
		}
	}
	false
}

const KNOWN_DEBUG_ASSERT: &str = "assertion failed: *used_liquidity_msat <= hop_max_msat";

struct Ctx<'a> {
	args: &'a Args,
	gi: u64,
}
impl<'a> Ctx<'a> {
	fn violate(&self, rep: &mut Report, rule: &str, sig: &str, sc: &Scenario, q: &Query, extra: String) {
		let detail = format!("{} {}", q.describe(sc, self.gi), extra);
		let body = Json::obj().set("property", "C16").set("rule", rule).set("signature", sig).set("seed", self.args.seed).set("graph_index", self.gi).set("detail", detail.clone()).set("witness", witness_text(sc, q)).set("how_to_replay", "save the 'witness' text to a file and run: c16_route --prop C16 witness=<file>");
		let path = self.args.write_replay(&format!("{}-seed{}-g{}", rule, self.args.seed, self.gi), &body);
		rep.violation("C16", rule, sig, detail, Some(path));
	}
}

fn main() {
	vcore::install_quiet_panic_hook();
	let args = Args::parse();
	let mut rep = args.report();
	let now = std::time::SystemTime::now().duration_since(std::time::UNIX_EPOCH).unwrap().as_secs() as u32;
	if let Some(list) = args.kv.get("witness") {
		// re-run pinned witnesses (known findings / replays)
		for path in list.split(',').filter(|s| !s.is_empty()) {
			let text = std::fs::read_to_string(path).unwrap_or_else(|e| panic!("cannot read witness {}: {}", path, e));
			let (sc, q) = parse_witness(&text);
			let ctx = Ctx { args: &args, gi: 0 };
			let graph = sc.build(&mut rep, now);
			let prob = ProbabilisticScorer::new(ProbabilisticScoringDecayParameters::default(), &graph, NullLogger);
			let name = std::path::Path::new(path).file_name().unwrap().to_string_lossy().to_string();
			run_query(&ctx, &mut rep, &sc, &q, &graph, &prob, &InFlightHtlcs::new(), Some(&name));
			rep.evaluations += 1;
		}
		rep.write_to(&args.out);
		return;
	}
	let graphs = args.num("graphs", 24_000, 800_000);
	let queries = args.num("queries", 16, 24);
	bins::shard_runs(&args, graphs, &mut rep, |gi, rng, rep| {
		if let Some(o) = args.kv.get("only") {
			if o.parse::<u64>().unwrap() != gi {
				return;
			}
		}
		let ctx = Ctx { args: &args, gi };
		let sc = Scenario::gen(gi, rng, args.thorough());
		let graph = sc.build(rep, now);
		let keys = sc.keys();
		let mut prob = ProbabilisticScorer::new(ProbabilisticScoringDecayParameters::default(), &graph, NullLogger);
		let mut inflight = InFlightHtlcs::new();
		if sc.slack {
			rep.count("graphs_slack_regime");
		}
		for qi in 0..queries {
			let q = Query::gen(&sc, rng);
			if let Some(d) = args.kv.get("dump_witness") {
				if d == &format!("{}:{}", gi, qi) {
					println!("{}", witness_text(&sc, &q));
				}
			}
			let route = run_query(&ctx, rep, &sc, &q, &graph, &prob, &inflight, None);
			let want_sample = rng.chance(1, 50);
			let feed = rng.chance(1, 2);
			let succeed = rng.chance(1, 2);
			let fail_at = rng.next();
			if let Some(route) = route {
				if want_sample {
					rep.sample(Json::obj().set("query", q.describe(&sc, gi)).set("query_index", qi).set("paths", Json::Arr(route.paths.iter().map(|p| Json::Arr(p.hops.iter().map(|h| Json::obj().set("scid", h.short_channel_id).set("fee_msat", h.fee_msat).set("cltv_delta", h.cltv_expiry_delta)).collect())).collect())));
				}
				// feed scorer / in-flight state so that later queries see non-trivial scorer states
				if feed {
					for p in route.paths.iter() {
						inflight.process_path(p, keys[q.payer]);
						if succeed {
							prob.payment_path_successful(p, std::time::Duration::from_secs(now as u64));
						} else {
							let h = &p.hops[(fail_at % p.hops.len() as u64) as usize];
							prob.payment_path_failed(p, h.short_channel_id, std::time::Duration::from_secs(now as u64));
						}
					}
				}
			}
		}
	});
	rep.write_to(&args.out);
}

#[allow(clippy::too_many_arguments)]
fn run_query(ctx: &Ctx, rep: &mut Report, sc: &Scenario, q: &Query, graph: &NetworkGraph<NullLogger>, prob: &ProbabilisticScorer<&NetworkGraph<NullLogger>, NullLogger>, inflight: &InFlightHtlcs, pinned: Option<&str>) -> Option<Route> {
	let keys = sc.keys();
	let rp = q.route_params(&keys);
	let details: Vec<ChannelDetails> = q.first.iter().flatten().enumerate().map(|(i, f)| first_hop_details(f, keys[f.peer], i as u64)).collect();
	let detail_refs: Vec<&ChannelDetails> = details.iter().collect();
	let fh = if q.first.is_some() { Some(&detail_refs[..]) } else { None };
	let fixed = FixedPenaltyScorer::with_penalty(q.fixed_penalty);
	let prob_params = ProbabilisticScoringFeeParameters::default();
	if ctx.args.flag("trace") {
		eprintln!("QUERY {}", q.describe(sc, ctx.gi));
		eprintln!("{}", witness_text(sc, q));
	}
	let res = vcore::guarded(|| match q.scorer_mode {
		0 | 1 => find_route(&keys[q.payer], &rp, graph, fh, EnvLogger, &fixed, &Default::default(), &q.seed_bytes),
		2 => find_route(&keys[q.payer], &rp, graph, fh, NullLogger, prob, &prob_params, &q.seed_bytes),
		_ => {
			let s = ScorerAccountingForInFlightHtlcs::new(prob, inflight);
			find_route(&keys[q.payer], &rp, graph, fh, NullLogger, &s, &prob_params, &q.seed_bytes)
		},
	});
	rep.count("queries");
	match res {
		Err(p) => {
			if p.starts_with(KNOWN_DEBUG_ASSERT) {
				// A debug-only assertion of the library that fires exactly when a path's value was raised to
				// meet an htlc_minimum (which the property explicitly allows). Production builds return the
				// route. Observation, not a violation: see DESIGN.md §6 C16.
				rep.count("ldk_debug_assert_used_liquidity_observed");
			} else {
				ctx.violate(rep, "V0-panic", &format!("panic in find_route: {}", vcore::canon(&p)), sc, q, p);
			}
			None
		},
		Ok(Err(e)) => {
			rep.count("no_route_answers");
			if ctx.args.flag("trace") {
				eprintln!("  => Err({})", e);
			}
			let fixed_scorer = q.scorer_mode <= 1;
			if sc.slack {
				rep.count("completeness_slack_evaluated");
				if reachable(sc, q) {
					ctx.violate(rep, "V6-completeness-slack", "find_route failed although the payee is reachable over channels with ample limits and no limit is binding", sc, q, format!("err={}", e));
				} else {
					rep.count("completeness_slack_confirmed_unreachable");
				}
			} else if fixed_scorer && rp.max_total_routing_fee_msat.is_none() && rp.payment_params.max_total_cltv_expiry_delta >= 1008 {
				let mut budget = 200_000u64;
				let mut trail = vec![];
				let maxlen = (rp.payment_params.max_path_length as usize).min(19);
				rep.count("completeness_general_evaluated");
				match feasible(sc, q, q.payee, q.amt, maxlen, &mut vec![q.payee], &mut budget, &mut trail) {
					Some(true) => {
						rep.count("completeness_general_router_failed_with_feasible_path");
						if let Some(name) = pinned {
							ctx.violate(rep, "V6-completeness-general", &format!("F3 pinned witness {}: find_route fails although a feasible single path exists", name), sc, q, format!("feasible_path={:?}", trail));
						} else if rep.get("general_failure_witnesses_written") < ctx.args.num("obs_witnesses", 3, 3) {
							rep.count("general_failure_witnesses_written");
							let body = Json::obj().set("property", "C16").set("rule", "V6-completeness-general (observation, known finding F3 class)").set("detail", q.describe(sc, ctx.gi)).set("feasible_path", format!("{:?}", trail)).set("witness", witness_text(sc, q));
							ctx.args.write_replay(&format!("observation-V6-general-seed{}-g{}", ctx.args.seed, ctx.gi), &body);
						}
					},
					Some(false) => rep.count("completeness_general_confirmed_infeasible"),
					None => rep.count("completeness_general_search_budget_exhausted"),
				}
			}
			None
		},
		Ok(Ok(route)) => {
			rep.count("routes");
			if sc.slack {
				rep.count("routes_slack_regime");
			}
			validate(ctx, rep, sc, q, &route, &rp);
			let mut h = Fnv::new();
			h.u64(route.paths.len() as u64).u64(q.mpp as u64).u64(q.first.is_some() as u64).u64(q.hints.len() as u64).u64(q.fee_limit.map(|f| f.is_some() as u64 + 1).unwrap_or(0)).u64(q.scorer_mode).u64(q.amt.ilog10() as u64).u64(sc.slack as u64);
			for p in route.paths.iter() {
				h.u64(p.hops.len() as u64);
			}
			rep.distinct(h.get());
			if route.paths.len() > 1 {
				rep.count("mpp_routes");
			}
			rep.max("max_paths", route.paths.len() as u64);
			rep.max("max_hops", route.paths.iter().map(|p| p.hops.len()).max().unwrap_or(0) as u64);
			Some(route)
		},
	}
}

fn validate(ctx: &Ctx, rep: &mut Report, sc: &Scenario, q: &Query, route: &Route, rp: &RouteParameters) {
	let keys = sc.keys();
	let pp = &rp.payment_params;
	let amt = q.amt;
	if route.paths.is_empty() {
		ctx.violate(rep, "V1-empty", "route with no paths", sc, q, String::new());
		return;
	}
	if route.paths.len() > pp.max_path_count as usize {
		ctx.violate(rep, "V1-path-count", "more paths than max_path_count", sc, q, format!("paths={}", route.paths.len()));
	}
	let mut used: HashMap<(u64, usize), (u64, u64)> = HashMap::new(); // (scid, dir) -> (amount, hard max)
	let mut total = 0u64;
	let mut total_fee = 0u64;
	let mut minpart = u64::MAX;
	let delivered_total: u64 = route.paths.iter().map(|p| p.hops.last().map(|h| h.fee_msat).unwrap_or(0)).sum();
	let raised_total = delivered_total.saturating_sub(amt);
	for path in route.paths.iter() {
		rep.count("paths");
		if path.blinded_tail.is_some() {
			ctx.violate(rep, "V2-blinded", "blinded tail although payee is not blinded", sc, q, String::new());
			return;
		}
		if path.hops.is_empty() {
			ctx.violate(rep, "V2-empty-path", "empty path", sc, q, String::new());
			return;
		}
		if path.hops.len() > pp.max_path_length as usize {
			ctx.violate(rep, "V1-path-length", "path longer than max_path_length", sc, q, format!("len={}", path.hops.len()));
		}
		let last = path.hops.len() - 1;
		let fin = path.hops[last].fee_msat;
		total += fin;
		minpart = minpart.min(fin);
		if path.hops[last].pubkey != keys[q.payee] {
			ctx.violate(rep, "V2-endpoint", "path does not end at the payee", sc, q, String::new());
			return;
		}
		let mut amts = vec![0u64; path.hops.len()];
		amts[last] = fin;
		for i in (0..last).rev() {
			amts[i] = amts[i + 1] + path.hops[i].fee_msat;
			total_fee += path.hops[i].fee_msat;
		}
		let cltv_total: u32 = path.hops.iter().map(|h| h.cltv_expiry_delta).sum();
		if cltv_total > pp.max_total_cltv_expiry_delta {
			ctx.violate(rep, "V1-cltv", "total CLTV delta above max_total_cltv_expiry_delta", sc, q, format!("total={}", cltv_total));
		}
		let mut cur = q.payer;
		for (i, hop) in path.hops.iter().enumerate() {
			rep.count("hops");
			let to = match keys.iter().position(|k| *k == hop.pubkey) {
				Some(t) => t,
				None => {
					ctx.violate(rep, "V2-unknown-node", "hop to a node that is not in the graph", sc, q, String::new());
					return;
				},
			};
			if q.excluded.contains(&hop.short_channel_id) {
				ctx.violate(rep, "V1-excluded", "route uses a previously failed channel", sc, q, format!("scid={}", hop.short_channel_id));
			}
			let (pol, hard_max, dir): (Option<Pol>, u64, usize);
			if let Some(fh) = q.first.as_ref().and_then(|f| if i == 0 { f.iter().find(|x| x.scid == hop.short_channel_id) } else { None }) {
				if fh.peer != to {
					ctx.violate(rep, "V2-first-hop", "first hop channel does not lead to the hop's node", sc, q, format!("scid={}", fh.scid));
					return;
				}
				if amts[0] < fh.min {
					ctx.violate(rep, "V3-min", "first hop carries less than next_outbound_htlc_minimum_msat", sc, q, format!("amt={} min={}", amts[0], fh.min));
				}
				pol = None;
				hard_max = fh.limit;
				dir = 0;
				rep.count("hops_first_hop_details");
			} else if let Some(hh) = q.hints.iter().flat_map(|h| h.iter()).find(|x| x.scid == hop.short_channel_id) {
				if hh.src != cur || hh.dst != to {
					ctx.violate(rep, "V2-hint", "hint channel used between the wrong nodes", sc, q, format!("scid={}", hh.scid));
					return;
				}
				pol = Some(hh.pol);
				hard_max = hh.pol.max;
				dir = 0;
				rep.count("hops_route_hint");
			} else if let Some(c) = sc.chans.get(&hop.short_channel_id) {
				if i == 0 && q.first.is_some() {
					ctx.violate(rep, "V2-first-hop", "first hops were supplied but the route leaves the payer over a graph channel", sc, q, format!("scid={}", hop.short_channel_id));
					return;
				}
				dir = if c.a == cur && c.b == to {
					0
				} else if c.b == cur && c.a == to {
					1
				} else {
					ctx.violate(rep, "V2-connectivity", "hop does not connect the previous node to the next over that channel", sc, q, format!("hop={} scid={}", i, hop.short_channel_id));
					return;
				};
				let p = match c.pol[dir] {
					Some(p) => p,
					None => {
						ctx.violate(rep, "V2-no-update", "hop uses a direction for which no channel_update exists", sc, q, format!("scid={}", hop.short_channel_id));
						return;
					},
				};
				if c.pol[1 - dir].is_none() {
					ctx.violate(rep, "V2-no-update", "hop uses a channel for which one direction has no channel_update (not usable)", sc, q, format!("scid={}", hop.short_channel_id));
				}
				if !p.enabled {
					ctx.violate(rep, "V2-disabled", "hop uses a disabled direction", sc, q, format!("scid={}", hop.short_channel_id));
				}
				pol = Some(p);
				hard_max = p.max.min(c.cap_sat.map(|s| s * 1000).unwrap_or(u64::MAX));
			} else {
				ctx.violate(rep, "V2-unknown-channel", "hop over a channel that exists nowhere", sc, q, format!("scid={}", hop.short_channel_id));
				return;
			}
			if let Some(p) = pol {
				if amts[i] < p.min {
					ctx.violate(rep, "V3-min", "hop carries less than the channel's htlc_minimum_msat", sc, q, format!("hop={} amt={} min={}", i, amts[i], p.min));
				}
				if i > 0 {
					let need = fee_for(&p, amts[i]);
					let paid = path.hops[i - 1].fee_msat;
					rep.count("fee_rule_evaluations");
					if paid < need {
						rep.count("underpaid_hops");
						let sig = if raised_total > 0 { "forwarding node paid less than its policy fee on a route whose final value was raised above the requested amount" } else { "forwarding node paid less than its policy fee" };
						ctx.violate(rep, "V4-fee", sig, sc, q, format!("hop={} paid={} policy_fee={} forwarded={} base={} prop={}", i, paid, need, amts[i], p.base, p.prop));
					} else if paid > need {
						rep.count("overpaid_hops");
					}
					if path.hops[i - 1].cltv_expiry_delta < p.cltv as u32 {
						ctx.violate(rep, "V4-cltv", "forwarding node given less than its cltv_expiry_delta", sc, q, format!("hop={} got={} policy={}", i, path.hops[i - 1].cltv_expiry_delta, p.cltv));
					}
				}
			}
			let e = used.entry((hop.short_channel_id, dir)).or_insert((0, hard_max));
			e.0 += amts[i];
			cur = to;
		}
		if path.hops[last].cltv_expiry_delta < q.final_cltv {
			ctx.violate(rep, "V4-final-cltv", "final hop CLTV delta below the payee's final_cltv_expiry_delta", sc, q, String::new());
		}
	}
	for ((scid, dir), (amt_used, hard_max)) in used.iter() {
		rep.count("joint_max_rule_evaluations");
		if *amt_used > *hard_max {
			// only legitimate when explained by amounts raised to meet a later minimum (reported as fees)
			if raised_total == 0 || *amt_used > hard_max.saturating_add(raised_total).saturating_add(total_fee) {
				ctx.violate(rep, "V3-max", "channel carries more than min(htlc_maximum, capacity) counted jointly over the paths", sc, q, format!("scid={} dir={} carried={} max={}", scid, dir, amt_used, hard_max));
			} else {
				rep.count("joint_max_exceeded_within_raised_slack");
			}
		}
	}
	if total < amt {
		ctx.violate(rep, "V5-short", "paths deliver less than the requested amount", sc, q, format!("delivered={}", total));
	}
	if raised_total > 0 {
		rep.count("routes_with_raised_final_value");
	}
	if route.paths.len() > 1 && total - minpart >= amt {
		ctx.violate(rep, "V5-superfluous", "a part could be removed and the rest still delivers the requested amount", sc, q, format!("delivered={} smallest_part={}", total, minpart));
	}
	if let Some(mx) = rp.max_total_routing_fee_msat {
		if total_fee > mx {
			ctx.violate(rep, "V1-fee-limit", "total fees above max_total_routing_fee_msat", sc, q, format!("fees={} limit={}", total_fee, mx));
		} else if total_fee + raised_total > mx {
			rep.count("fee_limit_exceeded_only_by_overpayment");
		}
	}
}

// ---------------------------------------------------------------------------------------------
// Witness files: a complete, generator-independent description of (scenario, query)
// ---------------------------------------------------------------------------------------------
fn pol_text(p: &Option<Pol>) -> String {
	match p {
		None => "-".to_string(),
		Some(p) => format!("{}:{}:{}:{}:{}:{}", p.enabled as u8, p.cltv, p.min, p.max, p.base, p.prop),
	}
}
fn pol_parse(s: &str) -> Option<Pol> {
	if s == "-" {
		return None;
	}
	let v: Vec<u64> = s.split(':').map(|x| x.parse().unwrap()).collect();
	Some(Pol { enabled: v[0] == 1, cltv: v[1] as u16, min: v[2], max: v[3], base: v[4] as u32, prop: v[5] as u32 })
}
fn opt<T: std::fmt::Display>(o: &Option<T>) -> String {
	o.as_ref().map(|v| v.to_string()).unwrap_or_else(|| "-".into())
}
fn witness_text(sc: &Scenario, q: &Query) -> String {
	let mut s = format!("scenario {} {} {} {}\n", sc.key_seed, sc.n_public, sc.n_extra, sc.slack as u8);
	for (scid, c) in sc.chans.iter() {
		s += &format!("chan {} {} {} {} {} {}\n", scid, c.a, c.b, opt(&c.cap_sat), pol_text(&c.pol[0]), pol_text(&c.pol[1]));
	}
	let fee = match q.fee_limit {
		None => "default".to_string(),
		Some(None) => "none".to_string(),
		Some(Some(v)) => v.to_string(),
	};
	s += &format!("query {} {} {} {} {} {} {} {} {} {} {} {}\n", q.payer, q.payee, q.amt, q.mpp as u8, q.final_cltv, opt(&q.max_path_count), opt(&q.max_path_length), opt(&q.max_total_cltv), opt(&q.saturation), fee, q.scorer_mode, q.fixed_penalty);
	s += &format!("seedbytes {}\n", vcore::hex(&q.seed_bytes));
	if let Some(f) = &q.first {
		s += "firsthops\n";
		for fh in f {
			s += &format!("first {} {} {} {}\n", fh.scid, fh.peer, fh.limit, fh.min);
		}
	}
	for h in q.hints.iter() {
		for x in h {
			s += &format!("hint {} {} {} {}\n", x.scid, x.src, x.dst, pol_text(&Some(x.pol)));
		}
	}
	for e in q.excluded.iter() {
		s += &format!("excluded {}\n", e);
	}
	s
}
fn parse_witness(text: &str) -> (Scenario, Query) {
	let mut sc = Scenario { key_seed: 1, n_public: 0, n_extra: 0, slack: false, chans: BTreeMap::new() };
	let mut q = Query { payer: 0, payee: 0, amt: 0, mpp: false, first: None, hints: vec![], final_cltv: 18, max_path_count: None, max_path_length: None, max_total_cltv: None, saturation: None, excluded: vec![], fee_limit: None, scorer_mode: 0, fixed_penalty: 0, seed_bytes: [0; 32] };
	let o = |s: &str| -> Option<u64> {
		if s == "-" {
			None
		} else {
			Some(s.parse().unwrap())
		}
	};
	for line in text.lines() {
		let t: Vec<&str> = line.split_whitespace().collect();
		if t.is_empty() {
			continue;
		}
		match t[0] {
			"scenario" => {
				sc.key_seed = t[1].parse().unwrap();
				sc.n_public = t[2].parse().unwrap();
				sc.n_extra = t[3].parse().unwrap();
				sc.slack = t[4] == "1";
			},
			"chan" => {
				sc.chans.insert(t[1].parse().unwrap(), Chan { a: t[2].parse().unwrap(), b: t[3].parse().unwrap(), cap_sat: o(t[4]), pol: [pol_parse(t[5]), pol_parse(t[6])] });
			},
			"query" => {
				q.payer = t[1].parse().unwrap();
				q.payee = t[2].parse().unwrap();
				q.amt = t[3].parse().unwrap();
				q.mpp = t[4] == "1";
				q.final_cltv = t[5].parse().unwrap();
				q.max_path_count = o(t[6]).map(|v| v as u8);
				q.max_path_length = o(t[7]).map(|v| v as u8);
				q.max_total_cltv = o(t[8]).map(|v| v as u32);
				q.saturation = o(t[9]).map(|v| v as u8);
				q.fee_limit = match t[10] {
					"default" => None,
					"none" => Some(None),
					v => Some(Some(v.parse().unwrap())),
				};
				q.scorer_mode = t[11].parse().unwrap();
				q.fixed_penalty = t[12].parse().unwrap();
			},
			"seedbytes" => q.seed_bytes.copy_from_slice(&vcore::unhex(t[1]).unwrap()),
			"firsthops" => q.first = Some(vec![]),
			"first" => q.first.as_mut().unwrap().push(FirstHop { scid: t[1].parse().unwrap(), peer: t[2].parse().unwrap(), limit: t[3].parse().unwrap(), min: t[4].parse().unwrap() }),
			"hint" => q.hints.push(vec![HintHop { scid: t[1].parse().unwrap(), src: t[2].parse().unwrap(), dst: t[3].parse().unwrap(), pol: pol_parse(t[4]).unwrap() }]),
			"excluded" => q.excluded.push(t[1].parse().unwrap()),
			_ => {},
		}
	}
	(sc, q)
}
