//! Runs world scenarios for the behavioural properties (C01, C05, C09, ...): one shard of the
//! run indices, all monitors riding along, violations of the requested property reported.
use vcore::Args;
use world::monitors::c01_commit::CommitMonitor;
use world::monitors::c05_revoke::RevokeMonitor;
use world::monitors::c09_order::OrderMonitor;
use world::monitors::Monitor;
use world::run::{run_one, Profile};

fn main() {
	let _ = world::force_link();
	vcore::install_quiet_panic_hook();
	let args = Args::parse();
	let mut rep = args.report();
	let prof = Profile::for_prop(&args.prop, args.thorough());
	let mut prof = prof;
	if let Some(s) = args.kv.get("steps") {
		prof.steps = s.parse().unwrap();
	}
	let runs = args.num("runs", 160, 8000);
	let make = || -> Vec<Box<dyn Monitor>> { vec![Box::new(CommitMonitor::new()), Box::new(RevokeMonitor::new()), Box::new(OrderMonitor::new())] };
	let only: Option<u64> = args.kv.get("only_run").map(|s| s.parse().unwrap());
	let mut i = args.shard;
	while i < runs {
		if only.map(|o| o == i).unwrap_or(true) {
			run_one(&args, &prof, i, &mut rep, &make);
		}
		i += args.nshards.max(1);
	}
	rep.write_to(&args.out);
}
