//! Runs world scenarios for the behavioural properties (C01, C05, C09, C10 ...): one shard of the
//! run indices, all monitors riding along, violations of the requested property reported.
//!   mode=random (default)  seeded scenario runs
//!   mode=crash             crash-point enumeration: each base run is first executed without a
//!                          crash to count the victim's durable writes W, then re-executed once per
//!                          selected write index n with the victim dying at its n-th write
use vcore::Args;
use world::monitors::c01_commit::CommitMonitor;
use world::monitors::c05_revoke::RevokeMonitor;
use world::monitors::c09_order::OrderMonitor;
use world::monitors::c10_restart::RestartMonitor;
use world::monitors::pay::PayMonitor;
use world::monitors::c12_serial::SerialMonitor;
use world::monitors::onchain::OnchainMonitor;
use world::monitors::c19_mup::MupMonitor;
use world::monitors::Monitor;
use world::run::{run_one, Crash, Profile};

fn main() {
	let _ = world::force_link();
	vcore::install_quiet_panic_hook();
	let args = Args::parse();
	let mut rep = args.report();
	// (a stage may run another property's workload under this property's name: `profile=Cxx`)
	let mut prof = Profile::for_prop(args.kv.get("profile").map(|s| s.as_str()).unwrap_or(&args.prop), args.thorough());
	prof.prop = args.prop.clone();
	if let Some(s) = args.kv.get("steps") {
		prof.steps = s.parse().unwrap();
	}
	if args.kv.get("late_update").map(|s| s == "1").unwrap_or(false) {
		prof.late_update = true;
	}
	if args.kv.get("open_forks").map(|s| s == "1").unwrap_or(false) {
		prof.open_forks = true;
	}
	if let Some(s) = args.kv.get("deadline_kind") {
		prof.deadline_kind = Some(s.parse().unwrap());
	}
	let runs = args.num("runs", 160, 8000);
	let with_serial = args.prop == "C12";
	let serial_roundtrip_only = prof.onchain;
	let with_mup = args.prop == "C19";
	let make = move || -> Vec<Box<dyn Monitor>> { let mut v: Vec<Box<dyn Monitor>> = vec![Box::new(CommitMonitor::new()), Box::new(RevokeMonitor::new()), Box::new(OrderMonitor::new()), Box::new(RestartMonitor::new()), Box::new(PayMonitor::new())]; if with_serial { let mut sm = SerialMonitor::new(); sm.roundtrip_only = serial_roundtrip_only; v.push(Box::new(sm)); } v.push(Box::new(OnchainMonitor::new())); if with_mup { v.push(Box::new(MupMonitor::new())); } v };
	let only: Option<u64> = args.kv.get("only_run").map(|s| s.parse().unwrap());
	let mode = args.kv.get("mode").cloned().unwrap_or_else(|| "random".to_string());
	let mut i = args.shard;
	while i < runs {
		if only.map(|o| o == i).unwrap_or(true) {
			if mode == "crash" {
				crash_enumeration(&args, &prof, i, &mut rep, &make);
			} else {
				run_one(&args, &prof, i, &mut rep, &make, None);
			}
		}
		i += args.nshards.max(1);
	}
	rep.write_to(&args.out);
}

fn crash_enumeration(args: &Args, prof: &Profile, run: u64, rep: &mut vcore::Report, make: &(dyn Fn() -> Vec<Box<dyn Monitor>> + Sync)) {
	let victim = (run % prof.nodes as u64) as usize;
	// baseline (also judged) to learn how many durable writes the victim performs
	let base = run_one(args, prof, run, rep, make, None);
	let w = base.writes.get(victim).cloned().unwrap_or(0);
	rep.count("crash_base_scenarios");
	rep.add("crash_points_available", w);
	if w == 0 {
		return;
	}
	let max_points = args.num("points", 10, 400);
	let only_point: Option<u64> = args.kv.get("only_point").map(|s| s.parse().unwrap());
	let mut rng = vcore::Rng::derive(args.seed, run, 0xC4A5);
	let points: Vec<u64> = if w <= max_points { (0..w).collect() } else { (0..max_points).map(|k| (k * w / max_points + rng.below(w / max_points)).min(w - 1)).collect() };
	if w <= max_points {
		rep.count("crash_scenarios_fully_enumerated");
	}
	for n in points {
		if only_point.map(|p| p != n).unwrap_or(false) {
			continue;
		}
		let second = if rng.chance(1, 4) { Some(rng.below(6)) } else { None };
		let st = run_one(args, prof, run, rep, make, Some(Crash { victim, at_write: n, second_after: second }));
		rep.count("crash_points_executed");
		if st.crashed {
			rep.count("crash_points_reached");
		}
		rep.distinct(vcore::Fnv::new().u64(run).u64(n).u64(victim as u64).get());
	}
}
