//! C15 – the encrypted transport delivers the exact message sequence or disconnects.
//!
//! Real `PeerManager`s are driven single-threaded by a seeded scheduler through a harness
//! `SocketDescriptor` (a byte pipe that fragments, coalesces, delays, reports write-buffer-full and
//! honours/ignores read pauses). The far end of a connection is either another real `PeerManager`
//! or `RefPeer`, an independent BOLT-8 implementation written for this check (own ChaCha20-Poly1305,
//! HKDF over bitcoin_hashes' HMAC, libsecp ECDH), self-tested against the BOLT-8 vectors. The reference
//! peer holds keys, so it can decode everything the library sends, produce authenticated frames with
//! arbitrary content and corrupt its own stream at exactly known frame offsets.
//!
//! Rules (ids used in violations):
//!  T1  per connection and direction the messages handed to the far handlers are, at every moment, a
//!      byte-identical prefix (exactly once, in order) of what the near handlers released while they
//!      were told the peer is connected; at the end of a fault-free case the prefix is everything and
//!      the connection was not dropped by the library (custom and channel-message streams)
//!  T2  one fault in the byte stream (bit flip, truncation+EOF, insertion, deletion, replay of an
//!      earlier frame, duplicate, swap of two frames) at a known offset: nothing at or after the
//!      damaged frame is delivered, everything before it is, and the library drops the connection in
//!      the very `read_event` that completes the damaged act / length header / body (no earlier)
//!  T3  no channel / routing / custom handler callback for a peer fires before that peer's Init was
//!      processed (`peer_connected`), in particular when the first authenticated frame is not Init;
//!      and while the peer withholds its Init the library transmits nothing but its own Init, even
//!      if its handlers already hand it messages for that peer
//!  T4  arbitrary bytes instead of act one / two / three / after the handshake, and authenticated
//!      frames with arbitrary or hostile well-formed content, never panic; garbage acts are dropped
//!      once complete and never answered by handler callbacks
//!  K1  the library completes the handshake with the reference implementation in both roles and the
//!      reference learns the library's node id (matching keys)
//!  K2  every frame the library emits authenticates under the reference keys (across key rotations),
//!      the first one is Init and its custom/channel messages decode to exactly what was released
//!  P1  (lenient) a peer answering pings is not dropped by timer ticks at quiescent points; a silent
//!      peer is dropped within a few ticks
use bins::EnvLogger;
use bitcoin::constants::ChainHash;
use bitcoin::hashes::hmac::{Hmac, HmacEngine};
use bitcoin::hashes::sha256::Hash as Sha256;
use bitcoin::hashes::{Hash, HashEngine};
use bitcoin::secp256k1::ecdh::SharedSecret;
use bitcoin::secp256k1::{PublicKey, Secp256k1, SecretKey};
use bitcoin::{Network, ScriptBuf};
use lightning::ln::msgs::{self, BaseMessageHandler, ChannelMessageHandler, DecodeError, Init, LightningError, MessageSendEvent, RoutingMessageHandler, SocketAddress};
use lightning::ln::peer_handler::{CustomMessageHandler, IgnoringMessageHandler, MessageHandler, PeerManager, SocketDescriptor};
use lightning::ln::types::ChannelId;
use lightning::ln::wire::{CustomMessageReader, Type};
use lightning::routing::gossip::NodeId;
use lightning::sign::{KeysManager, NodeSigner, Recipient};
use lightning::types::features::{InitFeatures, NodeFeatures};
use lightning::util::ser::{LengthLimitedRead, Writeable, Writer};
use std::cell::{Cell, RefCell};
use std::collections::{HashMap, VecDeque};
use std::rc::Rc;
use vcore::{Args, Fnv, Json, Report, Rng};

// =============================================================================================
// 1. Reference BOLT-8 implementation (independent of the library's cipher code)
// =============================================================================================
mod refimpl {
	use super::*;

	fn qr(s: &mut [u32; 16], a: usize, b: usize, c: usize, d: usize) {
		s[a] = s[a].wrapping_add(s[b]);
		s[d] = (s[d] ^ s[a]).rotate_left(16);
		s[c] = s[c].wrapping_add(s[d]);
		s[b] = (s[b] ^ s[c]).rotate_left(12);
		s[a] = s[a].wrapping_add(s[b]);
		s[d] = (s[d] ^ s[a]).rotate_left(8);
		s[c] = s[c].wrapping_add(s[d]);
		s[b] = (s[b] ^ s[c]).rotate_left(7);
	}
	pub fn chacha20_block(key: &[u8; 32], counter: u32, nonce: &[u8; 12]) -> [u8; 64] {
		let mut s = [0u32; 16];
		s[0] = 0x61707865;
		s[1] = 0x3320646e;
		s[2] = 0x79622d32;
		s[3] = 0x6b206574;
		for i in 0..8 {
			s[4 + i] = u32::from_le_bytes([key[4 * i], key[4 * i + 1], key[4 * i + 2], key[4 * i + 3]]);
		}
		s[12] = counter;
		for i in 0..3 {
			s[13 + i] = u32::from_le_bytes([nonce[4 * i], nonce[4 * i + 1], nonce[4 * i + 2], nonce[4 * i + 3]]);
		}
		let mut w = s;
		for _ in 0..10 {
			qr(&mut w, 0, 4, 8, 12);
			qr(&mut w, 1, 5, 9, 13);
			qr(&mut w, 2, 6, 10, 14);
			qr(&mut w, 3, 7, 11, 15);
			qr(&mut w, 0, 5, 10, 15);
			qr(&mut w, 1, 6, 11, 12);
			qr(&mut w, 2, 7, 8, 13);
			qr(&mut w, 3, 4, 9, 14);
		}
		let mut out = [0u8; 64];
		for i in 0..16 {
			out[4 * i..4 * i + 4].copy_from_slice(&w[i].wrapping_add(s[i]).to_le_bytes());
		}
		out
	}
	fn chacha20_xor(key: &[u8; 32], nonce: &[u8; 12], first_counter: u32, data: &mut [u8]) {
		let mut ctr = first_counter;
		for chunk in data.chunks_mut(64) {
			let ks = chacha20_block(key, ctr, nonce);
			for (d, k) in chunk.iter_mut().zip(ks.iter()) {
				*d ^= *k;
			}
			ctr = ctr.wrapping_add(1);
		}
	}

	/// Poly1305 over `msg` (5 x 26-bit limbs).
	pub fn poly1305(key: &[u8; 32], msg: &[u8]) -> [u8; 16] {
		let le = |b: &[u8]| u32::from_le_bytes([b[0], b[1], b[2], b[3]]) as u64;
		const M: u64 = 0x3ffffff;
		let (t0, t1, t2, t3) = (le(&key[0..4]), le(&key[4..8]), le(&key[8..12]), le(&key[12..16]));
		let r0 = t0 & 0x3ffffff;
		let r1 = ((t0 >> 26) | (t1 << 6)) & 0x3ffff03;
		let r2 = ((t1 >> 20) | (t2 << 12)) & 0x3ffc0ff;
		let r3 = ((t2 >> 14) | (t3 << 18)) & 0x3f03fff;
		let r4 = (t3 >> 8) & 0x00fffff;
		let (s1, s2, s3, s4) = (r1 * 5, r2 * 5, r3 * 5, r4 * 5);
		let (mut h0, mut h1, mut h2, mut h3, mut h4) = (0u64, 0u64, 0u64, 0u64, 0u64);
		for chunk in msg.chunks(16) {
			let mut block = [0u8; 17];
			block[..chunk.len()].copy_from_slice(chunk);
			block[chunk.len()] = 1;
			let (b0, b1, b2, b3) = (le(&block[0..4]), le(&block[4..8]), le(&block[8..12]), le(&block[12..16]));
			let hi = block[16] as u64;
			h0 += b0 & M;
			h1 += ((b0 >> 26) | (b1 << 6)) & M;
			h2 += ((b1 >> 20) | (b2 << 12)) & M;
			h3 += ((b2 >> 14) | (b3 << 18)) & M;
			h4 += (b3 >> 8) | (hi << 24);
			let d0 = h0 * r0 + h1 * s4 + h2 * s3 + h3 * s2 + h4 * s1;
			let mut d1 = h0 * r1 + h1 * r0 + h2 * s4 + h3 * s3 + h4 * s2;
			let mut d2 = h0 * r2 + h1 * r1 + h2 * r0 + h3 * s4 + h4 * s3;
			let mut d3 = h0 * r3 + h1 * r2 + h2 * r1 + h3 * r0 + h4 * s4;
			let mut d4 = h0 * r4 + h1 * r3 + h2 * r2 + h3 * r1 + h4 * r0;
			let mut c = d0 >> 26;
			h0 = d0 & M;
			d1 += c;
			c = d1 >> 26;
			h1 = d1 & M;
			d2 += c;
			c = d2 >> 26;
			h2 = d2 & M;
			d3 += c;
			c = d3 >> 26;
			h3 = d3 & M;
			d4 += c;
			c = d4 >> 26;
			h4 = d4 & M;
			h0 += c * 5;
			c = h0 >> 26;
			h0 &= M;
			h1 += c;
		}
		// full carry
		let mut c = h1 >> 26;
		h1 &= M;
		h2 += c;
		c = h2 >> 26;
		h2 &= M;
		h3 += c;
		c = h3 >> 26;
		h3 &= M;
		h4 += c;
		c = h4 >> 26;
		h4 &= M;
		h0 += c * 5;
		c = h0 >> 26;
		h0 &= M;
		h1 += c;
		// compute h - p
		let mut g0 = h0 + 5;
		c = g0 >> 26;
		g0 &= M;
		let mut g1 = h1 + c;
		c = g1 >> 26;
		g1 &= M;
		let mut g2 = h2 + c;
		c = g2 >> 26;
		g2 &= M;
		let mut g3 = h3 + c;
		c = g3 >> 26;
		g3 &= M;
		let g4 = (h4 + c).wrapping_sub(1 << 26);
		// if g4 did not underflow (h >= p) select g
		if (g4 >> 63) == 0 {
			h0 = g0;
			h1 = g1;
			h2 = g2;
			h3 = g3;
			h4 = g4 & M;
		}
		// h mod 2^128
		let w0 = (h0 | (h1 << 26)) & 0xffff_ffff;
		let w1 = ((h1 >> 6) | (h2 << 20)) & 0xffff_ffff;
		let w2 = ((h2 >> 12) | (h3 << 14)) & 0xffff_ffff;
		let w3 = ((h3 >> 18) | (h4 << 8)) & 0xffff_ffff;
		let (p0, p1, p2, p3) = (le(&key[16..20]), le(&key[20..24]), le(&key[24..28]), le(&key[28..32]));
		let mut f = w0 + p0;
		let o0 = f as u32;
		f = w1 + p1 + (f >> 32);
		let o1 = f as u32;
		f = w2 + p2 + (f >> 32);
		let o2 = f as u32;
		f = w3 + p3 + (f >> 32);
		let o3 = f as u32;
		let mut out = [0u8; 16];
		out[0..4].copy_from_slice(&o0.to_le_bytes());
		out[4..8].copy_from_slice(&o1.to_le_bytes());
		out[8..12].copy_from_slice(&o2.to_le_bytes());
		out[12..16].copy_from_slice(&o3.to_le_bytes());
		out
	}

	fn nonce_of(n: u64) -> [u8; 12] {
		let mut nonce = [0u8; 12];
		nonce[4..].copy_from_slice(&n.to_le_bytes());
		nonce
	}
	fn aead_tag(key: &[u8; 32], nonce: &[u8; 12], ad: &[u8], ct: &[u8]) -> [u8; 16] {
		let b0 = chacha20_block(key, 0, nonce);
		let mut otk = [0u8; 32];
		otk.copy_from_slice(&b0[..32]);
		let mut mac = Vec::with_capacity(ad.len() + ct.len() + 48);
		mac.extend_from_slice(ad);
		mac.resize((mac.len() + 15) / 16 * 16, 0);
		mac.extend_from_slice(ct);
		mac.resize((mac.len() + 15) / 16 * 16, 0);
		mac.extend_from_slice(&(ad.len() as u64).to_le_bytes());
		mac.extend_from_slice(&(ct.len() as u64).to_le_bytes());
		poly1305(&otk, &mac)
	}
	/// ChaCha20-Poly1305 (RFC 8439) with the BOLT-8 nonce layout: returns ciphertext || tag.
	pub fn encrypt_with_ad(key: &[u8; 32], n: u64, ad: &[u8], pt: &[u8]) -> Vec<u8> {
		let nonce = nonce_of(n);
		let mut ct = pt.to_vec();
		chacha20_xor(key, &nonce, 1, &mut ct);
		let tag = aead_tag(key, &nonce, ad, &ct);
		ct.extend_from_slice(&tag);
		ct
	}
	pub fn decrypt_with_ad(key: &[u8; 32], n: u64, ad: &[u8], ct_tag: &[u8]) -> Option<Vec<u8>> {
		if ct_tag.len() < 16 {
			return None;
		}
		let nonce = nonce_of(n);
		let (ct, tag) = ct_tag.split_at(ct_tag.len() - 16);
		let want = aead_tag(key, &nonce, ad, ct);
		if want[..] != tag[..] {
			return None;
		}
		let mut pt = ct.to_vec();
		chacha20_xor(key, &nonce, 1, &mut pt);
		Some(pt)
	}

	pub fn sha(parts: &[&[u8]]) -> [u8; 32] {
		let mut e = Sha256::engine();
		for p in parts {
			e.input(p);
		}
		Sha256::from_engine(e).to_byte_array()
	}
	fn hmac(key: &[u8], parts: &[&[u8]]) -> [u8; 32] {
		let mut e = HmacEngine::<Sha256>::new(key);
		for p in parts {
			e.input(p);
		}
		Hmac::from_engine(e).to_byte_array()
	}
	/// HKDF-SHA256 with empty info, 64 bytes of output split in two.
	pub fn hkdf2(salt: &[u8; 32], ikm: &[u8]) -> ([u8; 32], [u8; 32]) {
		let prk = hmac(salt, &[ikm]);
		let t1 = hmac(&prk, &[&[1u8]]);
		let t2 = hmac(&prk, &[&t1, &[2u8]]);
		(t1, t2)
	}
	fn ecdh(pk: &PublicKey, sk: &SecretKey) -> [u8; 32] {
		SharedSecret::new(pk, sk).secret_bytes()
	}

	#[derive(Clone)]
	pub struct Cipher {
		pub k: [u8; 32],
		pub n: u64,
		pub ck: [u8; 32],
		pub rotations: u64,
	}
	impl Cipher {
		fn maybe_rotate(&mut self) {
			if self.n == 1000 {
				let (ck, k) = hkdf2(&self.ck, &self.k);
				self.ck = ck;
				self.k = k;
				self.n = 0;
				self.rotations += 1;
			}
		}
		pub fn encrypt(&mut self, pt: &[u8]) -> Vec<u8> {
			self.maybe_rotate();
			let r = encrypt_with_ad(&self.k, self.n, &[], pt);
			self.n += 1;
			r
		}
		pub fn decrypt(&mut self, ct: &[u8]) -> Option<Vec<u8>> {
			self.maybe_rotate();
			let r = decrypt_with_ad(&self.k, self.n, &[], ct)?;
			self.n += 1;
			Some(r)
		}
		/// One lightning message: encrypted length header followed by encrypted body.
		pub fn frame(&mut self, payload: &[u8]) -> Vec<u8> {
			assert!(payload.len() <= 65535);
			let mut out = self.encrypt(&(payload.len() as u16).to_be_bytes());
			out.extend_from_slice(&self.encrypt(payload));
			out
		}
	}

	pub struct Handshake {
		pub initiator: bool,
		h: [u8; 32],
		ck: [u8; 32],
		s: SecretKey,
		e: SecretKey,
		temp_k2: [u8; 32],
		remote_e: Option<PublicKey>,
		pub remote_static: Option<PublicKey>,
		secp: Secp256k1<bitcoin::secp256k1::All>,
	}
	impl Handshake {
		fn base(responder_static: &PublicKey) -> ([u8; 32], [u8; 32]) {
			let ck = sha(&[b"Noise_XK_secp256k1_ChaChaPoly_SHA256"]);
			let h = sha(&[&ck, b"lightning"]);
			let h = sha(&[&h, &responder_static.serialize()]);
			(h, ck)
		}
		pub fn new_initiator(s: SecretKey, e: SecretKey, responder_static: PublicKey) -> Handshake {
			let (h, ck) = Self::base(&responder_static);
			Handshake { initiator: true, h, ck, s, e, temp_k2: [0; 32], remote_e: None, remote_static: Some(responder_static), secp: Secp256k1::new() }
		}
		pub fn new_responder(s: SecretKey, e: SecretKey) -> Handshake {
			let secp = Secp256k1::new();
			let (h, ck) = Self::base(&PublicKey::from_secret_key(&secp, &s));
			Handshake { initiator: false, h, ck, s, e, temp_k2: [0; 32], remote_e: None, remote_static: None, secp }
		}
		fn mix_hash(&mut self, d: &[u8]) {
			self.h = sha(&[&self.h, d]);
		}
		fn mix_key(&mut self, ikm: &[u8; 32]) -> [u8; 32] {
			let (ck, k) = hkdf2(&self.ck, ikm);
			self.ck = ck;
			k
		}
		/// `0 || e.pub || tag` written by whoever's turn it is (act one for the initiator, act two for
		/// the responder).
		fn write_ephemeral_act(&mut self, remote: &PublicKey) -> (Vec<u8>, [u8; 32]) {
			let e_pub = PublicKey::from_secret_key(&self.secp, &self.e).serialize();
			self.mix_hash(&e_pub);
			let ss = ecdh(remote, &self.e);
			let temp_k = self.mix_key(&ss);
			let c = encrypt_with_ad(&temp_k, 0, &self.h.clone(), &[]);
			self.mix_hash(&c);
			let mut out = vec![0u8];
			out.extend_from_slice(&e_pub);
			out.extend_from_slice(&c);
			(out, temp_k)
		}
		fn read_ephemeral_act(&mut self, act: &[u8], our_key: &SecretKey) -> Result<(PublicKey, [u8; 32]), String> {
			if act.len() != 50 {
				return Err("act length".into());
			}
			if act[0] != 0 {
				return Err(format!("handshake version {}", act[0]));
			}
			let their = PublicKey::from_slice(&act[1..34]).map_err(|_| "invalid ephemeral key".to_string())?;
			self.mix_hash(&their.serialize());
			let ss = ecdh(&their, our_key);
			let temp_k = self.mix_key(&ss);
			decrypt_with_ad(&temp_k, 0, &self.h.clone(), &act[34..]).ok_or("bad MAC in ephemeral act")?;
			self.mix_hash(&act[34..]);
			Ok((their, temp_k))
		}
		pub fn act_one(&mut self) -> Vec<u8> {
			assert!(self.initiator);
			let rs = self.remote_static.unwrap();
			self.write_ephemeral_act(&rs).0
		}
		pub fn read_act_one(&mut self, act: &[u8]) -> Result<(), String> {
			assert!(!self.initiator);
			let s = self.s;
			let (ie, _) = self.read_ephemeral_act(act, &s)?;
			self.remote_e = Some(ie);
			Ok(())
		}
		pub fn act_two(&mut self) -> Vec<u8> {
			assert!(!self.initiator);
			let ie = self.remote_e.unwrap();
			let (out, k) = self.write_ephemeral_act(&ie);
			self.temp_k2 = k;
			out
		}
		pub fn read_act_two(&mut self, act: &[u8]) -> Result<(), String> {
			assert!(self.initiator);
			let e = self.e;
			let (re, k) = self.read_ephemeral_act(act, &e)?;
			self.remote_e = Some(re);
			self.temp_k2 = k;
			Ok(())
		}
		/// Returns act three and the (send, receive) cipher states.
		pub fn act_three(&mut self) -> (Vec<u8>, Cipher, Cipher) {
			assert!(self.initiator);
			let s_pub = PublicKey::from_secret_key(&self.secp, &self.s).serialize();
			let c = encrypt_with_ad(&self.temp_k2, 1, &self.h.clone(), &s_pub);
			self.mix_hash(&c);
			let ss = ecdh(&self.remote_e.unwrap(), &self.s);
			let temp_k3 = self.mix_key(&ss);
			let t = encrypt_with_ad(&temp_k3, 0, &self.h.clone(), &[]);
			let (sk, rk) = hkdf2(&self.ck, &[]);
			let mut out = vec![0u8];
			out.extend_from_slice(&c);
			out.extend_from_slice(&t);
			(out, Cipher { k: sk, n: 0, ck: self.ck, rotations: 0 }, Cipher { k: rk, n: 0, ck: self.ck, rotations: 0 })
		}
		/// Returns the (send, receive) cipher states.
		pub fn read_act_three(&mut self, act: &[u8]) -> Result<(Cipher, Cipher), String> {
			assert!(!self.initiator);
			if act.len() != 66 {
				return Err("act three length".into());
			}
			if act[0] != 0 {
				return Err(format!("handshake version {}", act[0]));
			}
			let rs = decrypt_with_ad(&self.temp_k2, 1, &self.h.clone(), &act[1..50]).ok_or("bad MAC on the static key")?;
			let rs = PublicKey::from_slice(&rs).map_err(|_| "invalid static key".to_string())?;
			self.mix_hash(&act[1..50]);
			let ss = ecdh(&rs, &self.e);
			let temp_k3 = self.mix_key(&ss);
			decrypt_with_ad(&temp_k3, 0, &self.h.clone(), &act[50..]).ok_or("bad final MAC")?;
			self.remote_static = Some(rs);
			let (rk, sk) = hkdf2(&self.ck, &[]);
			Ok((Cipher { k: sk, n: 0, ck: self.ck, rotations: 0 }, Cipher { k: rk, n: 0, ck: self.ck, rotations: 0 }))
		}
	}

	/// BOLT-8 appendix test vectors (initiator and responder handshake, message encryption with two
	/// key rotations). Returns the number of vectors checked.
	pub fn selftest() -> Result<u64, String> {
		let hx = |s: &str| vcore::unhex(s).unwrap();
		let key = |s: &str| SecretKey::from_slice(&hx(s)).unwrap();
		let secp = Secp256k1::new();
		let mut n = 0;
		let rs_priv = key("2121212121212121212121212121212121212121212121212121212121212121");
		let rs_pub = PublicKey::from_secret_key(&secp, &rs_priv);
		if rs_pub.serialize()[..] != hx("028d7500dd4c12685d1f568b4c2b5048e8534b873319f3a8daa612b469132ec7f7")[..] {
			return Err("responder static key".into());
		}
		let ls_priv = key("1111111111111111111111111111111111111111111111111111111111111111");
		let mut ini = Handshake::new_initiator(ls_priv, key("1212121212121212121212121212121212121212121212121212121212121212"), rs_pub);
		let mut res = Handshake::new_responder(rs_priv, key("2222222222222222222222222222222222222222222222222222222222222222"));
		let a1 = ini.act_one();
		if a1 != hx("00036360e856310ce5d294e8be33fc807077dc56ac80d95d9cd4ddbd21325eff73f70df6086551151f58b8afe6c195782c6a") {
			return Err("act one".into());
		}
		n += 1;
		res.read_act_one(&a1)?;
		let a2 = res.act_two();
		if a2 != hx("0002466d7fcae563e5cb09a0d1870bb580344804617879a14949cf22285f1bae3f276e2470b93aac583c9ef6eafca3f730ae") {
			return Err("act two".into());
		}
		n += 1;
		ini.read_act_two(&a2)?;
		let (a3, mut isend, irecv) = ini.act_three();
		if a3 != hx("00b9e3a702e93e3a9948c2ed6e5fd7590a6e1c3a0344cfc9d5b57357049aa22355361aa02e55a8fc28fef5bd6d71ad0c38228dc68b1c466263b47fdf31e560e139ba") {
			return Err("act three".into());
		}
		n += 1;
		let (rsend, mut rrecv) = res.read_act_three(&a3)?;
		if res.remote_static.unwrap().serialize()[..] != hx("034f355bdcb7cc0af728ef3cceb9615d90684bb5b2ca5f859ab0f0b704075871aa")[..] {
			return Err("initiator static key".into());
		}
		if isend.k[..] != hx("969ab31b4d288cedf6218839b27a3e2140827047f2c0f01bf5c04435d43511a9")[..] || irecv.k[..] != hx("bb9020b8965f4df047e07f955f3c4b88418984aadc5cdb35096b9ea8fa5c3442")[..] {
			return Err("initiator keys".into());
		}
		if rsend.k != irecv.k || rrecv.k != isend.k || isend.ck[..] != hx("919219dbb2920afa8db80f9a51787a840bcf111ed8d588caf9ab4be716e42b01")[..] || rsend.ck != isend.ck {
			return Err("responder keys".into());
		}
		n += 1;
		for i in 0..1005 {
			let f = isend.frame(b"hello");
			let want = match i {
				0 => Some("cf2b30ddf0cf3f80e7c35a6e6730b59fe802473180f396d88a8fb0db8cbcf25d2f214cf9ea1d95"),
				1 => Some("72887022101f0b6753e0c7de21657d35a4cb2a1f5cde2650528bbc8f837d0f0d7ad833b1a256a1"),
				500 => Some("178cb9d7387190fa34db9c2d50027d21793c9bc2d40b1e14dcf30ebeeeb220f48364f7a4c68bf8"),
				501 => Some("1b186c57d44eb6de4c057c49940d79bb838a145cb528d6e8fd26dbe50a60ca2c104b56b60e45bd"),
				1000 => Some("4a2f3cc3b5e78ddb83dcb426d9863d9d9a723b0337c89dd0b005d89f8d3c05c52b76b29b740f09"),
				1001 => Some("2ecd8c8a5629d0d02ab457a0fdd0f7b90a192cd46be5ecb6ca570bfc5e268338b1a16cf4ef2d36"),
				_ => None,
			};
			if let Some(w) = want {
				if f != hx(w) {
					return Err(format!("message vector {}", i));
				}
				n += 1;
			}
			let l = rrecv.decrypt(&f[..18]).ok_or("length header does not decrypt")?;
			if l != [0, 5] {
				return Err("length header".into());
			}
			if rrecv.decrypt(&f[18..]).ok_or("body does not decrypt")? != b"hello" {
				return Err("body".into());
			}
		}
		// tamper detection of the reference itself
		let mut f = isend.frame(b"x");
		f[3] ^= 1;
		if rrecv.clone().decrypt(&f[..18]).is_some() {
			return Err("reference accepts a corrupted header".into());
		}
		n += 1;
		Ok(n)
	}
}
use refimpl::{Cipher, Handshake};

// =============================================================================================
// 2. Workload messages, ledgers and the recording handlers
// =============================================================================================
/// Types >= 32768 are claimed by the custom reader except these two (they stay "unknown").
const UNCLAIMED_EVEN: u16 = 40000;
const UNCLAIMED_ODD: u16 = 40001;
/// Claimed types for which the reader itself fails (hostile sessions only).
const POISON_INVALID: u16 = 40003;
const POISON_SHORT: u16 = 40005;
/// Claimed type for which the handler answers with an error action chosen by the first body byte.
const HANDLER_ERR: u16 = 40007;
fn claimed(ty: u16) -> bool {
	ty >= 32768 && ty != UNCLAIMED_EVEN && ty != UNCLAIMED_ODD
}

#[derive(Clone, PartialEq)]
struct CMsg {
	ty: u16,
	body: Vec<u8>,
}
impl std::fmt::Debug for CMsg {
	fn fmt(&self, f: &mut std::fmt::Formatter) -> std::fmt::Result {
		write!(f, "CMsg(type {}, {} bytes)", self.ty, self.body.len())
	}
}
impl Writeable for CMsg {
	fn write<W: Writer>(&self, w: &mut W) -> Result<(), lightning::io::Error> {
		w.write_all(&self.body)
	}
}
impl Type for CMsg {
	fn type_id(&self) -> u16 {
		self.ty
	}
}
impl CMsg {
	fn payload(&self) -> Vec<u8> {
		let mut p = self.ty.to_be_bytes().to_vec();
		p.extend_from_slice(&self.body);
		p
	}
}

#[derive(Clone)]
enum ChanMsg {
	TxAbort(msgs::TxAbort),
	Stfu(msgs::Stfu),
	TxComplete(msgs::TxComplete),
	Shutdown(msgs::Shutdown),
}
impl ChanMsg {
	fn ty_body(&self) -> (u16, Vec<u8>) {
		match self {
			ChanMsg::TxAbort(m) => (m.type_id(), m.encode()),
			ChanMsg::Stfu(m) => (m.type_id(), m.encode()),
			ChanMsg::TxComplete(m) => (m.type_id(), m.encode()),
			ChanMsg::Shutdown(m) => (m.type_id(), m.encode()),
		}
	}
	fn sig(&self) -> Sig {
		let (t, b) = self.ty_body();
		Sig::of(t, &b)
	}
	fn payload(&self) -> Vec<u8> {
		let (t, b) = self.ty_body();
		let mut p = t.to_be_bytes().to_vec();
		p.extend_from_slice(&b);
		p
	}
	fn event(self, node_id: PublicKey) -> MessageSendEvent {
		match self {
			ChanMsg::TxAbort(msg) => MessageSendEvent::SendTxAbort { node_id, msg },
			ChanMsg::Stfu(msg) => MessageSendEvent::SendStfu { node_id, msg },
			ChanMsg::TxComplete(msg) => MessageSendEvent::SendTxComplete { node_id, msg },
			ChanMsg::Shutdown(msg) => MessageSendEvent::SendShutdown { node_id, msg },
		}
	}
	fn workload_types() -> [u16; 4] {
		let z = ChannelId([0; 32]);
		[
			msgs::TxAbort { channel_id: z, data: vec![] }.type_id(),
			msgs::Stfu { channel_id: z, initiator: false }.type_id(),
			msgs::TxComplete { channel_id: z }.type_id(),
			msgs::Shutdown { channel_id: z, scriptpubkey: ScriptBuf::new() }.type_id(),
		]
	}
}

#[derive(Clone, Copy, PartialEq, Eq, Debug)]
struct Sig {
	ty: u16,
	len: u32,
	hash: u64,
}
impl Sig {
	fn of(ty: u16, body: &[u8]) -> Sig {
		Sig { ty, len: body.len() as u32, hash: Fnv::new().bytes(body).get() }
	}
}

#[derive(Default)]
struct Stream {
	sent: Vec<Sig>,
	recv: usize,
	/// set once a fault was handed to the receiver: nothing with index >= limit may be delivered
	limit: Option<usize>,
}
#[derive(Default)]
struct DirLedger {
	custom: Stream,
	chan: Stream,
}

struct Viol {
	rule: &'static str,
	sig: String,
	detail: String,
}

const CUSTOM: usize = 0;
const CHAN: usize = 1;
const ROUTE: usize = 2;

#[derive(Default)]
struct NodeView {
	/// per handler role: peer -> (connection id, our side) as told by peer_connected
	bound: [HashMap<PublicKey, (usize, usize)>; 3],
	/// the connection whose read_event is currently running
	cur: Option<(usize, usize)>,
	custom_out: VecDeque<(PublicKey, CMsg)>,
	chan_out: VecDeque<(PublicKey, ChanMsg)>,
	release_cap: usize,
	/// hand messages to the library even though this handler was not told the peer is connected
	/// (used to check that nothing but Init is transmitted before the peer's Init was processed)
	force_release: bool,
	connects: u64,
	disconnects: u64,
}

struct Shared {
	ledgers: RefCell<HashMap<(usize, usize), DirLedger>>,
	nodes: RefCell<Vec<NodeView>>,
	viol: RefCell<Vec<Viol>>,
	/// hostile reference sessions: channel/routing messages outside the workload are expected
	foreign_ok: Cell<bool>,
	delivered: Cell<u64>,
	foreign_seen: Cell<u64>,
	callbacks_checked: Cell<u64>,
	dropped_unbound: Cell<u64>,
	chan_types: [u16; 4],
}
impl Shared {
	fn violate(&self, rule: &'static str, sig: &str, detail: String) {
		let mut v = self.viol.borrow_mut();
		if v.len() < 20 {
			v.push(Viol { rule, sig: sig.to_string(), detail });
		}
	}
	/// T3: a callback carrying a peer message must come from the connection on which this handler
	/// was told `peer_connected` for that peer.
	fn t3(&self, me: usize, role: usize, who: &PublicKey, what: &str) -> Option<(usize, usize)> {
		self.callbacks_checked.set(self.callbacks_checked.get() + 1);
		let (cur, bound) = {
			let n = self.nodes.borrow();
			(n[me].cur, n[me].bound[role].get(who).cloned())
		};
		let role_name = ["custom", "channel", "routing"][role];
		match (cur, bound) {
			(Some(c), Some(b)) if c == b => Some(c),
			(Some(_), None) => {
				self.violate("T3", &format!("{} handler received a peer message before peer_connected (Init not processed)", role_name), format!("callback {} on node {}", what, me));
				None
			},
			(Some(c), Some(b)) => {
				self.violate("T3", &format!("{} handler received a peer message on a connection other than the one announced by peer_connected", role_name), format!("callback {} on node {}: reading conn {:?}, bound {:?}", what, me, c, b));
				None
			},
			(None, _) => {
				self.violate("T3", &format!("{} handler received a peer message outside read_event", role_name), format!("callback {} on node {}", what, me));
				None
			},
		}
	}
	/// T1/T2: compare an arriving workload message with the sender's ledger.
	fn arrive(&self, me: usize, role: usize, who: &PublicKey, sig: Sig, what: &str) {
		if role == CHAN && self.foreign_ok.get() {
			// hostile reference sessions do not account channel messages
			return self.foreign(me, role, who, what);
		}
		let (conn, side) = match self.t3(me, role, who, what) {
			Some(c) => c,
			// already reported; keep the ledger in step if we at least know the connection
			None => match self.nodes.borrow()[me].cur {
				Some(c) => c,
				None => return,
			},
		};
		let mut l = self.ledgers.borrow_mut();
		let d = l.entry((conn, 1 - side)).or_default();
		let s = if role == CUSTOM { &mut d.custom } else { &mut d.chan };
		let kind = if role == CUSTOM { "custom" } else { "channel" };
		if let Some(lim) = s.limit {
			if s.recv >= lim {
				drop(l);
				self.violate("T2", &format!("a {} message at or after the corrupted position was delivered", kind), format!("conn {} node {} message index >= {} type {} len {}", conn, me, lim, sig.ty, sig.len));
				return;
			}
		}
		match s.sent.get(s.recv) {
			Some(x) if *x == sig => {
				s.recv += 1;
				self.delivered.set(self.delivered.get() + 1);
			},
			exp => {
				let class = if s.sent[..s.recv.min(s.sent.len())].contains(&sig) {
					"duplicate delivery of an earlier message"
				} else if s.sent.contains(&sig) {
					"a message was delivered out of order (earlier messages skipped)"
				} else if exp.map(|e| e.ty == sig.ty && e.len == sig.len).unwrap_or(false) {
					"a message was delivered with altered content"
				} else if exp.is_none() {
					"a message was delivered that the peer never sent"
				} else {
					"a message was delivered that does not match the next message sent"
				};
				let detail = format!("conn {} to node {}: index {} expected {:?} got {:?} (sent {})", conn, me, s.recv, exp, sig, s.sent.len());
				drop(l);
				self.violate("T1", &format!("{} stream: {}", kind, class), detail);
			},
		}
	}
	fn foreign(&self, me: usize, role: usize, who: &PublicKey, what: &str) {
		if self.t3(me, role, who, what).is_none() {
			return;
		}
		self.foreign_seen.set(self.foreign_seen.get() + 1);
		if !self.foreign_ok.get() {
			self.violate("T1", "a message of a kind nobody sent was delivered", format!("callback {} on node {}", what, me));
		}
	}
	fn connected(&self, me: usize, role: usize, who: PublicKey) {
		let mut n = self.nodes.borrow_mut();
		let cur = n[me].cur;
		match cur {
			Some(c) => {
				n[me].bound[role].insert(who, c);
			},
			None => {
				drop(n);
				self.violate("T3", "peer_connected called outside read_event", format!("node {}", me));
				return;
			},
		}
		if role == CUSTOM {
			n[me].connects += 1;
		}
	}
	fn disconnected(&self, me: usize, role: usize, who: PublicKey) {
		let mut n = self.nodes.borrow_mut();
		n[me].bound[role].remove(&who);
		if role == CUSTOM {
			n[me].disconnects += 1;
		}
	}
	fn is_bound(&self, me: usize, role: usize, who: &PublicKey, conn: usize) -> bool {
		self.nodes.borrow()[me].bound[role].get(who).map(|b| b.0 == conn).unwrap_or(false)
	}
}

struct CustomH {
	sh: Rc<Shared>,
	me: usize,
}
impl CustomMessageReader for CustomH {
	type CustomMessage = CMsg;
	fn read<R: LengthLimitedRead>(&self, message_type: u16, buffer: &mut R) -> Result<Option<CMsg>, DecodeError> {
		if !claimed(message_type) {
			return Ok(None);
		}
		if message_type == POISON_INVALID {
			return Err(DecodeError::InvalidValue);
		}
		if message_type == POISON_SHORT {
			return Err(DecodeError::ShortRead);
		}
		let mut body = vec![0u8; buffer.remaining_bytes() as usize];
		buffer.read_exact(&mut body).map_err(|_| DecodeError::ShortRead)?;
		Ok(Some(CMsg { ty: message_type, body }))
	}
}
impl CustomMessageHandler for CustomH {
	fn handle_custom_message(&self, msg: CMsg, sender_node_id: PublicKey) -> Result<(), LightningError> {
		self.sh.arrive(self.me, CUSTOM, &sender_node_id, Sig::of(msg.ty, &msg.body), "handle_custom_message");
		if msg.ty == HANDLER_ERR {
			let w = msgs::WarningMessage { channel_id: ChannelId([7; 32]), data: "harness".to_string() };
			let e = msgs::ErrorMessage { channel_id: ChannelId([7; 32]), data: "harness".to_string() };
			let action = match msg.body.first().cloned().unwrap_or(0) % 7 {
				0 => msgs::ErrorAction::IgnoreError,
				1 => msgs::ErrorAction::IgnoreAndLog(lightning::util::logger::Level::Trace),
				2 => msgs::ErrorAction::IgnoreDuplicateGossip,
				3 => msgs::ErrorAction::SendErrorMessage { msg: e },
				4 => msgs::ErrorAction::SendWarningMessage { msg: w, log_level: lightning::util::logger::Level::Trace },
				5 => msgs::ErrorAction::DisconnectPeer { msg: Some(e) },
				_ => msgs::ErrorAction::DisconnectPeerWithWarning { msg: w },
			};
			return Err(LightningError { err: "harness".to_string(), action });
		}
		Ok(())
	}
	fn get_and_clear_pending_msg(&self) -> Vec<(PublicKey, CMsg)> {
		let mut out = Vec::new();
		let mut nodes = self.sh.nodes.borrow_mut();
		let nv = &mut nodes[self.me];
		let mut ledgers = self.sh.ledgers.borrow_mut();
		let mut left = nv.release_cap;
		while left > 0 {
			let (pk, m) = match nv.custom_out.pop_front() {
				Some(x) => x,
				None => break,
			};
			left -= 1;
			match nv.bound[CUSTOM].get(&pk) {
				Some(&(conn, side)) => {
					ledgers.entry((conn, side)).or_default().custom.sent.push(Sig::of(m.ty, &m.body));
					out.push((pk, m));
				},
				None if nv.force_release => out.push((pk, m)),
				None => self.sh.dropped_unbound.set(self.sh.dropped_unbound.get() + 1),
			}
		}
		out
	}
	fn peer_disconnected(&self, their_node_id: PublicKey) {
		self.sh.disconnected(self.me, CUSTOM, their_node_id);
	}
	fn peer_connected(&self, their_node_id: PublicKey, _msg: &Init, _inbound: bool) -> Result<(), ()> {
		self.sh.connected(self.me, CUSTOM, their_node_id);
		Ok(())
	}
	fn provided_node_features(&self) -> NodeFeatures {
		NodeFeatures::empty()
	}
	fn provided_init_features(&self, _their_node_id: PublicKey) -> InitFeatures {
		InitFeatures::empty()
	}
}

struct ChanH {
	sh: Rc<Shared>,
	me: usize,
	feature_style: u8,
	chains: Option<Vec<ChainHash>>,
}
impl BaseMessageHandler for ChanH {
	fn get_and_clear_pending_msg_events(&self) -> Vec<MessageSendEvent> {
		let mut out = Vec::new();
		let mut nodes = self.sh.nodes.borrow_mut();
		let nv = &mut nodes[self.me];
		let mut ledgers = self.sh.ledgers.borrow_mut();
		let mut left = nv.release_cap;
		while left > 0 {
			let (pk, m) = match nv.chan_out.pop_front() {
				Some(x) => x,
				None => break,
			};
			left -= 1;
			match nv.bound[CHAN].get(&pk) {
				Some(&(conn, side)) => {
					ledgers.entry((conn, side)).or_default().chan.sent.push(m.sig());
					out.push(m.event(pk));
				},
				None if nv.force_release => out.push(m.event(pk)),
				None => self.sh.dropped_unbound.set(self.sh.dropped_unbound.get() + 1),
			}
		}
		out
	}
	fn peer_disconnected(&self, their_node_id: PublicKey) {
		self.sh.disconnected(self.me, CHAN, their_node_id);
	}
	fn provided_node_features(&self) -> NodeFeatures {
		NodeFeatures::empty()
	}
	fn provided_init_features(&self, _their_node_id: PublicKey) -> InitFeatures {
		let mut f = InitFeatures::empty();
		if self.feature_style >= 1 {
			f.set_static_remote_key_optional();
			f.set_variable_length_onion_optional();
		}
		if self.feature_style >= 2 {
			f.set_data_loss_protect_optional();
			f.set_upfront_shutdown_script_optional();
			f.set_payment_secret_optional();
			f.set_basic_mpp_optional();
			f.set_wumbo_optional();
			f.set_channel_type_optional();
			f.set_scid_privacy_optional();
			f.set_zero_conf_optional();
		}
		f
	}
	fn peer_connected(&self, their_node_id: PublicKey, _msg: &Init, _inbound: bool) -> Result<(), ()> {
		self.sh.connected(self.me, CHAN, their_node_id);
		Ok(())
	}
}
macro_rules! foreign_chan {
	($($name:ident : $t:ty),* $(,)?) => {
		$(fn $name(&self, their_node_id: PublicKey, _msg: $t) {
			self.sh.foreign(self.me, CHAN, &their_node_id, stringify!($name));
		})*
	};
}
impl ChannelMessageHandler for ChanH {
	fn handle_tx_abort(&self, their_node_id: PublicKey, msg: &msgs::TxAbort) {
		self.sh.arrive(self.me, CHAN, &their_node_id, ChanMsg::TxAbort(msg.clone()).sig(), "handle_tx_abort");
	}
	fn handle_stfu(&self, their_node_id: PublicKey, msg: &msgs::Stfu) {
		self.sh.arrive(self.me, CHAN, &their_node_id, ChanMsg::Stfu(msg.clone()).sig(), "handle_stfu");
	}
	fn handle_tx_complete(&self, their_node_id: PublicKey, msg: &msgs::TxComplete) {
		self.sh.arrive(self.me, CHAN, &their_node_id, ChanMsg::TxComplete(msg.clone()).sig(), "handle_tx_complete");
	}
	fn handle_shutdown(&self, their_node_id: PublicKey, msg: &msgs::Shutdown) {
		self.sh.arrive(self.me, CHAN, &their_node_id, ChanMsg::Shutdown(msg.clone()).sig(), "handle_shutdown");
	}
	foreign_chan!(
		handle_open_channel: &msgs::OpenChannel,
		handle_open_channel_v2: &msgs::OpenChannelV2,
		handle_accept_channel: &msgs::AcceptChannel,
		handle_accept_channel_v2: &msgs::AcceptChannelV2,
		handle_funding_created: &msgs::FundingCreated,
		handle_funding_signed: &msgs::FundingSigned,
		handle_channel_ready: &msgs::ChannelReady,
		handle_peer_storage: msgs::PeerStorage,
		handle_peer_storage_retrieval: msgs::PeerStorageRetrieval,
		handle_closing_signed: &msgs::ClosingSigned,
		handle_splice_init: &msgs::SpliceInit,
		handle_splice_ack: &msgs::SpliceAck,
		handle_splice_locked: &msgs::SpliceLocked,
		handle_tx_add_input: &msgs::TxAddInput,
		handle_tx_add_output: &msgs::TxAddOutput,
		handle_tx_remove_input: &msgs::TxRemoveInput,
		handle_tx_remove_output: &msgs::TxRemoveOutput,
		handle_tx_signatures: &msgs::TxSignatures,
		handle_tx_init_rbf: &msgs::TxInitRbf,
		handle_tx_ack_rbf: &msgs::TxAckRbf,
		handle_update_add_htlc: &msgs::UpdateAddHTLC,
		handle_update_fulfill_htlc: msgs::UpdateFulfillHTLC,
		handle_update_fail_htlc: &msgs::UpdateFailHTLC,
		handle_update_fail_malformed_htlc: &msgs::UpdateFailMalformedHTLC,
		handle_commitment_signed: &msgs::CommitmentSigned,
		handle_revoke_and_ack: &msgs::RevokeAndACK,
		handle_update_fee: &msgs::UpdateFee,
		handle_announcement_signatures: &msgs::AnnouncementSignatures,
		handle_channel_reestablish: &msgs::ChannelReestablish,
		handle_channel_update: &msgs::ChannelUpdate,
		handle_error: &msgs::ErrorMessage,
	);
	fn handle_commitment_signed_batch(&self, their_node_id: PublicKey, _channel_id: ChannelId, _batch: Vec<msgs::CommitmentSigned>) {
		self.sh.foreign(self.me, CHAN, &their_node_id, "handle_commitment_signed_batch");
	}
	fn get_chain_hashes(&self) -> Option<Vec<ChainHash>> {
		self.chains.clone()
	}
	fn message_received(&self) {}
}

struct RouteH {
	sh: Rc<Shared>,
	me: usize,
}
impl BaseMessageHandler for RouteH {
	fn get_and_clear_pending_msg_events(&self) -> Vec<MessageSendEvent> {
		Vec::new()
	}
	fn peer_disconnected(&self, their_node_id: PublicKey) {
		self.sh.disconnected(self.me, ROUTE, their_node_id);
	}
	fn provided_node_features(&self) -> NodeFeatures {
		NodeFeatures::empty()
	}
	fn provided_init_features(&self, _their_node_id: PublicKey) -> InitFeatures {
		InitFeatures::empty()
	}
	fn peer_connected(&self, their_node_id: PublicKey, _msg: &Init, _inbound: bool) -> Result<(), ()> {
		self.sh.connected(self.me, ROUTE, their_node_id);
		Ok(())
	}
}
impl RoutingMessageHandler for RouteH {
	fn handle_node_announcement(&self, their_node_id: Option<PublicKey>, _msg: &msgs::NodeAnnouncement) -> Result<bool, LightningError> {
		if let Some(pk) = their_node_id {
			self.sh.foreign(self.me, ROUTE, &pk, "handle_node_announcement");
		}
		Ok(false)
	}
	fn handle_channel_announcement(&self, their_node_id: Option<PublicKey>, _msg: &msgs::ChannelAnnouncement) -> Result<bool, LightningError> {
		if let Some(pk) = their_node_id {
			self.sh.foreign(self.me, ROUTE, &pk, "handle_channel_announcement");
		}
		Ok(false)
	}
	fn handle_channel_update(&self, their_node_id: Option<PublicKey>, _msg: &msgs::ChannelUpdate) -> Result<Option<(NodeId, NodeId)>, LightningError> {
		if let Some(pk) = their_node_id {
			self.sh.foreign(self.me, ROUTE, &pk, "route handle_channel_update");
		}
		Ok(None)
	}
	fn get_next_channel_announcement(&self, _starting_point: u64) -> Option<(msgs::ChannelAnnouncement, Option<msgs::ChannelUpdate>, Option<msgs::ChannelUpdate>)> {
		None
	}
	fn get_next_node_announcement(&self, _starting_point: Option<&NodeId>) -> Option<msgs::NodeAnnouncement> {
		None
	}
	fn handle_reply_channel_range(&self, their_node_id: PublicKey, _msg: msgs::ReplyChannelRange) -> Result<(), LightningError> {
		self.sh.foreign(self.me, ROUTE, &their_node_id, "handle_reply_channel_range");
		Ok(())
	}
	fn handle_reply_short_channel_ids_end(&self, their_node_id: PublicKey, _msg: msgs::ReplyShortChannelIdsEnd) -> Result<(), LightningError> {
		self.sh.foreign(self.me, ROUTE, &their_node_id, "handle_reply_short_channel_ids_end");
		Ok(())
	}
	fn handle_query_channel_range(&self, their_node_id: PublicKey, _msg: msgs::QueryChannelRange) -> Result<(), LightningError> {
		self.sh.foreign(self.me, ROUTE, &their_node_id, "handle_query_channel_range");
		Ok(())
	}
	fn handle_query_short_channel_ids(&self, their_node_id: PublicKey, _msg: msgs::QueryShortChannelIds) -> Result<(), LightningError> {
		self.sh.foreign(self.me, ROUTE, &their_node_id, "handle_query_short_channel_ids");
		Ok(())
	}
	fn processing_queue_high(&self) -> bool {
		false
	}
}

// =============================================================================================
// 3. The socket descriptor: a byte queue under the scheduler's control
// =============================================================================================
struct SockSt {
	/// bytes accepted from the library, not yet transported
	outq: VecDeque<u8>,
	accepted_total: u64,
	/// offsets (in accepted bytes) at which the library started a new buffer; used only to aim faults
	unit_starts: Vec<u64>,
	last_call_complete: bool,
	/// bytes send_data may still accept
	budget: usize,
	/// per-call acceptance style: 0 all, 1 random in [0,len], 2 tiny, 3 half of the calls accept nothing
	cap_style: u8,
	rng: Rng,
	owes_write_avail: bool,
	read_paused: bool,
	ldk_disconnected: bool,
	closed: bool,
	send_calls: u64,
	short_writes: u64,
	zero_writes: u64,
	pause_signals: u64,
	empty_calls: u64,
}
#[derive(Clone)]
struct Sock {
	id: u64,
	st: Rc<RefCell<SockSt>>,
}
impl PartialEq for Sock {
	fn eq(&self, o: &Sock) -> bool {
		self.id == o.id
	}
}
impl Eq for Sock {}
impl std::hash::Hash for Sock {
	fn hash<H: std::hash::Hasher>(&self, h: &mut H) {
		self.id.hash(h)
	}
}
impl Sock {
	fn new(id: u64, rng: Rng) -> Sock {
		Sock {
			id,
			st: Rc::new(RefCell::new(SockSt {
				outq: VecDeque::new(),
				accepted_total: 0,
				unit_starts: Vec::new(),
				last_call_complete: true,
				budget: usize::MAX,
				cap_style: 0,
				rng,
				owes_write_avail: false,
				read_paused: false,
				ldk_disconnected: false,
				closed: false,
				send_calls: 0,
				short_writes: 0,
				zero_writes: 0,
				pause_signals: 0,
				empty_calls: 0,
			})),
		}
	}
}
impl SocketDescriptor for Sock {
	fn send_data(&mut self, data: &[u8], continue_read: bool) -> usize {
		let mut s = self.st.borrow_mut();
		s.send_calls += 1;
		if !continue_read && !s.read_paused {
			s.pause_signals += 1;
		}
		s.read_paused = !continue_read;
		if data.is_empty() {
			s.empty_calls += 1;
			return 0;
		}
		if s.closed || s.ldk_disconnected {
			s.owes_write_avail = false;
			return 0;
		}
		let mut n = data.len().min(s.budget);
		let len = data.len() as u64;
		n = match s.cap_style {
			1 => n.min(s.rng.below(len + 1) as usize),
			2 => n.min(1 + s.rng.below(3) as usize),
			3 => {
				if s.rng.chance(1, 2) {
					0
				} else {
					n
				}
			},
			_ => n,
		};
		if s.last_call_complete {
			let at = s.accepted_total;
			if s.unit_starts.len() < 100_000 {
				s.unit_starts.push(at);
			}
		}
		if s.budget != usize::MAX {
			s.budget -= n;
		}
		s.outq.extend(data[..n].iter());
		s.accepted_total += n as u64;
		s.last_call_complete = n == data.len();
		if n < data.len() {
			s.owes_write_avail = true;
			s.short_writes += 1;
			if n == 0 {
				s.zero_writes += 1;
			}
		}
		n
	}
	fn disconnect_socket(&mut self) {
		let mut s = self.st.borrow_mut();
		s.ldk_disconnected = true;
	}
}

// =============================================================================================
// 4. The world: real PeerManagers, connections, guarded calls
// =============================================================================================
type PM = PeerManager<Sock, Rc<ChanH>, Rc<RouteH>, IgnoringMessageHandler, EnvLogger, Rc<CustomH>, Rc<KeysManager>, IgnoringMessageHandler>;

struct Node {
	pm: PM,
	pk: PublicKey,
}

#[derive(Clone, Copy, PartialEq, Debug)]
enum DropWhy {
	/// read_event returned Err
	ReadErr,
	/// the library called disconnect_socket
	LdkDisconnect,
	/// write_buffer_space_avail returned Err
	WriteErr,
	/// the harness reported socket_disconnected
	HarnessEof,
}

struct End {
	/// None: the reference peer
	node: Option<usize>,
	sock: Sock,
	alive: bool,
	dropped: Option<DropWhy>,
	/// bytes handed to read_event on this end
	fed: u64,
}

#[derive(Clone, Debug)]
enum PipeFaultKind {
	Flip(u8),
	Insert(Vec<u8>),
	Delete(usize),
	TruncEof,
	/// re-send the last n bytes once more
	DupTail(usize),
}
struct PipeFault {
	dir: usize,
	at: u64,
	kind: PipeFaultKind,
	applied: bool,
}

struct Conn {
	ends: [End; 2],
	/// a drop of this connection is legitimate (fault, harness disconnect, chaotic ticks, duplicate)
	may_drop: bool,
	fault: Option<PipeFault>,
	/// stream offset per direction (index: sending side)
	taken: [u64; 2],
	hist: [Vec<u8>; 2],
	keep_hist: bool,
	/// damaged before the handshake finished and nothing more can be sent: no final verdict
	skip_final: bool,
}

struct World {
	sh: Rc<Shared>,
	nodes: Vec<Node>,
	conns: Vec<Conn>,
	next_sock: u64,
	poisoned: bool,
	/// the harness ran out of its own step budget: no verdict for this case
	gave_up: bool,
	draining: bool,
	read_calls: u64,
	bytes_moved: u64,
	pauses_ignored: u64,
	ticks: u64,
	trace: VecDeque<String>,
}

impl World {
	fn new(n: usize, rng: &mut Rng) -> World {
		let sh = Rc::new(Shared {
			ledgers: RefCell::new(HashMap::new()),
			nodes: RefCell::new((0..n).map(|_| NodeView { release_cap: usize::MAX, ..Default::default() }).collect()),
			viol: RefCell::new(Vec::new()),
			foreign_ok: Cell::new(false),
			delivered: Cell::new(0),
			foreign_seen: Cell::new(0),
			callbacks_checked: Cell::new(0),
			dropped_unbound: Cell::new(0),
			chan_types: ChanMsg::workload_types(),
		});
		let chain_style = rng.below(3);
		let mut nodes = Vec::new();
		for me in 0..n {
			let seed: [u8; 32] = rng.bytes();
			let keys = Rc::new(KeysManager::new(&seed, 42, 42, true));
			let pk = keys.get_node_id(Recipient::Node).unwrap();
			let chains = match chain_style {
				0 => None,
				_ => Some(vec![ChainHash::using_genesis_block(Network::Testnet)]),
			};
			let mh = MessageHandler {
				chan_handler: Rc::new(ChanH { sh: sh.clone(), me, feature_style: rng.below(3) as u8, chains }),
				route_handler: Rc::new(RouteH { sh: sh.clone(), me }),
				onion_message_handler: IgnoringMessageHandler {},
				custom_message_handler: Rc::new(CustomH { sh: sh.clone(), me }),
				send_only_message_handler: IgnoringMessageHandler {},
			};
			let eph: [u8; 32] = rng.bytes();
			let pm = PeerManager::new(mh, rng.below(1 << 31) as u32, &eph, EnvLogger, keys);
			nodes.push(Node { pm, pk });
		}
		World { sh, nodes, conns: Vec::new(), next_sock: 1, poisoned: false, gave_up: false, draining: false, read_calls: 0, bytes_moved: 0, pauses_ignored: 0, ticks: 0, trace: VecDeque::new() }
	}
	fn log(&mut self, s: String) {
		if self.trace.len() >= 60 {
			self.trace.pop_front();
		}
		self.trace.push_back(s);
	}
	fn panic(&mut self, what: &str, msg: String) {
		self.poisoned = true;
		self.sh.violate("T4", &format!("panic inside {}: {}", what, vcore::canon(&msg)), msg);
	}
	fn new_sock(&mut self, rng: &mut Rng) -> Sock {
		let id = self.next_sock;
		self.next_sock += 1;
		Sock::new(id, Rng::new(rng.next()))
	}
	fn addr(rng: &mut Rng) -> Option<SocketAddress> {
		match rng.below(5) {
			0 => Some(SocketAddress::TcpIpV4 { addr: [8, 8, rng.below(256) as u8, 1], port: 9735 }),
			1 => Some(SocketAddress::TcpIpV4 { addr: [127, 0, 0, 1], port: rng.below(65536) as u16 }),
			2 => Some(SocketAddress::TcpIpV6 { addr: [0x20; 16], port: 1 }),
			3 => Some(SocketAddress::OnionV3 { ed25519_pubkey: rng.bytes(), checksum: 7, version: 3, port: 9735 }),
			_ => None,
		}
	}
	/// Node a connects out to node b. Returns the connection id (side 0 = initiator).
	fn connect(&mut self, a: usize, b: usize, rng: &mut Rng) -> Option<usize> {
		let (sa, sb) = (self.new_sock(rng), self.new_sock(rng));
		let id = self.conns.len();
		let pkb = self.nodes[b].pk;
		let (addr_a, addr_b) = (Self::addr(rng), Self::addr(rng));
		let r = vcore::guarded(|| {
			let act1 = self.nodes[a].pm.new_outbound_connection(pkb, sa.clone(), addr_a);
			let inb = self.nodes[b].pm.new_inbound_connection(sb.clone(), addr_b);
			(act1, inb)
		});
		match r {
			Err(p) => {
				self.panic("new_outbound_connection/new_inbound_connection", p);
				None
			},
			Ok((Ok(act1), Ok(()))) => {
				sa.st.borrow_mut().outq.extend(act1.iter());
				sa.st.borrow_mut().accepted_total += act1.len() as u64;
				self.conns.push(Conn {
					ends: [End { node: Some(a), sock: sa, alive: true, dropped: None, fed: 0 }, End { node: Some(b), sock: sb, alive: true, dropped: None, fed: 0 }],
					may_drop: false,
					fault: None,
					taken: [0, 0],
					hist: [Vec::new(), Vec::new()],
					keep_hist: false,
					skip_final: false,
				});
				self.log(format!("connect {}->{} conn {}", a, b, id));
				Some(id)
			},
			Ok(_) => {
				self.sh.violate("T1", "a new connection was refused", format!("{}->{}", a, b));
				None
			},
		}
	}
	fn sweep(&mut self) {
		for c in self.conns.iter_mut() {
			for e in c.ends.iter_mut() {
				if e.alive && e.node.is_some() && e.sock.st.borrow().ldk_disconnected {
					e.alive = false;
					e.dropped = Some(DropWhy::LdkDisconnect);
				}
			}
		}
	}
	/// Hand bytes to read_event of the given end.
	fn read(&mut self, c: usize, side: usize, data: &[u8]) {
		if self.poisoned || !self.conns[c].ends[side].alive {
			return;
		}
		let node = self.conns[c].ends[side].node.unwrap();
		let mut sock = self.conns[c].ends[side].sock.clone();
		self.sh.nodes.borrow_mut()[node].cur = Some((c, side));
		let r = vcore::guarded(|| self.nodes[node].pm.read_event(&mut sock, data));
		self.sh.nodes.borrow_mut()[node].cur = None;
		self.conns[c].ends[side].fed += data.len() as u64;
		self.read_calls += 1;
		self.bytes_moved += data.len() as u64;
		match r {
			Err(p) => self.panic("read_event", p),
			Ok(Err(_)) => {
				self.conns[c].ends[side].alive = false;
				self.conns[c].ends[side].dropped = Some(DropWhy::ReadErr);
				self.log(format!("read_event conn {} side {} -> Err after {} bytes", c, side, self.conns[c].ends[side].fed));
			},
			Ok(Ok(())) => {},
		}
		self.sweep();
	}
	fn write_avail(&mut self, c: usize, side: usize) {
		if self.poisoned || !self.conns[c].ends[side].alive {
			return;
		}
		let node = self.conns[c].ends[side].node.unwrap();
		let mut sock = self.conns[c].ends[side].sock.clone();
		sock.st.borrow_mut().owes_write_avail = false;
		let r = vcore::guarded(|| self.nodes[node].pm.write_buffer_space_avail(&mut sock));
		match r {
			Err(p) => self.panic("write_buffer_space_avail", p),
			Ok(Err(_)) => {
				self.conns[c].ends[side].alive = false;
				self.conns[c].ends[side].dropped = Some(DropWhy::WriteErr);
			},
			Ok(Ok(())) => {},
		}
		self.sweep();
	}
	fn process(&mut self, node: usize) {
		if self.poisoned {
			return;
		}
		if let Err(p) = vcore::guarded(|| self.nodes[node].pm.process_events()) {
			self.panic("process_events", p);
		}
		self.sweep();
	}
	fn tick(&mut self, node: usize) {
		if self.poisoned {
			return;
		}
		self.ticks += 1;
		if let Err(p) = vcore::guarded(|| self.nodes[node].pm.timer_tick_occurred()) {
			self.panic("timer_tick_occurred", p);
		}
		self.sweep();
	}
	/// The harness reports the socket closed (EOF / reset).
	fn eof(&mut self, c: usize, side: usize) {
		if self.poisoned || !self.conns[c].ends[side].alive {
			return;
		}
		let e = &mut self.conns[c].ends[side];
		e.alive = false;
		e.dropped = Some(DropWhy::HarnessEof);
		e.sock.st.borrow_mut().closed = true;
		if let Some(node) = e.node {
			let sock = e.sock.clone();
			if let Err(p) = vcore::guarded(|| self.nodes[node].pm.socket_disconnected(&sock)) {
				self.panic("socket_disconnected", p);
			}
		}
		self.log(format!("eof conn {} side {}", c, side));
		self.sweep();
	}
	fn disconnect_by_node_id(&mut self, node: usize, peer: PublicKey) {
		if self.poisoned {
			return;
		}
		if let Err(p) = vcore::guarded(|| self.nodes[node].pm.disconnect_by_node_id(peer)) {
			self.panic("disconnect_by_node_id", p);
		}
		self.sweep();
	}
	fn bound_both(&self, c: usize) -> bool {
		let (a, b) = (self.conns[c].ends[0].node.unwrap(), self.conns[c].ends[1].node.unwrap());
		(0..3).all(|role| self.sh.is_bound(a, role, &self.nodes[b].pk, c) && self.sh.is_bound(b, role, &self.nodes[a].pk, c))
	}
	fn freeze(&self, c: usize, dir: usize) {
		let mut l = self.sh.ledgers.borrow_mut();
		let d = l.entry((c, dir)).or_default();
		if d.custom.limit.is_none() {
			d.custom.limit = Some(d.custom.recv);
			d.chan.limit = Some(d.chan.recv);
		}
	}
	/// Move up to k bytes of direction `from` -> other side (library to library connections).
	/// Returns the number of bytes consumed from the sender's queue or inserted by a fault.
	fn deliver(&mut self, c: usize, from: usize, mut k: usize) -> usize {
		let to = 1 - from;
		let avail = self.conns[c].ends[from].sock.st.borrow().outq.len();
		if !self.conns[c].ends[to].alive {
			// receiver gone: bytes vanish
			self.conns[c].ends[from].sock.st.borrow_mut().outq.clear();
			self.conns[c].taken[from] += avail as u64;
			return avail;
		}
		let off = self.conns[c].taken[from];
		let mut flip = None;
		if let Some(f) = self.conns[c].fault.as_mut() {
			if f.dir == from && !f.applied {
				if off < f.at {
					k = k.min((f.at - off) as usize);
				} else {
					let kind = f.kind.clone();
					match kind {
						PipeFaultKind::Flip(mask) => {
							if avail == 0 {
								return 0;
							}
							f.applied = true;
							flip = Some(mask);
							self.freeze(c, from);
						},
						PipeFaultKind::Insert(bytes) => {
							f.applied = true;
							self.freeze(c, from);
							self.log(format!("fault: insert {} bytes at {} conn {} dir {}", bytes.len(), off, c, from));
							self.read(c, to, &bytes);
							return bytes.len();
						},
						PipeFaultKind::Delete(n) => {
							if avail < n + 1 {
								if !self.draining {
									return 0;
								}
								// nothing follows that could reveal the gap: make it a truncation
								f.kind = PipeFaultKind::TruncEof;
								return self.deliver(c, from, k);
							}
							f.applied = true;
							self.freeze(c, from);
							self.log(format!("fault: delete {} bytes at {} conn {} dir {}", n, off, c, from));
							let mut s = self.conns[c].ends[from].sock.st.borrow_mut();
							s.outq.drain(..n);
							drop(s);
							self.conns[c].taken[from] += n as u64;
							return n;
						},
						PipeFaultKind::TruncEof => {
							f.applied = true;
							self.freeze(c, from);
							self.log(format!("fault: truncate+EOF at {} conn {} dir {}", off, c, from));
							self.conns[c].ends[from].sock.st.borrow_mut().outq.clear();
							self.eof(c, to);
							return 1;
						},
						PipeFaultKind::DupTail(n) => {
							let hl = self.conns[c].hist[from].len();
							let n = n.min(hl);
							if n == 0 {
								// nothing was sent yet: there is nothing to replay, the fault is void
								self.conns[c].fault = None;
								return 0;
							}
							self.conns[c].fault.as_mut().unwrap().applied = true;
							self.freeze(c, from);
							let bytes = self.conns[c].hist[from][hl - n..].to_vec();
							self.log(format!("fault: replay last {} bytes at {} conn {} dir {}", n, off, c, from));
							self.read(c, to, &bytes);
							return n;
						},
					}
				}
			}
		}
		let k = k.min(avail);
		if k == 0 {
			return 0;
		}
		let mut data: Vec<u8> = self.conns[c].ends[from].sock.st.borrow_mut().outq.drain(..k).collect();
		if self.conns[c].keep_hist {
			self.conns[c].hist[from].extend_from_slice(&data);
		}
		if let Some(mask) = flip {
			self.log(format!("fault: flip mask {:02x} at {} conn {} dir {}", mask, off, c, from));
			data[0] ^= mask;
		}
		self.conns[c].taken[from] += k as u64;
		self.read(c, to, &data);
		k
	}
	fn fingerprint(&self) -> (u64, u64, usize, usize) {
		let mut acc = 0;
		let mut fed = 0;
		let mut alive = 0;
		for c in &self.conns {
			for e in &c.ends {
				acc += e.sock.st.borrow().accepted_total;
				fed += e.fed;
				alive += e.alive as usize;
			}
		}
		let pending: usize = self.sh.nodes.borrow().iter().map(|n| n.custom_out.len() + n.chan_out.len()).sum();
		(acc, fed, alive, pending)
	}
	/// Run everything to quiescence with generous buffers (pauses are honoured, so a library that
	/// never resumes reading shows up as a stall). Returns false if no quiescence was reached.
	fn drain(&mut self, rng: &mut Rng) -> bool {
		self.draining = true;
		let r = self.drain_inner(rng);
		self.draining = false;
		r
	}
	fn drain_inner(&mut self, rng: &mut Rng) -> bool {
		for _round in 0..400 {
			if self.poisoned {
				return true;
			}
			let before = self.fingerprint();
			for n in 0..self.nodes.len() {
				self.sh.nodes.borrow_mut()[n].release_cap = usize::MAX;
				self.process(n);
			}
			for c in 0..self.conns.len() {
				for side in 0..2 {
					if !self.conns[c].ends[side].alive || self.conns[c].ends[side].node.is_none() {
						continue;
					}
					let owes = {
						let mut s = self.conns[c].ends[side].sock.st.borrow_mut();
						s.budget = usize::MAX;
						s.cap_style = 0;
						s.owes_write_avail
					};
					if owes {
						self.write_avail(c, side);
					}
				}
			}
			let mut blocked = false;
			for c in 0..self.conns.len() {
				for from in 0..2 {
					loop {
						let (avail, paused) = {
							let to = &self.conns[c].ends[1 - from];
							(self.conns[c].ends[from].sock.st.borrow().outq.len(), to.alive && to.sock.st.borrow().read_paused)
						};
						let fault_pending = self.conns[c].fault.as_ref().map(|f| f.dir == from && !f.applied && self.conns[c].taken[from] >= f.at).unwrap_or(false);
						if avail == 0 && !fault_pending {
							break;
						}
						if paused {
							blocked = true;
							break;
						}
						let k = 1 + rng.below(8192) as usize;
						if self.deliver(c, from, k) == 0 {
							break;
						}
					}
				}
			}
			// a dead end means EOF for the other one (after the bytes in flight)
			for c in 0..self.conns.len() {
				for side in 0..2 {
					if !self.conns[c].ends[side].alive && self.conns[c].ends[1 - side].alive && self.conns[c].ends[1 - side].node.is_some() {
						self.eof(c, 1 - side);
					}
				}
			}
			let after = self.fingerprint();
			let inflight: usize = self.conns.iter().map(|c| c.ends.iter().map(|e| if e.node.is_some() { e.sock.st.borrow().outq.len() } else { 0 }).sum::<usize>()).sum();
			if before == after && !blocked && inflight == 0 {
				return true;
			}
		}
		false
	}
	/// Everything the handlers released on connections that are still up has arrived and nothing is
	/// waiting in the handlers' out boxes.
	fn all_delivered(&self) -> bool {
		if self.sh.nodes.borrow().iter().any(|n| !n.custom_out.is_empty() || !n.chan_out.is_empty()) {
			return false;
		}
		let l = self.sh.ledgers.borrow();
		for (c, conn) in self.conns.iter().enumerate() {
			if !conn.ends[0].alive || !conn.ends[1].alive {
				continue;
			}
			for dir in 0..2 {
				if let Some(d) = l.get(&(c, dir)) {
					if d.custom.recv != d.custom.sent.len() || d.chan.recv != d.chan.sent.len() {
						return false;
					}
				}
			}
		}
		true
	}
	fn take_violations(&mut self) -> Vec<Viol> {
		std::mem::take(&mut *self.sh.viol.borrow_mut())
	}
}

// =============================================================================================
// 5. Generators and reporting helpers
// =============================================================================================
const BOUNDARY_SIZES: &[usize] = &[
	0, 1, 2, 3, 14, 15, 16, 17, 18, 19, 30, 31, 32, 33, 34, 48, 49, 50, 51, 63, 64, 65, 66, 67, 2010, 2011, 2012, 2013, 2014, 2028, 2029, 2030, 2031, 2032, 2044, 2045, 2046, 2047, 2048, 2049, 4076, 4077, 4078, 4079, 4080, 4094, 4095, 4096,
	4097, 8156, 8157, 8158, 8159, 8160, 8172, 8173, 8174, 8175, 8176, 8177, 8190, 8191, 8192, 8193, 16384, 32767, 32768, 65499, 65500, 65501, 65515, 65516, 65517, 65518, 65519, 65531, 65532, 65533,
];
const MAX_BODY: usize = 65533;
/// style 0: tiny; 1: mostly small with boundaries; 2: large
fn pick_size(rng: &mut Rng, style: u8) -> usize {
	match style {
		0 => {
			if rng.chance(1, 200) {
				*rng.pick(BOUNDARY_SIZES)
			} else {
				rng.below(41) as usize
			}
		},
		1 => match rng.below(20) {
			0..=10 => rng.below(65) as usize,
			11..=14 => rng.below(600) as usize,
			15..=16 => *rng.pick(&[2000usize, 4060, 8140]) + rng.below(80) as usize,
			17 => rng.below(20000) as usize,
			_ => *rng.pick(BOUNDARY_SIZES),
		},
		_ => match rng.below(4) {
			0 => 65400 + rng.below(134) as usize,
			1 => rng.below(MAX_BODY as u64 + 1) as usize,
			2 => *rng.pick(BOUNDARY_SIZES),
			_ => rng.below(3000) as usize,
		},
	}
}
const HONEST_TYPES: &[u16] = &[32769, 32771, 43211, 65535, 32769, 50001, 32768, 65534];
fn rvec(rng: &mut Rng, n: impl FnOnce(&mut Rng) -> usize) -> Vec<u8> {
	let n = n(rng);
	rng.vec(n)
}
fn gen_custom(rng: &mut Rng, style: u8) -> CMsg {
	let n = pick_size(rng, style).min(MAX_BODY);
	CMsg { ty: *rng.pick(HONEST_TYPES), body: rng.vec(n) }
}
fn gen_chan(rng: &mut Rng, style: u8) -> ChanMsg {
	let channel_id = ChannelId(rng.bytes());
	match rng.below(5) {
		0 | 1 => ChanMsg::TxAbort(msgs::TxAbort { channel_id, data: rvec(rng, |r| pick_size(r, style).min(65499)) }),
		2 => ChanMsg::Stfu(msgs::Stfu { channel_id, initiator: rng.chance(1, 2) }),
		3 => ChanMsg::TxComplete(msgs::TxComplete { channel_id }),
		_ => ChanMsg::Shutdown(msgs::Shutdown { channel_id, scriptpubkey: ScriptBuf::from_bytes(rvec(rng, |r| r.below(60) as usize)) }),
	}
}
/// How many bytes to move in one read_event.
fn chunk(rng: &mut Rng, style: u8) -> usize {
	match style {
		0 => 1,
		1 => 1 + rng.below(7) as usize,
		2 => 1 + rng.below(64) as usize,
		3 => 1 + rng.below(4096) as usize,
		4 => usize::MAX,
		5 => *rng.pick(&[15usize, 16, 17, 18, 19, 33, 34, 35, 49, 50, 51, 65, 66, 67, 2, 1]),
		_ => {
			let s = rng.below(6) as u8;
			chunk(rng, s)
		},
	}
}
fn set_write_style(s: &mut SockSt, rng: &mut Rng, style: u8) {
	let style = if style >= 5 { rng.below(5) as u8 } else { style };
	match style {
		0 => {
			s.budget = usize::MAX;
			s.cap_style = 0;
		},
		1 => {
			s.budget = *rng.pick(&[0usize, 0, 1, 2, 17, 18, 19, 49, 50, 51, 66, 100, 1000, 5000, 70000]);
			s.cap_style = 0;
		},
		2 => {
			s.budget = usize::MAX;
			s.cap_style = 1;
		},
		3 => {
			s.budget = usize::MAX;
			s.cap_style = 2;
		},
		_ => {
			s.budget = usize::MAX;
			s.cap_style = 3;
		},
	}
}

struct Ctx<'a> {
	args: &'a Args,
	idx: u64,
	family: &'static str,
}
fn flush_violations(cx: &Ctx, rep: &mut Report, w: &mut World, params: &Json) -> bool {
	let v = w.take_violations();
	if w.gave_up {
		rep.inconclusive(format!("{} case {}: the harness step budget was exhausted", cx.family, cx.idx));
		return true;
	}
	let any = !v.is_empty();
	for (i, x) in v.into_iter().enumerate() {
		let body = Json::obj()
			.set("property", "C15")
			.set("rule", x.rule)
			.set("seed", cx.args.seed)
			.set("case", cx.idx)
			.set("family", cx.family)
			.set("replay_hint", format!("rerun with --seed {} only={}", cx.args.seed, cx.idx))
			.set("params", params.clone())
			.set("signature", x.sig.as_str())
			.set("detail", x.detail.as_str())
			.set("trace_tail", w.trace.iter().cloned().collect::<Vec<String>>());
		let path = cx.args.write_replay(&format!("{}-seed{}-case{}-{}", x.rule, cx.args.seed, cx.idx, i), &body);
		rep.violation("C15", x.rule, &x.sig, format!("[{} case {}] {}", cx.family, cx.idx, x.detail), Some(path));
	}
	any
}
fn harvest_sock_stats(rep: &mut Report, w: &World) {
	for c in &w.conns {
		for e in &c.ends {
			if e.node.is_none() {
				continue;
			}
			let s = e.sock.st.borrow();
			rep.add("send_data_calls", s.send_calls);
			rep.add("short_writes", s.short_writes);
			rep.add("zero_writes", s.zero_writes);
			rep.add("read_pause_signals", s.pause_signals);
		}
	}
	rep.add("read_event_calls", w.read_calls);
	rep.add("bytes_transported", w.bytes_moved);
	rep.add("read_pauses_ignored", w.pauses_ignored);
	rep.add("timer_ticks", w.ticks);
	rep.add("messages_delivered_checked", w.sh.delivered.get());
	rep.add("handler_callbacks_checked", w.sh.callbacks_checked.get());
}

// =============================================================================================
// 6. Family A: library <-> library under a chaotic scheduler (T1, weak T2, T3)
// =============================================================================================
struct Plan {
	conn: usize,
	side: usize,
	custom_left: usize,
	chan_left: usize,
}

/// Final verdicts for every library<->library connection once the world is quiescent.
fn final_checks(w: &mut World, rep: &mut Report, quiescent: bool) {
	if w.poisoned {
		return;
	}
	if !quiescent {
		w.sh.violate("T1", "the connection stalls: no quiescence although every buffer was offered unlimited space", String::new());
		return;
	}
	for c in 0..w.conns.len() {
		if w.conns[c].skip_final {
			continue;
		}
		let alive_both = w.conns[c].ends[0].alive && w.conns[c].ends[1].alive;
		let fault_applied = w.conns[c].fault.as_ref().map(|f| f.applied).unwrap_or(false);
		if !alive_both {
			if !w.conns[c].may_drop {
				let why = format!("{:?}/{:?}", w.conns[c].ends[0].dropped, w.conns[c].ends[1].dropped);
				w.sh.violate("T1", "the library dropped a fault-free connection", format!("conn {} reasons {} fed {}/{}", c, why, w.conns[c].ends[0].fed, w.conns[c].ends[1].fed));
			} else {
				rep.count("legitimate_drops");
				if fault_applied {
					rep.count("pipe_faults_detected");
				}
			}
			continue;
		}
		if fault_applied {
			let f = w.conns[c].fault.as_ref().unwrap();
			w.sh.violate("T2", &format!("a corrupted byte stream was accepted: connection still up at quiescence after {}", match f.kind {
				PipeFaultKind::Flip(_) => "a bit flip",
				PipeFaultKind::Insert(_) => "inserted bytes",
				PipeFaultKind::Delete(_) => "deleted bytes",
				PipeFaultKind::TruncEof => "truncation",
				PipeFaultKind::DupTail(_) => "replayed bytes",
			}), format!("conn {} dir {} offset {} kind {:?}", c, f.dir, f.at, f.kind));
			continue;
		}
		if !w.bound_both(c) {
			w.sh.violate("T1", "handshake and Init exchange did not complete on a fault-free connection", format!("conn {}", c));
			continue;
		}
		let mut complete = true;
		for dir in 0..2 {
			let mut lost = Vec::new();
			if let Some(d) = w.sh.ledgers.borrow().get(&(c, dir)) {
				for (name, s) in [("custom", &d.custom), ("channel", &d.chan)] {
					if s.recv != s.sent.len() {
						lost.push((name, format!("conn {} dir {}: {} of {} {} messages arrived", c, dir, s.recv, s.sent.len(), name)));
					}
				}
			}
			for (name, detail) in lost {
				complete = false;
				w.sh.violate("T1", &format!("{} messages were lost on a live fault-free connection", name), detail);
			}
		}
		if complete {
			rep.count("connections_fully_delivered");
			let l = w.sh.ledgers.borrow();
			let per_dir: Vec<usize> = (0..2).map(|d| l.get(&(c, d)).map(|x| x.custom.recv + x.chan.recv).unwrap_or(0)).collect();
			let rot = per_dir.iter().map(|n| (*n as u64 * 2) / 1000).min().unwrap_or(0);
			rep.max("key_rotations_each_direction_one_connection", rot);
			rep.add("key_rotations_crossed", per_dir.iter().map(|n| (*n as u64 * 2) / 1000).sum());
			if rot >= 2 {
				rep.count("connections_two_rotations_each_direction");
			}
			rep.max("messages_one_direction", *per_dir.iter().max().unwrap() as u64);
		}
	}
}

fn chaos_case(args: &Args, idx: u64, rng: &mut Rng, rep: &mut Report, long: bool) {
	let cx = Ctx { args, idx, family: if long { "chaos-long" } else { "chaos" } };
	let n_nodes = if !long && rng.chance(1, 4) { 3 } else { 2 };
	let mut w = World::new(n_nodes, rng);
	let frag = rng.below(7) as u8;
	let wstyle = *rng.pick(&[0u8, 0, 1, 1, 2, 3, 4, 5, 5]);
	let honor = *rng.pick(&[2u8, 2, 1, 1, 0]);
	// 0 none, 1 at quiescent points only, 2 chaotic
	let ticks = if long { rng.below(2) as u8 } else { *rng.pick(&[0u8, 0, 1, 1, 1, 2]) };
	let size_style = if long { 0 } else { *rng.pick(&[0u8, 1, 1, 1, 1, 2]) };
	let per_dir = if long {
		if rng.chance(1, 2) {
			1050 + rng.below(300) as usize
		} else {
			2100 + rng.below(200) as usize
		}
	} else if size_style == 2 {
		1 + rng.below(5) as usize
	} else {
		rng.below(40) as usize
	};
	let with_chan = rng.chance(2, 3);
	let burst_max = if long { 400 } else { 12 };
	// exceptional events, at most one of them per case
	let special = if long { 0 } else { *rng.pick(&[0u8, 0, 0, 0, 1, 1, 1, 2, 2, 3]) }; // 1 pipe fault, 2 harness disconnect (+ reconnect), 3 duplicate connection
	let params = Json::obj()
		.set("nodes", n_nodes)
		.set("frag", frag)
		.set("write_style", wstyle)
		.set("honor_pause", honor)
		.set("ticks", ticks)
		.set("size_style", size_style)
		.set("per_dir", per_dir)
		.set("chan_msgs", with_chan)
		.set("special", special);
	rep.distinct(Fnv::new().str(cx.family).u64(n_nodes as u64).u64(frag as u64).u64(wstyle as u64).u64(honor as u64).u64(ticks as u64).u64(size_style as u64).u64(special as u64).u64(with_chan as u64).get());

	let mut pairs: Vec<(usize, usize)> = vec![(0, 1)];
	if n_nodes == 3 {
		pairs.push((1, 2));
		if rng.chance(1, 2) {
			pairs.push((2, 0));
		}
	}
	let mut plans: Vec<Plan> = Vec::new();
	for (a, b) in pairs.iter().cloned() {
		let (a, b) = if rng.chance(1, 2) { (a, b) } else { (b, a) };
		if let Some(c) = w.connect(a, b, rng) {
			w.conns[c].may_drop = ticks == 2;
			for side in 0..2 {
				let n = if rng.chance(1, 6) { 0 } else { per_dir };
				let nc = if with_chan { (n / 3).max(1) } else { 0 };
				plans.push(Plan { conn: c, side, custom_left: n - n.min(nc), chan_left: nc });
			}
		}
	}
	let fault_conn = 0usize;
	if special == 1 && !w.conns.is_empty() {
		w.conns[fault_conn].keep_hist = true;
		w.conns[fault_conn].may_drop = true;
	}
	let mut special_done = special == 0;
	let mut dead_pair: Option<(usize, usize)> = None;
	let max_steps: u64 = if long { 600_000 } else { 150_000 };
	let mut steps = 0u64;
	while steps < max_steps && !w.poisoned {
		steps += 1;
		let all_done = plans.iter().all(|p| (p.custom_left == 0 && p.chan_left == 0) || !w.conns[p.conn].ends[0].alive || !w.conns[p.conn].ends[1].alive);
		if all_done && special_done && (steps % 8 == 0) && w.all_delivered() {
			break;
		}
		match rng.weighted(&[40, 14, 14, 10, 2]) {
			0 => {
				// transport
				let c = rng.below(w.conns.len() as u64) as usize;
				let from = rng.below(2) as usize;
				let to = 1 - from;
				let paused = w.conns[c].ends[to].alive && w.conns[c].ends[to].sock.st.borrow().read_paused;
				if paused {
					let skip = match honor {
						2 => true,
						1 => !rng.chance(1, 8),
						_ => false,
					};
					if skip {
						continue;
					}
					if w.conns[c].ends[from].sock.st.borrow().outq.len() > 0 {
						w.pauses_ignored += 1;
					}
				}
				let k = chunk(rng, frag);
				w.deliver(c, from, k);
			},
			1 => {
				let c = rng.below(w.conns.len() as u64) as usize;
				let side = rng.below(2) as usize;
				if !w.conns[c].ends[side].alive {
					continue;
				}
				let (owes, room) = {
					let mut s = w.conns[c].ends[side].sock.st.borrow_mut();
					set_write_style(&mut s, rng, wstyle);
					(s.owes_write_avail, s.budget > 0)
				};
				if (owes && room) || rng.chance(1, 16) {
					w.write_avail(c, side);
				}
			},
			2 => {
				let n = rng.below(n_nodes as u64) as usize;
				w.sh.nodes.borrow_mut()[n].release_cap = if rng.chance(9, 10) { usize::MAX } else { 1 + rng.below(5) as usize };
				w.process(n);
			},
			3 => {
				if plans.is_empty() {
					continue;
				}
				let pi = rng.below(plans.len() as u64) as usize;
				let p = &mut plans[pi];
				let me = w.conns[p.conn].ends[p.side].node.unwrap();
				let peer = w.nodes[w.conns[p.conn].ends[1 - p.side].node.unwrap()].pk;
				let burst = 1 + rng.below(burst_max) as usize;
				if p.custom_left > 0 && w.sh.is_bound(me, CUSTOM, &peer, p.conn) && rng.chance(2, 3) {
					let k = burst.min(p.custom_left);
					p.custom_left -= k;
					let mut nv = w.sh.nodes.borrow_mut();
					for _ in 0..k {
						nv[me].custom_out.push_back((peer, gen_custom(rng, size_style)));
					}
				} else if p.chan_left > 0 && w.sh.is_bound(me, CHAN, &peer, p.conn) {
					let k = burst.min(p.chan_left);
					p.chan_left -= k;
					let mut nv = w.sh.nodes.borrow_mut();
					for _ in 0..k {
						nv[me].chan_out.push_back((peer, gen_chan(rng, size_style)));
					}
				}
			},
			_ => {
				// exceptional events
				if ticks == 2 && rng.chance(1, 3) {
					let n = rng.below(n_nodes as u64) as usize;
					w.tick(n);
					continue;
				}
				if ticks == 1 && rng.chance(1, 40) {
					let q = w.drain(rng);
					if !q {
						break;
					}
					for n in 0..n_nodes {
						w.tick(n);
					}
					w.drain(rng);
					rep.count("quiescent_tick_rounds");
					continue;
				}
				if special_done || w.conns.is_empty() {
					// reconnect a pair whose connection is completely gone
					if let Some((a, b)) = dead_pair.take() {
						if let Some(c) = w.connect(a, b, rng) {
							w.conns[c].may_drop = ticks == 2;
							let n = 1 + rng.below(10) as usize;
							plans.push(Plan { conn: c, side: 0, custom_left: n, chan_left: if with_chan { 2 } else { 0 } });
							plans.push(Plan { conn: c, side: 1, custom_left: n, chan_left: 0 });
							rep.count("reconnections");
						}
					}
					continue;
				}
				let c = fault_conn;
				if !w.bound_both(c) && rng.chance(3, 4) {
					continue;
				}
				special_done = true;
				match special {
					1 => {
						let dir = rng.below(2) as usize;
						let (taken, inflight) = (w.conns[c].taken[dir], w.conns[c].ends[dir].sock.st.borrow().outq.len() as u64);
						// aim at a frame start (length header) half of the time
						let starts: Vec<u64> = w.conns[c].ends[dir].sock.st.borrow().unit_starts.iter().cloned().filter(|s| *s >= taken).collect();
						let at = if !starts.is_empty() && rng.chance(1, 2) { *rng.pick(&starts) + *rng.pick(&[0u64, 0, 1, 17, 18, 19]) } else { taken + rng.below(inflight + 120) };
						let kind = match rng.below(6) {
							0 | 1 => PipeFaultKind::Flip(1 << rng.below(8)),
							2 => PipeFaultKind::Insert(rvec(rng, |r| 1 + r.below(40) as usize)),
							3 => PipeFaultKind::Delete(1 + rng.below(40) as usize),
							4 => PipeFaultKind::TruncEof,
							_ => PipeFaultKind::DupTail(*rng.pick(&[18usize, 34, 36, 50, 66, 100])),
						};
						w.log(format!("armed fault {:?} at {} dir {}", kind, at, dir));
						w.conns[c].fault = Some(PipeFault { dir, at, kind, applied: false });
						// make sure the stream continues past the fault so that the receiver has to decide
						let me = w.conns[c].ends[dir].node.unwrap();
						let peer = w.nodes[w.conns[c].ends[1 - dir].node.unwrap()].pk;
						if w.sh.is_bound(me, CUSTOM, &peer, c) {
							let mut nv = w.sh.nodes.borrow_mut();
							for _ in 0..4 {
								nv[me].custom_out.push_back((peer, CMsg { ty: 32769, body: rvec(rng, |r| 100 + r.below(200) as usize) }));
							}
						}
						rep.count("pipe_faults_armed");
					},
					2 => {
						w.conns[c].may_drop = true;
						let side = rng.below(2) as usize;
						if rng.chance(1, 2) {
							let node = w.conns[c].ends[side].node.unwrap();
							let peer = w.nodes[w.conns[c].ends[1 - side].node.unwrap()].pk;
							w.disconnect_by_node_id(node, peer);
							rep.count("disconnect_by_node_id_calls");
						} else {
							w.eof(c, side);
							rep.count("harness_eofs");
						}
						// the other side learns about it now or later
						if rng.chance(1, 2) {
							w.drain(rng);
						}
						let (a, b) = (w.conns[c].ends[0].node.unwrap(), w.conns[c].ends[1].node.unwrap());
						if rng.chance(2, 3) {
							// reconnect only once both ends are gone, otherwise the new connection
							// may legitimately be refused as a duplicate
							w.drain(rng);
							if !w.conns[c].ends[0].alive && !w.conns[c].ends[1].alive {
								dead_pair = Some(if rng.chance(1, 2) { (a, b) } else { (b, a) });
							}
						}
					},
					_ => {
						// a second connection between two peers that are fully connected: the new one
						// may be refused, the old one must not suffer
						if !w.bound_both(c) {
							if rng.chance(1, 3) {
								// racing handshakes between the same two nodes: either may lose
								w.conns[c].may_drop = true;
								rep.count("racing_connections");
							} else {
								special_done = false;
								continue;
							}
						}
						let (a, b) = (w.conns[c].ends[0].node.unwrap(), w.conns[c].ends[1].node.unwrap());
						let (a, b) = if rng.chance(1, 2) { (a, b) } else { (b, a) };
						if let Some(d) = w.connect(a, b, rng) {
							w.conns[d].may_drop = true;
							rep.count("duplicate_connections");
						}
					},
				}
			},
		}
	}
	rep.add("scheduler_steps", steps);
	// settle: everything still planned is queued now, then run to quiescence
	let mut q = w.drain(rng);
	for p in plans.iter_mut() {
		let me = w.conns[p.conn].ends[p.side].node.unwrap();
		let peer = w.nodes[w.conns[p.conn].ends[1 - p.side].node.unwrap()].pk;
		if w.sh.is_bound(me, CUSTOM, &peer, p.conn) {
			let mut nv = w.sh.nodes.borrow_mut();
			for _ in 0..p.custom_left {
				nv[me].custom_out.push_back((peer, gen_custom(rng, size_style)));
			}
			for _ in 0..p.chan_left {
				nv[me].chan_out.push_back((peer, gen_chan(rng, size_style)));
			}
		}
	}
	q &= w.drain(rng);
	if ticks == 1 && q {
		for _ in 0..1 + rng.below(3) {
			for n in 0..n_nodes {
				w.tick(n);
			}
			q &= w.drain(rng);
			rep.count("quiescent_tick_rounds");
		}
	}
	// a stream damaged in flight: make sure enough bytes follow for the receiver to notice
	let mut undecided = Vec::new();
	for c in 0..w.conns.len() {
		let dir = match w.conns[c].fault.as_ref() {
			Some(f) if f.applied && w.conns[c].ends[0].alive && w.conns[c].ends[1].alive => f.dir,
			_ => continue,
		};
		let me = w.conns[c].ends[dir].node.unwrap();
		let peer = w.nodes[w.conns[c].ends[1 - dir].node.unwrap()].pk;
		if w.sh.is_bound(me, CUSTOM, &peer, c) {
			let mut nv = w.sh.nodes.borrow_mut();
			for _ in 0..4 {
				nv[me].custom_out.push_back((peer, CMsg { ty: 32769, body: rng.vec(300) }));
			}
		} else {
			undecided.push(c);
		}
	}
	q &= w.drain(rng);
	for c in undecided {
		if w.conns[c].ends[0].alive && w.conns[c].ends[1].alive {
			// the damaged side never got far enough to send more: silence is all one can ask for
			w.conns[c].skip_final = true;
			rep.count("pipe_faults_undecided");
		}
	}
	final_checks(&mut w, rep, q);
	if w.conns.iter().any(|c| c.fault.as_ref().map(|f| f.applied).unwrap_or(false)) {
		rep.count("pipe_faults_injected");
	}
	harvest_sock_stats(rep, &w);
	rep.count(if long { "cases_chaos_long" } else { "cases_chaos" });
	rep.add("connections_opened", w.conns.len() as u64);
	flush_violations(&cx, rep, &mut w, &params);
	if rep.samples.len() < rep.max_samples && rng.chance(1, 30) {
		rep.sample(Json::obj().set("family", cx.family).set("case", idx).set("params", params).set("steps", steps).set("delivered", w.sh.delivered.get()));
	}
}

// =============================================================================================
// 7. The reference peer and sessions library <-> reference
// =============================================================================================
#[derive(PartialEq, Clone, Copy, Debug)]
enum RStage {
	WaitAct1,
	WaitAct2,
	WaitAct3,
	Transport,
	Broken,
}
enum REvent {
	SendAct(Vec<u8>),
	HandshakeDone,
	Msg(u16, Vec<u8>),
}
struct RefPeer {
	hs: Handshake,
	send: Option<Cipher>,
	recv: Option<Cipher>,
	stage: RStage,
	inbuf: Vec<u8>,
	body_len: Option<usize>,
	frames_ok: u64,
	error: Option<String>,
}
impl RefPeer {
	fn new(initiator: bool, s: SecretKey, e: SecretKey, remote: PublicKey) -> RefPeer {
		let hs = if initiator { Handshake::new_initiator(s, e, remote) } else { Handshake::new_responder(s, e) };
		RefPeer { hs, send: None, recv: None, stage: if initiator { RStage::WaitAct2 } else { RStage::WaitAct1 }, inbuf: Vec::new(), body_len: None, frames_ok: 0, error: None }
	}
	fn fail(&mut self, e: String) {
		self.stage = RStage::Broken;
		self.error = Some(e);
	}
	fn feed(&mut self, data: &[u8]) -> Vec<REvent> {
		let mut ev = Vec::new();
		self.inbuf.extend_from_slice(data);
		loop {
			match self.stage {
				RStage::Broken => {
					self.inbuf.clear();
					return ev;
				},
				RStage::WaitAct1 => {
					if self.inbuf.len() < 50 {
						return ev;
					}
					let act: Vec<u8> = self.inbuf.drain(..50).collect();
					match self.hs.read_act_one(&act) {
						Ok(()) => {
							ev.push(REvent::SendAct(self.hs.act_two()));
							self.stage = RStage::WaitAct3;
						},
						Err(e) => self.fail(format!("act one of the library rejected by the reference: {}", e)),
					}
				},
				RStage::WaitAct2 => {
					if self.inbuf.len() < 50 {
						return ev;
					}
					let act: Vec<u8> = self.inbuf.drain(..50).collect();
					match self.hs.read_act_two(&act) {
						Ok(()) => {
							let (a3, s, r) = self.hs.act_three();
							self.send = Some(s);
							self.recv = Some(r);
							ev.push(REvent::SendAct(a3));
							ev.push(REvent::HandshakeDone);
							self.stage = RStage::Transport;
						},
						Err(e) => self.fail(format!("act two of the library rejected by the reference: {}", e)),
					}
				},
				RStage::WaitAct3 => {
					if self.inbuf.len() < 66 {
						return ev;
					}
					let act: Vec<u8> = self.inbuf.drain(..66).collect();
					match self.hs.read_act_three(&act) {
						Ok((s, r)) => {
							self.send = Some(s);
							self.recv = Some(r);
							ev.push(REvent::HandshakeDone);
							self.stage = RStage::Transport;
						},
						Err(e) => self.fail(format!("act three of the library rejected by the reference: {}", e)),
					}
				},
				RStage::Transport => match self.body_len {
					None => {
						if self.inbuf.len() < 18 {
							return ev;
						}
						let h: Vec<u8> = self.inbuf.drain(..18).collect();
						match self.recv.as_mut().unwrap().decrypt(&h) {
							Some(l) => self.body_len = Some(u16::from_be_bytes([l[0], l[1]]) as usize),
							None => {
								let n = self.frames_ok;
								self.fail(format!("length header of frame {} sent by the library does not authenticate under the reference keys", n));
							},
						}
					},
					Some(l) => {
						if self.inbuf.len() < l + 16 {
							return ev;
						}
						let b: Vec<u8> = self.inbuf.drain(..l + 16).collect();
						match self.recv.as_mut().unwrap().decrypt(&b) {
							Some(p) => {
								self.body_len = None;
								self.frames_ok += 1;
								if p.len() < 2 {
									self.fail("the library sent a message without a type".to_string());
								} else {
									ev.push(REvent::Msg(u16::from_be_bytes([p[0], p[1]]), p[2..].to_vec()));
								}
							},
							None => {
								let n = self.frames_ok;
								self.fail(format!("body of frame {} sent by the library does not authenticate under the reference keys", n));
							},
						}
					},
				},
			}
		}
	}
}

#[derive(Clone, Debug)]
enum MutKind {
	Flip { off: usize, mask: u8 },
	Trunc { off: usize },
	Insert { off: usize, bytes: Vec<u8> },
	Delete { off: usize, len: usize },
	/// send this instead of the unit (garbage acts); `need` = bytes the library reads before deciding
	Replace { bytes: Vec<u8>, need: usize },
	ReplayBefore { which: usize },
	Dup,
	SwapNext,
}
#[derive(Clone, Debug)]
struct Mutation {
	unit: usize,
	kind: MutKind,
}
#[derive(Clone, Debug)]
struct Applied {
	/// first offset at which the stream handed to the library differs from the honest stream
	o_star: u64,
	/// number of bytes after which the library has everything it needs to notice; None: plain EOF
	decision: Option<u64>,
}
struct Unit {
	bytes: Vec<u8>,
}

fn init_payload(features: &[u8], networks: Option<&[[u8; 32]]>, extra_tlv: Option<(u8, &[u8])>) -> Vec<u8> {
	let mut p = vec![0u8, 16, 0, 0];
	p.extend_from_slice(&(features.len() as u16).to_be_bytes());
	p.extend_from_slice(features);
	if let Some(n) = networks {
		p.push(1);
		p.push((n.len() * 32) as u8);
		for c in n {
			p.extend_from_slice(c);
		}
	}
	if let Some((t, v)) = extra_tlv {
		p.push(t);
		p.push(v.len() as u8);
		p.extend_from_slice(v);
	}
	p
}
fn ping_payload(ponglen: u16, byteslen: u16) -> Vec<u8> {
	let mut p = vec![0u8, 18];
	p.extend_from_slice(&ponglen.to_be_bytes());
	p.extend_from_slice(&byteslen.to_be_bytes());
	p.resize(6 + byteslen as usize, 0);
	p
}
fn pong_payload(byteslen: u16) -> Vec<u8> {
	let mut p = vec![0u8, 19];
	p.extend_from_slice(&byteslen.to_be_bytes());
	p.resize(4 + byteslen as usize, 0);
	p
}

struct RefSession<'w> {
	w: &'w mut World,
	c: usize,
	r: RefPeer,
	r_pub: PublicKey,
	rng: Rng,
	frag: u8,
	wstyle: u8,
	units: Vec<Unit>,
	s_len: u64,
	mq: VecDeque<u8>,
	m_total: u64,
	mutation: Option<Mutation>,
	applied: Option<Applied>,
	held: Option<Vec<u8>>,
	payloads: VecDeque<Vec<u8>>,
	handshake_done: bool,
	auto_pong: bool,
	no_filler: bool,
	/// after a truncation nothing more is sent
	cut: bool,
	/// the mutation turned out not to change the stream in a decidable way
	undecidable: bool,
	drop_seen: Option<(u64, u64)>,
	first_type: Option<u16>,
	pings_seen: u64,
	pongs_seen: u64,
	errors_seen: u64,
	warnings_seen: u64,
	ldk_queue: Option<(Vec<CMsg>, Vec<ChanMsg>)>,
	init_unit: Option<usize>,
	connects_before: u64,
	frames_sent: u64,
	/// frames other than Init decoded from the library before the reference emitted its own Init
	early_non_init: u64,
}

impl<'w> RefSession<'w> {
	/// Opens a connection between library node 0 (side 0) and a fresh reference peer (side 1).
	fn open(w: &'w mut World, rng: &mut Rng, r_initiator: bool, frag: u8, wstyle: u8) -> Option<RefSession<'w>> {
		let secp = Secp256k1::new();
		let s = SecretKey::from_slice(&rng.bytes::<32>()).unwrap_or(bins::sk(1, rng.next()));
		let e = SecretKey::from_slice(&rng.bytes::<32>()).unwrap_or(bins::sk(2, rng.next()));
		let r_pub = PublicKey::from_secret_key(&secp, &s);
		let ldk_pk = w.nodes[0].pk;
		let mut r = RefPeer::new(r_initiator, s, e, ldk_pk);
		let sock = w.new_sock(rng);
		let rsock = w.new_sock(rng);
		let c = w.conns.len();
		let addr = World::addr(rng);
		let mut first_unit = None;
		let res = if r_initiator {
			first_unit = Some(r.hs.act_one());
			vcore::guarded(|| w.nodes[0].pm.new_inbound_connection(sock.clone(), addr).map(|_| Vec::new()))
		} else {
			vcore::guarded(|| w.nodes[0].pm.new_outbound_connection(r_pub, sock.clone(), addr))
		};
		match res {
			Err(p) => {
				w.panic("new connection", p);
				return None;
			},
			Ok(Err(_)) => {
				w.sh.violate("T1", "a new connection was refused", String::new());
				return None;
			},
			Ok(Ok(act1)) => {
				let mut st = sock.st.borrow_mut();
				st.outq.extend(act1.iter());
				st.accepted_total += act1.len() as u64;
			},
		}
		w.conns.push(Conn {
			ends: [End { node: Some(0), sock, alive: true, dropped: None, fed: 0 }, End { node: None, sock: rsock, alive: true, dropped: None, fed: 0 }],
			may_drop: true,
			fault: None,
			taken: [0, 0],
			hist: [Vec::new(), Vec::new()],
			keep_hist: false,
			skip_final: false,
		});
		let connects_before = w.sh.nodes.borrow()[0].connects;
		let mut sess = RefSession {
			w,
			c,
			r,
			r_pub,
			rng: Rng::new(rng.next()),
			frag,
			wstyle,
			units: Vec::new(),
			s_len: 0,
			mq: VecDeque::new(),
			m_total: 0,
			mutation: None,
			applied: None,
			held: None,
			payloads: VecDeque::new(),
			handshake_done: false,
			auto_pong: true,
			no_filler: false,
			cut: false,
			undecidable: false,
			drop_seen: None,
			first_type: None,
			pings_seen: 0,
			pongs_seen: 0,
			errors_seen: 0,
			warnings_seen: 0,
			ldk_queue: None,
			init_unit: None,
			connects_before,
			frames_sent: 0,
			early_non_init: 0,
		};
		sess.held = first_unit; // emitted by start(), once the mutation is known
		Some(sess)
	}
	fn start(&mut self) {
		if let Some(a1) = self.held.take() {
			self.emit(false, a1);
		}
	}
	fn ldk_alive(&self) -> bool {
		self.w.conns[self.c].ends[0].alive
	}
	fn out(&mut self, b: &[u8]) {
		if self.cut {
			return;
		}
		self.mq.extend(b.iter());
		self.m_total += b.len() as u64;
	}
	/// Register what the frame carries in the ledger of direction reference -> library.
	fn register(&mut self, payload: &[u8]) {
		if payload.len() < 2 {
			return;
		}
		let ty = u16::from_be_bytes([payload[0], payload[1]]);
		let mut l = self.w.sh.ledgers.borrow_mut();
		let d = l.entry((self.c, 1)).or_default();
		if claimed(ty) && ty != POISON_INVALID && ty != POISON_SHORT {
			d.custom.sent.push(Sig::of(ty, &payload[2..]));
		} else if self.w.sh.chan_types.contains(&ty) && !self.w.sh.foreign_ok.get() {
			d.chan.sent.push(Sig::of(ty, &payload[2..]));
		}
	}
	fn set_limits(&mut self) {
		let mut l = self.w.sh.ledgers.borrow_mut();
		let d = l.entry((self.c, 1)).or_default();
		d.custom.limit = Some(d.custom.sent.len());
		d.chan.limit = Some(d.chan.sent.len());
	}
	fn clear_limits(&mut self) {
		let mut l = self.w.sh.ledgers.borrow_mut();
		let d = l.entry((self.c, 1)).or_default();
		d.custom.limit = None;
		d.chan.limit = None;
	}
	/// Encrypt and emit one honest payload (after the handshake).
	fn send_payload(&mut self, payload: &[u8]) {
		let frame = self.r.send.as_mut().unwrap().frame(payload);
		self.frames_sent += 1;
		if payload.len() >= 2 && payload[0] == 0 && payload[1] == 16 && self.init_unit.is_none() {
			self.init_unit = Some(self.units.len());
		}
		let idx = self.units.len();
		let is_dup_target = matches!(&self.mutation, Some(m) if m.unit == idx && matches!(m.kind, MutKind::Dup));
		let is_target = matches!(&self.mutation, Some(m) if m.unit == idx) && self.applied.is_none();
		if is_target && !is_dup_target {
			self.set_limits();
			self.register(payload);
		} else {
			self.register(payload);
			if is_dup_target {
				self.set_limits();
			}
		}
		self.emit(true, frame);
	}
	/// Raw bytes outside the honest stream (garbage after the handshake).
	fn send_raw(&mut self, bytes: &[u8], need: u64) {
		if self.applied.is_none() {
			self.set_limits();
			self.applied = Some(Applied { o_star: self.m_total, decision: Some(self.m_total + need) });
		}
		self.out(bytes);
	}
	fn emit(&mut self, frame: bool, bytes: Vec<u8>) {
		let idx = self.units.len();
		let mstart = self.m_total;
		self.s_len += bytes.len() as u64;
		let len = bytes.len();
		let m = match &self.mutation {
			Some(m) if self.applied.is_none() && (m.unit == idx || (matches!(m.kind, MutKind::SwapNext) && m.unit + 1 == idx && self.held.is_some())) => Some(m.clone()),
			_ => None,
		};
		match m {
			None => self.out(&bytes),
			Some(m) => {
				if !frame {
					// handshake acts: nothing can have been delivered before
					self.set_limits();
				}
				let act_decision = mstart + len as u64;
				match m.kind {
					MutKind::Flip { off, mask } => {
						let mut b = bytes.clone();
						b[off] ^= mask;
						self.out(&b);
						let d = if !frame { act_decision } else if off < 18 { mstart + 18 } else { mstart + len as u64 };
						self.applied = Some(Applied { o_star: mstart + off as u64, decision: Some(d) });
					},
					MutKind::Trunc { off } => {
						self.out(&bytes[..off]);
						self.cut = true;
						self.applied = Some(Applied { o_star: mstart + off as u64, decision: None });
					},
					MutKind::Insert { off, bytes: mut ins } => {
						if ins[0] == bytes[off] {
							ins[0] ^= 0x55;
						}
						let mut mu = bytes[..off].to_vec();
						mu.extend_from_slice(&ins);
						mu.extend_from_slice(&bytes[off..]);
						self.out(&mu);
						match (0..len).find(|j| mu[*j] != bytes[*j]) {
							Some(j) => {
								let d = if !frame { act_decision } else if j < 18 { mstart + 18 } else { mstart + len as u64 };
								self.applied = Some(Applied { o_star: mstart + j as u64, decision: Some(d) });
							},
							None => {
								self.undecidable = true;
								self.clear_limits();
								self.applied = Some(Applied { o_star: mstart + len as u64, decision: None });
							},
						}
					},
					MutKind::Delete { off, len: dl } => {
						let mut mu = bytes[..off].to_vec();
						mu.extend_from_slice(&bytes[off + dl..]);
						self.out(&mu);
						match (0..mu.len()).find(|j| mu[*j] != bytes[*j]) {
							Some(j) => {
								let d = if !frame { act_decision } else if j < 18 { mstart + 18 } else { mstart + len as u64 };
								self.applied = Some(Applied { o_star: mstart + j as u64, decision: Some(d) });
							},
							None => {
								self.undecidable = true;
								self.clear_limits();
								self.applied = Some(Applied { o_star: mstart + mu.len() as u64, decision: None });
							},
						}
					},
					MutKind::Replace { bytes: g, need } => {
						let o = g.iter().zip(bytes.iter()).position(|(a, b)| a != b).unwrap_or(g.len().min(len));
						self.out(&g);
						self.applied = Some(Applied { o_star: mstart + o as u64, decision: Some(mstart + need as u64) });
					},
					MutKind::ReplayBefore { which } => {
						let old = self.units[which].bytes.clone();
						self.out(&old);
						self.out(&bytes);
						self.applied = Some(Applied { o_star: mstart, decision: Some(mstart + 18) });
					},
					MutKind::Dup => {
						self.out(&bytes);
						self.out(&bytes);
						let o = mstart + len as u64;
						self.applied = Some(Applied { o_star: o, decision: Some(o + 18) });
					},
					MutKind::SwapNext => {
						if m.unit == idx {
							// hold this frame back until the next one exists
							self.held = Some(bytes.clone());
						} else {
							let first = self.held.take().unwrap();
							let hstart = mstart;
							self.out(&bytes);
							self.out(&first);
							self.applied = Some(Applied { o_star: hstart, decision: Some(hstart + 18) });
						}
					},
				}
			},
		}
		self.units.push(Unit { bytes });
	}
	fn on_events(&mut self, evs: Vec<REvent>) {
		for ev in evs {
			match ev {
				REvent::SendAct(b) => self.emit(false, b),
				REvent::HandshakeDone => {
					self.handshake_done = true;
					self.w.log(format!("reference peer finished the handshake on conn {}", self.c));
					while let Some(p) = self.payloads.pop_front() {
						self.send_payload(&p);
					}
					// a held-back frame without successor goes out unchanged
					if self.applied.is_none() {
						if let Some(h) = self.held.take() {
							self.out(&h);
							self.mutation = None;
							let mut l = self.w.sh.ledgers.borrow_mut();
							let d = l.entry((self.c, 1)).or_default();
							d.custom.limit = None;
							d.chan.limit = None;
						}
					}
				},
				REvent::Msg(ty, body) => {
					if self.first_type.is_none() {
						self.first_type = Some(ty);
						if ty != 16 {
							self.w.sh.violate("K2", "the first frame sent by the library is not Init", format!("type {}", ty));
						}
					}
					if ty != 16 && self.init_unit.is_none() {
						// judged by the withheld-Init rule (T3), not by the ledgers
						self.early_non_init += 1;
						continue;
					}
					match ty {
						18 => {
							self.pings_seen += 1;
							if self.auto_pong && body.len() >= 2 && self.r.send.is_some() {
								let pl = u16::from_be_bytes([body[0], body[1]]);
								if pl < 65532 {
									self.send_payload(&pong_payload(pl));
								}
							}
						},
						19 => self.pongs_seen += 1,
						17 => self.errors_seen += 1,
						1 => self.warnings_seen += 1,
						_ => {},
					}
					let role = if claimed(ty) {
						Some(CUSTOM)
					} else if self.w.sh.chan_types.contains(&ty) {
						Some(CHAN)
					} else {
						None
					};
					if let Some(role) = role {
						let sig = Sig::of(ty, &body);
						let mut l = self.w.sh.ledgers.borrow_mut();
						let d = l.entry((self.c, 0)).or_default();
						let s = if role == CUSTOM { &mut d.custom } else { &mut d.chan };
						match s.sent.get(s.recv) {
							Some(x) if *x == sig => {
								s.recv += 1;
								self.w.sh.delivered.set(self.w.sh.delivered.get() + 1);
							},
							exp => {
								let detail = format!("index {} expected {:?} got {:?}", s.recv, exp, sig);
								drop(l);
								self.w.sh.violate("K2", "the reference peer decodes a message sequence different from what the library's handlers released", detail);
							},
						}
					}
				},
			}
		}
	}
	/// Run until nothing moves any more.
	fn pump(&mut self) {
		let mut idle = 0;
		let mut guard = 0u64;
		while idle < 2 && !self.w.poisoned && guard < 3_000_000 {
			guard += 1;
			let mut progressed = false;
			// release the library's own workload once its handlers know the peer
			if self.ldk_queue.is_some() && self.w.sh.is_bound(0, CUSTOM, &self.r_pub, self.c) && self.w.sh.is_bound(0, CHAN, &self.r_pub, self.c) {
				let (cm, ch) = self.ldk_queue.take().unwrap();
				let mut nv = self.w.sh.nodes.borrow_mut();
				for m in cm {
					nv[0].custom_out.push_back((self.r_pub, m));
				}
				for m in ch {
					nv[0].chan_out.push_back((self.r_pub, m));
				}
				progressed = true;
			}
			// reference -> library
			if !self.ldk_alive() {
				self.mq.clear();
			} else if !self.mq.is_empty() && (idle > 0 || self.rng.chance(2, 3)) {
				let k = chunk(&mut self.rng, self.frag).min(self.mq.len());
				let data: Vec<u8> = self.mq.drain(..k).collect();
				let before = self.w.conns[self.c].ends[0].fed;
				self.w.read(self.c, 0, &data);
				if !self.ldk_alive() && self.drop_seen.is_none() {
					self.drop_seen = Some((before, before + k as u64));
				}
				progressed = true;
			}
			// library housekeeping
			if idle > 0 || self.rng.chance(1, 2) {
				self.w.sh.nodes.borrow_mut()[0].release_cap = if idle > 0 || self.rng.chance(9, 10) { usize::MAX } else { 1 + self.rng.below(4) as usize };
				let before = self.w.conns[self.c].ends[0].sock.st.borrow().accepted_total;
				self.w.process(0);
				if self.ldk_alive() {
					let owes = {
						let mut s = self.w.conns[self.c].ends[0].sock.st.borrow_mut();
						if idle > 0 {
							s.budget = usize::MAX;
							s.cap_style = 0;
						} else {
							set_write_style(&mut s, &mut self.rng, self.wstyle);
						}
						s.owes_write_avail && s.budget > 0
					};
					if owes {
						self.w.write_avail(self.c, 0);
					}
				}
				if self.w.conns[self.c].ends[0].sock.st.borrow().accepted_total != before {
					progressed = true;
				}
			}
			// library -> reference
			let avail = self.w.conns[self.c].ends[0].sock.st.borrow().outq.len();
			if avail > 0 && (idle > 0 || self.rng.chance(2, 3)) {
				let k = chunk(&mut self.rng, self.frag).min(avail);
				let data: Vec<u8> = self.w.conns[self.c].ends[0].sock.st.borrow_mut().outq.drain(..k).collect();
				let evs = self.r.feed(&data);
				self.on_events(evs);
				progressed = true;
			}
			if progressed {
				idle = 0;
			} else {
				idle += 1;
			}
		}
		if guard >= 3_000_000 {
			self.w.gave_up = true;
		}
		if let Some(e) = self.r.error.take() {
			let rule = if self.r.frames_ok == 0 && !self.handshake_done { "K1" } else { "K2" };
			self.w.sh.violate(rule, &vcore::canon(&e), format!("{} (frames decoded so far {}, reference receive nonce {:?})", e, self.r.frames_ok, self.r.recv.as_ref().map(|c| (c.n, c.rotations))));
		}
	}
	/// After a mutation whose decision point lies beyond what was sent: pad with random bytes.
	fn fill_to_decision(&mut self) {
		if self.no_filler || !self.ldk_alive() {
			return;
		}
		if let Some(Applied { decision: Some(d), .. }) = self.applied.clone() {
			if self.m_total < d {
				let n = (d - self.m_total) as usize + self.rng.below(4) as usize;
				let filler = self.rng.vec(n);
				self.out(&filler);
				self.pump();
			}
		}
	}
	fn connects(&self) -> u64 {
		self.w.sh.nodes.borrow()[0].connects - self.connects_before
	}
	fn close(&mut self) {
		self.w.eof(self.c, 0);
		self.w.conns[self.c].ends[1].alive = false;
	}
	/// T2 verdict for a session with one known mutation.
	fn check_mutation(&mut self, rep: &mut Report) {
		let ap = match self.applied.clone() {
			Some(a) => a,
			None => {
				rep.count("mutations_not_applicable");
				return;
			},
		};
		if self.undecidable {
			rep.count("mutations_not_applicable");
			return;
		}
		rep.count("faults_injected_exact");
		let what = format!("{:?}", self.mutation.as_ref().map(|m| (m.unit, &m.kind)));
		// deliveries: everything before the damaged frame, nothing else (the "nothing else" part is
		// enforced at delivery time through the limits)
		{
			let mut lost = Vec::new();
			if let Some(d) = self.w.sh.ledgers.borrow().get(&(self.c, 1)) {
				for (name, s) in [("custom", &d.custom), ("channel", &d.chan)] {
					if let Some(lim) = s.limit {
						if s.recv < lim {
							lost.push(format!("{} of {} {} messages before the fault arrived; mutation {}", s.recv, lim, name, what));
						}
					}
				}
			}
			for detail in lost {
				self.w.sh.violate("T2", "messages sent intact before the corrupted frame were not delivered", detail);
			}
		}
		let unit = self.mutation.as_ref().map(|m| m.unit).unwrap_or(usize::MAX);
		let target_frame = match self.mutation.as_ref().map(|m| &m.kind) {
			Some(MutKind::Dup) => unit + 1,
			_ => unit,
		};
		let want_connect = self.init_unit.map(|i| i < target_frame).unwrap_or(false) as u64;
		let got = self.connects();
		if got > want_connect {
			self.w.sh.violate("T2", "an Init at or after the corrupted position was processed (peer_connected fired)", what.clone());
		} else if got < want_connect {
			self.w.sh.violate("T2", "the Init sent intact before the corrupted frame was not processed", what.clone());
		}
		match ap.decision {
			None => {
				if let Some((b, a)) = self.drop_seen {
					self.w.sh.violate("T1", "the library dropped the connection on a clean prefix of an honest stream", format!("dropped in read [{},{}) truncation at {}; {}", b, a, ap.o_star, what));
				}
				rep.count("truncations_checked");
			},
			Some(d) => {
				if self.m_total < d {
					rep.count("faults_without_decision");
					if let Some((_, a)) = self.drop_seen {
						if a <= ap.o_star {
							self.w.sh.violate("T1", "the library dropped the connection before the corrupted byte arrived", what.clone());
						}
					}
					return;
				}
				match self.drop_seen {
					None => self.w.sh.violate("T2", "a corrupted byte stream was accepted: no disconnect although the damaged unit was delivered completely", format!("o*={} decision={} sent={} {}", ap.o_star, d, self.m_total, what)),
					Some((b, a)) => {
						if a <= ap.o_star {
							self.w.sh.violate("T1", "the library dropped the connection before the corrupted byte arrived", format!("read [{},{}) o*={} {}", b, a, ap.o_star, what));
						} else if b >= d {
							self.w.sh.violate("T2", "the library kept reading past the corrupted unit before disconnecting", format!("read [{},{}) decision={} {}", b, a, d, what));
						} else {
							rep.count("faults_detected_exact");
						}
					},
				}
			},
		}
	}
}

// =============================================================================================
// 8. Families B-E: reference peer scenarios
// =============================================================================================
fn chan_payload(rng: &mut Rng, style: u8) -> Vec<u8> {
	gen_chan(rng, style).payload()
}

/// B: fault-free interoperation with the reference implementation (K1, K2, T1, P1).
fn ref_interop_case(args: &Args, idx: u64, rng: &mut Rng, rep: &mut Report, long: bool) {
	let cx = Ctx { args, idx, family: if long { "ref-long" } else { "ref-interop" } };
	let mut w = World::new(1, rng);
	let r_init = rng.chance(1, 2);
	let frag = rng.below(7) as u8;
	let wstyle = *rng.pick(&[0u8, 0, 1, 2, 3, 4, 5]);
	let size_style = if long { 0 } else { *rng.pick(&[0u8, 1, 1, 1, 2]) };
	let count = |rng: &mut Rng| -> usize {
		if long {
			if rng.chance(1, 2) {
				1050 + rng.below(200) as usize
			} else {
				2100 + rng.below(150) as usize
			}
		} else if size_style == 2 {
			1 + rng.below(4) as usize
		} else {
			rng.below(30) as usize
		}
	};
	let (n_r, n_l) = (count(rng), count(rng));
	let tick_rounds = if rng.chance(1, 2) { 1 + rng.below(4) } else { 0 };
	let silent_end = rng.chance(1, 3);
	let params = Json::obj().set("reference_initiates", r_init).set("frag", frag).set("write_style", wstyle).set("size_style", size_style).set("n_ref_to_lib", n_r).set("n_lib_to_ref", n_l).set("tick_rounds", tick_rounds).set("silent_end", silent_end);
	rep.distinct(Fnv::new().str(cx.family).u64(r_init as u64).u64(frag as u64).u64(wstyle as u64).u64(size_style as u64).u64((tick_rounds > 0) as u64).u64(silent_end as u64).get());
	let ldk_pk = w.nodes[0].pk;
	let mut frames_ok = 0;
	let mut rotations = (0, 0);
	let delay_init = !long && rng.chance(1, 3);
	if let Some(mut s) = RefSession::open(&mut w, rng, r_init, frag, wstyle) {
		let mut plist = vec![init_payload(&[], None, None)];
		for _ in 0..n_r {
			let p = match rng.below(8) {
				0 | 1 => chan_payload(rng, size_style),
				2 if !long => ping_payload(*rng.pick(&[0u16, 1, 10, 64]), rng.below(80) as u16),
				_ => gen_custom(rng, size_style).payload(),
			};
			plist.push(p);
		}
		let customs: Vec<CMsg> = (0..n_l - n_l / 4).map(|_| gen_custom(rng, size_style)).collect();
		let chans: Vec<ChanMsg> = (0..n_l / 4).map(|_| gen_chan(rng, size_style)).collect();
		s.start();
		if delay_init {
			// T3, sending side: the reference withholds its Init while the library's handlers
			// already try to send; nothing but Init may leave the library
			s.pump();
			if s.handshake_done && s.ldk_alive() {
				{
					let mut nv = s.w.sh.nodes.borrow_mut();
					nv[0].force_release = true;
					for _ in 0..1 + rng.below(4) {
						nv[0].custom_out.push_back((s.r_pub, gen_custom(rng, 0)));
						nv[0].chan_out.push_back((s.r_pub, gen_chan(rng, 0)));
					}
				}
				s.pump();
				s.w.sh.nodes.borrow_mut()[0].force_release = false;
				rep.count("withheld_init_sessions");
				if s.early_non_init > 0 {
					s.w.sh.violate("T3", "the library transmitted messages other than Init before it had processed the peer's Init", format!("{} frames", s.early_non_init));
				}
				for p in &plist {
					s.send_payload(p);
				}
			}
		} else {
			for p in plist {
				s.payloads.push_back(p);
			}
		}
		s.ldk_queue = Some((customs, chans));
		s.pump();
		let mut ok = !s.w.poisoned && s.r.stage != RStage::Broken;
		if ok && !s.handshake_done {
			s.w.sh.violate("K1", "the handshake between the library and the reference implementation did not complete", format!("reference stage {:?}", s.r.stage));
			ok = false;
		}
		if ok && !r_init && s.r.hs.remote_static != Some(ldk_pk) {
			s.w.sh.violate("K1", "the static key proven in act three is not the library's node id", String::new());
		}
		if ok && !s.ldk_alive() {
			s.w.sh.violate("T1", "the library dropped a fault-free connection", format!("{:?} after {} bytes", s.w.conns[s.c].ends[0].dropped, s.w.conns[s.c].ends[0].fed));
			ok = false;
		}
		if ok && !(0..3).all(|role| s.w.sh.is_bound(0, role, &s.r_pub, s.c)) {
			s.w.sh.violate("K1", "handshake and Init exchange did not complete on a fault-free connection", String::new());
			ok = false;
		}
		if ok {
			rep.count("reference_handshakes_completed");
			let l = s.w.sh.ledgers.borrow();
			let mut complete = true;
			for dir in 0..2 {
				if let Some(d) = l.get(&(s.c, dir)) {
					for (name, st) in [("custom", &d.custom), ("channel", &d.chan)] {
						if st.recv != st.sent.len() {
							complete = false;
							s.w.sh.violate(if dir == 0 { "K2" } else { "T1" }, &format!("{} messages were lost on a live fault-free connection", name), format!("dir {} ({}): {} of {}", dir, if dir == 0 { "library to reference" } else { "reference to library" }, st.recv, st.sent.len()));
						}
					}
				}
			}
			if complete {
				rep.count("connections_fully_delivered");
			}
		}
		// keep-alive: a peer that answers pings survives ticks at quiescent points
		if ok {
			for _ in 0..tick_rounds {
				s.w.tick(0);
				s.pump();
				rep.count("quiescent_tick_rounds");
				if !s.ldk_alive() {
					s.w.sh.violate("P1", "a peer that answers every ping was dropped by a timer tick", format!("pings seen {}", s.pings_seen));
					ok = false;
					break;
				}
			}
			rep.add("ping_pong_roundtrips", s.pings_seen);
		}
		if ok && silent_end {
			s.auto_pong = false;
			let mut dropped_after = None;
			for t in 0..8 {
				s.w.tick(0);
				s.pump();
				if !s.ldk_alive() {
					dropped_after = Some(t + 1);
					break;
				}
			}
			match dropped_after {
				Some(t) => {
					rep.count("silent_peers_dropped");
					rep.max("ticks_until_silent_peer_dropped", t);
				},
				None => s.w.sh.violate("P1", "a peer that never answers pings is still connected after eight timer ticks", String::new()),
			}
		}
		frames_ok = s.r.frames_ok;
		rotations = (s.r.send.as_ref().map(|c| c.rotations).unwrap_or(0), s.r.recv.as_ref().map(|c| c.rotations).unwrap_or(0));
		rep.add("reference_frames_sent", s.frames_sent);
		s.close();
	}
	rep.add("frames_authenticated_by_reference", frames_ok);
	rep.add("key_rotations_crossed", rotations.0 + rotations.1);
	rep.max("key_rotations_each_direction_with_reference", rotations.0.min(rotations.1));
	if rotations.0 >= 2 && rotations.1 >= 2 {
		rep.count("reference_sessions_two_rotations_each_direction");
	}
	harvest_sock_stats(rep, &w);
	rep.count(if long { "cases_ref_long" } else { "cases_ref_interop" });
	flush_violations(&cx, rep, &mut w, &params);
	if rep.samples.len() < rep.max_samples && rng.chance(1, 20) {
		rep.sample(Json::obj().set("family", cx.family).set("case", idx).set("params", params).set("frames_from_library", frames_ok));
	}
}

/// C: one mutation of the reference peer's stream, swept over the offsets of one unit (T2).
fn fault_sweep_case(args: &Args, idx: u64, rng: &mut Rng, rep: &mut Report) {
	let cx = Ctx { args, idx, family: "fault-sweep" };
	let mut w = World::new(1, rng);
	let r_init = rng.chance(1, 2);
	let n_msgs = 2 + rng.below(4) as usize;
	let mut payloads: Vec<Vec<u8>> = vec![init_payload(&[], None, None)];
	for i in 0..n_msgs {
		let style = if i == 1 && rng.chance(1, 4) { 1 } else { 0 };
		payloads.push(if rng.chance(1, 4) { chan_payload(rng, style) } else { gen_custom(rng, style).payload() });
	}
	let mut unit_lens: Vec<usize> = if r_init { vec![50, 66] } else { vec![50] };
	let first_frame = unit_lens.len();
	for p in &payloads {
		unit_lens.push(18 + p.len() + 16);
	}
	let n_units = unit_lens.len();
	// handshake acts, Init and the first message most often
	let unit = if rng.chance(2, 3) { rng.below((first_frame + 2).min(n_units) as u64) as usize } else { rng.below(n_units as u64) as usize };
	let ulen = unit_lens[unit];
	let is_frame = unit >= first_frame;
	let mut kind_id = if is_frame { rng.below(7) } else { rng.below(4) };
	if kind_id == 4 && unit == first_frame {
		// no earlier frame to replay in front of Init: duplicate it instead
		kind_id = 5;
	}
	if kind_id == 6 && unit + 1 == n_units {
		// the last frame has no successor to swap with
		kind_id = 5;
	}
	let offsets: Vec<usize> = if ulen <= 140 {
		(0..ulen).collect()
	} else {
		let mut v: Vec<usize> = (0..30).collect();
		v.extend(ulen - 24..ulen);
		for _ in 0..20 {
			v.push(30 + rng.below((ulen - 54) as u64) as usize);
		}
		v
	};
	let mut muts: Vec<MutKind> = Vec::new();
	match kind_id {
		0 => {
			for &off in &offsets {
				muts.push(MutKind::Flip { off, mask: if rng.chance(1, 10) { 0xff } else { 1 << rng.below(8) } });
			}
		},
		1 => {
			for &off in &offsets {
				muts.push(MutKind::Trunc { off });
			}
		},
		2 => {
			for &off in &offsets {
				let n = *rng.pick(&[1usize, 1, 2, 3, 16, 18, 50]);
				muts.push(MutKind::Insert { off, bytes: rng.vec(n) });
			}
		},
		3 => {
			for &off in &offsets {
				if off + 1 < ulen {
					let dl = (1 + rng.below(3) as usize).min(ulen - off - 1);
					muts.push(MutKind::Delete { off, len: dl });
				}
			}
		},
		4 => {
			for which in first_frame..unit {
				muts.push(MutKind::ReplayBefore { which });
			}
		},
		5 => muts.push(MutKind::Dup),
		_ => muts.push(MutKind::SwapNext),
	}
	let kind_name = ["flip", "truncate", "insert", "delete", "replay", "duplicate", "swap"][kind_id as usize];
	let unit_name = if !is_frame {
		if r_init {
			["act one", "act three"][unit]
		} else {
			"act two"
		}
	} else if unit == first_frame {
		"Init frame"
	} else {
		"message frame"
	};
	rep.set_insert("fault_targets", format!("{} of {} ({})", kind_name, unit_name, if r_init { "library responds" } else { "library initiates" }));
	rep.distinct(Fnv::new().str(cx.family).u64(r_init as u64).u64(unit as u64).u64(kind_id).u64(n_msgs as u64).get());
	let params = Json::obj().set("reference_initiates", r_init).set("unit", unit).set("unit_len", ulen).set("kind", kind_name).set("payload_lens", payloads.iter().map(|p| p.len()).collect::<Vec<usize>>());
	for kind in muts {
		if w.poisoned {
			break;
		}
		let frag = rng.below(7) as u8;
		let wstyle = *rng.pick(&[0u8, 0, 0, 1, 2]);
		let desc = format!("{:?}", kind);
		if let Some(mut s) = RefSession::open(&mut w, rng, r_init, frag, wstyle) {
			s.mutation = Some(Mutation { unit, kind });
			s.auto_pong = false;
			for p in &payloads {
				s.payloads.push_back(p.clone());
			}
			s.start();
			s.pump();
			s.fill_to_decision();
			s.check_mutation(rep);
			rep.add("frames_authenticated_by_reference", s.r.frames_ok);
			s.close();
		}
		rep.count("fault_sessions");
		let p2 = params.clone().set("mutation", desc);
		if flush_violations(&cx, rep, &mut w, &p2) {
			break;
		}
	}
	harvest_sock_stats(rep, &w);
	rep.count("cases_fault_sweep");
}

fn garbage_for_act(rng: &mut Rng, need: usize, honest_other: &[u8]) -> Vec<u8> {
	let secp = Secp256k1::new();
	match rng.below(9) {
		0 | 1 => {
			let l = *rng.pick(&[0usize, 1, 2, 17, 18, 33, 34, 49, 50, 51, 65, 66, 67, 100, 300, 5000, 70000]);
			rng.vec(l)
		},
		2 => {
			// right shape: version 0, a valid point, random tag(s)
			let k = PublicKey::from_secret_key(&secp, &bins::sk(9, rng.next()));
			let mut v = vec![0u8];
			v.extend_from_slice(&k.serialize());
			v.extend_from_slice(&rng.vec(need - 34));
			v
		},
		3 => {
			// invalid point encodings
			let mut v = vec![0u8];
			let mut key = [0u8; 33];
			match rng.below(5) {
				0 => {
					key = rng.bytes();
					key[0] = 4;
				},
				1 => key[0] = 2, // x = 0
				2 => {
					key = [0xff; 33];
					key[0] = 3;
				},
				3 => {
					// x = p
					key[0] = 2;
					key[1..].copy_from_slice(&vcore::unhex("fffffffffffffffffffffffffffffffffffffffffffffffffffffffefffffc2f").unwrap());
				},
				_ => {
					key = rng.bytes();
					key[0] = *rng.pick(&[0u8, 1, 5, 6, 7, 0x80]);
				},
			}
			v.extend_from_slice(&key);
			v.extend_from_slice(&rng.vec(need - 34));
			v
		},
		4 => vec![0u8; need],
		5 => vec![0xffu8; need + rng.below(3) as usize],
		6 => {
			// an honest act made for another handshake
			honest_other.to_vec()
		},
		7 => {
			let mut v = honest_other.to_vec();
			if !v.is_empty() {
				v[0] = 1 + rng.below(255) as u8;
			}
			v
		},
		_ => {
			// honest act for another handshake, wrong length
			let mut v = honest_other.to_vec();
			if rng.chance(1, 2) {
				v.truncate(v.len().saturating_sub(1 + rng.below(20) as usize));
			} else {
				v.extend_from_slice(&rvec(rng, |r| 1 + r.below(20) as usize));
			}
			v
		},
	}
}

/// D: arbitrary bytes instead of the handshake acts / after the handshake (T4).
fn garbage_case(args: &Args, idx: u64, rng: &mut Rng, rep: &mut Report) {
	let cx = Ctx { args, idx, family: "garbage" };
	let mut w = World::new(1, rng);
	let secp = Secp256k1::new();
	let rounds = 8 + rng.below(8);
	let mut old_act3: Option<Vec<u8>> = None;
	rep.distinct(Fnv::new().str(cx.family).u64(rounds).get());
	for _ in 0..rounds {
		if w.poisoned {
			break;
		}
		let variant = rng.below(5);
		let frag = rng.below(7) as u8;
		let r_init = variant != 1;
		// an honest act of the right kind that belongs to another handshake
		let other = {
			let mut h = if variant == 1 { Handshake::new_responder(bins::sk(3, rng.next()), bins::sk(4, rng.next())) } else { Handshake::new_initiator(bins::sk(3, rng.next()), bins::sk(4, rng.next()), PublicKey::from_secret_key(&secp, &bins::sk(5, rng.next()))) };
			match variant {
				0 => h.act_one(),
				1 => {
					let mut i = Handshake::new_initiator(bins::sk(6, rng.next()), bins::sk(7, rng.next()), PublicKey::from_secret_key(&secp, &bins::sk(3, 0)));
					let a1 = i.act_one();
					let _ = h.read_act_one(&a1);
					// responder with an unrelated static key: act one check fails, so build act two by hand
					let mut v = vec![0u8];
					v.extend_from_slice(&PublicKey::from_secret_key(&secp, &bins::sk(8, rng.next())).serialize());
					v.extend_from_slice(&rng.vec(16));
					v
				},
				_ => old_act3.clone().unwrap_or_else(|| rng.vec(66)),
			}
		};
		let desc;
		if let Some(mut s) = RefSession::open(&mut w, rng, r_init, frag, 0) {
			s.auto_pong = false;
			s.no_filler = true;
			match variant {
				0 | 1 => {
					let g = garbage_for_act(rng, 50, &other);
					desc = format!("garbage instead of act {} ({} bytes): {}", if variant == 0 { "one" } else { "two" }, g.len(), vcore::hex(&g[..g.len().min(80)]));
					s.mutation = Some(Mutation { unit: 0, kind: MutKind::Replace { bytes: g, need: 50 } });
					s.start();
					s.pump();
				},
				2 => {
					let g = garbage_for_act(rng, 66, &other);
					desc = format!("garbage instead of act three ({} bytes): {}", g.len(), vcore::hex(&g[..g.len().min(80)]));
					s.mutation = Some(Mutation { unit: 1, kind: MutKind::Replace { bytes: g, need: 66 } });
					s.start();
					s.pump();
					if s.units.len() >= 2 {
						old_act3 = Some(s.units[1].bytes.clone());
					}
				},
				_ => {
					// after the handshake: instead of Init (3) or after Init and a few messages (4)
					if variant == 4 {
						s.payloads.push_back(init_payload(&[], None, None));
						for _ in 0..rng.below(4) {
							s.payloads.push_back(gen_custom(rng, 0).payload());
						}
					}
					s.start();
					s.pump();
					let l = *rng.pick(&[1usize, 2, 17, 18, 19, 36, 100, 70000]);
					let g = if rng.chance(1, 6) { vec![0u8; l] } else { rng.vec(l) };
					desc = format!("{} garbage bytes after the handshake{}", g.len(), if variant == 4 { " and Init" } else { "" });
					if s.handshake_done && s.ldk_alive() {
						s.send_raw(&g, 18);
						s.pump();
					} else {
						s.w.sh.violate("K1", "the handshake between the library and the reference implementation did not complete", String::new());
					}
				},
			}
			let before = s.connects();
			s.check_mutation(rep);
			if variant != 4 && before > 0 {
				s.w.sh.violate("T4", "peer_connected fired although the handshake or Init was replaced by garbage", desc.clone());
			}
			if s.applied.as_ref().map(|a| a.decision.map(|d| s.m_total < d).unwrap_or(true)).unwrap_or(true) && s.applied.is_some() {
				rep.count("garbage_sessions_silent");
			}
			s.close();
		} else {
			desc = String::new();
		}
		rep.count("garbage_sessions");
		let params = Json::obj().set("variant", variant).set("what", desc);
		if flush_violations(&cx, rep, &mut w, &params) {
			break;
		}
	}
	harvest_sock_stats(rep, &w);
	rep.count("cases_garbage");
}

const KNOWN_TYPES: &[u16] = &[1, 2, 7, 9, 16, 17, 18, 19, 32, 33, 34, 35, 36, 38, 39, 64, 65, 66, 67, 68, 69, 70, 71, 72, 73, 74, 77, 80, 81, 127, 128, 130, 131, 132, 133, 134, 135, 136, 256, 257, 258, 259, 261, 262, 263, 264, 265, 513];
const UNKNOWN_ODD: &[u16] = &[UNCLAIMED_ODD, 32767, 9999, 20001, 11111];

fn with_type(ty: u16, body: &[u8]) -> Vec<u8> {
	let mut p = ty.to_be_bytes().to_vec();
	p.extend_from_slice(body);
	p
}
/// A payload the library must survive (and, for claimed custom types, deliver).
fn benign_payload(rng: &mut Rng) -> Vec<u8> {
	match rng.below(10) {
		0..=3 => { let st = *rng.pick(&[0u8, 1, 1, 2]); gen_custom(rng, st).payload() },
		4 | 5 => {
			let bl = *rng.pick(&[0u16, 1, 64, 1000, 65529]);
			ping_payload(*rng.pick(&[0u16, 1, 4, 64, 1000, 65531, 65532, 65533, 65535]), if rng.chance(1, 4) { bl } else { rng.below(100) as u16 })
		},
		6 => pong_payload(*rng.pick(&[0u16, 1, 64, 65531])),
		7 | 8 => with_type(*rng.pick(UNKNOWN_ODD), &rvec(rng, |r| r.below(200) as usize)),
		_ => {
			let mut b = rng.vec(32);
			let txt = b"harness warning";
			b.extend_from_slice(&(txt.len() as u16).to_be_bytes());
			b.extend_from_slice(txt);
			with_type(1, &b)
		},
	}
}
/// Authenticated frames with hostile content: anything may happen except a panic, a callback
/// before Init, or a delivery that breaks the prefix rule.
fn hostile_payload(rng: &mut Rng) -> Vec<u8> {
	match rng.below(16) {
		0 => with_type(rng.below(65536) as u16, &rvec(rng, |r| r.below(300) as usize)),
		1 | 2 => with_type(*rng.pick(KNOWN_TYPES), &rvec(rng, |r| *r.pick(&[0usize, 1, 2, 31, 32, 33, 34, 64, 100, 130, 200, 400, 1500]))),
		3 => chan_payload(rng, 1),
		4 => {
			// start_batch and friends
			let mut b = rng.vec(32);
			if rng.chance(1, 2) {
				b = vec![3u8; 32];
			}
			b.extend_from_slice(&(*rng.pick(&[0u16, 1, 2, 3, 20, 21, 65535])).to_be_bytes());
			if rng.chance(3, 4) {
				b.push(1);
				b.push(2);
				b.extend_from_slice(&(*rng.pick(&[132u16, 132, 133, 0])).to_be_bytes());
			}
			with_type(127, &b)
		},
		5 => {
			// commitment_signed-shaped
			let mut b = if rng.chance(1, 2) { vec![3u8; 32] } else { rng.vec(32) };
			b.extend_from_slice(&rng.vec(64));
			b.extend_from_slice(&[0, 0]);
			with_type(132, &b)
		},
		6 => {
			// error, zero or non-zero channel
			let mut b = if rng.chance(1, 2) { vec![0u8; 32] } else { rng.vec(32) };
			b.extend_from_slice(&[0, 3, b'x', b'y', b'z']);
			with_type(17, &b)
		},
		7 => with_type(*rng.pick(&[UNCLAIMED_EVEN, 20000, 32766, 40, 42]), &rvec(rng, |r| r.below(50) as usize)),
		8 => rvec(rng, |r| r.below(2) as usize), // no type at all
		9 => init_payload(&rvec(rng, |r| r.below(4) as usize), if rng.chance(1, 2) { Some(&[[1u8; 32]]) } else { None }, if rng.chance(1, 3) { Some((*rng.pick(&[3u8, 5, 7, 8]), &[1, 2, 3])) } else { None }),
		10 => with_type(*rng.pick(&[POISON_INVALID, POISON_SHORT]), &rvec(rng, |r| r.below(20) as usize)),
		11 => {
			let mut b = vec![rng.below(7) as u8];
			b.extend_from_slice(&rvec(rng, |r| r.below(20) as usize));
			with_type(HANDLER_ERR, &b)
		},
		12 => {
			// gossip_timestamp_filter / query_channel_range
			let mut b = rng.vec(32);
			b.extend_from_slice(&rng.vec(8));
			with_type(*rng.pick(&[265u16, 263]), &b)
		},
		13 => with_type(*rng.pick(KNOWN_TYPES), &rng.vec(65533)),
		_ => benign_payload(rng),
	}
}

/// E: authenticated frames with unexpected or hostile content (T3, T4, T1 for the survivors).
fn hostile_case(args: &Args, idx: u64, rng: &mut Rng, rep: &mut Report) {
	let cx = Ctx { args, idx, family: "hostile" };
	let mut w = World::new(1, rng);
	let rounds = 3 + rng.below(5);
	for _ in 0..rounds {
		if w.poisoned {
			break;
		}
		// 0: the first frame is not Init; 1: benign traffic that must be survived; 2: hostile
		let mode = rng.below(3);
		let r_init = rng.chance(1, 2);
		let frag = rng.below(7) as u8;
		let wstyle = *rng.pick(&[0u8, 0, 1, 2, 5]);
		w.sh.foreign_ok.set(mode != 1);
		rep.distinct(Fnv::new().str(cx.family).u64(mode).u64(r_init as u64).u64(frag as u64).u64(wstyle as u64).get());
		let mut desc = Vec::new();
		if let Some(mut s) = RefSession::open(&mut w, rng, r_init, frag, wstyle) {
			let mut plist: Vec<Vec<u8>> = Vec::new();
			match mode {
				0 => {
					let first = match rng.below(10) {
						8 | 9 => {
							// a well-formed error or warning (zero or non-zero channel id) as the very first message
							let mut body: Vec<u8> = if rng.chance(1, 3) { vec![0u8; 32] } else { rng.vec(32) };
							let text = rvec(rng, |r| r.below(80) as usize);
							body.extend_from_slice(&(text.len() as u16).to_be_bytes());
							body.extend_from_slice(&text);
							rep.count("non_init_first_error_or_warning");
							with_type(if rng.chance(2, 3) { 17 } else { 1 }, &body)
						},
						0 | 1 => gen_custom(rng, 0).payload(),
						2 | 3 => chan_payload(rng, 0),
						4 => ping_payload(4, 4),
						5 => with_type(*rng.pick(KNOWN_TYPES), &rvec(rng, |r| r.below(200) as usize)),
						6 => with_type(*rng.pick(UNKNOWN_ODD), &rng.vec(8)),
						_ => with_type(32, &rng.vec(319)),
					};
					let first = if first.len() >= 2 && first[0] == 0 && first[1] == 16 { ping_payload(0, 0) } else { first };
					plist.push(first);
					plist.push(init_payload(&[], None, None));
					for _ in 0..rng.below(4) {
						plist.push(if rng.chance(1, 2) { gen_custom(rng, 0).payload() } else { chan_payload(rng, 0) });
					}
					rep.count("non_init_first_sessions");
				},
				1 => {
					plist.push(init_payload(&[], None, None));
					for _ in 0..3 + rng.below(25) {
						plist.push(benign_payload(rng));
					}
				},
				_ => {
					plist.push(if rng.chance(3, 4) { init_payload(&[], None, None) } else { init_payload(&rvec(rng, |r| r.below(3) as usize), None, None) });
					for _ in 0..2 + rng.below(12) {
						plist.push(hostile_payload(rng));
					}
				},
			}
			for p in &plist {
				desc.push(format!("{}:{}", if p.len() >= 2 { u16::from_be_bytes([p[0], p[1]]) as i64 } else { -1 }, p.len()));
				s.payloads.push_back(p.clone());
			}
			if mode != 0 && rng.chance(1, 2) {
				let customs: Vec<CMsg> = (0..rng.below(10)).map(|_| gen_custom(rng, 1)).collect();
				s.ldk_queue = Some((customs, Vec::new()));
			}
			s.auto_pong = mode != 2 || rng.chance(1, 2);
			s.start();
			s.pump();
			rep.add("hostile_frames_sent", s.frames_sent);
			if s.w.poisoned {
				// the panic was reported; nothing else can be judged
			} else if !s.handshake_done {
				s.w.sh.violate("K1", "the handshake between the library and the reference implementation did not complete", String::new());
			} else if mode == 0 {
				// T3 is enforced inside the handlers; here only count what happened
				if !s.ldk_alive() {
					rep.count("non_init_first_dropped");
				}
			} else {
				if mode == 1 && !s.ldk_alive() {
					s.w.sh.violate("T1", "the library dropped a connection that only carried well-formed harmless messages", format!("after {} bytes; frames {:?}", s.w.conns[s.c].ends[0].fed, desc));
				}
				if s.ldk_alive() {
					// a probe proves that both directions are still in sync
					let probe = CMsg { ty: 32769, body: rng.vec(40) };
					s.send_payload(&probe.payload());
					s.pump();
					if s.ldk_alive() {
						let l = s.w.sh.ledgers.borrow();
						let bad = l.get(&(s.c, 1)).map(|d| d.custom.recv != d.custom.sent.len()).unwrap_or(true);
						drop(l);
						if bad {
							s.w.sh.violate("T1", "custom messages were lost on a live connection after unusual but authenticated traffic", format!("frames {:?}", desc));
						} else {
							rep.count("hostile_sessions_survived_in_sync");
						}
					} else {
						rep.count("hostile_sessions_dropped");
					}
				} else {
					rep.count("hostile_sessions_dropped");
				}
			}
			rep.add("frames_authenticated_by_reference", s.r.frames_ok);
			rep.add("pongs_received_by_reference", s.pongs_seen);
			rep.add("errors_and_warnings_received_by_reference", s.errors_seen + s.warnings_seen);
			s.close();
		}
		rep.count("hostile_sessions");
		let params = Json::obj().set("mode", mode).set("reference_initiates", r_init).set("frag", frag).set("frames_type_len", desc);
		if flush_violations(&cx, rep, &mut w, &params) {
			break;
		}
	}
	w.sh.foreign_ok.set(false);
	rep.add("foreign_messages_seen_by_handlers", w.sh.foreign_seen.get());
	harvest_sock_stats(rep, &w);
	rep.count("cases_hostile");
}

// =============================================================================================
// 9. Main
// =============================================================================================
fn main() {
	vcore::install_quiet_panic_hook();
	let args = Args::parse();
	let mut rep = args.report();
	match refimpl::selftest() {
		Ok(n) => rep.add("reference_selftest_vectors", n),
		Err(e) => {
			rep.inconclusive(format!("reference BOLT-8 implementation fails its self test: {}", e));
			rep.write_to(&args.out);
			return;
		},
	}
	let total = args.num("cases", 32000, 1_600_000);
	let only = args.kv.get("only").map(|v| v.parse::<u64>().expect("only"));
	bins::shard_runs(&args, total, &mut rep, |idx, rng, rep| {
		if let Some(o) = only {
			if o != idx {
				return;
			}
		}
		let t0 = std::time::Instant::now();
		let r = vcore::guarded(|| match (idx.wrapping_mul(0x9E3779B97F4A7C15) >> 33) % 40 {
			7 => chaos_case(&args, idx, rng, rep, true),
			23 => ref_interop_case(&args, idx, rng, rep, true),
			_ => match rng.weighted(&[34, 14, 26, 12, 14]) {
				0 => chaos_case(&args, idx, rng, rep, false),
				1 => ref_interop_case(&args, idx, rng, rep, false),
				2 => fault_sweep_case(&args, idx, rng, rep),
				3 => garbage_case(&args, idx, rng, rep),
				_ => hostile_case(&args, idx, rng, rep),
			},
		});
		if args.flag("timing") && t0.elapsed().as_millis() > 300 {
			eprintln!("case {} took {} ms", idx, t0.elapsed().as_millis());
		}
		if let Err(p) = r {
			// a panic outside the guarded library calls is a harness problem, not a verdict
			rep.inconclusive(format!("harness panic in case {}: {}", idx, vcore::canon(&p)));
		}
	});
	rep.write_to(&args.out);
}
