//! C17 – the network graph holds only authentic, current gossip, whatever the order.
//!
//! A message universe is generated with real keys (valid, wrongly signed, re-signed by other keys,
//! wrong chain, unknown channel, equal/older timestamps, htlc_maximum above capacity, duplicated,
//! signed and unsigned delivery paths). Oracles:
//!  G1 sequence oracle – a ~100-line reference graph (latest-timestamp-wins map) predicts, for the
//!     exact delivery sequence, accept/reject of every message and the final graph (canonical
//!     projection: channels with endpoints/capacity/per-direction policy+timestamp, nodes with
//!     channel lists and announcement fields);
//!  G2 order independence – the valid, conflict-free subset is delivered in many random orders that
//!     keep each announcement before what refers to it, with duplication: all final graphs equal;
//!  G3 pruning – channel_failed_permanent / node_failed_permanent / stale-removal at chosen times
//!     are applied in both the library and the reference;
//!  G4 serialization – write/read of every final graph gives an equal graph (library `==`) and
//!     equal projection;
//!  G5 asynchronous funding lookups (see `async_lookup_case`);
//!  G6 rapid-gossip-sync snapshots applied on top: the G1 sequences contain snapshots in both format
//!     versions, encoded by this file's own writer (partial channel announcements for known and new
//!     channels, with and without a capacity; full and incremental updates with every field-presence
//!     mask; node reminders, address and feature changes; forwards-compatibility data), with a
//!     `latest_seen` chosen so that the backdated timestamp lands below, on and above timestamps the
//!     graph already holds; the reference applies the same snapshot (strictly-newer rule, capacity
//!     rule, stale pruning at the supplied time) and the projections are compared right afterwards.
use bins::{sk, NullLogger};
use bitcoin::constants::ChainHash;
use bitcoin::hashes::{sha256d, Hash};
use bitcoin::secp256k1::{Message as SecpMsg, PublicKey, Secp256k1, SecretKey};
use bitcoin::{Amount, Network, TxOut};
use lightning::ln::chan_utils::make_funding_redeemscript;
use lightning::ln::msgs::*;
use lightning::routing::gossip::{NetworkGraph, NodeAlias, NodeId};
use lightning::routing::utxo::{UtxoLookup, UtxoLookupError, UtxoResult};
use lightning::types::features::{ChannelFeatures, NodeFeatures};
use lightning::util::ser::{ReadableArgs, Writeable};
use lightning::util::wakers::Notifier;
use std::collections::{BTreeMap, HashMap};
use std::sync::Arc;
use vcore::{Args, Fnv, Json, Report, Rng};

const STALE: u64 = 60 * 60 * 24 * 14;

struct Utxos(HashMap<u64, TxOut>);
impl UtxoLookup for Utxos {
	fn get_utxo(&self, _c: &ChainHash, scid: u64, _n: Arc<Notifier>) -> UtxoResult {
		UtxoResult::Sync(self.0.get(&scid).cloned().ok_or(UtxoLookupError::UnknownTx))
	}
}

#[derive(Clone, Debug, PartialEq)]
struct Dir {
	ts: u32,
	enabled: bool,
	cltv: u16,
	min: u64,
	max: u64,
	base: u32,
	prop: u32,
}
#[derive(Clone, Debug, PartialEq)]
struct RChan {
	n1: NodeId,
	n2: NodeId,
	cap: Option<u64>,
	dirs: [Option<Dir>; 2],
	recv_time: u64,
	feat: Vec<u8>,
}
#[derive(Clone, Debug, PartialEq)]
struct RAnn {
	ts: u32,
	rgb: [u8; 3],
	alias: [u8; 32],
	feat: Vec<u8>,
	addrs: Vec<String>,
}
#[derive(Clone, Debug, PartialEq)]
struct RNode {
	ann: Option<RAnn>,
}
/// The reference graph.
#[derive(Clone, Default)]
struct RefGraph {
	chans: BTreeMap<u64, RChan>,
	nodes: BTreeMap<NodeId, RNode>,
	removed_chans: BTreeMap<u64, u64>,
	removed_nodes: BTreeMap<NodeId, u64>,
}
impl RefGraph {
	fn node_chans(&self, n: &NodeId) -> Vec<u64> {
		self.chans.iter().filter(|(_, c)| c.n1 == *n || c.n2 == *n).map(|(s, _)| *s).collect()
	}
	fn drop_chan(&mut self, scid: u64) {
		if let Some(c) = self.chans.remove(&scid) {
			for n in [c.n1, c.n2] {
				if self.node_chans(&n).is_empty() {
					self.nodes.remove(&n);
				}
			}
		}
	}
	fn projection(&self) -> String {
		let mut s = String::new();
		for (scid, c) in self.chans.iter() {
			s += &format!("C{} {:?} {:?} cap={:?} feat={} d0={:?} d1={:?}\n", scid, c.n1, c.n2, c.cap, vcore::hex(&c.feat), c.dirs[0], c.dirs[1]);
		}
		for (id, n) in self.nodes.iter() {
			s += &format!("N{:?} chans={:?} ann={:?}\n", id, self.node_chans(id), n.ann.as_ref().map(|a| (a.ts, a.rgb, vcore::hex(&a.alias[..4]), vcore::hex(&a.feat), a.addrs.clone())));
		}
		s
	}
}
fn project(g: &NetworkGraph<NullLogger>) -> String {
	let ro = g.read_only();
	let mut chans: BTreeMap<u64, String> = BTreeMap::new();
	for (scid, c) in ro.channels().unordered_iter() {
		let d = |u: &Option<lightning::routing::gossip::ChannelUpdateInfo>| u.as_ref().map(|u| Dir { ts: u.last_update, enabled: u.enabled, cltv: u.cltv_expiry_delta, min: u.htlc_minimum_msat, max: u.htlc_maximum_msat, base: u.fees.base_msat, prop: u.fees.proportional_millionths });
		chans.insert(*scid, format!("C{} {:?} {:?} cap={:?} feat={} d0={:?} d1={:?}\n", scid, c.node_one, c.node_two, c.capacity_sats, vcore::hex(&c.features.encode()), d(&c.one_to_two), d(&c.two_to_one)));
	}
	let mut nodes: BTreeMap<NodeId, String> = BTreeMap::new();
	for (id, n) in ro.nodes().unordered_iter() {
		let mut ch = n.channels.clone();
		ch.sort();
		let ann = n.announcement_info.as_ref().map(|a| (a.last_update(), a.rgb(), vcore::hex(&a.alias().0[..4]), vcore::hex(&a.features().encode()), a.addresses().iter().map(|x| format!("{:?}", x)).collect::<Vec<String>>()));
		nodes.insert(*id, format!("N{:?} chans={:?} ann={:?}\n", id, ch, ann));
	}
	chans.values().cloned().collect::<String>() + &nodes.values().cloned().collect::<String>()
}

#[derive(Clone, Debug)]
enum Op {
	Ca { scid: u64, a: usize, b: usize, lookup: bool, flaw: u8 }, // flaw 0 ok, 1 bad node sig, 2 bad bitcoin sig, 3 wrong chain, 4 signed by other keys
	Cu { scid: u64, dir: u8, d: Dir, flaw: u8, unsigned: bool },  // flaw 0 ok, 1 bad sig, 2 wrong chain, 3 signed by the other end
	Na { n: usize, ts: u32, rgb: [u8; 3], alias: [u8; 32], flaw: u8, unsigned: bool }, // flaw 0 ok, 1 bad sig
	/// via: 0 direct call, 1 NetworkUpdate from a payment failure (permanent), 2 the same, not permanent (no effect)
	FailChan { scid: u64, via: u8 },
	FailNode { n: usize, via: u8 },
	Prune { t: u64 },
	Rgs(RgsSnap),
}

/// A rapid-gossip-sync snapshot as this check generates it (its own description; `encode` is the check's own
/// writer of the documented format, `deliver` holds the reference semantics).
#[derive(Clone, Debug)]
struct RgsSnap {
	v2: bool,
	latest: u32,
	default_feats: Vec<Vec<u8>>,
	nodes: Vec<RgsNode>,
	anns: Vec<RgsAnn>,
	defaults: (u16, u64, u32, u32, u64),
	upds: Vec<RgsUpd>,
	time: u64,
}
#[derive(Clone, Debug)]
struct RgsNode {
	n: usize,
	reminder: bool,
	/// replacement address list: (encoded address, its Debug form when the library knows the type)
	addrs: Option<Vec<(Vec<u8>, Option<String>)>>,
	/// 0 = unchanged, 1..=6 = index+1 into the defaults, 7 = inline
	feat: u8,
	inline_feat: Vec<u8>,
	extra: Option<usize>,
}
#[derive(Clone, Debug)]
struct RgsAnn {
	scid: u64,
	feat: Vec<u8>,
	funding: Option<u64>,
	extra: usize,
}
#[derive(Clone, Debug)]
struct RgsUpd {
	scid: u64,
	dir: u8,
	disabled: bool,
	incremental: bool,
	cltv: Option<u16>,
	min: Option<u64>,
	base: Option<u32>,
	prop: Option<u32>,
	max: Option<u64>,
	/// v2 only: followed by a forwards-compatibility entry (same channel, same direction) of this many bytes
	then_extra: Option<usize>,
}
fn bigsize(v: u64) -> Vec<u8> {
	lightning::util::ser::BigSize(v).encode()
}
fn feat_wire(le: &[u8]) -> Vec<u8> {
	// features on the wire: u16 length, then the flag bytes most significant first
	let mut out = (le.len() as u16).to_be_bytes().to_vec();
	out.extend(le.iter().rev());
	out
}
impl RgsSnap {
	fn encode(&self, u: &Universe, ends: &HashMap<u64, (usize, usize)>) -> Vec<u8> {
		let mut o: Vec<u8> = vec![76, 68, 75, if self.v2 { 2 } else { 1 }];
		o.extend_from_slice(u.chain(false).as_bytes());
		o.extend_from_slice(&self.latest.to_be_bytes());
		if self.v2 {
			o.push(self.default_feats.len() as u8);
			for f in self.default_feats.iter() {
				o.extend(feat_wire(f));
			}
		}
		o.extend_from_slice(&(self.nodes.len() as u32).to_be_bytes());
		for nd in self.nodes.iter() {
			let mut pk = u.npk(nd.n).serialize();
			if self.v2 {
				if nd.addrs.is_some() {
					pk[0] |= 1 << 2;
				}
				pk[0] |= (nd.feat & 7) << 3;
				if nd.reminder {
					pk[0] |= 1 << 6;
				}
				if nd.extra.is_some() {
					pk[0] |= 1 << 7;
				}
			}
			o.extend_from_slice(&pk);
			if self.v2 {
				if let Some(addrs) = nd.addrs.as_ref() {
					o.push(addrs.len() as u8);
					for (raw, _) in addrs.iter() {
						o.push(raw.len() as u8);
						o.extend_from_slice(raw);
					}
				}
				if nd.feat == 7 {
					o.extend(feat_wire(&nd.inline_feat));
				}
				if let Some(n) = nd.extra {
					o.extend_from_slice(&(n as u16).to_be_bytes());
					o.extend(std::iter::repeat(0xa5u8).take(n));
				}
			}
		}
		let idx = |n: usize| self.nodes.iter().position(|x| x.n == n).expect("endpoint listed") as u64;
		o.extend_from_slice(&(self.anns.len() as u32).to_be_bytes());
		let mut prev = 0u64;
		for a in self.anns.iter() {
			o.extend(feat_wire(&a.feat));
			o.extend(bigsize(a.scid - prev));
			prev = a.scid;
			let (x, y) = ends[&a.scid];
			let (lo, hi) = u.ordered(x, y);
			o.extend(bigsize(idx(lo)));
			let with_data = self.v2 && (a.funding.is_some());
			o.extend(bigsize(idx(hi) | if with_data { 1 << 63 } else { 0 }));
			if with_data {
				let mut data = bigsize(a.funding.unwrap());
				data.extend(std::iter::repeat(0x5au8).take(a.extra));
				o.extend_from_slice(&(data.len() as u16).to_be_bytes());
				o.extend(data);
			}
		}
		o.extend_from_slice(&(self.upds.len() as u32 + self.upds.iter().filter(|x| self.v2 && x.then_extra.is_some()).count() as u32).to_be_bytes());
		if !self.upds.is_empty() {
			o.extend_from_slice(&self.defaults.0.to_be_bytes());
			o.extend_from_slice(&self.defaults.1.to_be_bytes());
			o.extend_from_slice(&self.defaults.2.to_be_bytes());
			o.extend_from_slice(&self.defaults.3.to_be_bytes());
			o.extend_from_slice(&self.defaults.4.to_be_bytes());
		}
		let mut prev = 0u64;
		for x in self.upds.iter() {
			o.extend(bigsize(x.scid - prev));
			prev = x.scid;
			let flags = x.dir | if x.disabled { 2 } else { 0 } | if x.incremental { 0x80 } else { 0 } | if x.cltv.is_some() { 0x40 } else { 0 } | if x.min.is_some() { 0x20 } else { 0 } | if x.base.is_some() { 0x10 } else { 0 } | if x.prop.is_some() { 0x08 } else { 0 } | if x.max.is_some() { 0x04 } else { 0 };
			o.push(flags);
			if let Some(v) = x.cltv {
				o.extend_from_slice(&v.to_be_bytes());
			}
			if let Some(v) = x.min {
				o.extend_from_slice(&v.to_be_bytes());
			}
			if let Some(v) = x.base {
				o.extend_from_slice(&v.to_be_bytes());
			}
			if let Some(v) = x.prop {
				o.extend_from_slice(&v.to_be_bytes());
			}
			if let Some(v) = x.max {
				o.extend_from_slice(&v.to_be_bytes());
			}
			if let (true, Some(n)) = (self.v2, x.then_extra) {
				o.extend(bigsize(0));
				o.push(x.dir | 0x7c); // whatever the other bits say, this entry is data to skip
				o.extend_from_slice(&(n as u16).to_be_bytes());
				o.extend(std::iter::repeat(0xc3u8).take(n));
			}
		}
		o
	}
}

struct Universe {
	seed: u64,
	n: usize,
	now: u64,
	caps: HashMap<u64, u64>,
	secp: Secp256k1<bitcoin::secp256k1::All>,
}
impl Universe {
	fn nsk(&self, i: usize) -> SecretKey {
		sk(self.seed, 10 + i as u64)
	}
	fn bsk(&self, i: usize, scid: u64) -> SecretKey {
		sk(self.seed ^ scid, 5000 + i as u64)
	}
	fn npk(&self, i: usize) -> PublicKey {
		PublicKey::from_secret_key(&self.secp, &self.nsk(i))
	}
	fn nid(&self, i: usize) -> NodeId {
		NodeId::from_pubkey(&self.npk(i))
	}
	fn sign(&self, bytes: &[u8], k: &SecretKey) -> bitcoin::secp256k1::ecdsa::Signature {
		let h = sha256d::Hash::hash(bytes);
		self.secp.sign_ecdsa(&SecpMsg::from_digest(h.to_byte_array()), k)
	}
	/// (lower, higher) node indices by node id order
	fn ordered(&self, a: usize, b: usize) -> (usize, usize) {
		if self.nid(a) < self.nid(b) {
			(a, b)
		} else {
			(b, a)
		}
	}
	fn chain(&self, wrong: bool) -> ChainHash {
		if wrong {
			ChainHash::using_genesis_block(Network::Testnet)
		} else {
			ChainHash::using_genesis_block(Network::Regtest)
		}
	}
	fn ca(&self, scid: u64, a: usize, b: usize, flaw: u8) -> ChannelAnnouncement {
		let (lo, hi) = self.ordered(a, b);
		let (b1, b2) = (PublicKey::from_secret_key(&self.secp, &self.bsk(lo, scid)), PublicKey::from_secret_key(&self.secp, &self.bsk(hi, scid)));
		let contents = UnsignedChannelAnnouncement { features: ChannelFeatures::empty(), chain_hash: self.chain(flaw == 3), short_channel_id: scid, node_id_1: self.nid(lo), node_id_2: self.nid(hi), bitcoin_key_1: NodeId::from_pubkey(&b1), bitcoin_key_2: NodeId::from_pubkey(&b2), excess_data: vec![] };
		let enc = contents.encode();
		let other = sk(self.seed, 999);
		let k = |good: SecretKey, which: u8| if flaw == 4 || flaw == which { other } else { good };
		ChannelAnnouncement { node_signature_1: self.sign(&enc, &k(self.nsk(lo), 1)), node_signature_2: self.sign(&enc, &k(self.nsk(hi), 255)), bitcoin_signature_1: self.sign(&enc, &k(self.bsk(lo, scid), 255)), bitcoin_signature_2: self.sign(&enc, &k(self.bsk(hi, scid), 2)), contents }
	}
	fn cu(&self, scid: u64, a: usize, b: usize, dir: u8, d: &Dir, flaw: u8) -> ChannelUpdate {
		let (lo, hi) = self.ordered(a, b);
		let contents = UnsignedChannelUpdate { chain_hash: self.chain(flaw == 2), short_channel_id: scid, timestamp: d.ts, message_flags: 1, channel_flags: dir | if d.enabled { 0 } else { 2 }, cltv_expiry_delta: d.cltv, htlc_minimum_msat: d.min, htlc_maximum_msat: d.max, fee_base_msat: d.base, fee_proportional_millionths: d.prop, excess_data: vec![] };
		let origin = if dir == 0 { lo } else { hi };
		let signer = match flaw {
			1 => sk(self.seed, 998),
			3 => self.nsk(if dir == 0 { hi } else { lo }),
			_ => self.nsk(origin),
		};
		ChannelUpdate { signature: self.sign(&contents.encode(), &signer), contents }
	}
	fn na(&self, n: usize, ts: u32, rgb: [u8; 3], alias: [u8; 32], flaw: u8) -> NodeAnnouncement {
		let contents = UnsignedNodeAnnouncement { features: NodeFeatures::empty(), timestamp: ts, node_id: self.nid(n), rgb, alias: NodeAlias(alias), addresses: vec![], excess_address_data: vec![], excess_data: vec![] };
		let signer = if flaw == 1 { sk(self.seed, 997) } else { self.nsk(n) };
		NodeAnnouncement { signature: self.sign(&contents.encode(), &signer), contents }
	}
}

/// Deliver `ops` to a fresh graph and to the reference; returns (graph, reference, mismatches).
fn deliver(u: &Universe, chan_ends: &HashMap<u64, (usize, usize)>, ops: &[Op], rep: &mut Report, check_each: bool) -> (NetworkGraph<NullLogger>, RefGraph, Vec<String>) {
	let g = NetworkGraph::new(Network::Regtest, NullLogger);
	let mut r = RefGraph::default();
	let mut bad = vec![];
	let utxos = {
		let mut m = HashMap::new();
		for (scid, cap) in u.caps.iter() {
			let (a, b) = chan_ends[scid];
			let (lo, hi) = u.ordered(a, b);
			let (b1, b2) = (PublicKey::from_secret_key(&u.secp, &u.bsk(lo, *scid)), PublicKey::from_secret_key(&u.secp, &u.bsk(hi, *scid)));
			m.insert(*scid, TxOut { value: Amount::from_sat(*cap), script_pubkey: make_funding_redeemscript(&b1, &b2).to_p2wsh() });
		}
		Utxos(m)
	};
	for (i, op) in ops.iter().enumerate() {
		let (got, want): (bool, Option<bool>) = match op {
			Op::Ca { scid, a, b, lookup, flaw } => {
				let msg = u.ca(*scid, *a, *b, *flaw);
				let lk = if *lookup { Some(&utxos) } else { None };
				let res = g.update_channel_from_announcement(&msg, &lk);
				if std::env::var("C17_DBG").is_ok() { eprintln!("{:?} -> {:?}", op, res.as_ref().err().map(|e| &e.err)); }
				let got = res.is_ok();
				let (lo, hi) = u.ordered(*a, *b);
				// reference
				let want = if *flaw != 0 || r.removed_chans.contains_key(scid) || r.removed_nodes.contains_key(&u.nid(lo)) || r.removed_nodes.contains_key(&u.nid(hi)) {
					false
				} else if *lookup && !u.caps.contains_key(scid) {
					false // the lookup says the output does not exist
				} else {
					match r.chans.get(scid) {
						Some(c) if c.cap.is_some() || !*lookup => false, // duplicate
						existing => {
							let _ = existing;
							// new, or re-validated against the chain: the entry is replaced and starts afresh
							r.drop_chan(*scid);
							r.chans.insert(*scid, RChan { n1: u.nid(lo), n2: u.nid(hi), cap: if *lookup { u.caps.get(scid).cloned() } else { None }, dirs: [None, None], recv_time: u.now, feat: ChannelFeatures::empty().encode() });
							for n in [u.nid(lo), u.nid(hi)] {
								r.nodes.entry(n).or_insert(RNode { ann: None });
							}
							true
						},
					}
				};
				(got, Some(want))
			},
			Op::Cu { scid, dir, d, flaw, unsigned } => {
				let (a, b) = chan_ends[scid];
				let msg = u.cu(*scid, a, b, *dir, d, *flaw);
				let got = if *unsigned { g.update_channel_unsigned(&msg.contents).is_ok() } else { g.update_channel(&msg).is_ok() };
				let sig_bad = !*unsigned && (*flaw == 1 || *flaw == 3);
				let want = if *flaw == 2 || sig_bad {
					false
				} else {
					match r.chans.get_mut(scid) {
						None => false,
						Some(c) => {
							let newer = c.dirs[*dir as usize].as_ref().map(|o| d.ts > o.ts).unwrap_or(true);
							let cap_ok = c.cap.map(|s| d.max <= s * 1000).unwrap_or(true);
							if newer && cap_ok {
								c.dirs[*dir as usize] = Some(d.clone());
								true
							} else {
								false
							}
						},
					}
				};
				(got, Some(want))
			},
			Op::Na { n, ts, rgb, alias, flaw, unsigned } => {
				let msg = u.na(*n, *ts, *rgb, *alias, *flaw);
				let got = if *unsigned { g.update_node_from_unsigned_announcement(&msg.contents).is_ok() } else { g.update_node_from_announcement(&msg).is_ok() };
				let want = if !*unsigned && *flaw == 1 {
					// (a bad signature on an announcement that would be refused anyway is refused either way)
					false
				} else {
					match r.nodes.get_mut(&u.nid(*n)) {
						None => false,
						Some(node) => {
							if node.ann.as_ref().map(|a| *ts > a.ts).unwrap_or(true) {
								node.ann = Some(RAnn { ts: *ts, rgb: *rgb, alias: *alias, feat: NodeFeatures::empty().encode(), addrs: vec![] });
								true
							} else {
								false
							}
						},
					}
				};
				(got, Some(want))
			},
			Op::FailChan { scid, via } => {
				match *via {
					0 => g.channel_failed_permanent(*scid),
					v => g.handle_network_update(&lightning::routing::gossip::NetworkUpdate::ChannelFailure { short_channel_id: *scid, is_permanent: v == 1 }),
				}
				rep.count(["g3_channel_failures_direct", "g3_channel_failures_by_network_update", "g3_temporary_failures_by_network_update"][*via as usize]);
				if *via != 2 && r.chans.contains_key(scid) {
					r.drop_chan(*scid);
					r.removed_chans.insert(*scid, u.now);
				}
				(true, None)
			},
			Op::FailNode { n, via } => {
				match *via {
					0 => g.node_failed_permanent(&u.npk(*n)),
					v => g.handle_network_update(&lightning::routing::gossip::NetworkUpdate::NodeFailure { node_id: u.npk(*n), is_permanent: v == 1 }),
				}
				rep.count(["g3_node_failures_direct", "g3_node_failures_by_network_update", "g3_temporary_failures_by_network_update"][*via as usize]);
				let id = u.nid(*n);
				if *via != 2 && r.nodes.contains_key(&id) {
					for s in r.node_chans(&id) {
						r.drop_chan(s);
						r.removed_chans.insert(s, u.now);
					}
					r.nodes.remove(&id);
					r.removed_nodes.insert(id, u.now);
				}
				(true, None)
			},
			Op::Prune { t } => {
				g.remove_stale_channels_and_tracking_with_time(*t);
				let min_time = (*t - STALE) as u32;
				let scids: Vec<u64> = r.chans.keys().cloned().collect();
				for s in scids {
					let c = r.chans.get_mut(&s).unwrap();
					for d in 0..2 {
						if c.dirs[d].as_ref().map(|x| x.ts < min_time).unwrap_or(false) {
							c.dirs[d] = None;
						}
					}
					if (c.dirs[0].is_none() || c.dirs[1].is_none()) && c.recv_time < min_time as u64 {
						r.drop_chan(s);
						r.removed_chans.insert(s, *t);
					}
				}
				// removal tracking is forgotten after a week
				r.removed_chans.retain(|_, at| t.saturating_sub(*at) < 60 * 60 * 24 * 7);
				r.removed_nodes.retain(|_, at| t.saturating_sub(*at) < 60 * 60 * 24 * 7);
				(true, None)
			},
			Op::Rgs(snap) => {
				let bytes = snap.encode(u, chan_ends);
				let sync = lightning_rapid_gossip_sync::RapidGossipSync::new(&g, NullLogger);
				let res = vcore::guarded(|| sync.update_network_graph_no_std(&bytes, Some(snap.time)).map_err(|e| format!("{:?}", e)));
				rep.count("g6_rgs_snapshots_applied");
				rep.count(if snap.v2 { "g6_rgs_snapshots_v2" } else { "g6_rgs_snapshots_v1" });
				match res {
					Ok(Ok(ts)) if ts == snap.latest => {},
					other => bad.push(format!("RGS: op {}: a well-formed snapshot was not applied: {:?}", i, other)),
				}
				// ---- reference semantics ----
				let back = snap.latest.saturating_sub(7 * 24 * 3600);
				// node details are read against the graph as it was before the snapshot
				let mut node_mods: Vec<(NodeId, RAnn)> = vec![];
				if snap.v2 {
					for nd in snap.nodes.iter() {
						if !(nd.reminder || nd.addrs.is_some() || nd.feat > 0) {
							continue;
						}
						let id = u.nid(nd.n);
						let mut ann = RAnn { ts: back, rgb: [0; 3], alias: [0; 32], feat: NodeFeatures::empty().encode(), addrs: vec![] };
						if let Some(old) = r.nodes.get(&id).and_then(|x| x.ann.as_ref()) {
							ann = RAnn { ts: back, ..old.clone() };
						}
						if let Some(addrs) = nd.addrs.as_ref() {
							ann.addrs = addrs.iter().filter_map(|(_, known)| known.clone()).collect();
							rep.add("g6_rgs_node_addresses", addrs.len() as u64);
							rep.add("g6_rgs_node_addresses_of_unknown_type_skipped", addrs.iter().filter(|a| a.1.is_none()).count() as u64);
						}
						if nd.feat == 7 {
							ann.feat = feat_wire(&nd.inline_feat);
						} else if nd.feat > 0 {
							ann.feat = feat_wire(&snap.default_feats[nd.feat as usize - 1]);
						}
						node_mods.push((id, ann));
					}
				}
				for a in snap.anns.iter() {
					let (x, y) = chan_ends[&a.scid];
					let (lo, hi) = u.ordered(x, y);
					if r.chans.contains_key(&a.scid) {
						rep.count("g6_rgs_announcements_of_known_channels");
						continue;
					}
					rep.count("g6_rgs_announcements_of_new_channels");
					r.chans.insert(a.scid, RChan { n1: u.nid(lo), n2: u.nid(hi), cap: if snap.v2 { a.funding } else { None }, dirs: [None, None], recv_time: back as u64, feat: feat_wire(&a.feat) });
					for n in [u.nid(lo), u.nid(hi)] {
						r.nodes.entry(n).or_insert(RNode { ann: None });
					}
				}
				for (id, ann) in node_mods {
					if let Some(node) = r.nodes.get_mut(&id) {
						if node.ann.as_ref().map(|a| ann.ts > a.ts).unwrap_or(true) {
							node.ann = Some(ann);
							rep.count("g6_rgs_node_details_applied");
						} else {
							rep.count("g6_rgs_node_details_not_newer");
						}
					}
				}
				for x in snap.upds.iter() {
					let c = match r.chans.get_mut(&x.scid) {
						Some(c) => c,
						None => {
							rep.count("g6_rgs_updates_for_unknown_channels");
							continue;
						},
					};
					let old = c.dirs[x.dir as usize].clone();
					let mut d = Dir { ts: back, enabled: !x.disabled, cltv: snap.defaults.0, min: snap.defaults.1, base: snap.defaults.2, prop: snap.defaults.3, max: snap.defaults.4 };
					if x.incremental {
						match old.as_ref() {
							Some(o) => d = Dir { ts: back, enabled: !x.disabled, ..o.clone() },
							None => {
								rep.count("g6_rgs_incremental_updates_without_a_base");
								continue;
							},
						}
					}
					if let Some(v) = x.cltv {
						d.cltv = v;
					}
					if let Some(v) = x.min {
						d.min = v;
					}
					if let Some(v) = x.base {
						d.base = v;
					}
					if let Some(v) = x.prop {
						d.prop = v;
					}
					if let Some(v) = x.max {
						d.max = v;
					}
					let newer = old.as_ref().map(|o| d.ts > o.ts).unwrap_or(true);
					let cap_ok = c.cap.map(|s| d.max <= s * 1000).unwrap_or(true);
					if old.as_ref().map(|o| d.ts == o.ts).unwrap_or(false) {
						rep.count("g6_rgs_updates_with_an_equal_timestamp");
					}
					if newer && cap_ok {
						c.dirs[x.dir as usize] = Some(d);
						rep.count(if x.incremental { "g6_rgs_incremental_updates_applied" } else { "g6_rgs_full_updates_applied" });
					} else if !newer {
						rep.count("g6_rgs_updates_not_newer");
					} else {
						rep.count("g6_rgs_updates_above_capacity");
					}
				}
				// the snapshot ends with stale pruning at the supplied time (a snapshot without an update section is
				// done before that, and does not move the graph's sync timestamp either)
				let t = snap.time;
				let min_time = (t - STALE) as u32;
				let scids: Vec<u64> = if snap.upds.is_empty() { vec![] } else { r.chans.keys().cloned().collect() };
				if snap.upds.is_empty() {
					rep.count("g6_rgs_snapshots_without_updates");
				}
				for s in scids {
					let c = r.chans.get_mut(&s).unwrap();
					for d in 0..2 {
						if c.dirs[d].as_ref().map(|x| x.ts < min_time).unwrap_or(false) {
							c.dirs[d] = None;
						}
					}
					if (c.dirs[0].is_none() || c.dirs[1].is_none()) && c.recv_time < min_time as u64 {
						r.drop_chan(s);
						r.removed_chans.insert(s, t);
						rep.count("g6_rgs_channels_pruned_at_the_end_of_a_snapshot");
					}
				}
				if !snap.upds.is_empty() {
					r.removed_chans.retain(|_, at| t.saturating_sub(*at) < 60 * 60 * 24 * 7);
					r.removed_nodes.retain(|_, at| t.saturating_sub(*at) < 60 * 60 * 24 * 7);
				}
				if !snap.upds.is_empty() && g.get_last_rapid_gossip_sync_timestamp() != Some(snap.latest) {
					bad.push(format!("RGS: op {}: last rapid gossip sync timestamp is {:?} after a snapshot seen at {}", i, g.get_last_rapid_gossip_sync_timestamp(), snap.latest));
				}
				let (pg, pr) = (project(&g), r.projection());
				rep.count("g6_rgs_graph_comparisons");
				if pg != pr && bad.is_empty() {
					bad.push(format!("RGS: op {}: graph after the snapshot differs from the reference\nlibrary:\n{}\nreference:\n{}", i, pg, pr));
				}
				(true, None)
			},
		};
		if let Some(w) = want {
			rep.count("g1_accept_reject_predictions");
			if check_each {
				let kind = match op {
					Op::Ca { flaw, lookup, .. } => format!("chan_ann_{}{}", ["valid", "bad_node_sig", "bad_bitcoin_sig", "wrong_chain", "foreign_keys"][*flaw as usize], if *lookup { "_utxo_checked" } else { "" }),
					Op::Cu { flaw, unsigned, .. } => format!("chan_upd_{}{}", ["valid_sig", "bad_sig", "wrong_chain", "signed_by_other_end"][*flaw as usize], if *unsigned { "_unsigned_path" } else { "" }),
					Op::Na { flaw, unsigned, .. } => format!("node_ann_{}{}", ["valid_sig", "bad_sig"][*flaw as usize], if *unsigned { "_unsigned_path" } else { "" }),
					_ => String::new(),
				};
				rep.count(&format!("g1_{}_{}", kind, if got { "accepted" } else { "rejected" }));
			}
			if got {
				rep.count("messages_accepted");
			} else {
				rep.count("messages_rejected");
			}
			if check_each && got != w {
				bad.push(format!("op {} {:?}: library {} but reference {}", i, op, if got { "accepted" } else { "rejected" }, if w { "accepts" } else { "rejects" }));
			}
		}
	}
	(g, r, bad)
}

/// A UtxoLookup that answers asynchronously: every query gets a future the case resolves later.
struct AsyncUtxos(std::sync::Mutex<Vec<(u64, lightning::routing::utxo::UtxoFuture)>>);
impl UtxoLookup for AsyncUtxos {
	fn get_utxo(&self, _c: &ChainHash, scid: u64, n: Arc<Notifier>) -> UtxoResult {
		let f = lightning::routing::utxo::UtxoFuture::new(n);
		self.0.lock().unwrap().push((scid, f.clone()));
		UtxoResult::Async(f)
	}
}

/// G5: while the funding output of an announced channel is being looked up asynchronously, updates for both
/// directions and node announcements of an end arrive in any order; once the lookup resolves the graph holds the
/// channel with its capacity, and for every direction and node the message with the highest timestamp.
fn async_lookup_case(u: &Universe, ends: &HashMap<u64, (usize, usize)>, rng: &mut Rng, rep: &mut Report, viol: &mut impl FnMut(&mut Report, &str, &str, String, &[Op])) {
	use lightning::ln::msgs::{BaseMessageHandler, RoutingMessageHandler};
	let scid = match u.caps.keys().min() {
		Some(s) => *s,
		None => return,
	};
	let cap = u.caps[&scid];
	let (a, b) = ends[&scid];
	let (lo, hi) = u.ordered(a, b);
	let g = NetworkGraph::new(Network::Regtest, NullLogger);
	let lookups = AsyncUtxos(std::sync::Mutex::new(vec![]));
	let sync = lightning::routing::gossip::P2PGossipSync::new(&g, Some(&lookups), NullLogger);
	let peer = u.npk(lo);
	let _ = sync.handle_channel_announcement(Some(peer), &u.ca(scid, a, b, 0));
	if lookups.0.lock().unwrap().is_empty() {
		return;
	}
	let ts0 = u.now as u32 - 3 * 3600;
	let mut ops: Vec<Op> = vec![Op::Ca { scid, a, b, lookup: true, flaw: 0 }];
	let mut best_dir: [Option<u32>; 2] = [None, None];
	let mut best_node: Option<u32> = None;
	let mut msgs: Vec<Op> = vec![];
	for dir in 0..2u8 {
		for k in 0..(1 + rng.below(3)) {
			let ts = ts0 + 10 * k as u32 + dir as u32;
			msgs.push(Op::Cu { scid, dir, d: Dir { ts, enabled: true, cltv: 40, min: 1, max: (cap * 1000).min(1 + rng.below(cap * 1000)), base: rng.below(2000) as u32, prop: rng.below(10_000) as u32 }, flaw: 0, unsigned: false });
		}
	}
	for k in 0..(1 + rng.below(3)) {
		let mut alias = [0u8; 32];
		alias[0] = k as u8 + 1;
		msgs.push(Op::Na { n: lo, ts: ts0 + 100 + 7 * k as u32, rgb: [k as u8, 1, 2], alias, flaw: 0, unsigned: false });
	}
	rng.shuffle(&mut msgs);
	for m in msgs.iter() {
		match m {
			Op::Cu { scid, dir, d, .. } => {
				let _ = sync.handle_channel_update(Some(peer), &u.cu(*scid, a, b, *dir, d, 0));
				best_dir[*dir as usize] = Some(best_dir[*dir as usize].unwrap_or(0).max(d.ts));
			},
			Op::Na { n, ts, rgb, alias, .. } => {
				let _ = sync.handle_node_announcement(Some(peer), &u.na(*n, *ts, *rgb, *alias, 0));
				best_node = Some(best_node.unwrap_or(0).max(*ts));
			},
			_ => {},
		}
		ops.push(m.clone());
	}
	let (b1, b2) = (PublicKey::from_secret_key(&u.secp, &u.bsk(lo, scid)), PublicKey::from_secret_key(&u.secp, &u.bsk(hi, scid)));
	let txo = TxOut { value: Amount::from_sat(cap), script_pubkey: make_funding_redeemscript(&b1, &b2).to_p2wsh() };
	for (_, f) in lookups.0.lock().unwrap().iter() {
		f.resolve(Ok(txo.clone()));
	}
	let _ = sync.get_and_clear_pending_msg_events();
	rep.count("g5_async_lookups_resolved");
	let ro = g.read_only();
	let (got_dirs, got_cap) = match ro.channels().get(&scid) {
		Some(c) => ([c.one_to_two.as_ref().map(|x| x.last_update), c.two_to_one.as_ref().map(|x| x.last_update)], c.capacity_sats),
		None => {
			viol(rep, "G5-async-lookup", "a channel whose asynchronous funding lookup succeeded is missing from the graph", format!("scid {}", scid), &ops);
			return;
		},
	};
	let got_node = ro.nodes().get(&u.nid(lo)).and_then(|n| n.announcement_info.as_ref().map(|x| x.last_update()));
	if got_cap != Some(cap) || got_dirs != best_dir || got_node != best_node {
		viol(rep, "G5-async-lookup", "after an asynchronous funding lookup the graph does not hold the newest messages that arrived while it was pending", format!("scid {}: capacity {:?} (want {}), directions {:?} (want {:?}), node announcement {:?} (want {:?})", scid, got_cap, cap, got_dirs, best_dir, got_node, best_node), &ops);
	}
}

fn main() {
	vcore::install_quiet_panic_hook();
	let args = Args::parse();
	let mut rep = args.report();
	let sets = args.num("sets", 6_400, 320_000);
	let orders = args.num("orders", 8, 40);
	bins::shard_runs(&args, sets, &mut rep, |si, rng, rep| one_set(&args, si, rng, rep, orders));
	rep.write_to(&args.out);
}

fn one_set(args: &Args, si: u64, rng: &mut Rng, rep: &mut Report, orders: u64) {
	let now = std::time::SystemTime::now().duration_since(std::time::UNIX_EPOCH).unwrap().as_secs();
	let n = 3 + rng.below(6) as usize;
	let mut u = Universe { seed: si + 1, n, now, caps: HashMap::new(), secp: Secp256k1::new() };
	let nchan = 2 + rng.below(8) as usize;
	let mut ends: HashMap<u64, (usize, usize)> = HashMap::new();
	for c in 0..nchan {
		let a = rng.below(n as u64) as usize;
		let mut b = rng.below(n as u64) as usize;
		if a == b {
			b = (a + 1) % n;
		}
		let scid = 1_000 + c as u64;
		ends.insert(scid, (a, b));
		if rng.chance(2, 3) {
			u.caps.insert(scid, *rng.pick(&[1_000u64, 100_000, 16_000_000]));
		}
	}
	let _ = u.n;
	let ts0 = now as u32 - 6 * 3600;
	let mut viol = |rep: &mut Report, rule: &str, sig: &str, detail: String, ops: &[Op]| {
		let body = Json::obj().set("property", "C17").set("rule", rule).set("signature", sig).set("set", si).set("seed", args.seed).set("detail", detail.clone()).set("ops", Json::Arr(ops.iter().map(|o| Json::Str(format!("{:?}", o))).collect()));
		let path = args.write_replay(&format!("{}-seed{}-set{}", rule, args.seed, si), &body);
		rep.violation("C17", rule, sig, detail, Some(path));
	};

	// ---------------- G1: adversarial sequence against the reference ----------------
	let mut ops: Vec<Op> = vec![];
	let scids: Vec<u64> = ends.keys().cloned().collect();
	let mut dir_ts: HashMap<(u64, u8), Vec<u32>> = HashMap::new();
	let mut last_prune: Option<u64> = None;
	if rng.chance(1, 2) {
		for scid in scids.iter() {
			let (a, b) = ends[scid];
			ops.push(Op::Ca { scid: *scid, a, b, lookup: rng.chance(1, 2), flaw: 0 });
		}
	}
	for _ in 0..(20 + rng.below(60)) {
		let scid = *rng.pick(&scids);
		let (a, b) = ends[&scid];
		match rng.below(22) {
			20..=21 => {
				let snap = gen_rgs(&u, &ends, &scids, &mut dir_ts, ts0, rng);
				// often followed by a later snapshot that changes the same directions incrementally
				let follow = if !snap.upds.is_empty() && rng.chance(1, 2) {
					let mut f = snap.clone();
					f.latest += 1 + rng.below(3000) as u32;
					f.anns.clear();
					for nd in f.nodes.iter_mut() {
						nd.reminder = false;
						nd.addrs = None;
						nd.feat = 0;
					}
					for x in f.upds.iter_mut() {
						x.incremental = !rng.chance(1, 5);
						x.cltv = if rng.chance(1, 3) { Some(6 + rng.below(200) as u16) } else { None };
						x.base = if rng.chance(1, 3) { Some(rng.below(5000) as u32) } else { None };
						x.prop = if rng.chance(1, 3) { Some(rng.below(10000) as u32) } else { None };
						x.min = if rng.chance(1, 3) { Some(rng.below(2000)) } else { None };
						x.max = None;
						x.disabled = rng.chance(1, 4);
						dir_ts.entry((x.scid, x.dir)).or_default().push(f.latest - 7 * 24 * 3600);
					}
					Some(f)
				} else {
					None
				};
				ops.push(Op::Rgs(snap));
				if let Some(f) = follow {
					if rng.chance(1, 2) {
						let scid = *rng.pick(&scids);
						ops.push(Op::FailChan { scid, via: rng.below(2) as u8 });
					}
					ops.push(Op::Rgs(f));
				}
			},
			0..=4 => ops.push(Op::Ca { scid, a, b, lookup: rng.chance(1, 2), flaw: if rng.chance(1, 4) { 1 + rng.below(4) as u8 } else { 0 } }),
			5..=12 => {
				let dir = rng.below(2) as u8;
				let cap = u.caps.get(&scid).cloned().unwrap_or(1_000_000);
				let tss = dir_ts.entry((scid, dir)).or_default();
				// fresh, equal to or older than an earlier timestamp of this direction
				let ts = if !tss.is_empty() && rng.chance(1, 3) { *rng.pick(tss) - rng.below(2) as u32 } else { ts0 + rng.below(12 * 3600) as u32 };
				tss.push(ts);
				let max = *rng.pick(&[cap * 1000, cap * 1000 + 1, cap * 500, cap * 2000, 1]);
				let d = Dir { ts, enabled: !rng.chance(1, 5), cltv: 6 + rng.below(200) as u16, min: rng.below(2000), max, base: rng.below(5000) as u32, prop: rng.below(10000) as u32 };
				ops.push(Op::Cu { scid, dir, d, flaw: if rng.chance(1, 5) { 1 + rng.below(3) as u8 } else { 0 }, unsigned: rng.chance(1, 6) });
			},
			13..=16 => {
				let nn = rng.below(n as u64) as usize;
				ops.push(Op::Na { n: nn, ts: ts0 + rng.below(40) as u32 * 600, rgb: rng.bytes(), alias: rng.bytes(), flaw: if rng.chance(1, 5) { 1 } else { 0 }, unsigned: rng.chance(1, 3) });
			},
			17 => ops.push(Op::FailChan { scid, via: rng.below(3) as u8 }),
			18 => {
				if rng.chance(1, 3) {
					ops.push(Op::FailNode { n: rng.below(n as u64) as usize, via: rng.below(3) as u8 });
				}
			},
			_ => {
				// prune with the staleness horizon either well before every timestamp, in the middle of them, or past "now"
				let horizon = *rng.pick(&[ts0 as u64 - 7200, ts0 as u64 - 7200, ts0 as u64 + 6 * 3600 + 1800 + 17, now + 3 * 3600]);
				let mut t = horizon + STALE;
				if let (Some(p), true) = (last_prune, rng.chance(1, 3)) {
					t = p + 60 * 60 * 24 * 7 - rng.below(2); // at / just inside the tracking age limit of the previous pruning
				}
				last_prune = Some(t);
				ops.push(Op::Prune { t });
			},
		}
	}
	let (g, r, bad) = deliver(&u, &ends, &ops, rep, true);
	rep.count("g1_sequences");
	rep.add("g1_ops", ops.len() as u64);
	if let Some(b) = bad.first().filter(|b| b.starts_with("RGS:")) {
		viol(rep, "G6-rgs-snapshot", &format!("rapid-gossip-sync snapshot: {}", vcore::canon(&b.splitn(3, ':').last().unwrap_or("").lines().next().unwrap_or("").to_string())), b.chars().take(3000).collect(), &ops);
	} else if let Some(b) = bad.first() {
		viol(rep, "G1-accept-reject", &format!("acceptance differs from the reference graph: {}", vcore::canon(&b.split(": library").last().unwrap_or("").to_string())), b.clone(), &ops);
	}
	let (pg, pr) = (project(&g), r.projection());
	if pg != pr && bad.is_empty() {
		viol(rep, "G1-final-graph", "final graph differs from the reference graph", format!("library:\n{}\nreference:\n{}", pg, pr).chars().take(3000).collect(), &ops);
	}
	serial_check(&g, rep, &mut viol, &ops);
	async_lookup_case(&u, &ends, rng, rep, &mut viol);
	let mut h = Fnv::new();
	h.u64(g.read_only().channels().len() as u64).u64(g.read_only().nodes().len() as u64).u64(ops.len() as u64 / 8).u64(r.removed_chans.len() as u64);
	rep.distinct(h.get());
	if rep.samples.len() < rep.max_samples && rng.chance(1, 40) {
		rep.sample(Json::obj().set("set", si).set("ops", Json::Arr(ops.iter().take(12).map(|o| Json::Str(format!("{:?}", o))).collect())).set("final_graph", pg.chars().take(600).collect::<String>()));
	}

	// ---------------- G2: order independence on the valid, conflict-free subset ----------------
	let lookup_all = rng.chance(1, 2);
	let mut base: Vec<Op> = vec![];
	for (scid, (a, b)) in ends.iter() {
		if lookup_all && !u.caps.contains_key(scid) {
			continue; // the chain says this output does not exist
		}
		base.push(Op::Ca { scid: *scid, a: *a, b: *b, lookup: lookup_all, flaw: 0 });
		for dir in 0..2u8 {
			let mut used = vec![];
			for _ in 0..rng.below(4) {
				let mut ts = ts0 + rng.below(12 * 3600) as u32;
				while used.contains(&ts) {
					ts += 1;
				}
				used.push(ts);
				let cap = if lookup_all { u.caps[scid] } else { 1_000_000 };
				base.push(Op::Cu { scid: *scid, dir, d: Dir { ts, enabled: !rng.chance(1, 5), cltv: 40, min: rng.below(1000), max: cap * 1000 - rng.below(1000), base: rng.below(5000) as u32, prop: rng.below(10000) as u32 }, flaw: 0, unsigned: false });
			}
		}
	}
	for nn in 0..n {
		let mut used = vec![];
		for _ in 0..rng.below(3) {
			let mut ts = ts0 + rng.below(12 * 3600) as u32;
			while used.contains(&ts) {
				ts += 1;
			}
			used.push(ts);
			base.push(Op::Na { n: nn, ts, rgb: rng.bytes(), alias: rng.bytes(), flaw: 0, unsigned: false });
		}
	}
	let mut first_proj: Option<(String, Vec<Op>)> = None;
	for _o in 0..orders {
		// random topological order: a channel_update after its announcement, a node_announcement after
		// some announcement naming the node; random duplication
		let mut pending = base.clone();
		rng.shuffle(&mut pending);
		let mut seq: Vec<Op> = vec![];
		let mut have_chan: Vec<u64> = vec![];
		let mut have_node: Vec<usize> = vec![];
		let mut guard = 0;
		while !pending.is_empty() && guard < 100_000 {
			guard += 1;
			let k = rng.below(pending.len() as u64) as usize;
			let ok = match &pending[k] {
				Op::Ca { .. } => true,
				Op::Cu { scid, .. } => have_chan.contains(scid),
				Op::Na { n, .. } => have_node.contains(n),
				_ => true,
			};
			if !ok {
				continue;
			}
			let op = pending.remove(k);
			if let Op::Ca { scid, a, b, .. } = &op {
				have_chan.push(*scid);
				have_node.push(*a);
				have_node.push(*b);
			}
			if rng.chance(1, 5) {
				seq.push(op.clone()); // duplicate delivery
			}
			seq.push(op);
			if rng.chance(1, 10) && !seq.is_empty() {
				let d = seq[rng.below(seq.len() as u64) as usize].clone();
				seq.push(d); // re-delivery of something older
			}
		}
		// nodes whose announcements could not be placed (no channel) are dropped identically in every order
		let (g2, _r2, _) = deliver(&u, &ends, &seq, rep, false);
		rep.count("g2_orders_delivered");
		let p = project(&g2);
		match &first_proj {
			None => first_proj = Some((p, seq.clone())),
			Some((p0, seq0)) => {
				if *p0 != p {
					let mut both = seq0.clone();
					both.push(Op::Prune { t: 0 });
					both.extend(seq.clone());
					viol(rep, "G2-order-independence", "two admissible delivery orders of the same valid messages give different graphs", format!("first:\n{}\nsecond:\n{}", p0, p).chars().take(3000).collect(), &both);
					break;
				}
			},
		}
		serial_check(&g2, rep, &mut viol, &seq);
	}
}

/// A snapshot whose backdated timestamp lands below, on or above timestamps the sequence uses.
fn gen_rgs(u: &Universe, ends: &HashMap<u64, (usize, usize)>, scids: &[u64], dir_ts: &mut HashMap<(u64, u8), Vec<u32>>, ts0: u32, rng: &mut Rng) -> RgsSnap {
	let v2 = rng.chance(1, 2);
	let known: Vec<u32> = dir_ts.values().flatten().cloned().collect();
	let bt: u32 = if !known.is_empty() && rng.chance(1, 2) { (*rng.pick(&known) + 1).saturating_sub(rng.below(3) as u32) } else if rng.chance(1, 5) { ts0 - 7200 } else { ts0 + rng.below(12 * 3600) as u32 };
	let pats: [&[u8]; 4] = [&[], &[0x02], &[0x00, 0x80], &[0xaa, 0x0a]];
	let default_feats: Vec<Vec<u8>> = if v2 { (0..rng.below(4)).map(|_| rng.pick(&pats).to_vec()).collect() } else { vec![] };
	let mut with_history: Vec<(u64, u8)> = dir_ts.keys().cloned().collect();
	with_history.sort();
	let mut pairs: std::collections::BTreeSet<(u64, u8)> = Default::default();
	for _ in 0..rng.below(7) {
		if !with_history.is_empty() && rng.chance(1, 2) {
			pairs.insert(*rng.pick(&with_history)); // a direction that has seen updates: incremental entries have a base
			continue;
		}
		let s = if rng.chance(1, 12) { 5 } else { *rng.pick(scids) };
		pairs.insert((s, rng.below(2) as u8));
	}
	let mut ann_scids: std::collections::BTreeSet<u64> = Default::default();
	for _ in 0..rng.below(5) {
		ann_scids.insert(*rng.pick(scids));
	}
	for (s, _) in pairs.iter() {
		if *s != 5 && rng.chance(1, 2) {
			ann_scids.insert(*s); // the snapshot announces what it updates
		}
	}
	let anns: Vec<RgsAnn> = ann_scids.iter().map(|s| RgsAnn { scid: *s, feat: rng.pick(&pats[..3]).to_vec(), funding: if rng.chance(1, 2) { Some(u.caps.get(s).cloned().unwrap_or(*rng.pick(&[1_000u64, 2_000_000]))) } else { None }, extra: rng.below(4) as usize }).collect();
	let mut listed: std::collections::BTreeSet<usize> = Default::default();
	for a in anns.iter() {
		listed.insert(ends[&a.scid].0);
		listed.insert(ends[&a.scid].1);
	}
	for _ in 0..rng.below(4) {
		listed.insert(rng.below(u.n as u64) as usize);
	}
	let mut order: Vec<usize> = listed.into_iter().collect();
	rng.shuffle(&mut order);
	let nodes: Vec<RgsNode> = order.into_iter().map(|n| {
		let addrs = if v2 && rng.chance(1, 4) {
			Some((0..rng.below(4)).map(|_| {
				let a = match rng.below(4) {
					0 => Some(SocketAddress::TcpIpV4 { addr: rng.bytes(), port: rng.below(65536) as u16 }),
					1 => Some(SocketAddress::OnionV3 { ed25519_pubkey: rng.bytes(), checksum: rng.below(65536) as u16, version: 3, port: rng.below(65536) as u16 }),
					2 => Some(SocketAddress::Hostname { hostname: lightning::util::ser::Hostname::try_from(format!("n{}.example.com", rng.below(100))).unwrap(), port: 9735 }),
					_ => None,
				};
				match a {
					Some(a) => (a.encode(), Some(format!("{:?}", a))),
					None => (vec![77, rng.below(256) as u8, 2, 3], None),
				}
			}).collect())
		} else {
			None
		};
		let feat = if !v2 || rng.chance(2, 3) { 0 } else if !default_feats.is_empty() && rng.chance(1, 2) { 1 + rng.below(default_feats.len() as u64) as u8 } else { 7 };
		RgsNode { n, reminder: v2 && rng.chance(1, 5), addrs, feat, inline_feat: rng.pick(&pats).to_vec(), extra: if v2 && rng.chance(1, 8) { Some(rng.below(20) as usize) } else { None } }
	}).collect();
	let flip = rng.chance(1, 2);
	let mut pairs: Vec<(u64, u8)> = pairs.into_iter().collect();
	pairs.sort_by_key(|(s, d)| (*s, if flip { 1 - *d } else { *d }));
	let maxes = |s: &u64, rng: &mut Rng| {
		let cap = u.caps.get(s).cloned().unwrap_or(1_000_000);
		*rng.pick(&[cap * 1000, cap * 1000, cap * 1000 + 1, cap * 500, 1])
	};
	let upds: Vec<RgsUpd> = pairs.iter().map(|(s, d)| {
		dir_ts.entry((*s, *d)).or_default().push(bt);
		RgsUpd { scid: *s, dir: *d, disabled: rng.chance(1, 5), incremental: rng.chance(1, 2),
			cltv: if rng.chance(1, 2) { Some(6 + rng.below(200) as u16) } else { None }, min: if rng.chance(1, 2) { Some(rng.below(2000)) } else { None },
			base: if rng.chance(1, 2) { Some(rng.below(5000) as u32) } else { None }, prop: if rng.chance(1, 2) { Some(rng.below(10000) as u32) } else { None },
			max: if rng.chance(1, 2) { Some(maxes(s, rng)) } else { None }, then_extra: if rng.chance(1, 6) { Some(rng.below(40) as usize) } else { None } }
	}).collect();
	let defaults = (10 + rng.below(100) as u16, rng.below(1000), rng.below(3000) as u32, rng.below(8000) as u32, *rng.pick(&[1_000_000u64, 999_000, 100_000_000, 16_000_000_000]));
	RgsSnap { v2, latest: bt + 7 * 24 * 3600, default_feats, nodes, anns, defaults, upds, time: u.now }
}

fn serial_check(g: &NetworkGraph<NullLogger>, rep: &mut Report, viol: &mut impl FnMut(&mut Report, &str, &str, String, &[Op]), ops: &[Op]) {
	let bytes = g.encode();
	rep.count("g4_serialization_roundtrips");
	match NetworkGraph::read(&mut &bytes[..], NullLogger) {
		Ok(g2) => {
			if project(&g2) != project(g) {
				viol(rep, "G4-serialization", "graph read back from its serialization has different contents", String::new(), ops);
			} else if g2 != *g {
				viol(rep, "G4-serialization", "graph read back from its serialization is not equal to the original", String::new(), ops);
			}
		},
		Err(e) => viol(rep, "G4-serialization", &format!("serialized graph does not read back: {:?}", e), String::new(), ops),
	}
}
