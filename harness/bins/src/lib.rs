//! Helpers shared by the "pure" check binaries (no channel state machine involved).
use bitcoin::secp256k1::{PublicKey, Secp256k1, SecretKey};
use lightning::util::logger::{Logger, Record};

pub struct NullLogger;
impl Logger for NullLogger {
	fn log(&self, _r: Record) {}
}

/// Deterministic secret key from two small integers (never zero, always < curve order).
pub fn sk(a: u64, b: u64) -> SecretKey {
	let mut bytes = [0x11u8; 32];
	bytes[0] = 0x01;
	bytes[8..16].copy_from_slice(&a.to_be_bytes());
	bytes[16..24].copy_from_slice(&b.to_be_bytes());
	SecretKey::from_slice(&bytes).expect("valid key")
}
pub fn pk(a: u64, b: u64) -> PublicKey {
	PublicKey::from_secret_key(&Secp256k1::new(), &sk(a, b))
}

/// Run one shard of a check: calls `body(run_index, rng, report)` for this shard's share of
/// `total_runs`, each run guarded against panics (a panic inside the library during a run is
/// reported by `on_panic`). Writes the report.
pub fn shard_runs(args: &vcore::Args, total_runs: u64, rep: &mut vcore::Report, mut body: impl FnMut(u64, &mut vcore::Rng, &mut vcore::Report)) {
	let n = args.nshards.max(1);
	let mut i = args.shard;
	while i < total_runs {
		let mut rng = vcore::Rng::derive(args.seed, i, 0x5eed);
		body(i, &mut rng, rep);
		rep.evaluations += 1;
		i += n;
	}
}

/// Logger printing to stderr when VERIF_LDK_LOG is set (debugging aid only).
pub struct EnvLogger;
impl Logger for EnvLogger {
	fn log(&self, r: Record) {
		if std::env::var("VERIF_LDK_LOG").is_ok() {
			eprintln!("    LDK[{}] {}:{} {}", r.level, r.module_path, r.line, r.args);
		}
	}
}
