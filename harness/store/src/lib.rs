//! Storage-layer checks (C19): see src/bin/.
//!
//! Shared pieces: self-describing values (so that a torn / mixed / truncated value is recognisable
//! without knowing what was written), a thin enum over the two filesystem stores shipped with
//! lightning-persister, temp-directory hygiene and the shard loop.

use lightning::io;
use lightning::util::persist::{KVStore, KVStoreSync, MigratableKVStoreSync};
use lightning_persister::fs_store::v1::FilesystemStore;
use lightning_persister::fs_store::v2::FilesystemStoreV2;
use std::future::Future;
use std::path::{Path, PathBuf};
use std::pin::Pin;

// ---------------------------------------------------------------------------------------------
// Self-describing values
// ---------------------------------------------------------------------------------------------
pub const VALUE_MAGIC: &[u8; 4] = b"C19V";
pub const VALUE_END: &[u8; 4] = b"END!";
pub const VALUE_OVERHEAD: usize = 4 + 8 + 4 + 4;

/// Value id: who wrote it (thread / process tag) and that writer's counter.
pub fn value_id(writer: u64, counter: u64) -> u64 {
	(writer << 32) | (counter & 0xffff_ffff)
}
pub fn id_writer(id: u64) -> u64 {
	id >> 32
}
pub fn id_counter(id: u64) -> u64 {
	id & 0xffff_ffff
}

fn pattern_byte(id: u64, i: usize) -> u8 {
	// a repeated pattern whose period (1..=97) and content depend on the id
	let period = 1 + (id.wrapping_mul(0x9E37_79B9_7F4A_7C15) >> 40) as usize % 97;
	let j = (i % period) as u64;
	let x = id.wrapping_add(j.wrapping_mul(0xA24B_AED4_963E_E407)).wrapping_mul(0xD6E8_FEB8_6659_FD93);
	(x >> 29) as u8
}

/// `MAGIC | id | body_len | body (pattern of id) | END`
pub fn encode_value(id: u64, body_len: usize) -> Vec<u8> {
	let mut v = Vec::with_capacity(body_len + VALUE_OVERHEAD);
	v.extend_from_slice(VALUE_MAGIC);
	v.extend_from_slice(&id.to_le_bytes());
	v.extend_from_slice(&(body_len as u32).to_le_bytes());
	for i in 0..body_len {
		v.push(pattern_byte(id, i));
	}
	v.extend_from_slice(VALUE_END);
	v
}

#[derive(Clone, Debug, PartialEq, Eq)]
pub enum Decoded {
	/// exactly one value as produced by `encode_value(id, body_len)`
	Valid { id: u64, body_len: usize },
	/// anything else; the string says what is wrong (stable wording, numbers only after a colon)
	Torn(String),
}

pub fn decode_value(b: &[u8]) -> Decoded {
	if b.is_empty() {
		return Decoded::Torn("empty value".into());
	}
	if b.len() < VALUE_OVERHEAD {
		return Decoded::Torn(format!("shorter than a header: {} bytes", b.len()));
	}
	if &b[0..4] != VALUE_MAGIC {
		return Decoded::Torn("bad magic".into());
	}
	let id = u64::from_le_bytes(b[4..12].try_into().unwrap());
	let body_len = u32::from_le_bytes(b[12..16].try_into().unwrap()) as usize;
	if b.len() < body_len + VALUE_OVERHEAD {
		return Decoded::Torn(format!("truncated: header of value {:#x} announces {} body bytes, {} bytes present", id, body_len, b.len()));
	}
	if b.len() > body_len + VALUE_OVERHEAD {
		return Decoded::Torn(format!("too long: header of value {:#x} announces {} body bytes, {} bytes present", id, body_len, b.len()));
	}
	for i in 0..body_len {
		if b[16 + i] != pattern_byte(id, i) {
			return Decoded::Torn(format!("mixed: body of value {:#x} deviates from its pattern at offset {}", id, i));
		}
	}
	if &b[16 + body_len..] != VALUE_END {
		return Decoded::Torn(format!("bad trailer in value {:#x}", id));
	}
	Decoded::Valid { id, body_len }
}

// ---------------------------------------------------------------------------------------------
// The stores under test
// ---------------------------------------------------------------------------------------------
#[derive(Clone, Copy, Debug, PartialEq, Eq)]
pub enum StoreKind {
	V1,
	V2,
}
impl StoreKind {
	pub fn name(&self) -> &'static str {
		match self {
			StoreKind::V1 => "FilesystemStore",
			StoreKind::V2 => "FilesystemStoreV2",
		}
	}
}

pub enum AnyStore {
	V1(FilesystemStore),
	V2(FilesystemStoreV2),
}

pub type BoxFut<T> = Pin<Box<dyn Future<Output = Result<T, io::Error>> + Send + 'static>>;

impl AnyStore {
	pub fn open(kind: StoreKind, dir: PathBuf) -> Result<AnyStore, String> {
		match kind {
			StoreKind::V1 => Ok(AnyStore::V1(FilesystemStore::new(dir))),
			StoreKind::V2 => FilesystemStoreV2::new(dir).map(AnyStore::V2).map_err(|e| format!("{}", e)),
		}
	}
	pub fn read(&self, p: &str, s: &str, k: &str) -> Result<Vec<u8>, io::Error> {
		match self {
			AnyStore::V1(st) => KVStoreSync::read(st, p, s, k),
			AnyStore::V2(st) => KVStoreSync::read(st, p, s, k),
		}
	}
	pub fn write(&self, p: &str, s: &str, k: &str, buf: Vec<u8>) -> Result<(), io::Error> {
		match self {
			AnyStore::V1(st) => KVStoreSync::write(st, p, s, k, buf),
			AnyStore::V2(st) => KVStoreSync::write(st, p, s, k, buf),
		}
	}
	pub fn remove(&self, p: &str, s: &str, k: &str, lazy: bool) -> Result<(), io::Error> {
		match self {
			AnyStore::V1(st) => KVStoreSync::remove(st, p, s, k, lazy),
			AnyStore::V2(st) => KVStoreSync::remove(st, p, s, k, lazy),
		}
	}
	pub fn list(&self, p: &str, s: &str) -> Result<Vec<String>, io::Error> {
		match self {
			AnyStore::V1(st) => KVStoreSync::list(st, p, s),
			AnyStore::V2(st) => KVStoreSync::list(st, p, s),
		}
	}
	pub fn list_all_keys(&self) -> Result<Vec<(String, String, String)>, io::Error> {
		match self {
			AnyStore::V1(st) => MigratableKVStoreSync::list_all_keys(st),
			AnyStore::V2(st) => MigratableKVStoreSync::list_all_keys(st),
		}
	}
	// The asynchronous interface. The *call* of these functions is what fixes the order of writes
	// to one key; the returned future may be polled whenever.
	pub fn a_read(&self, p: &str, s: &str, k: &str) -> BoxFut<Vec<u8>> {
		match self {
			AnyStore::V1(st) => Box::pin(KVStore::read(st, p, s, k)),
			AnyStore::V2(st) => Box::pin(KVStore::read(st, p, s, k)),
		}
	}
	pub fn a_write(&self, p: &str, s: &str, k: &str, buf: Vec<u8>) -> BoxFut<()> {
		match self {
			AnyStore::V1(st) => Box::pin(KVStore::write(st, p, s, k, buf)),
			AnyStore::V2(st) => Box::pin(KVStore::write(st, p, s, k, buf)),
		}
	}
	pub fn a_remove(&self, p: &str, s: &str, k: &str, lazy: bool) -> BoxFut<()> {
		match self {
			AnyStore::V1(st) => Box::pin(KVStore::remove(st, p, s, k, lazy)),
			AnyStore::V2(st) => Box::pin(KVStore::remove(st, p, s, k, lazy)),
		}
	}
	pub fn a_list(&self, p: &str, s: &str) -> BoxFut<Vec<String>> {
		match self {
			AnyStore::V1(st) => Box::pin(KVStore::list(st, p, s)),
			AnyStore::V2(st) => Box::pin(KVStore::list(st, p, s)),
		}
	}
}

/// What a read means for the map model.
#[derive(Clone, Debug, PartialEq, Eq)]
pub enum ReadOutcome {
	Absent,
	Value { id: u64, body_len: usize },
	Torn { why: String, len: usize, head_hex: String },
	Error(String),
}
pub fn classify_read(r: Result<Vec<u8>, io::Error>) -> ReadOutcome {
	match r {
		Ok(b) => match decode_value(&b) {
			Decoded::Valid { id, body_len } => ReadOutcome::Value { id, body_len },
			Decoded::Torn(why) => ReadOutcome::Torn { why, len: b.len(), head_hex: vcore::hex(&b[..b.len().min(48)]) },
		},
		Err(e) if e.kind() == io::ErrorKind::NotFound => ReadOutcome::Absent,
		Err(e) => ReadOutcome::Error(format!("{:?}: {}", e.kind(), e)),
	}
}

// ---------------------------------------------------------------------------------------------
// Namespaces and keys used by the workloads. Names of keys and of namespaces never coincide (the
// KVStore documentation requires that of the caller).
// ---------------------------------------------------------------------------------------------
pub fn long_name(c: char) -> String {
	std::iter::repeat(c).take(lightning::util::persist::KVSTORE_NAMESPACE_KEY_MAX_LEN).collect()
}
/// (primary, secondary) pairs: both empty, empty secondary, both short, both of maximum length.
pub fn namespace_pool() -> Vec<(String, String)> {
	vec![
		(String::new(), String::new()),
		("pri".into(), String::new()),
		("pri".into(), "sec".into()),
		(long_name('P'), String::new()),
		(long_name('P'), long_name('S')),
		("monitors".into(), "sec-2_x".into()),
	]
}
pub fn key_pool() -> Vec<String> {
	vec!["k".into(), "key_b".into(), long_name('K'), "0".into(), "tmp".into(), "K-9_z".into()]
}

// ---------------------------------------------------------------------------------------------
// Temp directories: everything lives under one root that is removed on drop.
// ---------------------------------------------------------------------------------------------
pub const DEFAULT_TMP_BASE: &str = "/verif/harness/target/c19_tmp";

pub struct TmpRoot {
	pub base: PathBuf,
	pub root: PathBuf,
	remove_base: bool,
}
impl TmpRoot {
	pub fn new(args: &vcore::Args, tag: &str) -> TmpRoot {
		let (base, remove_base) = match args.kv.get("dir") {
			Some(d) => (PathBuf::from(d), false),
			None => (PathBuf::from(DEFAULT_TMP_BASE), true),
		};
		let root = base.join(format!("{}-s{}-sh{}-p{}", tag, args.seed, args.shard, std::process::id()));
		let _ = std::fs::remove_dir_all(&root);
		std::fs::create_dir_all(&root).expect("cannot create temp root");
		TmpRoot { base, root, remove_base }
	}
	pub fn case_dir(&self, case: u64, sub: &str) -> PathBuf {
		self.root.join(format!("c{}{}", case, sub))
	}
	pub fn wipe(p: &Path) {
		let _ = std::fs::remove_dir_all(p);
	}
}
impl Drop for TmpRoot {
	fn drop(&mut self) {
		let _ = std::fs::remove_dir_all(&self.root);
		if self.remove_base {
			// only succeeds when no other shard is using it any more
			let _ = std::fs::remove_dir(&self.base);
		}
	}
}

/// Every file below `dir` (relative paths), for "no artefacts" checks and diagnostics.
pub fn walk_files(dir: &Path) -> Vec<String> {
	fn rec(base: &Path, d: &Path, out: &mut Vec<String>) {
		if let Ok(rd) = std::fs::read_dir(d) {
			for e in rd.flatten() {
				let p = e.path();
				if p.is_dir() {
					rec(base, &p, out);
				} else {
					out.push(p.strip_prefix(base).unwrap_or(&p).to_string_lossy().to_string());
				}
			}
		}
	}
	let mut out = Vec::new();
	rec(dir, dir, &mut out);
	out.sort();
	out
}

/// Signature text without paths, numbers or hex blobs (stable across runs, seeds and machines).
pub fn stable_sig(s: &str) -> String {
	let mut out = String::new();
	let mut it = s.chars().peekable();
	let mut prev_alnum = false;
	while let Some(c) = it.next() {
		if c == '/' && !prev_alnum && it.peek().map(|n| n.is_ascii_alphanumeric() || *n == '_' || *n == '.').unwrap_or(false) {
			// a path: swallow up to whitespace / quote / closing bracket
			while let Some(n) = it.peek() {
				if n.is_whitespace() || *n == '"' || *n == '\'' || *n == ')' || *n == ',' {
					break;
				}
				it.next();
			}
			out.push_str("<path>");
			prev_alnum = false;
			continue;
		}
		prev_alnum = c.is_ascii_alphanumeric();
		out.push(c);
	}
	vcore::canon(&out).chars().take(160).collect()
}

// ---------------------------------------------------------------------------------------------
// Shard loop (same contract as bins::shard_runs)
// ---------------------------------------------------------------------------------------------
pub fn shard_runs(args: &vcore::Args, total_runs: u64, rep: &mut vcore::Report, mut body: impl FnMut(u64, &mut vcore::Rng, &mut vcore::Report)) {
	let n = args.nshards.max(1);
	let only: Option<u64> = args.kv.get("only_run").map(|v| v.parse().expect("only_run"));
	let mut i = args.shard;
	while i < total_runs {
		if only.map(|o| o == i).unwrap_or(true) {
			let mut rng = vcore::Rng::derive(args.seed, i, 0xC19);
			body(i, &mut rng, rep);
			rep.evaluations += 1;
		}
		i += n;
	}
}

#[cfg(test)]
mod tests {
	use super::*;
	#[test]
	fn values_round_trip_and_detect_damage() {
		for (id, len) in [(value_id(1, 1), 0usize), (value_id(7, 99), 1), (value_id(3, 5), 4097), (value_id(250, 77), 65536)] {
			let v = encode_value(id, len);
			assert_eq!(decode_value(&v), Decoded::Valid { id, body_len: len });
			assert!(matches!(decode_value(&v[..v.len() - 1]), Decoded::Torn(_)));
			let mut w = v.clone();
			w.push(0);
			assert!(matches!(decode_value(&w), Decoded::Torn(_)));
			if len > 0 {
				let mut m = v.clone();
				m[16 + len / 2] ^= 0x40;
				assert!(matches!(decode_value(&m), Decoded::Torn(_)));
				// the front of another value over the tail of this one
				let o = encode_value(id + 1, len);
				let mut mix = o[..16 + len / 2].to_vec();
				mix.extend_from_slice(&v[16 + len / 2..]);
				if len > 8 {
					assert!(matches!(decode_value(&mix), Decoded::Torn(_)));
				}
			}
		}
		assert!(matches!(decode_value(&[]), Decoded::Torn(_)));
		assert_eq!(stable_sig("list failed: \"Failed to list keys of path /tmp/x1/c3/k.7.tmp: bad\" @ /a/b.rs:12 v1/v2"), "list failed: \"Failed to list keys of path <path> bad\" @ <path> v#/v#");
	}
}
