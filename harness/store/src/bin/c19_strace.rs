//! C19, power-loss ordering of the filesystem stores, judged on a system-call trace.
//!
//! SIGKILL (see c19_kill) cannot lose data that sits in the page cache, so it cannot tell whether
//! the store orders its fsyncs the way lightning-persister/src/fs_store/common.rs documents for
//! Unix: "open(tmpname), write(tmpfile), fsync(tmpfile), close(tmpfile), rename(), fsync(dir)",
//! and for a non-lazy remove: unlink, then fsync of the parent directory. This binary runs the
//! write-heavy child (`c19_kill_child`, found next to this executable) under
//! `strace -f -e trace=file,desc` and checks, per thread and per acknowledged operation:
//!
//!  S1  at the moment a temp file is renamed over a key, every write / timestamp change to that
//!      temp file has been followed by an fsync of it
//!  S2  between that rename and the acknowledgement of the write, the parent directory of the key
//!      is opened and fsync'ed
//!  S3  a non-lazy remove that unlinked the key fsyncs the parent directory before acknowledging
//!      (nothing is demanded of lazy removes)
//!  S4  an acknowledged write either renamed a temp file over the key or (only when another thread
//!      was writing / removing the same key concurrently, so that a newer version got there first)
//!      did nothing
//!  S5  the key file itself is never opened for writing (no in-place update)
//!
//! Only what the code documents for this platform is demanded. If strace cannot be run the result
//! is inconclusive.

use std::collections::HashMap;
use std::process::{Command, Stdio};

use store::*;
use vcore::{Args, Fnv, Json, Report, Rng};

const PROP: &str = "C19";

#[derive(Debug, Clone)]
struct Sys {
	tid: u64,
	name: String,
	args: String,
	ret: String,
	line_no: usize,
}

/// Merge `<unfinished ...>` / `<... resumed>` pairs; keep per-thread order.
fn parse_trace(text: &str) -> Vec<Sys> {
	let mut out = Vec::new();
	let mut pending: HashMap<u64, (String, usize)> = HashMap::new();
	for (line_no, raw) in text.lines().enumerate() {
		let (tid_s, rest) = match raw.split_once(' ') {
			Some(x) => x,
			None => continue,
		};
		let tid: u64 = match tid_s.trim().parse() {
			Ok(t) => t,
			Err(_) => continue,
		};
		let rest = rest.trim_start();
		if rest.starts_with("+++") || rest.starts_with("---") {
			continue;
		}
		let full: String;
		let mut ln = line_no;
		if let Some(stripped) = rest.strip_suffix("<unfinished ...>") {
			pending.insert(tid, (stripped.trim_end().to_string(), line_no));
			continue;
		} else if rest.starts_with("<...") {
			// "<... fsync resumed>) = 0"
			let tail = match rest.find("resumed>") {
				Some(i) => &rest[i + "resumed>".len()..],
				None => continue,
			};
			match pending.remove(&tid) {
				Some((head, l0)) => {
					full = format!("{}{}", head, tail);
					ln = l0;
				},
				None => continue,
			}
		} else {
			full = rest.to_string();
		}
		let open = match full.find('(') {
			Some(i) => i,
			None => continue,
		};
		let name = full[..open].to_string();
		// "name(args)<padding> = ret": the last " = " that follows a ')'
		let (args, ret) = match full.rfind(" = ").and_then(|eq| full[..eq].trim_end().strip_suffix(')').map(|a| (a.len(), eq))) {
			Some((close, eq)) if close > open => (full[open + 1..close].to_string(), full[eq + 3..].trim().to_string()),
			_ => (full[open + 1..].to_string(), String::new()),
		};
		out.push(Sys { tid, name, args, ret, line_no: ln });
	}
	out
}

/// The quoted strings of an argument list (strace prints file names in full, C-escaped).
fn quoted(args: &str) -> Vec<String> {
	let mut out = Vec::new();
	let b = args.as_bytes();
	let mut i = 0;
	while i < b.len() {
		if b[i] == b'"' {
			let mut s = String::new();
			i += 1;
			while i < b.len() && b[i] != b'"' {
				if b[i] == b'\\' && i + 1 < b.len() {
					i += 1;
					match b[i] {
						b'n' => s.push('\n'),
						b't' => s.push('\t'),
						c => s.push(c as char),
					}
				} else {
					s.push(b[i] as char);
				}
				i += 1;
			}
			out.push(s);
		}
		i += 1;
	}
	out
}
fn first_int(args: &str) -> Option<i64> {
	args.split(',').next()?.trim().parse().ok()
}
fn ret_ok(ret: &str) -> Option<i64> {
	ret.split_whitespace().next()?.parse().ok()
}
fn parent_of(p: &str) -> String {
	match p.rfind('/') {
		Some(i) => p[..i].to_string(),
		None => String::new(),
	}
}

#[derive(Default)]
struct OpCtx {
	seq: u64,
	is_write: bool,
	lazy: bool,
	key: usize,
	renames: Vec<(String, String, usize)>,
	unlinks: Vec<(String, usize)>,
	dir_fsyncs: Vec<(String, usize)>,
	/// index of this op's I line in the per-trace event order
	active: bool,
}

fn run_one(args: &Args, rep: &mut Report, rng: &mut Rng, idx: u64, tmp: &TmpRoot, child_exe: &std::path::Path) {
	let kind = if rng.chance(1, 2) { StoreKind::V1 } else { StoreKind::V2 };
	let threads = *rng.pick(&[1u64, 1, 2, 3]);
	let nops = rng.range(10, 40);
	let child_seed = rng.next() >> 1;
	let maxlen = *rng.pick(&[200u64, 5_000, 70_000]);
	let dir = tmp.case_dir(idx, "s");
	TmpRoot::wipe(&dir);
	let log = tmp.root.join(format!("strace-{}.log", idx));
	let _ = std::fs::remove_file(&log);
	let kind_arg = if kind == StoreKind::V1 { "v1" } else { "v2" };
	let status = Command::new("strace")
		.arg("-f")
		.arg("-e")
		.arg("trace=file,desc")
		.arg("-s")
		.arg("80")
		.arg("-o")
		.arg(&log)
		.arg(child_exe)
		.arg(&dir)
		.arg(kind_arg)
		.arg(child_seed.to_string())
		.arg(nops.to_string())
		.arg(threads.to_string())
		.arg(maxlen.to_string())
		.stdin(Stdio::null())
		.stdout(Stdio::null())
		.stderr(Stdio::null())
		.status();
	let text = std::fs::read_to_string(&log).unwrap_or_default();
	let _ = std::fs::remove_file(&log);
	TmpRoot::wipe(&dir);
	match status {
		Ok(s) if s.success() => {},
		Ok(s) => {
			rep.inconclusive(format!("strace / the traced child exited with {:?} (ptrace not permitted?)", s.code()));
			return;
		},
		Err(e) => {
			rep.inconclusive(format!("cannot run strace: {}", e));
			return;
		},
	}
	let sys = parse_trace(&text);
	if sys.is_empty() {
		rep.inconclusive("strace produced an empty trace");
		return;
	}
	rep.count("traced_runs");
	rep.count(if kind == StoreKind::V1 { "traced_runs_v1" } else { "traced_runs_v2" });
	rep.add("syscalls_parsed", sys.len() as u64);
	let data_dir = dir.to_string_lossy().to_string();
	let tag = kind.name();

	// per (tid, fd) -> path ; per temp path -> dirty?
	let mut fds: HashMap<(u64, i64), String> = HashMap::new();
	let mut dirty: HashMap<String, bool> = HashMap::new();
	let mut cur: HashMap<u64, OpCtx> = HashMap::new();
	// keys being modified concurrently (for S4): key -> number of write/remove ops in flight
	let mut inflight_writes: HashMap<usize, u64> = HashMap::new();
	let mut overlapped: HashMap<u64, bool> = HashMap::new(); // seq -> another write on the key was in flight
	let mut findings: Vec<(&'static str, String, String)> = Vec::new();
	let ctx_lines = |line_no: usize| -> String { text.lines().skip(line_no.saturating_sub(14)).take(18).collect::<Vec<_>>().join("\n") };

	for e in &sys {
		let ok = ret_ok(&e.ret);
		match e.name.as_str() {
			"write" if first_int(&e.args) == Some(1) => {
				// protocol line of the child
				let q = quoted(&e.args);
				let line = q.first().cloned().unwrap_or_default();
				let f: Vec<&str> = line.trim_end().split(' ').collect();
				match f.first().copied() {
					Some("I") if f.len() >= 5 => {
						let seq: u64 = f[1].parse().unwrap_or(u64::MAX);
						let key: usize = f[3].parse().unwrap_or(usize::MAX);
						let is_write = f[4] == "W";
						let lazy = !is_write && f.get(5) == Some(&"1");
						{
							// writes AND removes carry versions: a write is legitimately skipped when
							// any newer operation on its key (issued while it was in flight) got there first
							let n = inflight_writes.entry(key).or_insert(0);
							if *n > 0 {
								overlapped.insert(seq, true);
								// the ones already in flight overlap with this one, too
								for c in cur.values() {
									if c.active && c.key == key {
										overlapped.insert(c.seq, true);
									}
								}
							}
							*n += 1;
						}
						cur.insert(e.tid, OpCtx { seq, is_write, lazy, key, active: true, ..Default::default() });
					},
					Some("A") | Some("E") if f.len() >= 2 => {
						let acked = f[0] == "A";
						if let Some(c) = cur.remove(&e.tid) {
							if let Some(n) = inflight_writes.get_mut(&c.key) {
								*n = n.saturating_sub(1);
							}
							if !acked {
								findings.push(("E1", "an operation of the traced child failed".into(), line.clone()));
								continue;
							}
							if c.is_write {
								rep.count("writes_judged");
								if c.renames.is_empty() {
									if overlapped.get(&c.seq).copied().unwrap_or(false) {
										rep.count("writes_skipped_as_stale_(concurrent_newer_operation)");
									} else {
										findings.push(("S4", "an acknowledged write did not rename a temp file over the key".into(), format!("op {} near trace line {}:\n{}", c.seq, e.line_no, ctx_lines(e.line_no))));
									}
								}
								for (src, dst, at) in &c.renames {
									let _ = src;
									let parent = parent_of(dst);
									if !c.dir_fsyncs.iter().any(|(d, l)| *d == parent && l > at) {
										findings.push(("S2", "a write was acknowledged without an fsync of the parent directory after the rename".into(), format!("op {}: rename at trace line {} -> {}\n{}", c.seq, at, dst, ctx_lines(e.line_no))));
									} else {
										rep.count("renames_followed_by_directory_fsync");
									}
								}
							} else {
								rep.count(if c.lazy { "lazy_removes_seen" } else { "non_lazy_removes_judged" });
								if !c.lazy {
									for (path, at) in &c.unlinks {
										let parent = parent_of(path);
										if !c.dir_fsyncs.iter().any(|(d, l)| *d == parent && l > at) {
											findings.push(("S3", "a non-lazy remove was acknowledged without an fsync of the parent directory after the unlink".into(), format!("op {}: unlink at trace line {} {}\n{}", c.seq, at, path, ctx_lines(e.line_no))));
										} else {
											rep.count("unlinks_followed_by_directory_fsync");
										}
									}
								}
							}
						}
					},
					_ => {},
				}
			},
			"openat" | "open" => {
				let q = quoted(&e.args);
				if let (Some(path), Some(fd)) = (q.first(), ok) {
					if fd >= 0 && path.starts_with(&data_dir) {
						fds.insert((e.tid, fd), path.clone());
						let writing = e.args.contains("O_WRONLY") || e.args.contains("O_RDWR");
						if writing {
							if path.ends_with(".tmp") {
								dirty.insert(path.clone(), e.args.contains("O_TRUNC") || e.args.contains("O_CREAT"));
								rep.count("temp_files_opened");
							} else {
								findings.push(("S5", "a key file was opened for writing (in-place update)".into(), format!("trace line {}: {}({})\n{}", e.line_no, e.name, e.args, ctx_lines(e.line_no))));
							}
						}
					}
				}
			},
			"write" | "pwrite64" | "writev" | "ftruncate" => {
				if let Some(fd) = first_int(&e.args) {
					if let Some(p) = fds.get(&(e.tid, fd)) {
						if ok.map(|n| n >= 0).unwrap_or(false) {
							dirty.insert(p.clone(), true);
						}
					}
				}
			},
			"utimensat" | "futimens" | "fchmod" | "fchown" => {
				if let Some(fd) = first_int(&e.args) {
					if let Some(p) = fds.get(&(e.tid, fd)) {
						dirty.insert(p.clone(), true);
						rep.count("timestamp_changes_on_temp_files");
					}
				}
			},
			"fsync" | "fdatasync" => {
				if let (Some(fd), Some(0)) = (first_int(&e.args), ok) {
					if let Some(p) = fds.get(&(e.tid, fd)).cloned() {
						if p.ends_with(".tmp") {
							dirty.insert(p, false);
							rep.count("temp_file_fsyncs");
						} else if let Some(c) = cur.get_mut(&e.tid) {
							c.dir_fsyncs.push((p, e.line_no));
						}
					}
				}
			},
			"close" => {
				if let Some(fd) = first_int(&e.args) {
					fds.remove(&(e.tid, fd));
				}
			},
			"rename" | "renameat" | "renameat2" => {
				let q = quoted(&e.args);
				if q.len() >= 2 && ok == Some(0) && q[1].starts_with(&data_dir) {
					rep.count("renames_judged");
					match dirty.get(&q[0]) {
						Some(false) => rep.count("renames_of_a_synced_temp_file"),
						Some(true) => findings.push(("S1", "a temp file was renamed over a key while writes or timestamp changes to it had not been fsync'ed".into(), format!("trace line {}: {} -> {}\n{}", e.line_no, q[0], q[1], ctx_lines(e.line_no)))),
						None => findings.push(("S1", "a file that was never seen being written was renamed over a key".into(), format!("trace line {}: {} -> {}", e.line_no, q[0], q[1]))),
					}
					dirty.remove(&q[0]);
					if let Some(c) = cur.get_mut(&e.tid) {
						c.renames.push((q[0].clone(), q[1].clone(), e.line_no));
					}
				}
			},
			"unlink" | "unlinkat" => {
				let q = quoted(&e.args);
				if let Some(p) = q.first() {
					if ok == Some(0) && p.starts_with(&data_dir) && !p.ends_with(".tmp") {
						if let Some(c) = cur.get_mut(&e.tid) {
							c.unlinks.push((p.clone(), e.line_no));
						}
					}
				}
			},
			_ => {},
		}
	}
	{
		let mut h = Fnv::new();
		h.u64(threads).u64(kind as u64).u64(maxlen).u64(nops / 8);
		rep.distinct(h.get());
	}
	let mut seen = std::collections::BTreeSet::new();
	for (rule, sig, detail) in findings {
		let sig = stable_sig(&format!("{}: {}", tag, sig));
		if !seen.insert(format!("{}|{}", rule, sig)) {
			continue;
		}
		let body = Json::obj()
			.set("property", PROP)
			.set("rule", rule)
			.set("seed", args.seed)
			.set("case", idx)
			.set("store", tag)
			.set("command", format!("strace -f -e trace=file,desc -s 80 -o LOG {} DIR {} {} {} {} {}", child_exe.display(), kind_arg, child_seed, nops, threads, maxlen))
			.set("detail", detail.as_str());
		let path = args.write_replay(&format!("{}-seed{}-case{}", rule, args.seed, idx), &body);
		rep.violation(PROP, rule, &sig, detail, Some(path));
	}
}

fn main() {
	vcore::install_quiet_panic_hook();
	let args = Args::parse();
	let mut rep = args.report();
	let runs = args.num("runs", 320, 16_000);
	let child_exe = match std::env::current_exe() {
		Ok(p) => p.with_file_name("c19_kill_child"),
		Err(e) => {
			rep.inconclusive(format!("cannot locate this executable: {}", e));
			rep.write_to(&args.out);
			return;
		},
	};
	if !child_exe.is_file() {
		rep.inconclusive(format!("child binary {} is missing", child_exe.display()));
		rep.write_to(&args.out);
		return;
	}
	let tmp = TmpRoot::new(&args, "strace");
	shard_runs(&args, runs, &mut rep, |idx, rng, rep| run_one(&args, rep, rng, idx, &tmp, &child_exe));
	drop(tmp);
	rep.write_to(&args.out);
}
