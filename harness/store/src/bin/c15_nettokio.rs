//! C15 over real sockets (lightning-net-tokio): placeholder until the stage is built.
use lightning_net_tokio as _;
fn main() {}
