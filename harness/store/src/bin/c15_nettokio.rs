//! C15 over real sockets: `lightning-net-tokio` between real `PeerManager`s, with real threads.
//!
//! Per case: a tokio multi-thread runtime (2..4 workers), two or three `PeerManager`s with their own
//! `KeysManager`s and a recording custom-message handler, connected over loopback TCP through
//! `lightning_net_tokio::setup_outbound` / `setup_inbound`. Between the two sockets of a connection
//! sits a harness proxy (two pumps per direction: a reader filling an unbounded queue and a writer
//! draining it) which, seeded, cuts the stream into chunks, coalesces, delays, stalls a direction
//! until the sender provably has a backlog (so `send_data` returns short writes, the library pauses
//! reads and has to resume them) and, in fault cases, damages the stream once at a chosen absolute
//! offset (flip one byte / truncate+close / duplicate the last n bytes / drop n bytes).
//!
//! Rules (ids used in violations):
//!  N1  undisturbed connection: what each side's handler received from the other equals, message by
//!      message (type, length, content hash), what the other released while it was told the peer is
//!      connected: nothing missing, duplicated, reordered or altered; the library does not drop an
//!      undisturbed connection and a fault-free handshake completes
//!  N2  damaged connection: the delivered messages are a prefix of the released ones, each intact; no
//!      message whose frame overlaps or follows the damaged offset is delivered (frame positions are
//!      bounded from below by the handshake length plus the frames of the earlier messages); N2b: the
//!      receiver does not keep reading: the proxy cannot push more than (largest frame + two reads +
//!      everything the kernel can hold) bytes past the damage into the receiver's socket
//!  N3  no panic in any thread; no message is handed to the handler unless `peer_connected` was
//!      called for that peer (and not yet `peer_disconnected`)
//!  N4  after a connection went down (fault, harness close, `disconnect_by_node_id`,
//!      `disconnect_all_peers`), the same nodes reconnect and N1 holds for the new connection; a
//!      second connection attempt between connected nodes does not disturb the first (N1 on it)
//!  N5  once the future returned by `setup_*` has completed, the `PeerManager` no longer lists that
//!      peer and the handler has been told `peer_disconnected` (disconnects are propagated)
//!  N6  no stall: messages are missing in one direction, nothing moved in that direction for
//!      `stall_ms` (default 20 s) although the harness imposes no stall, and meanwhile `probes` (20)
//!      sequential messages in the opposite direction were delivered (so the runtime is alive and the
//!      receiver has no backlog that would justify paused reads). Residual assumption, stated in the
//!      report: a runnable tokio task is scheduled within that window.
//!  P1  timer ticks at quiescent points, each followed by a full round trip, never drop the link
//! Wall-clock watchdogs only ever yield INCONCLUSIVE (`watchdog_fired`).
//!
//! Not judged (observed, counted as `closed_socket_noticed_only_after_timer_ticks`): a side whose
//! reads are paused because of its own backlog never notices that its socket was closed (the failed
//! write wakes nobody, the paused reader never sees EOF); only the ping timeout of
//! `timer_tick_occurred` ends such a connection. The harness therefore advances the timers while it
//! waits for the tasks of a connection whose sockets are already closed.
//!
//! Parameters (k=v): cases (320 / 16000), msgs (60: scale of per-direction message counts),
//! long_msgs (2100: messages per direction in the key-rotation cases), watchdog_ms (60000),
//! stall_ms (20000), probes (20), only_run=<case>, timing=1. Debugging: VERIF_C15N_DEBUG=1,
//! VERIF_LDK_LOG=1, VERIF_PANIC_TRACE=1.

use bitcoin::secp256k1::PublicKey;
use lightning::ln::msgs::{DecodeError, Init, LightningError};
use lightning::ln::peer_handler::{CustomMessageHandler, ErroringMessageHandler, IgnoringMessageHandler, MessageHandler, PeerManager};
use lightning::ln::wire::{CustomMessageReader, Type};
use lightning::sign::{KeysManager, NodeSigner, Recipient};
use lightning::types::features::{InitFeatures, NodeFeatures};
use lightning::util::logger::{Logger, Record};
use lightning::util::ser::{LengthLimitedRead, Writeable, Writer};
use lightning_net_tokio::SocketDescriptor;
use std::collections::{BTreeMap, VecDeque};
use std::sync::atomic::{AtomicBool, AtomicU64, Ordering};
use std::sync::{Arc, Mutex};
use std::time::{Duration, Instant};
use tokio::io::{AsyncReadExt, AsyncWriteExt};
use tokio::net::tcp::{OwnedReadHalf, OwnedWriteHalf};
use tokio::net::{TcpSocket, TcpStream};
use tokio::sync::{mpsc, Notify};
use tokio::task::JoinHandle;
use vcore::{Args, Fnv, Json, Report, Rng};

const SO: Ordering = Ordering::SeqCst;
/// Bytes of handshake acts in the stream of the initiator / the responder.
const HS_INIT: u64 = 50 + 66;
const HS_RESP: u64 = 50;
/// Encrypted length header (2+16), message type (2), body MAC (16).
const FRAME_OVH: u64 = 18 + 2 + 16;
const MAX_BODY: usize = 65533;
/// Slack for "one more skb" on either side of a loopback connection.
const SKB_SLACK: u64 = 2 * 65536;

// ---------------------------------------------------------------------------------------------
// ThreadSanitizer builds only: reports whose two accesses are ordered through the kernel's epoll
// (tokio allocates a `ScheduledIo`, registers its address as the epoll token, the I/O driver thread
// gets it back from epoll_wait) are not visible to the sanitizer as ordered. Only tokio's own I/O
// registration code is suppressed; nothing in lightning or lightning-net-tokio is.
// ---------------------------------------------------------------------------------------------
#[no_mangle]
pub extern "C" fn __tsan_default_suppressions() -> *const std::os::raw::c_char {
	b"race:tokio::runtime::io::scheduled_io\nrace:tokio::runtime::io::registration_set\nrace:tokio::runtime::io::driver\n\0".as_ptr() as *const std::os::raw::c_char
}

// ---------------------------------------------------------------------------------------------
// Panics: recorded globally (they may happen on any runtime thread)
// ---------------------------------------------------------------------------------------------
static PANICS: Mutex<Vec<String>> = Mutex::new(Vec::new());
fn install_hook() {
	std::panic::set_hook(Box::new(|info| {
		let msg = if let Some(s) = info.payload().downcast_ref::<&str>() {
			s.to_string()
		} else if let Some(s) = info.payload().downcast_ref::<String>() {
			s.clone()
		} else {
			"<non-string panic>".to_string()
		};
		let loc = info.location().map(|l| format!("{}:{}", l.file(), l.line())).unwrap_or_default();
		if std::env::var("VERIF_PANIC_TRACE").is_ok() {
			eprintln!("panic: {} @ {}\n{}", msg, loc, std::backtrace::Backtrace::force_capture());
		}
		PANICS.lock().unwrap_or_else(|e| e.into_inner()).push(format!("{} @ {}", msg, loc));
	}));
}
fn panics_seen() -> usize {
	PANICS.lock().unwrap_or_else(|e| e.into_inner()).len()
}
fn take_panics() -> Vec<String> {
	std::mem::take(&mut *PANICS.lock().unwrap_or_else(|e| e.into_inner()))
}
fn lock<T>(m: &Mutex<T>) -> std::sync::MutexGuard<'_, T> {
	m.lock().unwrap_or_else(|e| e.into_inner())
}

struct QuietLogger {
	on: bool,
	tag: usize,
}
impl Logger for QuietLogger {
	fn log(&self, r: Record) {
		if self.on {
			eprintln!("    LDK[n{} {}] {}:{} {}", self.tag, r.level, r.module_path, r.line, r.args);
		}
	}
}

// ---------------------------------------------------------------------------------------------
// Messages and the recording handler
// ---------------------------------------------------------------------------------------------
/// All odd and >= 32769. The type cycles with the sequence number so that neighbours differ even
/// when the body is empty.
const TYPES: [u16; 7] = [32769, 32771, 43211, 65535, 50001, 40001, 33333];

#[derive(Clone, PartialEq)]
struct CMsg {
	ty: u16,
	body: Vec<u8>,
}
impl std::fmt::Debug for CMsg {
	fn fmt(&self, f: &mut std::fmt::Formatter) -> std::fmt::Result {
		write!(f, "CMsg(type {}, {} bytes)", self.ty, self.body.len())
	}
}
impl Writeable for CMsg {
	fn write<W: Writer>(&self, w: &mut W) -> Result<(), lightning::io::Error> {
		w.write_all(&self.body)
	}
}
impl Type for CMsg {
	fn type_id(&self) -> u16 {
		self.ty
	}
}

/// Body: pseudo-random pattern of (from, to, gen, seq, len); bodies of >= 28 bytes start with a
/// header `from to gen:u16 seq:u32 len:u32 fnv64(rest)` (diagnostics only, the ledger decides).
fn make_msg(from: usize, to: usize, gen: u32, seq: u32, len: usize) -> CMsg {
	let mut r = Rng::derive(0xC15_0000 + from as u64 * 16 + to as u64, ((gen as u64) << 32) | seq as u64, len as u64);
	let mut body = r.vec(len);
	if len >= 28 {
		body[0] = from as u8;
		body[1] = to as u8;
		body[2..4].copy_from_slice(&(gen as u16).to_be_bytes());
		body[4..8].copy_from_slice(&seq.to_be_bytes());
		body[8..12].copy_from_slice(&(len as u32).to_be_bytes());
		let h = Fnv::new().bytes(&body[20..]).get();
		body[12..20].copy_from_slice(&h.to_be_bytes());
	}
	CMsg { ty: TYPES[seq as usize % TYPES.len()], body }
}
fn describe_body(b: &[u8]) -> String {
	if b.len() >= 28 {
		let h = Fnv::new().bytes(&b[20..]).get();
		let ok = h.to_be_bytes() == b[12..20];
		format!(
			"header from={} to={} gen={} seq={} len={} checksum_{}",
			b[0],
			b[1],
			u16::from_be_bytes([b[2], b[3]]),
			u32::from_be_bytes([b[4], b[5], b[6], b[7]]),
			u32::from_be_bytes([b[8], b[9], b[10], b[11]]),
			if ok { "ok" } else { "BAD" }
		)
	} else {
		format!("short body {}", vcore::hex(b))
	}
}

#[derive(Clone, PartialEq, Eq, Debug)]
struct Sig {
	ty: u16,
	len: u32,
	hash: u64,
	/// what the header says (received side) / sequence number (sent side); diagnostics only
	note: String,
}
impl Sig {
	fn same(&self, o: &Sig) -> bool {
		self.ty == o.ty && self.len == o.len && self.hash == o.hash
	}
}

#[derive(Default)]
struct DirStat {
	released_msgs: AtomicU64,
	released_bytes: AtomicU64,
}

struct NodeState {
	outq: VecDeque<(usize, CMsg, u32)>,
	release_cap: usize,
	connected: Vec<bool>,
	gen: Vec<u32>,
	next_seq: Vec<u32>,
	conn_calls: Vec<u32>,
	disc_calls: Vec<u32>,
	queued: BTreeMap<(usize, u32), usize>,
	sent: BTreeMap<(usize, u32), Vec<Sig>>,
	recv: BTreeMap<(usize, u32), Vec<Sig>>,
	early: Vec<String>,
	unknown_peer_calls: u64,
}

struct NodeShared {
	me: usize,
	pks: Vec<PublicKey>,
	st: Mutex<NodeState>,
	out_stat: Vec<Arc<DirStat>>,
	stop: AtomicBool,
}
impl NodeShared {
	fn idx(&self, pk: &PublicKey) -> Option<usize> {
		self.pks.iter().position(|p| p == pk)
	}
	/// Queue messages of the given body lengths for `to` (current generation).
	fn queue(&self, to: usize, lens: &[usize]) {
		let mut st = lock(&self.st);
		let gen = st.gen[to];
		for &len in lens {
			let seq = st.next_seq[to];
			st.next_seq[to] += 1;
			st.outq.push_back((to, make_msg(self.me, to, gen, seq, len), seq));
		}
		*st.queued.entry((to, gen)).or_insert(0) += lens.len();
	}
	fn has_releasable(&self) -> bool {
		let st = lock(&self.st);
		st.outq.iter().any(|(to, _, _)| st.connected[*to])
	}
}

struct CustomH(Arc<NodeShared>);
impl CustomMessageReader for CustomH {
	type CustomMessage = CMsg;
	fn read<R: LengthLimitedRead>(&self, message_type: u16, buffer: &mut R) -> Result<Option<CMsg>, DecodeError> {
		if message_type < 32768 {
			return Ok(None);
		}
		let mut body = vec![0u8; buffer.remaining_bytes() as usize];
		buffer.read_exact(&mut body).map_err(|_| DecodeError::ShortRead)?;
		Ok(Some(CMsg { ty: message_type, body }))
	}
}
impl CustomMessageHandler for CustomH {
	fn handle_custom_message(&self, msg: CMsg, sender_node_id: PublicKey) -> Result<(), LightningError> {
		let sh = &self.0;
		let mut st = lock(&sh.st);
		match sh.idx(&sender_node_id) {
			Some(from) => {
				if !st.connected[from] {
					let calls = (st.conn_calls[from], st.disc_calls[from]);
					st.early.push(format!("node {} was handed a message of type {} ({} bytes) from node {} while that peer is not connected for the handler (peer_connected calls {}, peer_disconnected calls {})", sh.me, msg.ty, msg.body.len(), from, calls.0, calls.1));
				}
				let gen = st.gen[from];
				let sig = Sig { ty: msg.ty, len: msg.body.len() as u32, hash: Fnv::new().bytes(&msg.body).get(), note: describe_body(&msg.body[..msg.body.len().min(28)]) };
				st.recv.entry((from, gen)).or_default().push(sig);
			},
			None => st.unknown_peer_calls += 1,
		}
		Ok(())
	}
	fn get_and_clear_pending_msg(&self) -> Vec<(PublicKey, CMsg)> {
		let sh = &self.0;
		let mut st = lock(&sh.st);
		let mut out = Vec::new();
		if st.outq.is_empty() {
			return out;
		}
		let cap = st.release_cap;
		let mut keep = VecDeque::new();
		let q = std::mem::take(&mut st.outq);
		for (to, m, seq) in q {
			if out.len() < cap && st.connected[to] {
				let gen = st.gen[to];
				let sig = Sig { ty: m.ty, len: m.body.len() as u32, hash: Fnv::new().bytes(&m.body).get(), note: format!("seq {}", seq) };
				st.sent.entry((to, gen)).or_default().push(sig);
				sh.out_stat[to].released_msgs.fetch_add(1, SO);
				sh.out_stat[to].released_bytes.fetch_add(FRAME_OVH + m.body.len() as u64, SO);
				out.push((sh.pks[to], m));
			} else {
				keep.push_back((to, m, seq));
			}
		}
		st.outq = keep;
		out
	}
	fn peer_disconnected(&self, their_node_id: PublicKey) {
		let sh = &self.0;
		let mut st = lock(&sh.st);
		match sh.idx(&their_node_id) {
			Some(i) => {
				st.connected[i] = false;
				st.disc_calls[i] += 1;
			},
			None => st.unknown_peer_calls += 1,
		}
	}
	fn peer_connected(&self, their_node_id: PublicKey, _msg: &Init, _inbound: bool) -> Result<(), ()> {
		let sh = &self.0;
		let mut st = lock(&sh.st);
		match sh.idx(&their_node_id) {
			Some(i) => {
				st.connected[i] = true;
				st.conn_calls[i] += 1;
			},
			None => st.unknown_peer_calls += 1,
		}
		Ok(())
	}
	fn provided_node_features(&self) -> NodeFeatures {
		NodeFeatures::empty()
	}
	fn provided_init_features(&self, _their_node_id: PublicKey) -> InitFeatures {
		InitFeatures::empty()
	}
}

type PM = PeerManager<SocketDescriptor, ErroringMessageHandler, IgnoringMessageHandler, IgnoringMessageHandler, Arc<QuietLogger>, Arc<CustomH>, Arc<KeysManager>, IgnoringMessageHandler>;

struct Node {
	sh: Arc<NodeShared>,
	pm: Arc<PM>,
	pk: PublicKey,
}

fn make_nodes(n: usize, rng: &mut Rng) -> Vec<Node> {
	let log_on = std::env::var("VERIF_LDK_LOG").is_ok();
	let keys: Vec<Arc<KeysManager>> = (0..n)
		.map(|_| {
			let seed: [u8; 32] = rng.bytes();
			Arc::new(KeysManager::new(&seed, 42, 42, true))
		})
		.collect();
	let pks: Vec<PublicKey> = keys.iter().map(|k| k.get_node_id(Recipient::Node).unwrap()).collect();
	let mut nodes = Vec::new();
	for me in 0..n {
		let sh = Arc::new(NodeShared {
			me,
			pks: pks.clone(),
			st: Mutex::new(NodeState {
				outq: VecDeque::new(),
				release_cap: usize::MAX,
				connected: vec![false; n],
				gen: vec![0; n],
				next_seq: vec![0; n],
				conn_calls: vec![0; n],
				disc_calls: vec![0; n],
				queued: BTreeMap::new(),
				sent: BTreeMap::new(),
				recv: BTreeMap::new(),
				early: Vec::new(),
				unknown_peer_calls: 0,
			}),
			out_stat: (0..n).map(|_| Arc::new(DirStat::default())).collect(),
			stop: AtomicBool::new(false),
		});
		let mh = MessageHandler {
			chan_handler: ErroringMessageHandler::new(),
			route_handler: IgnoringMessageHandler {},
			onion_message_handler: IgnoringMessageHandler {},
			custom_message_handler: Arc::new(CustomH(sh.clone())),
			send_only_message_handler: IgnoringMessageHandler {},
		};
		let eph: [u8; 32] = rng.bytes();
		let pm = Arc::new(PeerManager::new(mh, 1_700_000_000 + rng.below(1 << 20) as u32, &eph, Arc::new(QuietLogger { on: log_on, tag: me }), keys[me].clone()));
		nodes.push(Node { sh, pm, pk: pks[me] });
	}
	nodes
}

// ---------------------------------------------------------------------------------------------
// The proxy
// ---------------------------------------------------------------------------------------------
#[derive(Default)]
struct ByteQueue {
	blocks: VecDeque<Vec<u8>>,
	head: usize,
	len: usize,
	eof: bool,
}
impl ByteQueue {
	fn push(&mut self, v: Vec<u8>) {
		if !v.is_empty() {
			self.len += v.len();
			self.blocks.push_back(v);
		}
	}
	fn take(&mut self, k: usize) -> Vec<u8> {
		let k = k.min(self.len);
		let mut out = Vec::with_capacity(k);
		while out.len() < k {
			let need = k - out.len();
			let front = self.blocks.front().unwrap();
			let avail = front.len() - self.head;
			if avail <= need {
				out.extend_from_slice(&front[self.head..]);
				self.blocks.pop_front();
				self.head = 0;
			} else {
				out.extend_from_slice(&front[self.head..self.head + need]);
				self.head += need;
			}
		}
		self.len -= k;
		out
	}
}

#[derive(Clone, Debug, PartialEq)]
enum FaultKind {
	Flip(u8),
	Trunc,
	Dup(usize),
	Drop(usize),
}
impl FaultKind {
	fn name(&self) -> &'static str {
		match self {
			FaultKind::Flip(_) => "flip",
			FaultKind::Trunc => "truncate",
			FaultKind::Dup(_) => "duplicate",
			FaultKind::Drop(_) => "drop",
		}
	}
}
#[derive(Clone, Debug)]
struct FaultSpec {
	dir: usize,
	off: u64,
	kind: FaultKind,
}

#[derive(Clone, Debug)]
struct Stall {
	at: u64,
	backlog_bytes: u64,
	cap_ms: u64,
	hold_ms: u64,
}

#[derive(Clone, Debug)]
struct DirCfg {
	read_max: usize,
	/// 0 tiny .. 4 huge, 5 mixed
	chunk_style: u8,
	sleep_per_mille: u64,
	coalesce_per_mille: u64,
	stalls: Vec<Stall>,
	fault: Option<(u64, FaultKind)>,
	seed: u64,
}

#[derive(Default)]
struct DirCtl {
	read_bytes: AtomicU64,
	written_bytes: AtomicU64,
	out_bytes: AtomicU64,
	chunks: AtomicU64,
	stalls_started: AtomicU64,
	stalls_capped: AtomicU64,
	stalls_backpressure: AtomicU64,
	stall_active: AtomicBool,
	fault_applied: AtomicBool,
	fault_out_pos: AtomicU64,
	queue: Mutex<ByteQueue>,
	notify: Notify,
}

enum LinkEv {
	Done(String),
	Kill,
}

struct LinkCtl {
	dirs: [Arc<DirCtl>; 2],
	closed: AtomicBool,
	first_close: Mutex<Option<String>>,
	ev: mpsc::UnboundedSender<LinkEv>,
}
impl LinkCtl {
	fn note_close(&self, why: String) {
		let mut g = lock(&self.first_close);
		if g.is_none() {
			*g = Some(why);
		}
	}
	fn first_close(&self) -> Option<String> {
		lock(&self.first_close).clone()
	}
	fn going_down(&self) -> bool {
		self.closed.load(SO) || lock(&self.first_close).is_some()
	}
}

struct ReaderCtx {
	ctl: Arc<LinkCtl>,
	d: usize,
	cfg: DirCfg,
	/// sender of this direction, the node it sends to, the generation and the handshake length
	sender: Arc<NodeShared>,
	to: usize,
	gen: u32,
	hs: u64,
	/// kernel buffering between the sender and the proxy (None: unknown / autotuned)
	kbuf_up: Option<u64>,
	src_side: usize,
}

async fn pump_reader(mut rd: OwnedReadHalf, cx: ReaderCtx) {
	let ctl = cx.ctl.dirs[cx.d].clone();
	let mut rng = Rng::new(cx.cfg.seed ^ 0x5ead);
	let mut buf = vec![0u8; 65536];
	let mut in_off: u64 = 0;
	let mut out_off: u64 = 0;
	let mut tail: VecDeque<u8> = VecDeque::new();
	let mut stall_i = 0;
	let mut fault = cx.cfg.fault.clone();
	let stat = cx.sender.out_stat[cx.to].clone();
	let base_released = stat.released_bytes.load(SO);
	'outer: loop {
		while stall_i < cx.cfg.stalls.len() && in_off >= cx.cfg.stalls[stall_i].at {
			let st = cx.cfg.stalls[stall_i].clone();
			stall_i += 1;
			if ctl.fault_applied.load(SO) || cx.ctl.going_down() {
				continue;
			}
			ctl.stall_active.store(true, SO);
			ctl.stalls_started.fetch_add(1, SO);
			let t0 = Instant::now();
			loop {
				let released = stat.released_bytes.load(SO) - base_released;
				let unread = (released + cx.hs).saturating_sub(in_off);
				if unread >= st.backlog_bytes + cx.kbuf_up.unwrap_or(256 * 1024) {
					break;
				}
				if t0.elapsed() >= Duration::from_millis(st.cap_ms) {
					ctl.stalls_capped.fetch_add(1, SO);
					break;
				}
				tokio::time::sleep(Duration::from_millis(1)).await;
			}
			// evidence: how many released messages certainly have not reached the kernel yet
			if let Some(kb) = cx.kbuf_up {
				let stn = lock(&cx.sender.st);
				if let Some(sent) = stn.sent.get(&(cx.to, cx.gen)) {
					let mut lo = cx.hs;
					let mut stuck = 0;
					for s in sent {
						if lo >= in_off + kb + SKB_SLACK {
							stuck += 1;
						}
						lo += FRAME_OVH + s.len as u64;
					}
					if stuck >= 12 {
						ctl.stalls_backpressure.fetch_add(1, SO);
					}
				}
			}
			if st.hold_ms > 0 {
				tokio::time::sleep(Duration::from_millis(st.hold_ms)).await;
			}
			ctl.stall_active.store(false, SO);
		}
		let want = rng.range(1, cx.cfg.read_max as u64) as usize;
		let n = match rd.read(&mut buf[..want]).await {
			Ok(0) => {
				cx.ctl.note_close(format!("side {} closed its socket (EOF)", cx.src_side));
				break;
			},
			Ok(n) => n,
			Err(e) => {
				cx.ctl.note_close(format!("side {} closed its socket ({:?})", cx.src_side, e.kind()));
				break;
			},
		};
		let mut data = buf[..n].to_vec();
		let blk_start = in_off;
		let blk_end = in_off + n as u64;
		in_off = blk_end;
		ctl.read_bytes.store(in_off, SO);
		let mut eof_after = false;
		let mut applied_now = None;
		if let Some((off, kind)) = fault.clone() {
			match kind {
				FaultKind::Flip(mask) => {
					if off >= blk_start && off < blk_end {
						data[(off - blk_start) as usize] ^= mask;
						applied_now = Some(out_off + (off - blk_start));
						fault = None;
					}
				},
				FaultKind::Trunc => {
					if off < blk_end {
						data.truncate((off.max(blk_start) - blk_start) as usize);
						applied_now = Some(out_off + data.len() as u64);
						fault = None;
						eof_after = true;
					}
				},
				FaultKind::Drop(m) => {
					let (ds, de) = (off, off + m as u64);
					if ds < blk_end && de > blk_start {
						let s = (ds.max(blk_start) - blk_start) as usize;
						let e = (de.min(blk_end) - blk_start) as usize;
						if !ctl.fault_applied.load(SO) {
							applied_now = Some(out_off + s as u64);
						}
						data.drain(s..e);
					}
					if de <= blk_end {
						fault = None;
					}
				},
				FaultKind::Dup(m) => {
					if off > blk_start && off <= blk_end {
						let cut = (off - blk_start) as usize;
						let mut hist: Vec<u8> = tail.iter().cloned().collect();
						hist.extend_from_slice(&data[..cut]);
						let m = m.min(hist.len());
						let dup = hist[hist.len() - m..].to_vec();
						let rest = data.split_off(cut);
						applied_now = Some(out_off + data.len() as u64);
						data.extend_from_slice(&dup);
						data.extend_from_slice(&rest);
						fault = None;
					}
				},
			}
		}
		if let Some(pos) = applied_now {
			ctl.fault_out_pos.store(pos, SO);
			ctl.fault_applied.store(true, SO);
		}
		for b in data.iter().rev().take(128).collect::<Vec<_>>().into_iter().rev() {
			tail.push_back(*b);
		}
		while tail.len() > 128 {
			tail.pop_front();
		}
		out_off += data.len() as u64;
		ctl.out_bytes.store(out_off, SO);
		lock(&ctl.queue).push(data);
		ctl.notify.notify_one();
		if eof_after {
			cx.ctl.note_close("harness truncated the stream".to_string());
			break 'outer;
		}
	}
	lock(&ctl.queue).eof = true;
	ctl.notify.notify_one();
}

fn chunk_size(rng: &mut Rng, style: u8) -> usize {
	let style = if style == 5 { [0u8, 1, 2, 3, 3, 4, 4, 4][rng.below(8) as usize] } else { style };
	(match style {
		0 => rng.range(1, 16),
		1 => rng.range(1, 200),
		2 => rng.range(1, 1500),
		3 => rng.range(1, 8192),
		_ => rng.range(1, 65536),
	}) as usize
}

async fn pump_writer(mut wr: OwnedWriteHalf, link: Arc<LinkCtl>, d: usize, cfg: DirCfg, dst_side: usize) {
	let ctl = link.dirs[d].clone();
	let mut rng = Rng::new(cfg.seed ^ 0x3717e);
	let why = loop {
		if rng.below(1000) < cfg.coalesce_per_mille && !ctl.fault_applied.load(SO) {
			tokio::time::sleep(Duration::from_micros(rng.range(200, 3000))).await;
		}
		let chunk = loop {
			{
				let mut q = lock(&ctl.queue);
				if q.len > 0 {
					let k = if ctl.fault_applied.load(SO) { 65536 } else { chunk_size(&mut rng, cfg.chunk_style) };
					break Some(q.take(k));
				}
				if q.eof {
					break None;
				}
			}
			ctl.notify.notified().await;
		};
		let chunk = match chunk {
			Some(c) => c,
			None => break format!("stream towards side {} ended", dst_side),
		};
		if let Err(e) = wr.write_all(&chunk).await {
			link.note_close(format!("side {} closed its socket (write failed: {:?})", dst_side, e.kind()));
			break format!("write to side {} failed", dst_side);
		}
		ctl.written_bytes.fetch_add(chunk.len() as u64, SO);
		ctl.chunks.fetch_add(1, SO);
		if rng.below(1000) < cfg.sleep_per_mille && !ctl.fault_applied.load(SO) {
			tokio::time::sleep(Duration::from_micros(rng.range(0, 3000))).await;
		}
	};
	let _ = link.ev.send(LinkEv::Done(why));
}

async fn supervise(mut rx: mpsc::UnboundedReceiver<LinkEv>, handles: Vec<JoinHandle<()>>, ctl: Arc<LinkCtl>) {
	match rx.recv().await {
		Some(LinkEv::Kill) | None => ctl.note_close("harness closed the link".to_string()),
		Some(LinkEv::Done(why)) => ctl.note_close(why),
	}
	for h in &handles {
		h.abort();
	}
	for h in handles {
		let _ = h.await;
	}
	ctl.closed.store(true, SO);
}

// ---------------------------------------------------------------------------------------------
// Links
// ---------------------------------------------------------------------------------------------
#[derive(Clone, Debug)]
struct LinkCfg {
	/// requested SO_SNDBUF/SO_RCVBUF for: initiator socket, proxy listener (initiator side), proxy
	/// socket towards the responder, responder's listener. None: kernel default (autotuned).
	bufs: [Option<(u32, u32)>; 4],
	dirs: [DirCfg; 2],
}

struct Link {
	a: usize,
	b: usize,
	gen: u32,
	is_dup: bool,
	ctl: Arc<LinkCtl>,
	done: [Arc<AtomicBool>; 2],
	fault: Option<FaultSpec>,
	/// kernel buffering between the proxy and the receiver of direction d
	kbuf_down: [Option<u64>; 2],
	/// the harness disturbed this connection before its traffic was complete (reason)
	disturbed: Option<String>,
	n5_checked: bool,
}
impl Link {
	fn fault_applied(&self) -> bool {
		self.ctl.dirs[0].fault_applied.load(SO) || self.ctl.dirs[1].fault_applied.load(SO)
	}
	fn sender(&self, d: usize) -> usize {
		if d == 0 {
			self.a
		} else {
			self.b
		}
	}
	fn receiver(&self, d: usize) -> usize {
		if d == 0 {
			self.b
		} else {
			self.a
		}
	}
}

fn sock(bufs: Option<(u32, u32)>) -> std::io::Result<(TcpSocket, Option<(u64, u64)>)> {
	let s = TcpSocket::new_v4()?;
	let mut sizes = None;
	if let Some((snd, rcv)) = bufs {
		s.set_send_buffer_size(snd)?;
		s.set_recv_buffer_size(rcv)?;
		sizes = Some((s.send_buffer_size()? as u64, s.recv_buffer_size()? as u64));
	}
	Ok((s, sizes))
}

async fn open_link(nodes: &[Node], a: usize, b: usize, is_dup: bool, cfg: &LinkCfg, fault: Option<FaultSpec>) -> Result<Link, String> {
	let e = |what: &str, e: std::io::Error| format!("{}: {:?}", what, e.kind());
	let any: std::net::SocketAddr = "127.0.0.1:0".parse().unwrap();
	let (lp, lp_sz) = sock(cfg.bufs[1]).map_err(|x| e("socket", x))?;
	lp.bind(any).map_err(|x| e("bind", x))?;
	let lp = lp.listen(4).map_err(|x| e("listen", x))?;
	let (lb, lb_sz) = sock(cfg.bufs[3]).map_err(|x| e("socket", x))?;
	lb.bind(any).map_err(|x| e("bind", x))?;
	let lb = lb.listen(4).map_err(|x| e("listen", x))?;
	let (sa, sa_sz) = sock(cfg.bufs[0]).map_err(|x| e("socket", x))?;
	let sa: TcpStream = sa.connect(lp.local_addr().map_err(|x| e("addr", x))?).await.map_err(|x| e("connect", x))?;
	let (pa, _) = lp.accept().await.map_err(|x| e("accept", x))?;
	let (sp, sp_sz) = sock(cfg.bufs[2]).map_err(|x| e("socket", x))?;
	let sp: TcpStream = sp.connect(lb.local_addr().map_err(|x| e("addr", x))?).await.map_err(|x| e("connect", x))?;
	let (sb, _) = lb.accept().await.map_err(|x| e("accept", x))?;
	pa.set_nodelay(true).map_err(|x| e("nodelay", x))?;
	sp.set_nodelay(true).map_err(|x| e("nodelay", x))?;
	// kernel bounds (reported sizes are what the kernel accounts against)
	let both = |x: Option<(u64, u64)>, y: Option<(u64, u64)>, xs: bool| match (x, y) {
		(Some(x), Some(y)) => Some(if xs { x.0 + y.1 } else { x.1 + y.0 }),
		_ => None,
	};
	// dir 0: a -> proxy (sa snd + pa rcv), proxy -> b (sp snd + sb rcv); dir 1 the other way round
	let kbuf_up = [both(sa_sz, lp_sz, true), both(lb_sz, sp_sz, true)];
	let kbuf_down = [both(sp_sz, lb_sz, true), both(lp_sz, sa_sz, true)];

	let (tx, rx) = mpsc::unbounded_channel();
	let ctl = Arc::new(LinkCtl { dirs: [Arc::new(DirCtl::default()), Arc::new(DirCtl::default())], closed: AtomicBool::new(false), first_close: Mutex::new(None), ev: tx });
	let gen = lock(&nodes[a].sh.st).gen[b];
	let (pa_r, pa_w) = pa.into_split();
	let (sp_r, sp_w) = sp.into_split();
	let mut dcfg = cfg.dirs.clone();
	if let Some(f) = &fault {
		dcfg[f.dir].fault = Some((f.off, f.kind.clone()));
	}
	let mut handles = Vec::new();
	handles.push(tokio::spawn(pump_reader(pa_r, ReaderCtx { ctl: ctl.clone(), d: 0, cfg: dcfg[0].clone(), sender: nodes[a].sh.clone(), to: b, gen, hs: HS_INIT, kbuf_up: kbuf_up[0], src_side: a })));
	handles.push(tokio::spawn(pump_writer(sp_w, ctl.clone(), 0, dcfg[0].clone(), b)));
	handles.push(tokio::spawn(pump_reader(sp_r, ReaderCtx { ctl: ctl.clone(), d: 1, cfg: dcfg[1].clone(), sender: nodes[b].sh.clone(), to: a, gen, hs: HS_RESP, kbuf_up: kbuf_up[1], src_side: b })));
	handles.push(tokio::spawn(pump_writer(pa_w, ctl.clone(), 1, dcfg[1].clone(), a)));
	tokio::spawn(supervise(rx, handles, ctl.clone()));

	let done = [Arc::new(AtomicBool::new(false)), Arc::new(AtomicBool::new(false))];
	let sb = sb.into_std().map_err(|x| e("into_std", x))?;
	let sa = sa.into_std().map_err(|x| e("into_std", x))?;
	let fb = lightning_net_tokio::setup_inbound(nodes[b].pm.clone(), sb);
	let d1 = done[1].clone();
	tokio::spawn(async move {
		fb.await;
		d1.store(true, SO);
	});
	let fa = lightning_net_tokio::setup_outbound(nodes[a].pm.clone(), nodes[b].pk, sa);
	let d0 = done[0].clone();
	tokio::spawn(async move {
		fa.await;
		d0.store(true, SO);
	});
	Ok(Link { a, b, gen, is_dup, ctl, done, fault, kbuf_down, disturbed: None, n5_checked: false })
}

// ---------------------------------------------------------------------------------------------
// Case context: verdicts
// ---------------------------------------------------------------------------------------------
struct Params {
	cases: u64,
	msgs: u64,
	long_msgs: u64,
	watchdog: Duration,
	stall: Duration,
	probes: u64,
}

struct Cx<'a> {
	args: &'a Args,
	idx: u64,
	rep: &'a mut Report,
	desc: Json,
	violated: bool,
	undecided: bool,
}
impl<'a> Cx<'a> {
	fn violate(&mut self, rule: &str, sig: &str, detail: String) {
		self.violated = true;
		let body = Json::obj()
			.set("seed", self.args.seed)
			.set("case", self.idx)
			.set("rule", rule)
			.set("rerun", format!("c15_nettokio --prop C15 --tier {} --seed {} --shard 0 --nshards 1 only_run={}", self.args.tier, self.args.seed, self.idx))
			.set("case_shape", self.desc.clone())
			.set("detail", detail.as_str());
		let path = self.args.write_replay(&format!("{}-seed{}-case{}", rule, self.args.seed, self.idx), &body);
		self.rep.violation("C15", rule, &vcore::canon(sig), detail, Some(path));
	}
	fn inconclusive(&mut self, why: &str) {
		self.undecided = true;
		self.rep.inconclusive(format!("case {}: {}", self.idx, why));
	}
	fn watchdog(&mut self, what: &str) {
		self.rep.count("watchdog_fired");
		self.inconclusive(&format!("watchdog fired while {}", what));
	}
}

// ---------------------------------------------------------------------------------------------
// Waiting
// ---------------------------------------------------------------------------------------------
#[derive(Debug, PartialEq)]
enum Wait {
	Done,
	LinkDown(usize),
	Fault(usize),
	Stall { link: usize, d: usize },
	Watchdog,
	Panic,
}

struct World {
	nodes: Vec<Node>,
	links: Vec<Link>,
	/// messages the feeders will have queued per (sender, receiver, generation) once they are done
	targets: BTreeMap<(usize, usize, u32), usize>,
}

fn dbg(what: &str) {
	static T0: Mutex<Option<Instant>> = Mutex::new(None);
	if std::env::var("VERIF_C15N_DEBUG").is_ok() {
		let mut g = lock(&T0);
		let t0 = *g.get_or_insert_with(Instant::now);
		eprintln!("[{:>7} ms] {}", t0.elapsed().as_millis(), what);
	}
}
fn tick1() -> tokio::time::Sleep {
	tokio::time::sleep(Duration::from_millis(1))
}

impl World {
	fn handshaken(&self, li: usize) -> bool {
		let l = &self.links[li];
		lock(&self.nodes[l.a].sh.st).connected[l.b] && lock(&self.nodes[l.b].sh.st).connected[l.a]
	}
	/// (queued, released, received) for direction d of link li
	fn progress(&self, li: usize, d: usize) -> (usize, usize, usize) {
		let l = &self.links[li];
		let (s, r) = (l.sender(d), l.receiver(d));
		let (q, rel) = {
			let st = lock(&self.nodes[s].sh.st);
			(st.queued.get(&(r, l.gen)).cloned().unwrap_or(0), st.sent.get(&(r, l.gen)).map(|v| v.len()).unwrap_or(0))
		};
		let q = q.max(self.targets.get(&(s, r, l.gen)).cloned().unwrap_or(0));
		let rc = lock(&self.nodes[r].sh.st).recv.get(&(s, l.gen)).map(|v| v.len()).unwrap_or(0);
		(q, rel, rc)
	}
	fn delivered(&self, li: usize) -> bool {
		(0..2).all(|d| {
			let (q, _, r) = self.progress(li, d);
			r >= q
		})
	}
	/// Wait until every link in `live` is handshaken (`handshake`) / has everything delivered.
	async fn wait(&self, live: &[usize], handshake: bool, p: &Params, t0: Instant) -> Wait {
		let panics0 = panics_seen();
		let mut last: Vec<[((usize, usize, usize), u64, u64); 2]> = live.iter().map(|_| [((0, 0, 0), 0, 0); 2]).collect();
		let mut since: Vec<[Instant; 2]> = live.iter().map(|_| [t0; 2]).collect();
		loop {
			if panics_seen() > panics0 {
				return Wait::Panic;
			}
			for &li in live {
				let l = &self.links[li];
				if l.fault.is_some() && l.fault_applied() {
					return Wait::Fault(li);
				}
				if l.ctl.going_down() {
					return Wait::LinkDown(li);
				}
			}
			let ok = live.iter().all(|&li| if handshake { self.handshaken(li) } else { self.delivered(li) });
			if ok {
				return Wait::Done;
			}
			if !handshake {
				for (k, &li) in live.iter().enumerate() {
					let l = &self.links[li];
					let harness_stalling = l.ctl.dirs[0].stall_active.load(SO) || l.ctl.dirs[1].stall_active.load(SO);
					for d in 0..2 {
						let key = (self.progress(li, d), l.ctl.dirs[d].read_bytes.load(SO), l.ctl.dirs[d].written_bytes.load(SO));
						if key != last[k][d] || harness_stalling {
							last[k][d] = key;
							since[k][d] = Instant::now();
						} else if key.0 .2 < key.0 .0 && since[k][d].elapsed() >= p.stall {
							return Wait::Stall { link: li, d };
						}
					}
				}
			}
			if t0.elapsed() >= p.watchdog {
				for &li in live {
					self.dump(li);
				}
				return Wait::Watchdog;
			}
			if t0.elapsed().as_millis() % 2000 == 0 && std::env::var("VERIF_C15N_DEBUG").is_ok() {
				for &li in live {
					self.dump(li);
				}
			}
			tick1().await;
		}
	}
	fn dump(&self, li: usize) {
		if std::env::var("VERIF_C15N_DEBUG").is_err() {
			return;
		}
		let l = &self.links[li];
		for k in 0..2 {
			let c = &l.ctl.dirs[k];
			dbg(&format!("link {} dir {} (node {} -> node {}): (queued, released, delivered) {:?} read {} out {} written {} queue {} stall_active {} stalls {} sender releasable {} listed {}", li, k, l.sender(k), l.receiver(k), self.progress(li, k), c.read_bytes.load(SO), c.out_bytes.load(SO), c.written_bytes.load(SO), lock(&c.queue).len, c.stall_active.load(SO), c.stalls_started.load(SO), self.nodes[l.sender(k)].sh.has_releasable(), self.nodes[l.sender(k)].pm.list_peers().len()));
		}
	}
	/// Call process_events on a node until nothing releasable is left (bounded).
	async fn flush(&self, n: usize) {
		for _ in 0..400 {
			self.nodes[n].pm.process_events();
			if !self.nodes[n].sh.has_releasable() {
				return;
			}
			tick1().await;
		}
	}
	/// Queue one message from s to r and wait until r's handler has it. false: not within `limit`.
	async fn one_way(&self, li: usize, s: usize, r: usize, len: usize, limit: Duration) -> bool {
		let gen = self.links[li].gen;
		self.nodes[s].sh.queue(r, &[len]);
		let want = lock(&self.nodes[s].sh.st).queued.get(&(r, gen)).cloned().unwrap_or(0);
		self.flush(s).await;
		let t0 = Instant::now();
		loop {
			let got = lock(&self.nodes[r].sh.st).recv.get(&(s, gen)).map(|v| v.len()).unwrap_or(0);
			if got >= want {
				return true;
			}
			if self.links[li].ctl.going_down() || t0.elapsed() >= limit {
				return false;
			}
			tick1().await;
		}
	}
	/// Wait until the proxy has closed both sockets and both connection futures have completed.
	/// A side whose reads are paused (it has a backlog) cannot notice that its socket was closed: a
	/// failed write wakes nobody. Only the library's ping timeout ends such a connection, so with
	/// `ticks` the timer of both nodes is advanced once a second while waiting (returns the number
	/// of such rounds in `.1`).
	async fn wait_closed(&self, li: usize, limit: Duration, ticks: bool) -> (bool, u32) {
		let t0 = Instant::now();
		let mut last_tick = Instant::now();
		let mut rounds = 0;
		loop {
			let l = &self.links[li];
			if l.ctl.closed.load(SO) && l.done[0].load(SO) && l.done[1].load(SO) {
				return (true, rounds);
			}
			if t0.elapsed() >= limit {
				return (false, rounds);
			}
			if ticks && l.ctl.closed.load(SO) && last_tick.elapsed() >= Duration::from_millis(1000) {
				for (k, x) in [l.a, l.b].into_iter().enumerate() {
					if !l.done[k].load(SO) {
						self.nodes[x].pm.timer_tick_occurred();
					}
				}
				rounds += 1;
				last_tick = Instant::now();
			}
			tick1().await;
		}
	}
	fn kill(&self, li: usize) {
		let _ = self.links[li].ctl.ev.send(LinkEv::Kill);
	}
}

// ---------------------------------------------------------------------------------------------
// Workload generation
// ---------------------------------------------------------------------------------------------
#[derive(Clone, Copy, PartialEq, Debug)]
enum Kind {
	Plain,
	Bulk,
	Long,
	Fault,
	Reconnect,
	Dup,
	Three,
	Ticks,
}

const SMALL: &[usize] = &[0, 0, 1, 1, 2, 3, 15, 16, 17, 18, 27, 28, 29, 31, 32, 33, 63, 64, 65, 100, 255, 256, 1000];
/// frame = 36 + len: 4059..4061 put the frame end at the 4096-byte read buffer size -1/0/+1
const BOUNDARY: &[usize] = &[4059, 4060, 4061, 4095, 4096, 4097, 8156, 16383, 32768, 65531, 65532, 65533, 65533];

fn gen_sizes(rng: &mut Rng, profile: u8, count: usize) -> Vec<usize> {
	(0..count)
		.map(|_| match profile {
			// small
			0 => *rng.pick(SMALL),
			// mixed
			1 => match rng.below(10) {
				0..=5 => *rng.pick(SMALL),
				6 | 7 => *rng.pick(BOUNDARY),
				_ => rng.range(0, MAX_BODY as u64) as usize,
			},
			// bulk
			2 => match rng.below(10) {
				0 => *rng.pick(SMALL),
				1..=3 => *rng.pick(BOUNDARY),
				4..=6 => rng.range(1000, 20000) as usize,
				_ => rng.range(20000, MAX_BODY as u64) as usize,
			},
			// long runs: tiny, the odd medium one
			_ => match rng.below(60) {
				0 => 1000,
				1 => 4060,
				_ => rng.range(0, 40) as usize,
			},
		})
		.collect()
}
fn volume(lens: &[usize]) -> u64 {
	lens.iter().map(|l| FRAME_OVH + *l as u64).sum()
}

fn gen_dir_cfg(rng: &mut Rng, vol: u64, n_msgs: usize, stalls_wanted: bool) -> DirCfg {
	let avg = [8u64, 100, 750, 4096, 32768, 13000];
	let allowed: Vec<u8> = (0..6u8).filter(|s| vol / avg[*s as usize] <= 12000).collect();
	let chunk_style = *rng.pick(&allowed);
	let chunks_est = (vol / avg[chunk_style as usize]).max(1);
	let budget = rng.range(0, 60);
	let sleep_per_mille = (budget * 1000 / chunks_est).min(300);
	let coalesce_per_mille = (rng.range(0, 40) * 1000 / chunks_est).min(300);
	let mut stalls = Vec::new();
	if stalls_wanted && vol > 3000 {
		let avg_frame = vol / n_msgs.max(1) as u64;
		for _ in 0..rng.range(1, 2) {
			stalls.push(Stall { at: rng.range(150, (vol / 2).max(200)), backlog_bytes: 16 * avg_frame, cap_ms: rng.range(150, 400), hold_ms: rng.range(0, 15) });
		}
		stalls.sort_by_key(|s| s.at);
	}
	DirCfg { read_max: *rng.pick(&[1usize, 7, 64, 1000, 4096, 16384, 65536, 65536]), chunk_style, sleep_per_mille, coalesce_per_mille, stalls, fault: None, seed: rng.next() }
}

fn gen_link_cfg(rng: &mut Rng, vols: [u64; 2], counts: [usize; 2], explicit_bufs: bool, stall_mode: u8) -> LinkCfg {
	let mut bufs = [None; 4];
	if explicit_bufs || rng.chance(2, 3) {
		// Receive buffers stay >= 16 KiB (requested): with smaller ones loopback TCP itself crawls
		// (window far below the 64 KiB MSS), which only slows the harness down.
		let snd: &[u32] = if explicit_bufs { &[4096, 8192, 16384] } else { &[4096, 8192, 16384, 65536] };
		let rcv: &[u32] = if explicit_bufs { &[16384] } else { &[16384, 32768, 65536] };
		for b in bufs.iter_mut() {
			*b = Some((*rng.pick(snd), *rng.pick(rcv)));
		}
	}
	// stall_mode: 0 none, 1 one direction, 2 both, 3 random
	let (s0, s1) = match stall_mode {
		0 => (false, false),
		1 => {
			let x = rng.chance(1, 2);
			(x, !x)
		},
		2 => (true, true),
		_ => (rng.chance(1, 2), rng.chance(1, 2)),
	};
	LinkCfg { bufs, dirs: [gen_dir_cfg(rng, vols[0], counts[0], s0), gen_dir_cfg(rng, vols[1], counts[1], s1)] }
}

async fn feeder(sh: Arc<NodeShared>, pm: Arc<PM>, items: Vec<(usize, usize)>, burst_max: u64, pace: u8, seed: u64) {
	let mut rng = Rng::new(seed);
	let mut i = 0;
	while i < items.len() && !sh.stop.load(SO) {
		let b = (rng.range(1, burst_max) as usize).min(items.len() - i);
		// group consecutive items for the same destination into one queue call
		let mut j = i;
		while j < i + b {
			let to = items[j].0;
			let mut lens = Vec::new();
			while j < i + b && items[j].0 == to {
				lens.push(items[j].1);
				j += 1;
			}
			sh.queue(to, &lens);
		}
		i += b;
		pm.process_events();
		match (pace, rng.below(4)) {
			(0, _) => {},
			(_, 0) => tokio::task::yield_now().await,
			(2, 1) => tokio::time::sleep(Duration::from_micros(rng.range(100, 2000))).await,
			_ => {},
		}
	}
	// a release cap may have left messages behind: keep the events going until all are out
	// (also covers messages queued before the peer was connected)
	while !sh.stop.load(SO) && !lock(&sh.st).outq.is_empty() {
		if sh.has_releasable() {
			pm.process_events();
		}
		tick1().await;
	}
}

fn spawn_feeders(w: &mut World, traffic: &[(usize, usize, Vec<usize>)], rng: &mut Rng) -> Vec<JoinHandle<()>> {
	let mut hs = Vec::new();
	for t in traffic {
		let (gen, already) = {
			let st = lock(&w.nodes[t.0].sh.st);
			(st.gen[t.1], st.queued.get(&(t.1, st.gen[t.1])).cloned().unwrap_or(0))
		};
		w.targets.insert((t.0, t.1, gen), already + t.2.len());
	}
	for n in 0..w.nodes.len() {
		let mut streams: Vec<(usize, VecDeque<usize>)> = traffic.iter().filter(|t| t.0 == n && !t.2.is_empty()).map(|t| (t.1, t.2.iter().cloned().collect())).collect();
		let mut items = Vec::new();
		while !streams.is_empty() {
			let k = rng.below(streams.len() as u64) as usize;
			let run = rng.range(1, 20);
			for _ in 0..run {
				match streams[k].1.pop_front() {
					Some(l) => items.push((streams[k].0, l)),
					None => break,
				}
			}
			if streams[k].1.is_empty() {
				streams.remove(k);
			}
		}
		if items.is_empty() {
			continue;
		}
		let burst_max = *rng.pick(&[1u64, 3, 10, 50, 400, 100000]);
		hs.push(tokio::spawn(feeder(w.nodes[n].sh.clone(), w.nodes[n].pm.clone(), items, burst_max, rng.below(3) as u8, rng.next())));
	}
	hs
}

async fn stop_feeders(w: &World, hs: Vec<JoinHandle<()>>) {
	dbg("stop feeders");
	for n in &w.nodes {
		n.sh.stop.store(true, SO);
	}
	for h in hs {
		let _ = h.await;
	}
	for n in &w.nodes {
		n.sh.stop.store(false, SO);
	}
}

// ---------------------------------------------------------------------------------------------
// Oracle
// ---------------------------------------------------------------------------------------------
/// N5 for a link whose connection futures have completed.
fn check_n5(w: &mut World, cx: &mut Cx, li: usize) {
	if w.links[li].is_dup || w.links[li].n5_checked {
		return;
	}
	w.links[li].n5_checked = true;
	let (a, b) = (w.links[li].a, w.links[li].b);
	let other_live = w.links.iter().enumerate().any(|(k, l)| k != li && !(l.ctl.closed.load(SO) && l.done[0].load(SO) && l.done[1].load(SO)) && ((l.a == a && l.b == b) || (l.a == b && l.b == a)));
	if other_live {
		return;
	}
	cx.rep.count("disconnects_propagation_checked");
	for (x, y) in [(a, b), (b, a)] {
		let listed = w.nodes[x].pm.peer_by_node_id(&w.nodes[y].pk).is_some();
		let (conn, calls) = {
			let st = lock(&w.nodes[x].sh.st);
			(st.connected[y], (st.conn_calls[y], st.disc_calls[y]))
		};
		if listed || conn {
			let role = if x == a { "initiator" } else { "responder" };
			let why = w.links[li].ctl.first_close().unwrap_or_default();
			cx.violate(
				"N5",
				&format!("connection task of the {} ended but the peer is still {}", role, if listed { "listed by the PeerManager" } else { "connected for the handler" }),
				format!("link {} (node {} -> node {}, generation {}): the future returned by setup_* on node {} completed (link went down because: {}), yet peer_by_node_id is_some={} and the handler saw peer_connected {} times / peer_disconnected {} times", li, a, b, w.links[li].gen, x, why, listed, calls.0, calls.1),
			);
		}
	}
}

fn evaluate(w: &World, cx: &mut Cx) {
	for n in &w.nodes {
		let st = lock(&n.sh.st);
		if let Some(e) = st.early.first() {
			let e = e.clone();
			cx.violate("N3", "message handed to the handler for a peer that is not connected", format!("{} ({} such deliveries)", e, st.early.len()));
		}
		if st.unknown_peer_calls > 0 {
			cx.violate("N1", "handler called with a node id that belongs to no node of the case", format!("node {}: {} calls", n.sh.me, st.unknown_peer_calls));
		}
	}
	for (li, l) in w.links.iter().enumerate() {
		if l.is_dup {
			continue;
		}
		let damaged = l.fault_applied();
		let rule = if damaged { "N2" } else { "N1" };
		for d in 0..2 {
			let (s, r) = (l.sender(d), l.receiver(d));
			let (queued, sent) = {
				let st = lock(&w.nodes[s].sh.st);
				(st.queued.get(&(r, l.gen)).cloned().unwrap_or(0), st.sent.get(&(r, l.gen)).cloned().unwrap_or_default())
			};
			let recv = lock(&w.nodes[r].sh.st).recv.get(&(s, l.gen)).cloned().unwrap_or_default();
			let ctx = format!("link {} direction node {} -> node {} generation {} ({} queued, {} released, {} delivered; {})", li, s, r, l.gen, queued, sent.len(), recv.len(), if damaged { "stream damaged by the harness" } else { "stream untouched" });
			cx.rep.add("messages_delivered_checked", recv.len() as u64);
			let mut bad = false;
			for (i, got) in recv.iter().enumerate() {
				cx.rep.max("max_message_size_seen", got.len as u64);
				if i >= sent.len() {
					cx.violate(rule, "more messages delivered than were released", format!("{}: delivery #{} is type {} len {} [{}]", ctx, i, got.ty, got.len, got.note));
					bad = true;
					break;
				}
				if !got.same(&sent[i]) {
					let what = if sent[..i].iter().any(|x| x.same(got)) {
						"an earlier message was delivered again"
					} else if sent[i + 1..].iter().any(|x| x.same(got)) {
						"a later message was delivered in place of the next one"
					} else if got.ty == sent[i].ty && got.len == sent[i].len {
						"a message was delivered with altered content"
					} else {
						"a message was delivered that was never released"
					};
					cx.violate(rule, what, format!("{}: delivery #{} is type {} len {} hash {:016x} [{}], the sender released type {} len {} hash {:016x} [{}] at that position", ctx, i, got.ty, got.len, got.hash, got.note, sent[i].ty, sent[i].len, sent[i].hash, sent[i].note));
					bad = true;
					break;
				}
			}
			if bad {
				continue;
			}
			if let Some(f) = &l.fault {
				if damaged && f.dir == d {
					cx.rep.count("fault_position_bounds_checked");
					let mut lo = if d == 0 { HS_INIT } else { HS_RESP };
					for (k, m) in sent.iter().enumerate().take(recv.len()) {
						let end = lo + FRAME_OVH + m.len as u64;
						if end > f.off {
							cx.violate("N2", &format!("a message whose frame overlaps or follows the damaged offset was delivered ({})", f.kind.name()), format!("{}: fault {:?} at stream offset {}; message #{} ({} bytes) cannot end before offset {}, yet it was delivered", ctx, f.kind, f.off, k, m.len, end));
							break;
						}
						lo = end;
					}
				}
			}
			if !damaged && l.disturbed.is_none() && !cx.undecided && recv.len() < queued {
				let why = l.ctl.first_close();
				let sig = match &why {
					Some(w) if w.contains("closed its socket") => "the library closed an undisturbed connection, messages lost",
					Some(_) => "undisturbed connection went down, messages lost",
					None => "messages missing on an undisturbed live connection",
				};
				cx.violate("N1", sig, format!("{}: first missing message is #{}; link state: {}", ctx, recv.len(), why.unwrap_or_else(|| "up".to_string())));
			}
		}
	}
}

/// The connection of `li` was damaged (or is going down after damage): drive it to its end.
async fn fault_flow(w: &mut World, cx: &mut Cx<'_>, li: usize, p: &Params, rescue_ticks: bool) {
	cx.rep.count("faults_injected");
	let f = w.links[li].fault.clone().unwrap();
	cx.rep.count(&format!("faults_{}", f.kind.name()));
	let d = f.dir;
	let (s, r) = (w.links[li].sender(d), w.links[li].receiver(d));
	let ctl = w.links[li].ctl.clone();
	let kb = w.links[li].kbuf_down[d];
	let x_limit = kb.map(|kb| 65535 + 34 + 2 * 4096 + 2 * kb + 2 * SKB_SLACK);
	let t0 = Instant::now();
	let mut fillers = false;
	let mut last_moved = (0u64, Instant::now());
	let mut ticks = 0;
	loop {
		if ctl.closed.load(SO) {
			break;
		}
		let past = ctl.dirs[d].written_bytes.load(SO).saturating_sub(ctl.dirs[d].fault_out_pos.load(SO));
		if let Some(x) = x_limit {
			if past >= x && f.kind != FaultKind::Trunc {
				cx.violate("N2", &format!("receiver kept reading past the damaged offset ({})", f.kind.name()), format!("link {} direction node {} -> node {}: fault {:?} at offset {}; the proxy has since written {} more bytes into the receiver's socket, the kernel can hold at most {} of them, so the receiver consumed the damaged frame completely and went on reading", li, s, r, f.kind, f.off, past, kb.unwrap() + SKB_SLACK));
				break;
			}
		}
		if !fillers && t0.elapsed() >= Duration::from_millis(150) && lock(&w.nodes[s].sh.st).connected[r] {
			fillers = true;
			let n = (x_limit.unwrap_or(300_000) / 32000 + 3) as usize;
			w.nodes[s].sh.queue(r, &vec![32000; n]);
			cx.rep.count("fault_fillers_queued");
		}
		if fillers {
			w.nodes[s].pm.process_events();
		}
		let moved: u64 = (0..2).map(|k| ctl.dirs[k].read_bytes.load(SO) + ctl.dirs[k].written_bytes.load(SO)).sum();
		if moved != last_moved.0 {
			last_moved = (moved, Instant::now());
		} else if rescue_ticks && last_moved.1.elapsed() >= Duration::from_millis(1500) {
			// nothing can complete the damaged frame any more (e.g. a byte dropped from a handshake
			// act): let the handshake / ping timeouts of the library end it
			for n in &w.nodes {
				n.pm.timer_tick_occurred();
			}
			ticks += 1;
			last_moved.1 = Instant::now();
		}
		if t0.elapsed() >= p.watchdog {
			cx.watchdog("waiting for a damaged connection to go down");
			break;
		}
		tick1().await;
	}
	if ticks > 0 {
		cx.rep.count("fault_cases_ended_by_timer_ticks");
	} else if ctl.closed.load(SO) {
		cx.rep.count("connections_dropped_after_fault");
	}
	w.links[li].disturbed = Some("fault".to_string());
	w.kill(li);
	if rescue_ticks {
		close_and_check(w, cx, li, p, "waiting for the connection tasks of a damaged connection to end").await;
	}
}

/// The sockets of `li` are (being) closed: wait for the connection tasks, then N5. false: watchdog.
async fn close_and_check(w: &mut World, cx: &mut Cx<'_>, li: usize, p: &Params, what: &str) -> bool {
	let (ok, rounds) = w.wait_closed(li, p.watchdog, true).await;
	dbg(&format!("link {} closed={} after {} tick rounds ({})", li, ok, rounds, w.links[li].ctl.first_close().unwrap_or_default()));
	if rounds > 0 {
		cx.rep.count("closed_socket_noticed_only_after_timer_ticks");
	}
	if ok {
		check_n5(w, cx, li);
	} else {
		cx.watchdog(what);
	}
	ok
}

/// N6: direction d of link li made no progress for `stall` although nothing withholds it.
/// Some(true): reported; Some(false): progress resumed; None: the probes did not get through.
async fn stall_flow(w: &World, cx: &mut Cx<'_>, li: usize, d: usize, p: &Params) -> Option<bool> {
	let l = &w.links[li];
	let (s, r) = (l.sender(d), l.receiver(d));
	let key = || (w.progress(li, d), l.ctl.dirs[d].read_bytes.load(SO), l.ctl.dirs[d].written_bytes.load(SO));
	let before = key();
	if std::env::var("VERIF_C15N_DEBUG").is_ok() {
		for k in 0..2 {
			let c = &l.ctl.dirs[k];
			eprintln!("stall on link {} dir {}: dir {} progress {:?} read {} out {} written {} queue {} stall_active {} stalls {} releasable s={} r={}", li, d, k, w.progress(li, k), c.read_bytes.load(SO), c.out_bytes.load(SO), c.written_bytes.load(SO), lock(&c.queue).len, c.stall_active.load(SO), c.stalls_started.load(SO), w.nodes[s].sh.has_releasable(), w.nodes[r].sh.has_releasable());
		}
	}
	let mut ok = 0;
	for _ in 0..p.probes {
		if !w.one_way(li, r, s, 40, Duration::from_secs(5)).await {
			break;
		}
		ok += 1;
	}
	let after = key();
	if ok == p.probes && before == after && !l.ctl.going_down() && !l.ctl.dirs[d].stall_active.load(SO) {
		let q = lock(&l.ctl.dirs[d].queue).len;
		let all_released = (if d == 0 { HS_INIT } else { HS_RESP }) + lock(&w.nodes[s].sh.st).sent.get(&(r, l.gen)).map(|v| v.iter().map(|m| FRAME_OVH + m.len as u64).sum::<u64>()).unwrap_or(0);
		cx.violate(
			"N6",
			if q > 0 || after.1 > after.2 || after.1 >= all_released { "delivery stalled: the receiver stopped reading although it has no backlog" } else { "delivery stalled: released messages never reach the wire" },
			format!("link {} direction node {} -> node {}: (queued, released, delivered) = {:?}, proxy read {} bytes from the sender and wrote {} to the receiver ({} waiting in the proxy); no change for {} ms and during {} sequential probe messages delivered in the opposite direction; the harness imposes no stall", li, s, r, after.0, after.1, after.2, q, p.stall.as_millis(), ok),
		);
		return Some(true);
	}
	if ok < p.probes {
		return None;
	}
	Some(false)
}

// ---------------------------------------------------------------------------------------------
// Case flows
// ---------------------------------------------------------------------------------------------
#[derive(Debug, PartialEq)]
enum Flow {
	Ok,
	Faulted(usize),
	Stop,
}

/// Wait for handshake / delivery on `live`, dealing with faults, stalls and watchdogs.
async fn wait_h(w: &mut World, cx: &mut Cx<'_>, live: &mut Vec<usize>, handshake: bool, p: &Params, rescue: bool, what: &str) -> Flow {
	let t0 = Instant::now();
	loop {
		dbg(&format!("wait_h: {}", what));
		let r = w.wait(live, handshake, p, t0).await;
		dbg(&format!("wait_h: {} -> {:?}", what, r));
		match r {
			Wait::Done => return Flow::Ok,
			Wait::Panic => return Flow::Stop,
			Wait::Watchdog => {
				cx.watchdog(what);
				return Flow::Stop;
			},
			Wait::Stall { link, d } => {
				cx.rep.count("stall_probes_run");
				match stall_flow(w, cx, link, d, p).await {
					Some(true) => {
						w.links[link].disturbed = Some("stall reported".to_string());
						return Flow::Stop;
					},
					Some(false) => {},
					None => {
						// the opposite direction does not deliver either: nothing shows that the
						// runtime is alive and the receiver idle, so this is only a timeout
						cx.watchdog(&format!("{} (no progress in either direction)", what));
						return Flow::Stop;
					},
				}
			},
			Wait::Fault(li) | Wait::LinkDown(li) => {
				if w.links[li].fault.is_some() && w.links[li].fault_applied() {
					fault_flow(w, cx, li, p, rescue).await;
					live.retain(|x| *x != li);
					return Flow::Faulted(li);
				}
				let l = &w.links[li];
				if handshake && !w.handshaken(li) {
					let why = l.ctl.first_close().unwrap_or_default();
					cx.violate("N1", "fault-free handshake did not complete, connection went down", format!("link {} (node {} -> node {}, generation {}): {}", li, l.a, l.b, l.gen, why));
					w.links[li].disturbed = Some("handshake failure reported".to_string());
				}
				return Flow::Stop;
			},
		}
	}
}

async fn traffic_phase(w: &mut World, cx: &mut Cx<'_>, p: &Params, rng: &mut Rng, live: &mut Vec<usize>, traffic: &[(usize, usize, Vec<usize>)], rescue: bool) -> Flow {
	let hs = spawn_feeders(w, traffic, rng);
	let mut flow = wait_h(w, cx, live, false, p, rescue, "waiting for delivery").await;
	// a fault on one link of a three-node case: the other links must still deliver everything
	if let Flow::Faulted(_) = flow {
		if !live.is_empty() {
			if let Flow::Stop = wait_h(w, cx, live, false, p, rescue, "waiting for delivery on the other links").await {
				flow = Flow::Stop;
			}
		}
	}
	stop_feeders(w, hs).await;
	flow
}

fn bump_gen(w: &World, a: usize, b: usize) {
	for (x, y) in [(a, b), (b, a)] {
		let mut st = lock(&w.nodes[x].sh.st);
		st.gen[y] += 1;
		st.outq.retain(|(to, _, _)| *to != y);
	}
}

fn gen_traffic(rng: &mut Rng, links: &[(usize, usize)], kind: Kind, p: &Params, phase2: bool) -> Vec<(usize, usize, Vec<usize>)> {
	let mut t = Vec::new();
	let heavy_dir = rng.below(2);
	for &(a, b) in links {
		for d in 0..2u64 {
			let (s, r) = if d == 0 { (a, b) } else { (b, a) };
			let m = p.msgs.max(4);
			let lens = if phase2 {
				let prof = rng.below(2) as u8;
				{
					let c = rng.range(1, (m / 2).max(2)) as usize;
					gen_sizes(rng, prof, c)
				}
			} else {
				match kind {
					Kind::Plain => {
						let n = if rng.chance(1, 8) { 0 } else { rng.range(1, m) };
						let prof = rng.below(2) as u8;
						gen_sizes(rng, prof, n as usize)
					},
					Kind::Bulk => {
						if d == heavy_dir || rng.chance(1, 3) {
							{
							let c = rng.range(20, (m * 2 / 3).max(20)) as usize;
							gen_sizes(rng, 2, c)
						}
						} else {
							{
							let c = rng.range(1, 20) as usize;
							gen_sizes(rng, 1, c)
						}
						}
					},
					Kind::Long => {
						let c = (p.long_msgs + rng.range(0, 200)) as usize;
						gen_sizes(rng, 3, c)
					},
					Kind::Fault => {
						let prof = 1 + rng.below(2) as u8;
						let c = rng.range(10, m.max(10)) as usize;
						let mut v = gen_sizes(rng, prof, c);
						while volume(&v) < 3000 {
							v.push(1000);
						}
						v
					},
					_ => {
						let prof = rng.below(2) as u8;
						{
					let c = rng.range(1, (m / 2).max(2)) as usize;
					gen_sizes(rng, prof, c)
				}
					},
				}
			};
			t.push((s, r, lens));
		}
	}
	t
}

fn link_cfg_for(rng: &mut Rng, traffic: &[&[(usize, usize, Vec<usize>)]], a: usize, b: usize, explicit: bool, stall_mode: u8) -> LinkCfg {
	let find = |s: usize, r: usize| traffic.iter().flat_map(|t| t.iter()).filter(|t| t.0 == s && t.1 == r).fold((0u64, 0usize), |acc, t| (acc.0 + volume(&t.2), acc.1 + t.2.len()));
	let (f, g) = (find(a, b), find(b, a));
	gen_link_cfg(rng, [f.0 + 400, g.0 + 400], [f.1, g.1], explicit, stall_mode)
}

async fn teardown(w: &mut World, cx: &mut Cx<'_>, p: &Params) {
	dbg("teardown");
	for li in 0..w.links.len() {
		if !w.links[li].ctl.closed.load(SO) {
			w.kill(li);
		}
	}
	for li in 0..w.links.len() {
		close_and_check(w, cx, li, p, "waiting for connection tasks to end after the sockets were closed").await;
	}
}

fn harvest(w: &World, cx: &mut Cx) {
	for l in &w.links {
		for d in 0..2 {
			let c = &l.ctl.dirs[d];
			cx.rep.add("bytes_forwarded", c.written_bytes.load(SO));
			cx.rep.add("chunks_forwarded", c.chunks.load(SO));
			cx.rep.add("stalls_injected", c.stalls_started.load(SO));
			cx.rep.add("stalls_released_by_cap", c.stalls_capped.load(SO));
			cx.rep.add("backpressure_pauses_observed", c.stalls_backpressure.load(SO));
		}
		cx.rep.count("connections_opened");
	}
}

async fn run_case(cx: &mut Cx<'_>, p: &Params, rng: &mut Rng, kind: Kind) {
	let n = match kind {
		Kind::Three => 3,
		Kind::Ticks if rng.chance(1, 3) => 3,
		_ => 2,
	};
	let mut pairs: Vec<(usize, usize)> = vec![if rng.chance(1, 2) { (0, 1) } else { (1, 0) }];
	if n == 3 {
		pairs.push(if rng.chance(1, 2) { (2, 0) } else { (0, 2) });
		if rng.chance(1, 2) {
			pairs.push(if rng.chance(1, 2) { (1, 2) } else { (2, 1) });
		}
	}
	let traffic = gen_traffic(rng, &pairs, kind, p, false);
	let traffic2 = if matches!(kind, Kind::Ticks | Kind::Dup) || (kind != Kind::Long && kind != Kind::Reconnect && rng.chance(1, 4)) { gen_traffic(rng, &pairs, kind, p, true) } else { Vec::new() };
	let with_fault = kind == Kind::Fault || (kind == Kind::Three && rng.chance(1, 2));
	let fault = if with_fault {
		let dir = rng.below(2) as usize;
		let (s, r) = if dir == 0 { pairs[0] } else { (pairs[0].1, pairs[0].0) };
		let vol = traffic.iter().find(|t| t.0 == s && t.1 == r).map(|t| volume(&t.2)).unwrap_or(0);
		let hs = if dir == 0 { HS_INIT } else { HS_RESP };
		let off = if n == 2 && rng.chance(1, 8) { rng.range(0, hs + 60) } else { rng.range(300, (hs + 50 + vol).max(400)) };
		let kind = match rng.below(4) {
			0 => FaultKind::Flip(if rng.chance(1, 2) { 1 << rng.below(8) } else { rng.range(1, 255) as u8 }),
			1 => FaultKind::Trunc,
			2 => FaultKind::Dup(*rng.pick(&[1usize, 2, 16, 18, 34, 64, 128])),
			_ => FaultKind::Drop(*rng.pick(&[1usize, 1, 2, 16, 18, 50, 64])),
		};
		Some(FaultSpec { dir, off: off.max(if matches!(kind, FaultKind::Dup(_)) { 1 } else { 0 }), kind })
	} else {
		None
	};
	let stall_mode = match kind {
		Kind::Bulk => 1 + rng.below(2) as u8,
		Kind::Long => rng.below(4) as u8,
		Kind::Plain | Kind::Fault => 3,
		_ => {
			if rng.chance(1, 3) {
				3
			} else {
				0
			}
		},
	};
	let nodes = make_nodes(n, rng);
	let caps: &[usize] = if kind == Kind::Long { &[usize::MAX, 64, 16] } else { &[usize::MAX, usize::MAX, 64, 16, 5, 1] };
	let mut cap_desc = Vec::new();
	for nd in &nodes {
		let c = *rng.pick(caps);
		lock(&nd.sh.st).release_cap = c;
		cap_desc.push(if c == usize::MAX { 0u64 } else { c as u64 });
	}
	let mut w = World { nodes, links: Vec::new(), targets: BTreeMap::new() };
	let mut shape = Fnv::new();
	shape.str(&format!("{:?}", kind)).u64(n as u64).u64(pairs.len() as u64);
	for c in &cap_desc {
		shape.u64(*c);
	}
	let mut link_desc = Vec::new();
	let mut live: Vec<usize> = Vec::new();
	for (k, &(a, b)) in pairs.iter().enumerate() {
		let f = if k == 0 { fault.clone() } else { None };
		let cfg = link_cfg_for(rng, &[&traffic, &traffic2], a, b, f.is_some() || kind == Kind::Bulk, stall_mode);
		shape.u64(cfg.dirs[0].chunk_style as u64).u64(cfg.dirs[1].chunk_style as u64).u64(cfg.dirs[0].stalls.len() as u64).u64(cfg.dirs[1].stalls.len() as u64).u64(cfg.bufs[0].map(|b| b.0 + b.1).unwrap_or(0) as u64).u64((cfg.dirs[0].read_max as u64).min(5000));
		if let Some(f) = &f {
			shape.str(f.kind.name()).u64(f.dir as u64).u64((f.off / 64).min(40));
		}
		link_desc.push(Json::obj().set("initiator", a).set("responder", b).set("bufs", format!("{:?}", cfg.bufs)).set("dir0", format!("{:?}", cfg.dirs[0])).set("dir1", format!("{:?}", cfg.dirs[1])).set("fault", f.as_ref().map(|f| format!("{:?}", f))));
		match open_link(&w.nodes, a, b, false, &cfg, f).await {
			Ok(l) => {
				w.links.push(l);
				live.push(w.links.len() - 1);
			},
			Err(e) => {
				cx.inconclusive(&format!("harness could not set up a loopback connection: {}", e));
				return;
			},
		}
	}
	for t in &traffic {
		shape.u64((t.2.len() as u64).min(64) / 8).u64(volume(&t.2) / 50_000);
	}
	cx.desc = Json::obj().set("kind", format!("{:?}", kind)).set("nodes", n).set("release_caps", cap_desc.clone()).set("links", Json::Arr(link_desc)).set("traffic", Json::Arr(traffic.iter().map(|t| Json::obj().set("from", t.0).set("to", t.1).set("messages", t.2.len()).set("bytes", volume(&t.2))).collect()));
	let rescue = n == 2;

	shape.u64(traffic2.len() as u64);
	let flow = run_flows(&mut w, cx, p, rng, kind, &pairs, &traffic, &traffic2, &mut live, rescue, &mut shape).await;
	if flow == Flow::Stop {
		// links that were merely not waited for because something else ended the case are not judged
		// for completeness (the link that caused the stop is down, damaged or marked already)
		for li in 0..w.links.len() {
			if !w.links[li].ctl.going_down() && !w.links[li].is_dup && !w.delivered(li) && w.links[li].disturbed.is_none() && !(w.links[li].fault.is_some() && w.links[li].fault_applied()) {
				let mine = matches!(cx.rep.violations.last(), Some(v) if v.detail.starts_with(&format!("link {} ", li)));
				if !mine {
					w.links[li].disturbed = Some("the case was stopped early because of another link".to_string());
				}
			}
		}
	}
	teardown(&mut w, cx, p).await;
	evaluate(&w, cx);
	harvest(&w, cx);
	cx.rep.distinct(shape.get());
	if cx.rep.samples.len() < cx.rep.max_samples && !cx.violated {
		let s = cx.desc.clone().set("case", cx.idx);
		cx.rep.sample(s);
	}
}

#[allow(clippy::too_many_arguments)]
async fn run_flows(w: &mut World, cx: &mut Cx<'_>, p: &Params, rng: &mut Rng, kind: Kind, pairs: &[(usize, usize)], traffic: &[(usize, usize, Vec<usize>)], traffic2: &[(usize, usize, Vec<usize>)], live: &mut Vec<usize>, rescue: bool, shape: &mut Fnv) -> Flow {
	// ---- handshake (messages may already be queued: they must wait for peer_connected)
	let early_queue = rng.chance(1, 3);
	shape.u64(early_queue as u64);
	let mut feeders = None;
	if early_queue && kind != Kind::Reconnect && kind != Kind::Dup {
		feeders = Some(spawn_feeders(w, traffic, rng));
	}
	let mut faulted = None;
	let mut hflow = wait_h(w, cx, live, true, p, rescue, "waiting for the handshake").await;
	if let Flow::Faulted(li) = hflow {
		faulted = Some(li);
		hflow = if live.is_empty() { Flow::Ok } else { wait_h(w, cx, live, true, p, rescue, "waiting for the handshake of the other links").await };
	}
	match hflow {
		Flow::Ok if live.is_empty() => {
			if let Some(hs) = feeders.take() {
				stop_feeders(w, hs).await;
			}
			return after_fault(w, cx, p, rng, faulted.unwrap(), live, rescue, shape).await;
		},
		Flow::Ok => {},
		_ => {
			if let Some(hs) = feeders.take() {
				stop_feeders(w, hs).await;
			}
			return Flow::Stop;
		},
	}
	cx.rep.add("handshakes_completed", live.len() as u64);

	// ---- first traffic phase
	let flow = match kind {
		Kind::Dup => {
			let hs = spawn_feeders(w, traffic, rng);
			if rng.chance(1, 2) {
				tokio::time::sleep(Duration::from_millis(rng.range(0, 5))).await;
			}
			let (a, b) = if rng.chance(1, 2) { pairs[0] } else { (pairs[0].1, pairs[0].0) };
			let cfg = gen_link_cfg(rng, [400, 400], [1, 1], false, 0);
			let dup = match open_link(&w.nodes, a, b, true, &cfg, None).await {
				Ok(l) => {
					w.links.push(l);
					w.links.len() - 1
				},
				Err(e) => {
					stop_feeders(w, hs).await;
					cx.inconclusive(&format!("harness could not set up a second loopback connection: {}", e));
					return Flow::Stop;
				},
			};
			cx.rep.count("duplicate_connections_attempted");
			let f = wait_h(w, cx, live, false, p, rescue, "waiting for delivery while a second connection is attempted").await;
			stop_feeders(w, hs).await;
			if f == Flow::Ok {
				if w.wait_closed(dup, p.watchdog, false).await.0 {
					if w.links[dup].ctl.first_close().map(|s| s.contains("closed its socket")).unwrap_or(false) {
						cx.rep.count("duplicate_connections_closed_by_library");
					}
				} else {
					cx.watchdog("waiting for the second connection between connected nodes to be closed");
					return Flow::Stop;
				}
			}
			f
		},
		Kind::Reconnect if rng.chance(1, 2) => {
			// abrupt: close in the middle of the traffic
			shape.str("abrupt");
			let hs = spawn_feeders(w, traffic, rng);
			let li = live[0];
			let goal = rng.range(200, 4000);
			let t0 = Instant::now();
			while w.links[li].ctl.dirs[0].read_bytes.load(SO) + w.links[li].ctl.dirs[1].read_bytes.load(SO) < goal && t0.elapsed() < Duration::from_millis(300) && !w.links[li].ctl.going_down() {
				tick1().await;
			}
			w.links[li].disturbed = Some("closed by the harness in the middle of the traffic".to_string());
			stop_feeders(w, hs).await;
			Flow::Ok
		},
		_ => match feeders.take() {
			Some(hs) => {
				let mut flow = wait_h(w, cx, live, false, p, rescue, "waiting for delivery").await;
				if let Flow::Faulted(_) = flow {
					if !live.is_empty() {
						if let Flow::Stop = wait_h(w, cx, live, false, p, rescue, "waiting for delivery on the other links").await {
							flow = Flow::Stop;
						}
					}
				}
				stop_feeders(w, hs).await;
				flow
			},
			None => traffic_phase(w, cx, p, rng, live, traffic, rescue).await,
		},
	};
	match flow {
		Flow::Ok => {},
		Flow::Faulted(li) => return after_fault(w, cx, p, rng, li, live, rescue, shape).await,
		Flow::Stop => return Flow::Stop,
	}
	if let Some(li) = faulted {
		return after_fault(w, cx, p, rng, li, live, rescue, shape).await;
	}
	match kind {
		Kind::Long => cx.rep.count("cases_long_two_rotations"),
		Kind::Ticks => {
			let rounds = rng.range(5, 9);
			for _ in 0..rounds {
				let x = rng.below(w.nodes.len() as u64) as usize;
				w.nodes[x].pm.timer_tick_occurred();
				cx.rep.count("timer_ticks_at_quiescent_points");
				for &li in live.iter() {
					let l = &w.links[li];
					let y = if l.a == x {
						l.b
					} else if l.b == x {
						l.a
					} else {
						continue;
					};
					for (s, r) in [(x, y), (y, x)] {
						let len = *rng.pick(SMALL);
						if !w.one_way(li, s, r, len, p.watchdog).await {
							if w.links[li].ctl.going_down() {
								let why = w.links[li].ctl.first_close().unwrap_or_default();
								cx.violate("P1", "a timer tick at a quiescent point, followed by a round trip, dropped a healthy link", format!("link {}: tick on node {}, then one message each way; link state: {}", li, x, why));
								w.links[li].disturbed = Some("P1 reported".to_string());
							} else {
								cx.watchdog("waiting for a round trip after a timer tick");
							}
							return Flow::Stop;
						}
					}
				}
			}
		},
		Kind::Reconnect => {
			let li = live[0];
			let (a, b) = (w.links[li].a, w.links[li].b);
			let method = rng.below(4);
			shape.u64(method);
			match method {
				0 => w.kill(li),
				1 => w.nodes[a].pm.disconnect_by_node_id(w.nodes[b].pk),
				2 => w.nodes[b].pm.disconnect_by_node_id(w.nodes[a].pk),
				_ => w.nodes[rng.below(2) as usize].pm.disconnect_all_peers(),
			}
			cx.rep.count(&format!("disconnect_method_{}", method));
			if !close_and_check(w, cx, li, p, "waiting for a closed connection to be torn down").await {
				return Flow::Stop;
			}
			live.clear();
			return reconnect(w, cx, p, rng, a, b, live, rescue).await;
		},
		_ => {},
	}
	// ---- second traffic phase on the same connections
	if !traffic2.is_empty() {
		match traffic_phase(w, cx, p, rng, live, traffic2, rescue).await {
			Flow::Faulted(li) => return after_fault(w, cx, p, rng, li, live, rescue, shape).await,
			x => return x,
		}
	}
	Flow::Ok
}

#[allow(clippy::too_many_arguments)]
async fn after_fault(w: &mut World, cx: &mut Cx<'_>, p: &Params, rng: &mut Rng, li: usize, live: &mut Vec<usize>, rescue: bool, shape: &mut Fnv) -> Flow {
	if cx.undecided || w.nodes.len() != 2 || rng.chance(1, 2) {
		return Flow::Ok;
	}
	shape.str("reconnect_after_fault");
	let (a, b) = (w.links[li].a, w.links[li].b);
	reconnect(w, cx, p, rng, a, b, live, rescue).await
}

/// N4: the old connection between a and b is gone; connect again (either side dials) and run fresh traffic.
#[allow(clippy::too_many_arguments)]
async fn reconnect(w: &mut World, cx: &mut Cx<'_>, p: &Params, rng: &mut Rng, a: usize, b: usize, live: &mut Vec<usize>, rescue: bool) -> Flow {
	bump_gen(w, a, b);
	let (a, b) = if rng.chance(1, 2) { (a, b) } else { (b, a) };
	let t2 = gen_traffic(rng, &[(a, b)], Kind::Plain, p, true);
	let cfg = link_cfg_for(rng, &[&t2], a, b, false, 3);
	match open_link(&w.nodes, a, b, false, &cfg, None).await {
		Ok(l) => {
			w.links.push(l);
			live.push(w.links.len() - 1);
		},
		Err(e) => {
			cx.inconclusive(&format!("harness could not set up a loopback connection: {}", e));
			return Flow::Stop;
		},
	}
	match wait_h(w, cx, live, true, p, rescue, "waiting for the handshake of a reconnection").await {
		Flow::Ok => {},
		_ => return Flow::Stop,
	}
	cx.rep.count("reconnects");
	traffic_phase(w, cx, p, rng, live, &t2, rescue).await
}

// ---------------------------------------------------------------------------------------------
// Main
// ---------------------------------------------------------------------------------------------
fn run_one(args: &Args, p: &Params, idx: u64, rng: &mut Rng, rep: &mut Report) {
	let _ = take_panics();
	let kind = match rng.weighted(&[22, 14, 8, 26, 10, 6, 8, 6]) {
		0 => Kind::Plain,
		1 => Kind::Bulk,
		2 => Kind::Long,
		3 => Kind::Fault,
		4 => Kind::Reconnect,
		5 => Kind::Dup,
		6 => Kind::Three,
		_ => Kind::Ticks,
	};
	let workers = 2 + rng.below(3) as usize;
	let rt = match tokio::runtime::Builder::new_multi_thread().worker_threads(workers).enable_all().build() {
		Ok(rt) => rt,
		Err(e) => {
			rep.inconclusive(format!("case {}: cannot build a tokio runtime: {}", idx, e));
			return;
		},
	};
	let t0 = Instant::now();
	let mut cx = Cx { args, idx, rep, desc: Json::obj().set("kind", format!("{:?}", kind)), violated: false, undecided: false };
	let r = std::panic::catch_unwind(std::panic::AssertUnwindSafe(|| rt.block_on(run_case(&mut cx, p, rng, kind))));
	rt.shutdown_background();
	let panics = take_panics();
	let (harness, library): (Vec<String>, Vec<String>) = panics.into_iter().partition(|m| m.contains("c15_nettokio.rs"));
	if let Some(first) = library.first() {
		let detail = format!("{} panic(s) in runtime or caller threads; first: {}; all: {:?}", library.len(), first, library.iter().take(6).collect::<Vec<_>>());
		cx.violate("N3", &format!("panic: {}", first), detail);
	} else if !harness.is_empty() || r.is_err() {
		cx.inconclusive(&format!("harness panic: {:?}", harness.first()));
	}
	let (violated, undecided) = (cx.violated, cx.undecided);
	rep.count(&format!("cases_{}", format!("{:?}", kind).to_lowercase()));
	rep.count(&format!("workers_{}", workers));
	if !violated && !undecided {
		rep.count("cases_decided_clean");
	}
	rep.max("max_case_wall_ms", t0.elapsed().as_millis() as u64);
	if args.flag("timing") {
		eprintln!("case {} {:?} workers {} took {} ms{}{}", idx, kind, workers, t0.elapsed().as_millis(), if violated { " VIOLATED" } else { "" }, if undecided { " UNDECIDED" } else { "" });
	}
}

fn main() {
	install_hook();
	let args = Args::parse();
	let mut rep = args.report();
	let p = Params {
		cases: args.num("cases", 320, 16000),
		msgs: args.num("msgs", 60, 60),
		long_msgs: args.num("long_msgs", 2100, 2100),
		watchdog: Duration::from_millis(args.num("watchdog_ms", 60_000, 60_000)),
		stall: Duration::from_millis(args.num("stall_ms", 20_000, 20_000)),
		probes: args.num("probes", 20, 20),
	};
	store::shard_runs(&args, p.cases, &mut rep, |idx, rng, rep| run_one(&args, &p, idx, rng, rep));
	rep.write_to(&args.out);
}
