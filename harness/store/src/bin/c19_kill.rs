//! C19 (b), parent side: process-kill crash consistency of the filesystem stores.
//!
//! A child process (`c19_kill_child`, found next to this executable) performs writes / removes of
//! unique self-describing values over a few keys, announcing every operation before issuing it and
//! acknowledging it after it returned. This process SIGKILLs the child at a seeded point (after the
//! n-th protocol line plus a spin), reopens the directory with a fresh store and demands:
//!
//!  K1  no key reads as a torn / mixed / truncated value
//!  K2  every key reads as the value (or absence) left by an operation that may be the last one to
//!      have taken effect: an issued operation X on that key is admissible unless some acknowledged
//!      write / non-lazy remove Y on the key was issued after X was acknowledged; "absent" is also
//!      admissible while nothing on the key has been acknowledged (lazy removes may be lost by a
//!      crash, so an acknowledged lazy remove never makes an earlier state inadmissible)
//!  K4  list shows only keys (no temporary artefacts), K5 list / list_all_keys agree with what reads
//!      as present
//!  K6  the directory can be reopened;  K7 the reopened store accepts a write to every key and
//!      reads it back
//!  E1  an operation of the child failed or the child died on its own
//!
//! The kill instant is not reproducible; the transcript of the child's lines is the witness.

use std::collections::{BTreeMap, BTreeSet};
use std::io::{BufRead, BufReader, Read};
use std::process::{Command, Stdio};

use store::*;
use vcore::{Args, Fnv, Json, Report, Rng};

const PROP: &str = "C19";

#[derive(Clone, Debug)]
struct ChildOp {
	seq: u64,
	thread: u64,
	key: usize,
	/// Some((id, len)) = write, None = remove
	write: Option<(u64, usize)>,
	lazy: bool,
	issue_pos: usize,
	ack_pos: Option<usize>,
	failed: Option<String>,
}

struct Transcript {
	nss: Vec<(String, String)>,
	keys: Vec<(usize, String)>,
	ops: Vec<ChildOp>,
	lines: Vec<String>,
	done: bool,
	fatal: Option<String>,
}

fn parse_line(t: &mut Transcript, line: &str) -> Result<(), String> {
	let pos = t.lines.len();
	t.lines.push(line.to_string());
	let mut it = line.splitn(2, ' ');
	let tag = it.next().unwrap_or("");
	let rest = it.next().unwrap_or("");
	let bad = || format!("unparsable line from child: {:?}", line);
	match tag {
		"N" => {
			let (_, ns) = rest.split_once(' ').ok_or_else(bad)?;
			let (p, s) = ns.split_once('|').ok_or_else(bad)?;
			t.nss.push((p.to_string(), s.to_string()));
		},
		"K" => {
			let f: Vec<&str> = rest.split(' ').collect();
			if f.len() != 3 {
				return Err(bad());
			}
			t.keys.push((f[1].parse().map_err(|_| bad())?, f[2].to_string()));
		},
		"G" => {},
		"D" => t.done = true,
		"X" => t.fatal = Some(rest.to_string()),
		"I" => {
			let f: Vec<&str> = rest.split(' ').collect();
			if f.len() < 5 {
				return Err(bad());
			}
			let seq = f[0].parse().map_err(|_| bad())?;
			let thread = f[1].parse().map_err(|_| bad())?;
			let key = f[2].parse().map_err(|_| bad())?;
			let (write, lazy) = match f[3] {
				"W" => {
					if f.len() != 6 {
						return Err(bad());
					}
					(Some((u64::from_str_radix(f[4], 16).map_err(|_| bad())?, f[5].parse().map_err(|_| bad())?)), false)
				},
				"R" => (None, f[4] == "1"),
				_ => return Err(bad()),
			};
			t.ops.push(ChildOp { seq, thread, key, write, lazy, issue_pos: pos, ack_pos: None, failed: None });
		},
		"A" | "E" => {
			let (seqs, msg) = rest.split_once(' ').unwrap_or((rest, ""));
			let seq: u64 = seqs.parse().map_err(|_| bad())?;
			let op = t.ops.iter_mut().find(|o| o.seq == seq).ok_or_else(bad)?;
			if tag == "A" {
				op.ack_pos = Some(pos);
			} else {
				op.failed = Some(msg.to_string());
			}
		},
		_ => return Err(bad()),
	}
	Ok(())
}

/// The states key `k` may be found in after the crash: set of Some(value id) / None (absent).
fn admissible(t: &Transcript, k: usize) -> BTreeSet<Option<u64>> {
	let on_key: Vec<&ChildOp> = t.ops.iter().filter(|o| o.key == k).collect();
	let mut out = BTreeSet::new();
	// acknowledged operations that cannot be lost: writes and non-lazy removes
	let firm: Vec<&&ChildOp> = on_key.iter().filter(|o| o.ack_pos.is_some() && !(o.write.is_none() && o.lazy)).collect();
	if firm.is_empty() {
		out.insert(None); // initial state
	}
	for x in &on_key {
		let superseded = match x.ack_pos {
			Some(a) => firm.iter().any(|y| y.issue_pos > a),
			None => false,
		};
		if !superseded {
			out.insert(x.write.map(|(id, _)| id));
		}
	}
	// an acknowledged lazy remove that was lost leaves the state before it, which is admissible by
	// the clauses above (lazy removes are not "firm"); nothing more to add.
	out
}

fn run_kill(args: &Args, rep: &mut Report, rng: &mut Rng, idx: u64, tmp: &TmpRoot, child_exe: &std::path::Path, force_store: u64, maxlen: u64) {
	let mut kind = if rng.chance(1, 2) { StoreKind::V1 } else { StoreKind::V2 };
	match force_store {
		1 => kind = StoreKind::V1,
		2 => kind = StoreKind::V2,
		_ => {},
	}
	let threads = *rng.pick(&[1u64, 1, 2, 3]);
	let nops = rng.range(4, 30);
	let child_seed = rng.next() >> 1;
	let expected_lines = 2 * nops * threads;
	// kill after this many I/A/E lines (sometimes 0: before the first operation; sometimes beyond the end)
	let kill_after = match rng.below(12) {
		0 => 0,
		1 => expected_lines + 1,
		_ => rng.range(1, expected_lines),
	};
	let spin = match rng.below(6) {
		0 | 1 => 0,
		2 => rng.range(1, 2_000),
		3 | 4 => rng.range(1, 60_000),
		_ => rng.range(1, 400_000),
	};
	let dir = tmp.case_dir(idx, "k");
	TmpRoot::wipe(&dir);
	let kind_arg = if kind == StoreKind::V1 { "v1" } else { "v2" };
	let mut child = match Command::new(child_exe)
		.arg(&dir)
		.arg(kind_arg)
		.arg(child_seed.to_string())
		.arg(nops.to_string())
		.arg(threads.to_string())
		.arg(maxlen.to_string())
		.stdin(Stdio::null())
		.stdout(Stdio::piped())
		.stderr(Stdio::piped())
		.spawn()
	{
		Ok(c) => c,
		Err(e) => {
			rep.inconclusive(format!("cannot start the child process {}: {}", child_exe.display(), e));
			return;
		},
	};
	let mut t = Transcript { nss: vec![], keys: vec![], ops: vec![], lines: vec![], done: false, fatal: None };
	let mut reader = BufReader::new(child.stdout.take().unwrap());
	let mut counted = 0u64;
	let mut killed = false;
	let mut kill_line = None;
	let mut proto_err: Option<String> = None;
	let mut buf = String::new();
	if kill_after == 0 {
		// do not even wait for the first line
		for _ in 0..spin {
			std::hint::spin_loop();
		}
		let _ = child.kill();
		killed = true;
		kill_line = Some(0);
	}
	loop {
		buf.clear();
		match reader.read_line(&mut buf) {
			Ok(0) => break,
			Ok(_) => {
				if !buf.ends_with('\n') {
					break; // cannot happen with one write(2) per line; ignore a partial tail
				}
				let line = buf.trim_end_matches('\n');
				if let Err(e) = parse_line(&mut t, line) {
					proto_err = Some(e);
					break;
				}
				if matches!(line.as_bytes().first(), Some(b'I') | Some(b'A') | Some(b'E')) {
					counted += 1;
					if !killed && counted >= kill_after {
						for _ in 0..spin {
							std::hint::spin_loop();
						}
						let _ = child.kill();
						killed = true;
						kill_line = Some(t.lines.len());
					}
				}
			},
			Err(_) => break,
		}
	}
	if !killed {
		let _ = child.kill();
	}
	let status = child.wait();
	let mut stderr = String::new();
	if let Some(mut e) = child.stderr.take() {
		let _ = e.read_to_string(&mut stderr);
	}
	let stderr: String = stderr.chars().take(600).collect();

	rep.count("kills");
	rep.count(if kind == StoreKind::V1 { "kills_v1" } else { "kills_v2" });
	let api_tag = kind.name();
	let transcript_json = |t: &Transcript| -> Json {
		let n = t.lines.len();
		let tail: Vec<String> = t.lines.iter().enumerate().skip(n.saturating_sub(120)).map(|(i, l)| format!("{}: {}", i, l.chars().take(80).collect::<String>())).collect();
		Json::from(tail)
	};
	let mut findings: Vec<(&'static str, String, String)> = Vec::new();

	if let Some(e) = proto_err {
		rep.inconclusive(format!("protocol problem with the child: {}", e));
		TmpRoot::wipe(&dir);
		return;
	}
	if let Some(f) = &t.fatal {
		findings.push(("K6", "the child could not open a store in a fresh directory".into(), f.clone()));
	}
	use std::os::unix::process::ExitStatusExt;
	match &status {
		Ok(st) if st.signal() == Some(9) => rep.count("children_killed_by_sigkill"),
		Ok(st) if st.success() && t.done => rep.count("children_finished_before_the_kill"),
		Ok(st) => findings.push(("E1", "the child died on its own".into(), format!("status {:?}; stderr: {}", st, stderr))),
		Err(e) => {
			rep.inconclusive(format!("wait() on the child failed: {}", e));
		},
	}
	for o in &t.ops {
		if let Some(f) = &o.failed {
			findings.push(("E1", format!("an operation on valid arguments failed: {}", f), format!("op {} thread {} key {}", o.seq, o.thread, o.key)));
		}
	}
	let acked = t.ops.iter().filter(|o| o.ack_pos.is_some()).count() as u64;
	let pending = t.ops.iter().filter(|o| o.ack_pos.is_none() && o.failed.is_none()).count() as u64;
	rep.add("child_ops_acknowledged", acked);
	rep.add("child_ops_in_flight_at_kill", pending);
	if pending > 0 {
		rep.count("kills_with_an_operation_in_flight");
		if t.ops.iter().any(|o| o.ack_pos.is_none() && o.write.is_some()) {
			rep.count("kills_with_a_write_in_flight");
		}
	}
	{
		let mut h = Fnv::new();
		h.u64(threads).u64(t.keys.len() as u64).u64(acked.min(6)).u64(pending);
		for o in t.ops.iter().rev().take(4) {
			h.u64(o.write.is_some() as u64).u64(o.ack_pos.is_some() as u64).u64(o.lazy as u64);
		}
		rep.distinct(h.get());
	}

	// ---- reopen and judge
	let files_before = walk_files(&dir);
	rep.add("temp_files_left_on_disk_by_kills", files_before.iter().filter(|f| f.ends_with(".tmp")).count() as u64);
	let judged = vcore::guarded(|| -> Result<(), (&'static str, String, String)> {
		let store = AnyStore::open(kind, dir.clone()).map_err(|e| ("K6", "the directory cannot be reopened after the kill".to_string(), e))?;
		let mut present: BTreeSet<(usize, String)> = BTreeSet::new();
		let mut lenient_keys: BTreeSet<usize> = BTreeSet::new();
		for (k, (ns, name)) in t.keys.iter().enumerate() {
			let (p, s) = &t.nss[*ns];
			let adm = admissible(&t, k);
			if t.ops.iter().any(|o| o.key == k && o.write.is_none() && o.lazy) {
				lenient_keys.insert(k);
			}
			let label = format!("key {} ({} in {}/{})", k, name.chars().take(16).collect::<String>(), p.chars().take(8).collect::<String>(), s.chars().take(8).collect::<String>());
			let adm_txt = adm.iter().map(|a| a.map(|i| format!("{:#x}", i)).unwrap_or("absent".into())).collect::<Vec<_>>().join(" | ");
			rep.count("keys_judged_after_kill");
			match classify_read(store.read(p, s, name)) {
				ReadOutcome::Torn { why, len, head_hex } => {
					findings.push(("K1", format!("after a kill a key reads as bytes that are not one written value ({})", why.split(':').next().unwrap_or("")), format!("{}: {} (len {}, head {}); admissible: {}", label, why, len, head_hex, adm_txt)));
					present.insert((*ns, name.clone()));
				},
				ReadOutcome::Error(e) => findings.push(("E1", format!("read after reopen failed: {}", e), label)),
				ReadOutcome::Absent => {
					if !adm.contains(&None) {
						findings.push(("K2", "after a kill a key is absent although a write was acknowledged and no removal followed it".into(), format!("{}: absent; admissible: {}", label, adm_txt)));
					} else {
						rep.count("keys_found_absent_admissibly");
					}
				},
				ReadOutcome::Value { id, body_len } => {
					present.insert((*ns, name.clone()));
					let op = t.ops.iter().find(|o| o.key == k && o.write.map(|(i, _)| i) == Some(id));
					if adm.contains(&Some(id)) && op.map(|o| o.write.unwrap().1) == Some(body_len) {
						match op.unwrap().ack_pos {
							Some(_) => rep.count("keys_found_with_an_acknowledged_value"),
							None => rep.count("keys_found_with_the_value_of_an_in_flight_write"),
						}
					} else if op.is_some() {
						let firm_later = t.ops.iter().any(|o| o.key == k && o.ack_pos.is_some() && o.write.is_none() && !o.lazy && o.issue_pos > op.unwrap().ack_pos.unwrap_or(usize::MAX));
						let sig = if firm_later { "after a kill a key holds a value although its removal was acknowledged later" } else { "after a kill a key holds an older value than the last acknowledged write" };
						findings.push(("K2", sig.into(), format!("{}: holds {:#x}; admissible: {}", label, id, adm_txt)));
					} else {
						findings.push(("K2", "after a kill a key holds a well-formed value that was never issued for it".into(), format!("{}: holds {:#x}; admissible: {}", label, id, adm_txt)));
					}
				},
			}
		}
		// lists
		let mut listed_all: BTreeSet<(usize, String)> = BTreeSet::new();
		for (ns, (p, s)) in t.nss.iter().enumerate() {
			rep.count("lists_judged_after_kill");
			match store.list(p, s) {
				Err(e) => findings.push(("E1", format!("list after reopen failed: {:?}", e.kind()), format!("{}", e))),
				Ok(l) => {
					for name in l {
						if !t.keys.iter().any(|(n, k)| *n == ns && *k == name) {
							let what = if name.contains(".tmp") { "a temporary artefact" } else { "an entry that is not a key of that namespace" };
							findings.push(("K4", format!("after a kill list shows {}", what), format!("namespace {}: {}", ns, name)));
						} else {
							listed_all.insert((ns, name));
						}
					}
				},
			}
		}
		for (k, (ns, name)) in t.keys.iter().enumerate() {
			let e = (*ns, name.clone());
			if listed_all.contains(&e) != present.contains(&e) && !lenient_keys.contains(&k) {
				findings.push(("K5", "after a kill list disagrees with what reads as present".into(), format!("key {} listed={} reads-present={}", k, listed_all.contains(&e), present.contains(&e))));
			}
		}
		match store.list_all_keys() {
			Err(e) => findings.push(("E1", format!("list_all_keys after reopen failed: {:?}", e.kind()), format!("{}", e))),
			Ok(v) => {
				let got: BTreeSet<(String, String, String)> = v.into_iter().collect();
				let want: BTreeSet<(String, String, String)> = present.iter().map(|(ns, k)| (t.nss[*ns].0.clone(), t.nss[*ns].1.clone(), k.clone())).collect();
				if got != want && lenient_keys.is_empty() {
					findings.push(("K5", "after a kill list_all_keys disagrees with what reads as present".into(), format!("got {} entries, {} keys read as present", got.len(), want.len())));
				}
			},
		}
		// K7: the store is usable again
		for (k, (ns, name)) in t.keys.iter().enumerate() {
			let (p, s) = &t.nss[*ns];
			let id = value_id(0xEE, k as u64 + 1);
			let v = encode_value(id, 777 + k);
			match store.write(p, s, name, v.clone()) {
				Err(e) => findings.push(("K7", format!("write after reopen failed: {:?}", e.kind()), format!("key {}: {}", k, e))),
				Ok(()) => match store.read(p, s, name) {
					Ok(b) if b == v => rep.count("post_recovery_write_read_back"),
					other => findings.push(("K7", "a value written after reopen does not read back".into(), format!("key {}: {:?}", k, other.map(|b| b.len())))),
				},
			}
			if k % 2 == 0 {
				match store.remove(p, s, name, false) {
					Ok(()) if matches!(classify_read(store.read(p, s, name)), ReadOutcome::Absent) => {},
					other => findings.push(("K7", "a key removed after reopen is still readable or the removal failed".into(), format!("key {}: {:?}", k, other.is_ok()))),
				}
			}
		}
		Ok(())
	});
	match judged {
		Ok(Ok(())) => {},
		Ok(Err(f)) => findings.push(f),
		Err(p) => findings.push(("E1", format!("the reopened store panicked: {}", p), String::new())),
	}
	let files_after = walk_files(&dir);
	TmpRoot::wipe(&dir);

	if rep.samples.len() < rep.max_samples && pending > 0 {
		rep.sample(Json::obj().set("case", idx).set("store", api_tag).set("threads", threads).set("kill_after_line", kill_line.map(|x| x as u64)).set("spin", spin).set("acknowledged", acked).set("in_flight", pending).set("files_found", files_before.iter().take(8).cloned().collect::<Vec<_>>()));
	}
	let mut reported: BTreeMap<String, ()> = BTreeMap::new();
	for (rule, sig, detail) in findings {
		let sig = stable_sig(&format!("{}: {}", api_tag, sig));
		if reported.insert(format!("{}|{}", rule, sig), ()).is_some() {
			continue;
		}
		let body = Json::obj()
			.set("property", PROP)
			.set("rule", rule)
			.set("seed", args.seed)
			.set("case", idx)
			.set("store", api_tag)
			.set("child_args", vec![kind_arg.to_string(), child_seed.to_string(), nops.to_string(), threads.to_string(), maxlen.to_string()])
			.set("kill_after_counted_lines", kill_after)
			.set("spin", spin)
			.set("killed_after_line", kill_line.map(|x| x as u64))
			.set("detail", detail.as_str())
			.set("namespaces", t.nss.iter().map(|(p, s)| format!("{}|{}", p, s)).collect::<Vec<_>>())
			.set("keys", t.keys.iter().map(|(n, k)| format!("ns{}:{}", n, k)).collect::<Vec<_>>())
			.set("files_found_after_kill", files_before.clone())
			.set("files_after_check", files_after.clone())
			.set("note", "kill instants are not reproducible; the transcript (last 120 lines) is the witness")
			.set("transcript", transcript_json(&t));
		let path = args.write_replay(&format!("{}-seed{}-case{}", rule, args.seed, idx), &body);
		rep.violation(PROP, rule, &sig, detail, Some(path));
	}
}

fn main() {
	vcore::install_quiet_panic_hook();
	let args = Args::parse();
	let mut rep = args.report();
	rep.max_samples = 4;
	let kills = args.num("kills", 1_920, 96_000);
	let force_store = args.num("store", 0, 0);
	let maxlen = args.num("maxlen", 1_000_000, 1_000_000);
	let child_exe = match std::env::current_exe() {
		Ok(p) => p.with_file_name("c19_kill_child"),
		Err(e) => {
			rep.inconclusive(format!("cannot locate this executable: {}", e));
			rep.write_to(&args.out);
			return;
		},
	};
	if !child_exe.is_file() {
		rep.inconclusive(format!("child binary {} is missing (build it: cargo build -p store --bin c19_kill_child)", child_exe.display()));
		rep.write_to(&args.out);
		return;
	}
	let tmp = TmpRoot::new(&args, "kill");
	shard_runs(&args, kills, &mut rep, |idx, rng, rep| run_kill(&args, rep, rng, idx, &tmp, &child_exe, force_store, maxlen));
	drop(tmp);
	rep.write_to(&args.out);
}
