//! C19 (b), child side: performs writes / removes on a filesystem store and tells the parent, over
//! its stdout pipe, about every operation BEFORE issuing it (`I ...`) and AFTER it returned
//! (`A ...`). The parent kills this process at some instant. Every line is written with a single
//! write(2) under a mutex, so the order of lines is consistent with real time: if `A x` precedes
//! `I y` then x had returned before y was issued.
//!
//! usage: c19_kill_child <dir> <v1|v2> <seed> <ops per thread> <threads> <max body len> [sleep_us_between_ops]
//!
//! protocol:
//!   N <ns idx> <primary>|<secondary>
//!   K <key idx> <ns idx> <key name>
//!   G                                  start
//!   I <seq> <thread> <key idx> W <value id hex> <body len>
//!   I <seq> <thread> <key idx> R <0|1 = lazy>
//!   A <seq>                            returned Ok
//!   E <seq> <message>                  returned Err
//!   D                                  all threads finished

use std::io::Write;
use std::sync::atomic::{AtomicU64, Ordering};
use std::sync::Mutex;

use store::*;
use vcore::Rng;

struct Out(Mutex<std::fs::File>);
impl Out {
	fn line(&self, s: String) {
		let mut f = self.0.lock().unwrap();
		// a File is unbuffered: exactly one write(2) for a short line
		if f.write_all(s.as_bytes()).is_err() {
			std::process::exit(3);
		}
	}
}

fn main() {
	let a: Vec<String> = std::env::args().collect();
	if a.len() < 7 {
		eprintln!("usage: c19_kill_child <dir> <v1|v2> <seed> <ops> <threads> <maxlen>");
		std::process::exit(2);
	}
	let dir = std::path::PathBuf::from(&a[1]);
	let kind = if a[2] == "v2" { StoreKind::V2 } else { StoreKind::V1 };
	let seed: u64 = a[3].parse().expect("seed");
	let nops: u64 = a[4].parse().expect("ops");
	let threads: u64 = a[5].parse().expect("threads");
	let maxlen: u64 = a[6].parse().expect("maxlen");
	let out = {
		use std::os::fd::FromRawFd;
		// fd 1 is the pipe to the parent; never closed by us (process exit / kill does that)
		Out(Mutex::new(unsafe { std::fs::File::from_raw_fd(1) }))
	};
	let store = match AnyStore::open(kind, dir) {
		Ok(s) => s,
		Err(e) => {
			out.line(format!("X cannot open store: {}\n", e));
			std::process::exit(4);
		},
	};
	// universe
	let mut rng = Rng::derive(seed, 0, 0xC19B);
	let pool = namespace_pool();
	let kpool = key_pool();
	let nns = rng.range(1, 2) as usize;
	let mut ns_idx: Vec<usize> = (0..pool.len()).collect();
	rng.shuffle(&mut ns_idx);
	let nss: Vec<(String, String)> = ns_idx[..nns].iter().map(|i| pool[*i].clone()).collect();
	let nkeys = rng.range(1, 4) as usize;
	let mut keys: Vec<(usize, String)> = Vec::new();
	while keys.len() < nkeys {
		let c = (rng.below(nns as u64) as usize, rng.pick(&kpool).clone());
		if !keys.contains(&c) {
			keys.push(c);
		}
	}
	for (i, (p, s)) in nss.iter().enumerate() {
		out.line(format!("N {} {}|{}\n", i, p, s));
	}
	for (i, (n, k)) in keys.iter().enumerate() {
		out.line(format!("K {} {} {}\n", i, n, k));
	}
	out.line("G\n".to_string());
	let seq = AtomicU64::new(0);
	const TABLE: [u64; 16] = [0, 1, 100, 4095, 4096, 4097, 20_000, 65_536, 65_536, 131_072, 262_144, 262_144, 500_000, 1_000_000, 33, 8192];
	std::thread::scope(|sc| {
		for t in 0..threads {
			let (store, out, seq, nss, keys) = (&store, &out, &seq, &nss, &keys);
			sc.spawn(move || {
				let mut rng = Rng::derive(seed, t + 1, 0xC19C);
				let mut counter = 0u64;
				for _ in 0..nops {
					let k = rng.below(keys.len() as u64) as usize;
					let (ns, name) = &keys[k];
					let (p, s) = &nss[*ns];
					let n = seq.fetch_add(1, Ordering::SeqCst);
					let res = if rng.chance(3, 4) {
						counter += 1;
						let id = value_id(t + 1, counter);
						let len = (if rng.chance(1, 4) { rng.below(maxlen + 1) } else { *rng.pick(&TABLE) }).min(maxlen) as usize;
						let buf = encode_value(id, len);
						out.line(format!("I {} {} {} W {:x} {}\n", n, t, k, id, len));
						store.write(p, s, name, buf)
					} else {
						let lazy = rng.chance(2, 5);
						out.line(format!("I {} {} {} R {}\n", n, t, k, lazy as u8));
						store.remove(p, s, name, lazy)
					};
					match res {
						Ok(()) => out.line(format!("A {}\n", n)),
						Err(e) => out.line(format!("E {} {:?} {}\n", n, e.kind(), e.to_string().replace('\n', " "))),
					}
				}
			});
		}
	});
	out.line("D\n".to_string());
	// leave without running destructors on fd 1 twice
	std::process::exit(0);
}
