//! C19 (a): the filesystem key-value stores behave as an atomic map.
//!
//! Real threads issue write / read / remove / list against `FilesystemStore` / `FilesystemStoreV2`
//! (sync interface, or the tokio-backed async interface driven with `block_on` from the client
//! threads). Every operation is recorded at the client boundary with a call and a return instant
//! taken from ONE global atomic counter, so `ret(A) < call(B)` holds exactly when A had returned
//! before B was issued. The recorded history is judged offline:
//!
//!  T1  a read returns bytes that are not exactly one written value (torn / mixed / truncated)
//!  X1  a read on key K returns a value that was never written to K (keys interfere)
//!  E1  an operation on valid arguments fails or panics
//!  L1  the per-key history (writes, removes, reads) is not linearizable w.r.t. a sequential
//!      register  (Wing-Gong search with memoisation; per key = P-compositionality)
//!  LS1 list omits a key whose write completed before the list was called and that no remove could
//!      have deleted;  LS2 list shows a key that was never written / whose (non-lazy) removal
//!      completed before with no write that could follow;  LS3 list shows something that is not a
//!      key of that namespace (temporary artefacts, foreign keys);  LS4 duplicates;
//!      LS5 list_all_keys at quiescence differs from the keys that read as present
//!  O1  async interface: after all futures completed the key holds the effect of the LAST-CREATED
//!      write/remove, whatever the polling / completion order
//!  O2  async interface: an observer never sees a later-created write and afterwards an
//!      earlier-created one
//!  O3  async interface, futures driven one at a time: after each completion the key holds the
//!      effect of the latest-created future among the completed ones
//!
//! Verdicts are sound for every interleaving; a search that exceeds its step budget is reported as
//! inconclusive, never as a violation.

use std::collections::{BTreeMap, BTreeSet, HashMap, HashSet};
use std::sync::atomic::{AtomicU64, Ordering};
use std::sync::Barrier;
use std::task::{Context, Poll, Waker};

use store::*;
use vcore::{Args, Fnv, Json, Report, Rng};

const PROP: &str = "C19";

#[derive(Clone, Debug)]
enum OpKind {
	Write { key: usize, id: u64, len: usize },
	Read { key: usize },
	Remove { key: usize, lazy: bool },
	List { ns: usize },
}

#[derive(Clone, Debug)]
enum OpRes {
	Done,
	Read(ReadOutcome),
	Keys(Vec<String>),
	Error(String),
	Panic(String),
}

#[derive(Clone, Debug)]
struct Planned {
	kind: OpKind,
	pause: u32,
}

#[derive(Clone, Debug)]
struct Rec {
	thread: usize,
	seq: usize,
	kind: OpKind,
	call: u64,
	ret: u64,
	res: OpRes,
}

#[allow(dead_code)]
struct Universe {
	kind: StoreKind,
	api_async: bool,
	nss: Vec<(String, String)>,
	/// (namespace index, key name)
	keys: Vec<(usize, String)>,
}

impl Universe {
	fn key_label(&self, k: usize) -> String {
		let (ns, name) = &self.keys[k];
		format!("{}/{}", self.ns_label(*ns), short(name))
	}
	fn ns_label(&self, ns: usize) -> String {
		let (p, s) = &self.nss[ns];
		format!("({},{})", short(p), short(s))
	}
}
fn short(s: &str) -> String {
	if s.len() > 12 {
		format!("{}..x{}", &s[..3], s.len())
	} else {
		format!("'{}'", s)
	}
}

fn pause(p: u32) {
	match p {
		0 => {},
		1 => std::thread::yield_now(),
		n => {
			for _ in 0..n {
				std::hint::spin_loop();
			}
		},
	}
}

fn exec(store: &AnyStore, rt: Option<&tokio::runtime::Runtime>, uni: &Universe, kind: &OpKind, buf: Option<Vec<u8>>) -> OpRes {
	let unit = |r: Result<(), lightning::io::Error>| match r {
		Ok(()) => OpRes::Done,
		Err(e) => OpRes::Error(format!("{:?}: {}", e.kind(), e)),
	};
	match kind {
		OpKind::Write { key, .. } => {
			let (ns, name) = &uni.keys[*key];
			let (p, s) = &uni.nss[*ns];
			let buf = buf.expect("write without buffer");
			unit(match rt {
				None => store.write(p, s, name, buf),
				Some(rt) => rt.block_on(store.a_write(p, s, name, buf)),
			})
		},
		OpKind::Read { key } => {
			let (ns, name) = &uni.keys[*key];
			let (p, s) = &uni.nss[*ns];
			OpRes::Read(classify_read(match rt {
				None => store.read(p, s, name),
				Some(rt) => rt.block_on(store.a_read(p, s, name)),
			}))
		},
		OpKind::Remove { key, lazy } => {
			let (ns, name) = &uni.keys[*key];
			let (p, s) = &uni.nss[*ns];
			unit(match rt {
				None => store.remove(p, s, name, *lazy),
				Some(rt) => rt.block_on(store.a_remove(p, s, name, *lazy)),
			})
		},
		OpKind::List { ns } => {
			let (p, s) = &uni.nss[*ns];
			match match rt {
				None => store.list(p, s),
				Some(rt) => rt.block_on(store.a_list(p, s)),
			} {
				Ok(k) => OpRes::Keys(k),
				Err(e) => OpRes::Error(format!("{:?}: {}", e.kind(), e)),
			}
		},
	}
}

fn body_len(rng: &mut Rng, maxlen: u64) -> usize {
	const TABLE: [u64; 20] = [0, 0, 1, 7, 33, 64, 100, 100, 511, 1000, 4076, 4095, 4096, 4097, 8192, 20000, 65535, 65536, 65516, 3];
	let l = if rng.chance(1, 5) { rng.below(maxlen + 1) } else { *rng.pick(&TABLE) };
	l.min(maxlen) as usize
}

// ---------------------------------------------------------------------------------------------
// Linearizability of one key's history against a sequential register
// ---------------------------------------------------------------------------------------------
#[derive(Clone, Copy, Debug, PartialEq, Eq)]
enum KKind {
	W(u64),
	Rm,
	R(Option<u64>),
}
#[derive(Clone, Copy, Debug)]
struct KOp {
	call: u64,
	ret: u64,
	kind: KKind,
	/// index into the history (diagnostics)
	rec: usize,
}

#[derive(Debug, PartialEq, Eq)]
enum Lin {
	Ok(u64),
	Fail(u64),
	Budget,
}

const MAX_KEY_OPS: usize = 320;
type Bits = [u64; MAX_KEY_OPS / 64];

/// `ops` must be sorted by call instant. Wing-Gong: repeatedly choose a minimal operation (one
/// that was called before every not-yet-linearized operation returned), apply it to the model,
/// backtrack on mismatch; configurations (set of linearized operations, model state) are memoised.
fn linearizable(ops: &[KOp], budget: u64) -> Lin {
	let n = ops.len();
	if n > MAX_KEY_OPS {
		return Lin::Budget;
	}
	let mut done: Bits = [0; MAX_KEY_OPS / 64];
	let mut ndone = 0usize;
	let mut state: Option<u64> = None;
	let mut memo: HashSet<(Bits, Option<u64>)> = HashSet::new();
	// (op chosen, state before, cursor to resume from)
	let mut stack: Vec<(usize, Option<u64>, usize)> = Vec::new();
	let mut cursor = 0usize;
	let mut steps = 0u64;
	let is_done = |d: &Bits, i: usize| d[i / 64] >> (i % 64) & 1 == 1;
	loop {
		if ndone == n {
			return Lin::Ok(steps);
		}
		let mut minret = u64::MAX;
		for i in 0..n {
			if !is_done(&done, i) && ops[i].ret < minret {
				minret = ops[i].ret;
			}
		}
		let mut descended = false;
		let mut i = cursor;
		while i < n {
			if is_done(&done, i) {
				i += 1;
				continue;
			}
			if ops[i].call > minret {
				break;
			}
			steps += 1;
			if steps > budget {
				return Lin::Budget;
			}
			let next = match ops[i].kind {
				KKind::W(v) => Some(Some(v)),
				KKind::Rm => Some(None),
				KKind::R(x) => {
					if x == state {
						Some(state)
					} else {
						None
					}
				},
			};
			if let Some(ns) = next {
				let mut d2 = done;
				d2[i / 64] |= 1 << (i % 64);
				if memo.insert((d2, ns)) {
					stack.push((i, state, i + 1));
					done = d2;
					ndone += 1;
					state = ns;
					cursor = 0;
					descended = true;
					break;
				}
			}
			i += 1;
		}
		if !descended {
			match stack.pop() {
				None => return Lin::Fail(steps),
				Some((i, prev, resume)) => {
					done[i / 64] &= !(1 << (i % 64));
					ndone -= 1;
					state = prev;
					cursor = resume;
				},
			}
		}
	}
}

/// After a failed search: name the read (if it is a single one) without which the history is fine.
fn diagnose(ops: &[KOp], budget: u64) -> (String, Option<usize>) {
	for skip in 0..ops.len() {
		if let KKind::R(x) = ops[skip].kind {
			let rest: Vec<KOp> = ops.iter().enumerate().filter(|(i, _)| *i != skip).map(|(_, o)| *o).collect();
			if let Lin::Ok(_) = linearizable(&rest, budget) {
				let r = &ops[skip];
				let class = match x {
					Some(v) => {
						let w = ops.iter().find(|o| o.kind == KKind::W(v));
						match w {
							Some(w) if ops.iter().any(|z| matches!(z.kind, KKind::W(_) | KKind::Rm) && z.call > w.ret && z.ret < r.call) => {
								"stale read: the value returned had been replaced by an operation that completed before the read was issued"
							},
							Some(w) if w.call > r.ret => "read returned a value whose write was issued only after the read returned",
							_ => "a read returned a value it could not have seen at any point of its interval",
						}
					},
					None => {
						if ops.iter().any(|w| matches!(w.kind, KKind::W(_)) && w.ret < r.call && !ops.iter().any(|z| z.kind == KKind::Rm && z.ret > w.call && z.call < r.ret)) {
							"lost write: a read found nothing although a write had completed and no removal could follow it"
						} else {
							"a read found nothing at a point where the key must have held a value"
						}
					},
				};
				return (class.to_string(), Some(skip));
			}
		}
	}
	("no single read explains it (the order of writes/removes itself is inconsistent with what was read)".to_string(), None)
}

// ---------------------------------------------------------------------------------------------
// One concurrent history
// ---------------------------------------------------------------------------------------------
struct Params {
	threads_max: u64,
	ops_max: u64,
	maxlen: u64,
	budget: u64,
	v2: bool,
	async_api: bool,
	/// 0 = either, 1 = FilesystemStore only, 2 = FilesystemStoreV2 only
	force_store: u64,
}

fn fmt_rec(uni: &Universe, r: &Rec) -> String {
	let what = match &r.kind {
		OpKind::Write { key, id, len } => format!("write {} value={:#x} body={}", uni.key_label(*key), id, len),
		OpKind::Read { key } => format!("read {}", uni.key_label(*key)),
		OpKind::Remove { key, lazy } => format!("remove{} {}", if *lazy { "(lazy)" } else { "" }, uni.key_label(*key)),
		OpKind::List { ns } => format!("list {}", uni.ns_label(*ns)),
	};
	let res = match &r.res {
		OpRes::Done => "ok".to_string(),
		OpRes::Read(ReadOutcome::Absent) => "absent".to_string(),
		OpRes::Read(ReadOutcome::Value { id, body_len }) => format!("value={:#x} body={}", id, body_len),
		OpRes::Read(ReadOutcome::Torn { why, len, head_hex }) => format!("TORN {} (len {}, head {})", why, len, head_hex),
		OpRes::Read(ReadOutcome::Error(e)) => format!("ERROR {}", e),
		OpRes::Keys(k) => format!("[{}]", k.iter().map(|s| short(s)).collect::<Vec<_>>().join(",")),
		OpRes::Error(e) => format!("ERROR {}", e),
		OpRes::Panic(p) => format!("PANIC {}", p),
	};
	format!("t{}#{} [{},{}] {} -> {}", r.thread, r.seq, r.call, r.ret, what, res)
}

fn run_history(args: &Args, rep: &mut Report, rng: &mut Rng, idx: u64, tmp: &TmpRoot, rt: &tokio::runtime::Runtime, pm: &Params) {
	// ---- shape of this history
	let mut kind = if rng.chance(1, 2) { StoreKind::V1 } else { StoreKind::V2 };
	match pm.force_store {
		1 => kind = StoreKind::V1,
		2 => kind = StoreKind::V2,
		_ => {},
	}
	if kind == StoreKind::V2 && !pm.v2 {
		rep.count("histories_v2_replaced_by_v1_(v2_disabled)");
		kind = StoreKind::V1;
	}
	let api_async = pm.async_api && rng.chance(1, 3);
	let nthreads = rng.range(2, pm.threads_max.max(2)) as usize;
	let nkeys = rng.range(1, 3) as usize;
	let pool = namespace_pool();
	let kpool = key_pool();
	let nns = if nkeys == 1 { 1 } else { rng.range(1, 2) as usize };
	let mut ns_idx: Vec<usize> = (0..pool.len()).collect();
	rng.shuffle(&mut ns_idx);
	let nss: Vec<(String, String)> = ns_idx[..nns].iter().map(|i| pool[*i].clone()).collect();
	let mut keys: Vec<(usize, String)> = Vec::new();
	while keys.len() < nkeys {
		let cand = (rng.below(nns as u64) as usize, rng.pick(&kpool).clone());
		if !keys.contains(&cand) {
			keys.push(cand);
		}
	}
	let uni = Universe { kind, api_async, nss, keys };
	let ops_lo = (pm.ops_max / 4).max(2).min(8);
	let mut plans: Vec<Vec<Planned>> = Vec::new();
	for t in 0..nthreads {
		let n = rng.range(ops_lo, pm.ops_max.max(ops_lo)) as usize;
		let mut plan = Vec::new();
		let mut counter = 0u64;
		// per-thread flavour: some threads mostly write, some mostly read
		let flavour = rng.below(3);
		let weights: [u32; 4] = match flavour {
			0 => [55, 22, 10, 13],
			1 => [20, 58, 7, 15],
			_ => [38, 35, 12, 15],
		};
		for _ in 0..n {
			let key = rng.below(uni.keys.len() as u64) as usize;
			let kind = match rng.weighted(&weights) {
				0 => {
					counter += 1;
					OpKind::Write { key, id: value_id(t as u64 + 1, counter), len: body_len(rng, pm.maxlen) }
				},
				1 => OpKind::Read { key },
				2 => OpKind::Remove { key, lazy: rng.chance(1, 2) },
				_ => OpKind::List { ns: rng.below(uni.nss.len() as u64) as usize },
			};
			let pause = match rng.below(10) {
				0..=5 => 0,
				6 | 7 => 1,
				_ => rng.range(2, 3000) as u32,
			};
			plan.push(Planned { kind, pause });
		}
		plans.push(plan);
	}

	// ---- run it
	let dir = tmp.case_dir(idx, "");
	TmpRoot::wipe(&dir);
	let store = match AnyStore::open(kind, dir.clone()) {
		Ok(s) => s,
		Err(e) => {
			rep.inconclusive(format!("cannot open {} in a fresh directory: {}", kind.name(), e));
			return;
		},
	};
	let clock = AtomicU64::new(0);
	let barrier = Barrier::new(nthreads);
	let rt_opt = if api_async { Some(rt) } else { None };
	let mut hist: Vec<Rec> = Vec::new();
	std::thread::scope(|sc| {
		let mut hs = Vec::new();
		for (t, plan) in plans.iter().enumerate() {
			let (store, clock, barrier, uni) = (&store, &clock, &barrier, &uni);
			hs.push(sc.spawn(move || {
				let mut out = Vec::with_capacity(plan.len());
				barrier.wait();
				for (seq, p) in plan.iter().enumerate() {
					pause(p.pause);
					let buf = match p.kind {
						OpKind::Write { id, len, .. } => Some(encode_value(id, len)),
						_ => None,
					};
					let call = clock.fetch_add(1, Ordering::SeqCst);
					let res = match vcore::guarded(|| exec(store, rt_opt, uni, &p.kind, buf)) {
						Ok(r) => r,
						Err(p) => OpRes::Panic(p),
					};
					let ret = clock.fetch_add(1, Ordering::SeqCst);
					out.push(Rec { thread: t, seq, kind: p.kind.clone(), call, ret, res });
				}
				out
			}));
		}
		for h in hs {
			match h.join() {
				Ok(v) => hist.extend(v),
				Err(_) => {},
			}
		}
	});
	let concurrent_ops = hist.len();
	// ---- quiescent epilogue by one thread: read every key, list every namespace
	let epilogue = |kind: OpKind, hist: &mut Vec<Rec>| {
		let call = clock.fetch_add(1, Ordering::SeqCst);
		let res = match vcore::guarded(|| exec(&store, None, &uni, &kind, None)) {
			Ok(r) => r,
			Err(p) => OpRes::Panic(p),
		};
		let ret = clock.fetch_add(1, Ordering::SeqCst);
		let seq = hist.len() - concurrent_ops;
		hist.push(Rec { thread: nthreads, seq, kind, call, ret, res });
	};
	for k in 0..uni.keys.len() {
		epilogue(OpKind::Read { key: k }, &mut hist);
	}
	for ns in 0..uni.nss.len() {
		epilogue(OpKind::List { ns }, &mut hist);
	}
	let all_keys = vcore::guarded(|| store.list_all_keys());
	let files_left = walk_files(&dir);
	drop(store);
	TmpRoot::wipe(&dir);

	hist.sort_by_key(|r| r.call);
	rep.count("histories");
	rep.count(if kind == StoreKind::V1 { "histories_v1" } else { "histories_v2" });
	rep.count(if api_async { "histories_async_api" } else { "histories_sync_api" });
	rep.add("ops_total", hist.len() as u64);
	rep.max("threads_in_one_history", nthreads as u64);
	rep.max("ops_in_one_history", hist.len() as u64);
	rep.add("tmp_files_on_disk_at_quiescence", files_left.iter().filter(|f| f.ends_with(".tmp")).count() as u64);

	// interleaving fingerprint: order of call/return events by thread
	{
		let mut ev: Vec<(u64, usize)> = Vec::with_capacity(hist.len() * 2);
		for r in &hist[..] {
			if r.thread < nthreads {
				ev.push((r.call, r.thread));
				ev.push((r.ret, r.thread));
			}
		}
		ev.sort();
		let mut h = Fnv::new();
		for (_, t) in &ev {
			h.u64(*t as u64);
		}
		rep.distinct(h.get());
		// a purely sequential schedule (every op returns before the next is called) is the dull case
		let mut switches = 0u64;
		for w in ev.chunks(2) {
			if w.len() == 2 && w[0].1 != w[1].1 {
				switches += 1;
			}
		}
		rep.add("interleaving_points", switches);
	}

	let dump = |filter: &dyn Fn(&Rec) -> bool| -> Vec<String> { hist.iter().filter(|r| filter(r)).map(|r| fmt_rec(&uni, r)).collect() };
	let base_json = |rule: &str| {
		Json::obj()
			.set("property", PROP)
			.set("rule", rule)
			.set("seed", args.seed)
			.set("case", idx)
			.set("store", kind.name())
			.set("api", if api_async { "async(block_on)" } else { "sync" })
			.set("threads", nthreads)
			.set("namespaces", uni.nss.iter().map(|(p, s)| format!("{}/{}", p, s)).collect::<Vec<_>>())
			.set("keys", uni.keys.iter().map(|(n, k)| format!("ns{}:{}", n, k)).collect::<Vec<_>>())
			.set("note", "thread schedules are not reproducible; the recorded history below is the witness")
	};
	let api_tag = format!("{} {}", kind.name(), if api_async { "async" } else { "sync" });
	// one report per (rule, signature) and history
	let reported: std::cell::RefCell<HashSet<String>> = std::cell::RefCell::new(HashSet::new());
	let violate = |rep: &mut Report, rule: &str, sig: String, detail: String, lines: Vec<String>| {
		let sig = stable_sig(&sig);
		if !reported.borrow_mut().insert(format!("{}|{}", rule, sig)) {
			rep.count("further_violations_of_an_already_reported_kind_in_the_same_history");
			return;
		}
		let body = base_json(rule).set("detail", detail.as_str()).set("history", lines);
		let path = args.write_replay(&format!("{}-seed{}-case{}", rule, args.seed, idx), &body);
		rep.violation(PROP, rule, &sig, detail, Some(path));
	};

	// ---- E1 / T1 / X1
	let mut written: HashMap<u64, (usize, usize)> = HashMap::new(); // id -> (key, body_len)
	for r in &hist {
		if let OpKind::Write { key, id, len } = r.kind {
			written.insert(id, (key, len));
		}
	}
	let mut broken_keys: BTreeSet<usize> = BTreeSet::new();
	let mut broken_ns: BTreeSet<usize> = BTreeSet::new();
	let mut panic_reported = false;
	for r in &hist {
		let kidx = match r.kind {
			OpKind::Write { key, .. } | OpKind::Read { key } | OpKind::Remove { key, .. } => Some(key),
			OpKind::List { .. } => None,
		};
		let opname = match r.kind {
			OpKind::Write { .. } => "write",
			OpKind::Read { .. } => "read",
			OpKind::Remove { .. } => "remove",
			OpKind::List { .. } => "list",
		};
		match &r.res {
			OpRes::Done => rep.count(&format!("ops_{}", opname)),
			OpRes::Keys(_) => rep.count("ops_list"),
			OpRes::Read(ReadOutcome::Absent) => {
				rep.count("ops_read");
				rep.count("reads_absent");
			},
			OpRes::Read(ReadOutcome::Value { id, body_len }) => {
				rep.count("ops_read");
				rep.count("reads_value");
				rep.max("largest_value_read_back", *body_len as u64);
				let k = kidx.unwrap();
				match written.get(id) {
					Some((wk, wl)) if *wk == k && wl == body_len => {},
					Some((wk, _)) if *wk != k => {
						broken_keys.insert(k);
						violate(rep, "X1", format!("{}: a read returned a value that was written to a different key", api_tag), format!("{} ; the value belongs to {}", fmt_rec(&uni, r), uni.key_label(*wk)), dump(&|_| true));
					},
					_ => {
						broken_keys.insert(k);
						violate(rep, "X1", format!("{}: a read returned a well-formed value that nobody wrote", api_tag), fmt_rec(&uni, r), dump(&|_| true));
					},
				}
			},
			OpRes::Read(ReadOutcome::Torn { why, .. }) => {
				rep.count("ops_read");
				let k = kidx.unwrap();
				broken_keys.insert(k);
				violate(rep, "T1", format!("{}: read returned bytes that are not one written value ({})", api_tag, vcore::canon(why.split(':').next().unwrap_or(""))), fmt_rec(&uni, r), dump(&|x| matches!(x.kind, OpKind::Write{key,..}|OpKind::Read{key}|OpKind::Remove{key,..} if key==k)));
			},
			OpRes::Read(ReadOutcome::Error(e)) | OpRes::Error(e) => {
				if let Some(k) = kidx {
					broken_keys.insert(k);
				} else if let OpKind::List { ns } = r.kind {
					broken_ns.insert(ns);
				}
				violate(rep, "E1", format!("{}: {} on valid arguments failed: {}", api_tag, opname, vcore::canon(e)), fmt_rec(&uni, r), dump(&|_| true));
			},
			OpRes::Panic(p) => {
				if let Some(k) = kidx {
					broken_keys.insert(k);
				} else if let OpKind::List { ns } = r.kind {
					broken_ns.insert(ns);
				}
				if !panic_reported {
					panic_reported = true;
					violate(rep, "E1", format!("{}: {} panicked: {}", api_tag, opname, vcore::canon(p)), fmt_rec(&uni, r), dump(&|_| true));
				}
			},
		}
	}

	// ---- L1 per key
	let mut any_overlap = false;
	let mut any_mut_overlap = false;
	for k in 0..uni.keys.len() {
		let mut kops: Vec<KOp> = Vec::new();
		for (i, r) in hist.iter().enumerate() {
			let kk = match (&r.kind, &r.res) {
				(OpKind::Write { key, id, .. }, OpRes::Done) if *key == k => KKind::W(*id),
				(OpKind::Remove { key, .. }, OpRes::Done) if *key == k => KKind::Rm,
				(OpKind::Read { key }, OpRes::Read(ReadOutcome::Absent)) if *key == k => KKind::R(None),
				(OpKind::Read { key }, OpRes::Read(ReadOutcome::Value { id, .. })) if *key == k => KKind::R(Some(*id)),
				_ => continue,
			};
			kops.push(KOp { call: r.call, ret: r.ret, kind: kk, rec: i });
		}
		// overlap statistics (evidence that the histories are really concurrent)
		let mut pairs = 0u64;
		let mut mut_pairs = 0u64;
		for a in 0..kops.len() {
			for b in a + 1..kops.len() {
				if kops[b].call > kops[a].ret {
					continue;
				}
				// sorted by call: b.call >= a.call, and b.call < a.ret => overlap
				pairs += 1;
				if !matches!(kops[a].kind, KKind::R(_)) || !matches!(kops[b].kind, KKind::R(_)) {
					mut_pairs += 1;
				}
			}
		}
		rep.add("overlapping_pairs_on_one_key", pairs);
		rep.add("overlapping_pairs_on_one_key_involving_a_write_or_remove", mut_pairs);
		any_overlap |= pairs > 0;
		any_mut_overlap |= mut_pairs > 0;
		if broken_keys.contains(&k) {
			rep.count("key_histories_not_searched_(already_reported)");
			continue;
		}
		match linearizable(&kops, pm.budget) {
			Lin::Ok(steps) => {
				rep.count("key_histories_linearizable");
				rep.add("search_steps", steps);
				rep.max("search_steps_one_key", steps);
				rep.max("ops_on_one_key", kops.len() as u64);
			},
			Lin::Budget => {
				rep.count("key_histories_budget_exhausted");
				rep.inconclusive(format!("linearizability search exceeded its budget of {} steps ({} operations on one key, case {})", pm.budget, kops.len(), idx));
			},
			Lin::Fail(_) => {
				let (class, culprit) = diagnose(&kops, pm.budget);
				let detail = match culprit {
					Some(c) => format!("{}: {} ; offending operation: {}", uni.key_label(k), class, fmt_rec(&uni, &hist[kops[c].rec])),
					None => format!("{}: {}", uni.key_label(k), class),
				};
				violate(rep, "L1", format!("{}: history of one key is not linearizable: {}", api_tag, class), detail, dump(&|x| matches!(x.kind, OpKind::Write{key,..}|OpKind::Read{key}|OpKind::Remove{key,..} if key==k)));
			},
		}
	}
	if any_overlap {
		rep.count("histories_with_overlapping_ops_on_one_key");
	}
	if any_mut_overlap {
		rep.count("histories_with_overlapping_write_or_remove_on_one_key");
	}

	// ---- LS1..LS4: lists, interval rule
	for l in hist.iter() {
		let (ns, listed) = match (&l.kind, &l.res) {
			(OpKind::List { ns }, OpRes::Keys(v)) => (*ns, v),
			_ => continue,
		};
		rep.count("lists_checked");
		let mut seen: BTreeSet<&str> = BTreeSet::new();
		for name in listed {
			if !seen.insert(name.as_str()) {
				violate(rep, "LS4", format!("{}: list returned the same key twice", api_tag), fmt_rec(&uni, l), dump(&|_| true));
			}
			if !uni.keys.iter().any(|(n, k)| *n == ns && k == name) {
				let what = if name.contains(".tmp") || name.contains(".trash") { "a temporary artefact" } else if uni.keys.iter().any(|(_, k)| k == name) { "a key of another namespace" } else { "an unknown entry" };
				violate(rep, "LS3", format!("{}: list returned {}", api_tag, what), format!("{} ; entry {}", fmt_rec(&uni, l), name), dump(&|_| true));
			}
		}
		for (k, (kns, name)) in uni.keys.iter().enumerate() {
			if *kns != ns || broken_keys.contains(&k) {
				continue;
			}
			let writes: Vec<&Rec> = hist.iter().filter(|r| matches!(r.kind, OpKind::Write{key,..} if key==k)).collect();
			let removes: Vec<&Rec> = hist.iter().filter(|r| matches!(r.kind, OpKind::Remove{key,..} if key==k)).collect();
			let is_listed = seen.contains(name.as_str());
			// must be listed: some write completed before the list was called and every removal
			// either completed before that write was issued or was issued after the list returned
			let must = writes.iter().any(|w| w.ret < l.call && removes.iter().all(|r| r.ret < w.call || r.call > l.ret));
			// must not be listed: nothing was written before the list returned, or a non-lazy
			// removal completed before the list was called and every write completed before that
			// removal was issued or was issued after the list returned
			let never = writes.iter().all(|w| w.call > l.ret);
			let gone = removes.iter().any(|r| matches!(r.kind, OpKind::Remove { lazy: false, .. }) && r.ret < l.call && writes.iter().all(|w| w.ret < r.call || w.call > l.ret));
			if must {
				rep.count("list_obligations_key_must_be_listed");
				if !is_listed {
					violate(rep, "LS1", format!("{}: list omitted a key whose write had completed and that no removal could have deleted", api_tag), format!("{} ; missing {}", fmt_rec(&uni, l), uni.key_label(k)), dump(&|x| std::ptr::eq(x, l) || matches!(x.kind, OpKind::Write{key,..}|OpKind::Remove{key,..} if key==k)));
				}
			} else if never || gone {
				rep.count("list_obligations_key_must_not_be_listed");
				if is_listed {
					let why = if never { "that had never been written" } else { "whose removal had completed" };
					violate(rep, "LS2", format!("{}: list showed a key {}", api_tag, why), format!("{} ; unexpected {}", fmt_rec(&uni, l), uni.key_label(k)), dump(&|x| std::ptr::eq(x, l) || matches!(x.kind, OpKind::Write{key,..}|OpKind::Remove{key,..} if key==k)));
				}
			} else {
				rep.count("list_key_either_answer_allowed");
			}
		}
	}
	// ---- LS5: list_all_keys at quiescence agrees with the final reads
	match all_keys {
		Ok(Ok(v)) => {
			rep.count("list_all_keys_checked");
			let mut got: BTreeSet<(String, String, String)> = BTreeSet::new();
			for e in v {
				got.insert(e);
			}
			let mut want: BTreeSet<(String, String, String)> = BTreeSet::new();
			for r in hist.iter().filter(|r| r.thread == nthreads) {
				if let (OpKind::Read { key }, OpRes::Read(ReadOutcome::Value { .. })) = (&r.kind, &r.res) {
					let (ns, name) = &uni.keys[*key];
					want.insert((uni.nss[*ns].0.clone(), uni.nss[*ns].1.clone(), name.clone()));
				}
			}
			if got != want && broken_keys.is_empty() {
				let d = format!("list_all_keys = {:?} ; keys that read as present = {:?}", got.iter().map(|(p, s, k)| format!("{}/{}/{}", short(p), short(s), short(k))).collect::<Vec<_>>(), want.iter().map(|(p, s, k)| format!("{}/{}/{}", short(p), short(s), short(k))).collect::<Vec<_>>());
				violate(rep, "LS5", format!("{}: list_all_keys at quiescence disagrees with the keys that read as present", api_tag), d, dump(&|_| true));
			}
		},
		Ok(Err(e)) => violate(rep, "E1", format!("{}: list_all_keys failed: {}", api_tag, vcore::canon(&format!("{:?}", e.kind()))), format!("{}", e), dump(&|_| true)),
		Err(p) => violate(rep, "E1", format!("{}: list_all_keys panicked: {}", api_tag, vcore::canon(&p)), p, dump(&|_| true)),
	}
	if rep.samples.len() < rep.max_samples && any_mut_overlap {
		rep.sample(Json::obj().set("case", idx).set("store", kind.name()).set("api", if api_async { "async" } else { "sync" }).set("threads", nthreads).set("first_events", hist.iter().take(14).map(|r| fmt_rec(&uni, r)).collect::<Vec<_>>()));
	}
}

// ---------------------------------------------------------------------------------------------
// Async interface: the order of future CREATION is the order of effect
// ---------------------------------------------------------------------------------------------
#[derive(Clone, Debug)]
struct AOp {
	key: usize,
	/// Some((id, len)) = write, None = remove
	write: Option<(u64, usize)>,
	lazy: bool,
}

fn run_async_order(args: &Args, rep: &mut Report, rng: &mut Rng, idx: u64, tmp: &TmpRoot, rt: &tokio::runtime::Runtime, pm: &Params) {
	let mut kind = if rng.chance(1, 2) { StoreKind::V1 } else { StoreKind::V2 };
	match pm.force_store {
		1 => kind = StoreKind::V1,
		2 => kind = StoreKind::V2,
		_ => {},
	}
	if kind == StoreKind::V2 && !pm.v2 {
		rep.count("async_cases_v2_replaced_by_v1_(v2_disabled)");
		kind = StoreKind::V1;
	}
	let pool = namespace_pool();
	let (p, s) = rng.pick(&pool).clone();
	let kpool = key_pool();
	let nkeys = rng.range(1, 2) as usize;
	let mut keys: Vec<String> = Vec::new();
	while keys.len() < nkeys {
		let c = rng.pick(&kpool).clone();
		if !keys.contains(&c) {
			keys.push(c);
		}
	}
	let nops = rng.range(2, 8) as usize;
	let mut ops: Vec<AOp> = Vec::new();
	for i in 0..nops {
		let key = if nkeys == 1 || rng.chance(3, 4) { 0 } else { 1 };
		let write = if rng.chance(4, 5) { Some((value_id(0xA1, i as u64 + 1), body_len(rng, pm.maxlen.min(8192)))) } else { None };
		ops.push(AOp { key, write, lazy: rng.chance(1, 2) });
	}
	let mode = rng.below(3);
	let mut perm: Vec<usize> = (0..nops).collect();
	rng.shuffle(&mut perm);
	if rng.chance(1, 4) {
		perm.reverse(); // (still a permutation) -- and make fully reversed orders common:
		perm = (0..nops).rev().collect();
	}
	let mut perm2: Vec<usize> = (0..nops).collect();
	rng.shuffle(&mut perm2);
	let pre: Vec<Option<(u64, usize)>> = (0..nkeys).map(|k| if rng.chance(1, 2) { Some((value_id(0xA0, k as u64 + 1), body_len(rng, 300))) } else { None }).collect();

	let dir = tmp.case_dir(idx, "a");
	TmpRoot::wipe(&dir);
	let store = match AnyStore::open(kind, dir.clone()) {
		Ok(s) => s,
		Err(e) => {
			rep.inconclusive(format!("cannot open {} in a fresh directory: {}", kind.name(), e));
			return;
		},
	};
	let tag = kind.name();
	let describe = |ops: &[AOp]| -> Vec<String> {
		ops.iter()
			.enumerate()
			.map(|(i, o)| match o.write {
				Some((id, len)) => format!("#{} write key{} value={:#x} body={}", i, o.key, id, len),
				None => format!("#{} remove{} key{}", i, if o.lazy { "(lazy)" } else { "" }, o.key),
			})
			.collect()
	};
	let mut log: Vec<String> = Vec::new();
	let mut fails: Vec<(&'static str, String, String)> = Vec::new();

	// effect of op index i (-1 = initial state) on its key
	let effect = |i: isize, key: usize| -> Option<u64> {
		if i < 0 {
			pre[key].map(|(id, _)| id)
		} else {
			ops[i as usize].write.map(|(id, _)| id)
		}
	};
	let index_of = |id: u64, key: usize| -> Option<isize> {
		if pre[key].map(|(p, _)| p) == Some(id) {
			return Some(-1);
		}
		ops.iter().position(|o| o.key == key && o.write.map(|(i, _)| i) == Some(id)).map(|i| i as isize)
	};

	let outcome = vcore::guarded(|| {
		for (k, pv) in pre.iter().enumerate() {
			if let Some((id, len)) = pv {
				store.write(&p, &s, &keys[k], encode_value(*id, *len)).map_err(|e| format!("initial write failed: {}", e))?;
			}
		}
		// creation order = promised order
		let mut futs: Vec<Option<BoxFut<()>>> = ops
			.iter()
			.map(|o| {
				Some(match o.write {
					Some((id, len)) => store.a_write(&p, &s, &keys[o.key], encode_value(id, len)),
					None => store.a_remove(&p, &s, &keys[o.key], o.lazy),
				})
			})
			.collect();
		// floor[key]: newest creation index whose effect an observer has seen
		let mut floor: Vec<isize> = vec![-1; nkeys];
		let mut observe = |log: &mut Vec<String>, fails: &mut Vec<(&'static str, String, String)>, when: &str| {
			for k in 0..nkeys {
				match classify_read(store.read(&p, &s, &keys[k])) {
					ReadOutcome::Absent => {
						let mut j = floor[k];
						let mut found = None;
						while j < nops as isize {
							if (j < 0 || ops[j as usize].key == k) && effect(j, k).is_none() {
								found = Some(j);
								break;
							}
							j += 1;
						}
						match found {
							Some(j) => floor[k] = j,
							None => fails.push(("O2", "an observer found the key absent although no removal was created at or after the newest write it had already seen".into(), format!("{}: key{} absent, newest seen #{}", when, k, floor[k]))),
						}
						log.push(format!("{}: key{} absent", when, k));
					},
					ReadOutcome::Value { id, .. } => {
						match index_of(id, k) {
							Some(j) if j >= floor[k] => floor[k] = j,
							Some(j) => fails.push(("O2", "an observer saw a later-created write and afterwards an earlier-created one".into(), format!("{}: key{} holds #{} after #{} had been seen", when, k, j, floor[k]))),
							None => fails.push(("X1", "a read returned a value that was not written to this key".into(), format!("{}: key{} value {:#x}", when, k, id))),
						}
						log.push(format!("{}: key{} = {:#x}", when, k, id));
					},
					ReadOutcome::Torn { why, len, head_hex } => {
						fails.push(("T1", format!("read returned bytes that are not one written value ({})", vcore::canon(why.split(':').next().unwrap_or(""))), format!("{}: key{} {} len {} head {}", when, k, why, len, head_hex)));
					},
					ReadOutcome::Error(e) => fails.push(("E1", format!("read failed: {}", vcore::canon(&e)), format!("{}: key{}", when, k))),
				}
			}
		};
		let mut completed: Vec<usize> = Vec::new();
		let mut stale_exercised = 0u64;
		match mode {
			0 => {
				// one at a time, in permuted order: a future that was never polled has done nothing
				for &i in &perm {
					let f = futs[i].take().unwrap();
					rt.block_on(f).map_err(|e| format!("future #{} failed: {}", i, e))?;
					if completed.iter().any(|&j| j > i && ops[j].key == ops[i].key) {
						stale_exercised += 1;
					}
					completed.push(i);
					observe(&mut log, &mut fails, &format!("after completing #{}", i));
					for k in 0..nkeys {
						let newest = completed.iter().filter(|&&j| ops[j].key == k).max().map(|j| *j as isize).unwrap_or(-1);
						let want = effect(newest, k);
						let got = match classify_read(rt.block_on(store.a_read(&p, &s, &keys[k]))) {
							ReadOutcome::Absent => Ok(None),
							ReadOutcome::Value { id, .. } => Ok(Some(id)),
							other => Err(format!("{:?}", other)),
						};
						if got != Ok(want) {
							fails.push(("O3", "with futures driven one at a time, the key does not hold the effect of the latest-created completed future".into(), format!("after completing {:?}: key{} holds {:x?}, expected the effect of #{} = {:x?}", completed, k, got, newest, want)));
						}
					}
				}
			},
			1 => {
				// all spawned (in permuted order) and running concurrently; an observer polls reads
				let handle = rt.handle().clone();
				let hs: Vec<(usize, tokio::task::JoinHandle<Result<(), lightning::io::Error>>)> = perm.iter().map(|&i| (i, handle.spawn(futs[i].take().unwrap()))).collect();
				let mut rounds = 0;
				loop {
					observe(&mut log, &mut fails, "while tasks run");
					rounds += 1;
					if hs.iter().all(|(_, h)| h.is_finished()) || rounds > 10_000 {
						break;
					}
				}
				for (i, h) in hs {
					match rt.block_on(h) {
						Ok(Ok(())) => {},
						Ok(Err(e)) => return Err(format!("future #{} failed: {}", i, e)),
						Err(e) => return Err(format!("task of future #{} died: {}", i, e)),
					}
				}
			},
			_ => {
				// first poll in one permuted order (this is what hands the work to the blocking
				// pool), completion awaited in another
				let _g = rt.enter();
				let waker = Waker::noop();
				let mut cx = Context::from_waker(&waker);
				for &i in &perm {
					if let Some(f) = futs[i].as_mut() {
						if let Poll::Ready(r) = f.as_mut().poll(&mut cx) {
							r.map_err(|e| format!("future #{} failed: {}", i, e))?;
							futs[i] = None;
						}
					}
					if i % 2 == 0 {
						observe(&mut log, &mut fails, &format!("after first poll of #{}", i));
					}
				}
				for &i in &perm2 {
					if let Some(f) = futs[i].take() {
						rt.block_on(f).map_err(|e| format!("future #{} failed: {}", i, e))?;
					}
					observe(&mut log, &mut fails, &format!("after awaiting #{}", i));
				}
			},
		}
		// O1: everything completed
		observe(&mut log, &mut fails, "after all futures completed");
		for k in 0..nkeys {
			let last = ops.iter().rposition(|o| o.key == k).map(|i| i as isize).unwrap_or(-1);
			let want = effect(last, k);
			for (how, got) in [("sync read", classify_read(store.read(&p, &s, &keys[k]))), ("read future created afterwards", classify_read(rt.block_on(store.a_read(&p, &s, &keys[k]))))] {
				let g = match got {
					ReadOutcome::Absent => Ok(None),
					ReadOutcome::Value { id, .. } => Ok(Some(id)),
					other => Err(format!("{:?}", other)),
				};
				if g != Ok(want) {
					fails.push(("O1", "after all futures completed the key does not hold the effect of the last-created write/remove".into(), format!("{}: key{} holds {:x?}, last-created is #{} with effect {:x?}", how, k, g, last, want)));
				}
			}
			let lazy_last = last >= 0 && ops[last as usize].write.is_none() && ops[last as usize].lazy;
			if !lazy_last {
				for (how, l) in [("sync list", store.list(&p, &s)), ("list future", rt.block_on(store.a_list(&p, &s)))] {
					match l {
						Ok(l) => {
							if l.contains(&keys[k]) != want.is_some() {
								fails.push(("O1", "after all futures completed list disagrees with the last-created write/remove".into(), format!("{}: key{} listed={} expected={}", how, k, l.contains(&keys[k]), want.is_some())));
							}
							if l.iter().any(|e| !keys.contains(e)) {
								fails.push(("LS3", "list returned something that is not a key".into(), format!("{}: {:?}", how, l)));
							}
						},
						Err(e) => fails.push(("E1", format!("list failed: {}", vcore::canon(&format!("{:?}", e.kind()))), format!("{}", e))),
					}
				}
			}
		}
		Ok::<u64, String>(stale_exercised)
	});
	drop(store);
	TmpRoot::wipe(&dir);

	rep.count("async_order_cases");
	rep.count(&format!("async_order_mode_{}", ["one_at_a_time", "spawned_concurrently", "first_poll_permuted"][mode as usize]));
	rep.add("async_futures_created", nops as u64);
	if perm.windows(2).any(|w| w[0] > w[1]) {
		rep.count("async_cases_driven_out_of_creation_order");
	}
	{
		let mut h = Fnv::new();
		h.u64(0xA5).u64(mode).u64(nkeys as u64);
		for o in &ops {
			h.u64(o.key as u64).u64(o.write.is_some() as u64);
		}
		for i in &perm {
			h.u64(*i as u64);
		}
		rep.distinct(h.get());
	}
	let body = |rule: &str, detail: &str| {
		Json::obj()
			.set("property", PROP)
			.set("rule", rule)
			.set("seed", args.seed)
			.set("case", idx)
			.set("store", tag)
			.set("mode", mode)
			.set("namespace", format!("{}/{}", p, s))
			.set("keys", keys.clone())
			.set("created_in_this_order", describe(&ops))
			.set("driven_in_this_order", perm.iter().map(|i| *i as u64).collect::<Vec<u64>>())
			.set("second_order", perm2.iter().map(|i| *i as u64).collect::<Vec<u64>>())
			.set("initial", pre.iter().map(|x| x.map(|(id, _)| format!("{:#x}", id))).collect::<Vec<_>>())
			.set("detail", detail)
			.set("observations", log.clone())
	};
	match outcome {
		Ok(Ok(stale)) => rep.add("async_stale_futures_completed_after_a_newer_one", stale),
		Ok(Err(e)) => {
			let path = args.write_replay(&format!("E1-seed{}-case{}", args.seed, idx), &body("E1", &e));
			rep.violation(PROP, "E1", &stable_sig(&format!("{} async: operation on valid arguments failed: {}", tag, e)), e, Some(path));
		},
		Err(pn) => {
			let path = args.write_replay(&format!("E1-seed{}-case{}", args.seed, idx), &body("E1", &pn));
			rep.violation(PROP, "E1", &stable_sig(&format!("{} async: panicked: {}", tag, pn)), pn, Some(path));
		},
	}
	let mut reported: BTreeMap<String, ()> = BTreeMap::new();
	for (rule, sig, detail) in fails {
		let sig = stable_sig(&format!("{} async: {}", tag, sig));
		if reported.insert(format!("{}{}", rule, sig), ()).is_some() {
			continue;
		}
		let path = args.write_replay(&format!("{}-seed{}-case{}", rule, args.seed, idx), &body(rule, &detail));
		rep.violation(PROP, rule, &sig, detail, Some(path));
	}
}

fn self_test(rep: &mut Report) {
	// the checker itself: a known-good and two known-bad register histories
	let w = |c, r, v| KOp { call: c, ret: r, kind: KKind::W(v), rec: 0 };
	let rd = |c, r, v| KOp { call: c, ret: r, kind: KKind::R(v), rec: 0 };
	let rm = |c, r| KOp { call: c, ret: r, kind: KKind::Rm, rec: 0 };
	let good = vec![w(0, 5, 1), w(1, 3, 2), rd(6, 7, Some(1)), rm(8, 9), rd(10, 11, None)];
	let stale = vec![w(0, 1, 1), w(2, 3, 2), rd(4, 5, Some(1))];
	let lost = vec![w(0, 1, 1), rd(2, 3, None)];
	let flip = vec![w(0, 9, 1), w(1, 8, 2), rd(2, 3, Some(1)), rd(4, 5, Some(2)), rd(6, 7, Some(1))];
	let ok = matches!(linearizable(&good, 10_000), Lin::Ok(_)) && matches!(linearizable(&stale, 10_000), Lin::Fail(_)) && matches!(linearizable(&lost, 10_000), Lin::Fail(_)) && matches!(linearizable(&flip, 10_000), Lin::Fail(_));
	if ok {
		rep.count("checker_self_test_passed");
	} else {
		rep.inconclusive("the linearizability checker fails its own self-test");
	}
}

fn main() {
	vcore::install_quiet_panic_hook();
	let args = Args::parse();
	let mut rep = args.report();
	rep.max_samples = 4;
	let small = cfg!(miri);
	let histories = args.num("histories", if small { 3 } else { 3_200 }, 160_000);
	let async_cases = args.num("async_cases", if small { 4 } else { 4_800 }, 240_000);
	let pm = Params {
		threads_max: args.num("threads", if small { 3 } else { 8 }, 8),
		ops_max: args.num("ops", if small { 6 } else { 30 }, 30),
		maxlen: args.num("maxlen", if small { 300 } else { 65536 }, 65536),
		budget: args.num("budget", 2_000_000, 20_000_000),
		v2: args.num("v2", if small { 0 } else { 1 }, if small { 0 } else { 1 }) != 0,
		async_api: args.num("async_api", 1, 1) != 0,
		force_store: args.num("store", 0, 0),
	};
	if !pm.v2 {
		rep.note("FilesystemStoreV2 not exercised in this run (v2=0; under Miri its use of File::set_times is unsupported)");
	}
	self_test(&mut rep);
	let tmp = TmpRoot::new(&args, "lin");
	let rt = tokio::runtime::Builder::new_multi_thread().worker_threads(if small { 2 } else { 3 }).max_blocking_threads(16).build().expect("tokio runtime");
	shard_runs(&args, histories + async_cases, &mut rep, |idx, rng, rep| {
		if idx < histories {
			run_history(&args, rep, rng, idx, &tmp, &rt, &pm);
		} else {
			run_async_order(&args, rep, rng, idx, &tmp, &rt, &pm);
		}
	});
	drop(rt);
	drop(tmp);
	rep.write_to(&args.out);
}
