//! C08 – HTLC deadlines on a forwarding node. A line 0 – 1 – 2, node 1 under test: a payment
//! 0 -> 2 is forwarded by node 1 and then the downstream side behaves in a chosen way (silent for
//! ever, settles off-chain or on-chain a chosen number of blocks before the downstream expiry, or
//! node 1 itself is kept from forwarding until the HTLC is about to be too close to its expiry),
//! while blocks are mined one at a time. Outcome rules (constants only centre the sweeps and come
//! from the library itself through `verif_api::timing_constants`):
//!   D1  node 1 never forwards an HTLC with no more than the library's grace period left after the
//!       next block
//!   D4  a downstream settlement that reaches node 1 (by message while the channel is open, or on
//!       chain before the downstream expiry) is always passed upstream: the payer sees PaymentSent,
//!       never PaymentFailed, and the upstream channel stays open
//!   D5  with a dead downstream peer the upstream HTLC is failed back – only after node 1's timeout
//!       claim is buried by the anti-reorg depth, and early enough that the upstream channel is
//!       never closed; the payer sees PaymentFailed
//!   D3  (diagnostic) how many blocks after the downstream expiry node 1 went on chain
//! Two more kinds put node 1 in the place of an intercepting (LSP-style) forwarder that restarts from a
//! ChannelManager written right after it released the intercepted HTLC and before the HTLC went out:
//! the downstream channel is closed as stale, the HTLC lives on in its monitor, and D4 (late on-chain
//! claim by node 2) and D5 (silent downstream) are judged as before.
//! A seventh kind looks at the payer: node 0 pays node 1 directly, node 1 falls silent, the HTLC times
//! out on chain; node 0's event handler refuses the PaymentFailed event once (asking for a replay) and
//! node 0 restarts from a manager written before the channel closed:
//!   P9  (C03) the payer is still told PaymentFailed: a terminal event is delivered until it is handled
//! Kind 8 is the mirror image of the silent downstream peer: node 2 claims, node 1 learns the preimage, and the
//! *upstream* peer (node 0) is gone for good, so node 1 can only get the inbound HTLC by going on chain by itself:
//!   D6  node 1's claim of the inbound HTLC output confirms no later than the HTLC's expiry (before the payer could
//!       time it out), the miner confirming every valid transaction in the next block
//! An eighth kind (7) also looks at the payer: node 0 has payment 1 committed towards node 1 and writes its manager;
//! node 1's user claims while node 0 is sending payment 2, so that the fulfilment of 1 and the addition of 2 cross;
//! node 0 handles PaymentSent, node 1's revocation for the commitment that added payment 2 arrives (the revoked
//! counterparty commitment and the current one both still contain HTLC 1), and node 0 restarts from the manager
//! written at the start with its latest monitors. The channel is closed as stale and resolved on chain:
//!   P4  (C03, judged by the payment monitor) payment 1 is never reported PaymentFailed: the monitor holds what
//!       settled it
use crate::run::Sim;
use crate::sim::{Obs, SendOpts};
use crate::wire::Wire;
use lightning::events::Event;
use vcore::{Report, Rng};

#[derive(Default, Debug)]
struct Seen {
	forwarded_at: Option<(u32, u32)>, // (height, cltv_out)
	forwarded_msat: u64,
	up_fail_at: Option<u32>,
	up_fulfil_at: Option<u32>,
	up_fulfils: u32,
	up_fails: u32,
	sent: bool,
	failed: bool,
	node1_txids: Vec<bitcoin::Txid>,
	c12_closed_at: Option<u32>,
	c01_closed: Option<String>,
	claimable_at_2: bool,
	claimed_at_2: bool,
}

fn absorb(sim: &mut Sim, rep: &mut Report, seen: &mut Seen, c01: usize, c12: usize, hash: [u8; 32]) {
	let h = sim.w.chain.height();
	for o in sim.w.obs.iter() {
		match o {
			Obs::Emit(e) if e.chan == Some(c12) && e.from == 1 && !e.retrans => {
				if let Wire::Add(m) = &e.wire {
					if m.payment_hash.0 == hash && seen.forwarded_at.is_none() {
						seen.forwarded_at = Some((h, m.cltv_expiry));
						seen.forwarded_msat = m.amount_msat;
					}
				}
			},
			Obs::Emit(e) if e.chan == Some(c01) && e.from == 1 && !e.retrans => match &e.wire {
				Wire::Fail(_) | Wire::FailMal(_) => {
					seen.up_fail_at.get_or_insert(h);
					seen.up_fails += 1;
				},
				Wire::Fulfill(_) => {
					seen.up_fulfil_at.get_or_insert(h);
					seen.up_fulfils += 1;
				},
				_ => {},
			},
			Obs::Event { node: 0, ev: Event::PaymentSent { payment_hash, .. }, .. } if payment_hash.0 == hash => seen.sent = true,
			Obs::Event { node: 0, ev: Event::PaymentFailed { payment_hash: Some(ph), .. }, .. } if ph.0 == hash => seen.failed = true,
			Obs::Event { node: 2, ev: Event::PaymentClaimable { payment_hash, .. }, .. } if payment_hash.0 == hash => seen.claimable_at_2 = true,
			Obs::Event { node: 2, ev: Event::PaymentClaimed { payment_hash, .. }, .. } if payment_hash.0 == hash => seen.claimed_at_2 = true,
			Obs::Event { ev: Event::ChannelClosed { channel_id, reason, .. }, .. } => {
				if sim.w.chans[c01].ids.contains(channel_id) {
					seen.c01_closed.get_or_insert(format!("{:?}", reason));
				}
				if sim.w.chans[c12].ids.contains(channel_id) {
					seen.c12_closed_at.get_or_insert(h);
				}
			},
			Obs::Relay { node: 1, tx, .. } => seen.node1_txids.push(tx.compute_txid()),
			_ => {},
		}
	}
	sim.dispatch(rep);
}

fn turn(sim: &mut Sim, forward_at_1: bool) {
	// everybody reacts to what has happened so far; messages flow on connected links
	for _ in 0..6 {
		let mut did = sim.w.deliver_all(10_000);
		for k in 0..sim.w.nodes.len() {
			did += sim.w.complete_all(k);
			did += sim.w.process_events(k);
			if (k != 1 || forward_at_1) && sim.w.nodes[k].mgr.needs_pending_htlc_processing() {
				sim.w.process_forwards(k);
				did += 1;
			}
		}
		if did == 0 {
			break;
		}
	}
}

pub fn phase(sim: &mut Sim, rng: &mut Rng, rep: &mut Report, only_kind: Option<u64>) -> Result<(), String> {
	let tc = lightning::ln::verif_api::timing_constants();
	let (c01, c12) = match (sim.w.chan_between(0, 1).first().cloned(), sim.w.chan_between(1, 2).first().cloned()) {
		(Some(a), Some(b)) => (a, b),
		_ => return Ok(()),
	};
	if !sim.w.settle(60) {
		return Err("no quiescence before the deadline scenario".into());
	}
	sim.dispatch(rep);
	crate::onchain::fund_wallets(sim);
	turn(sim, true);
	sim.dispatch(rep);
	let cid01 = sim.w.chans[c01].chan_id();
	let hi = sim.w.nodes[0].mgr.list_usable_channels().into_iter().find(|c| c.channel_id == cid01).map(|d| d.next_outbound_htlc_limit_msat).unwrap_or(0);
	let cid12 = sim.w.chans[c12].chan_id();
	let hi2 = sim.w.nodes[1].mgr.list_usable_channels().into_iter().find(|c| c.channel_id == cid12).map(|d| d.next_outbound_htlc_limit_msat).unwrap_or(0);
	let cap = hi.min(hi2) / 3;
	if cap < 2_000_000 {
		rep.count("c08_scenarios_skipped_low_liquidity");
		return Ok(());
	}
	let amt = 1_500_000 + rng.below(cap - 1_500_000);
	// (the payer's restart – kind 6 – is C03's matter and runs as a stage of that check)
	let kind = only_kind.unwrap_or_else(|| rng.below(6));
	if kind == 8 {
		let final_cltv = tc.min_final_cltv_expiry_delta as u32 + *rng.pick(&[0u32, 1, 5, 30]);
		let claim_late = rng.below(3);
		return upstream_silent(sim, rep, c01, c12, amt, final_cltv, tc.cltv_claim_buffer, claim_late);
	}
	if kind == 7 {
		let amt1 = 1_000_000 + rng.below((hi / 4).max(1));
		let amt2 = 1_000_000 + rng.below((hi / 4).max(1));
		let final_cltv = tc.min_final_cltv_expiry_delta as u32 + *rng.pick(&[0u32, 5, 30]);
		let order = rng.below(3);
		return stale_sender_crossing(sim, rep, c01, amt1, amt2, final_cltv, tc.anti_reorg_delay, order);
	}
	if kind == 6 {
		let amt = 1_000_000 + rng.below((hi / 3).max(1));
		let final_cltv = tc.min_final_cltv_expiry_delta as u32 + *rng.pick(&[0u32, 5, 30]);
		let third = rng.chance(1, 3);
		return sender_restart(sim, rep, c01, amt, final_cltv, tc.anti_reorg_delay, third);
	}
	let (dead_downstream, onchain_claim, stale_forwarder) = (kind == 0 || kind == 5, kind == 2 || kind == 4, kind >= 4);
	let final_cltv = tc.min_final_cltv_expiry_delta as u32 + *rng.pick(&[0u32, 1, 5, 30]);
	sim.w.step += 1;
	sim.w.note(format!("DEADLINE scenario kind {} amt {} final cltv delta {}", kind, amt, final_cltv));
	let opts = if stale_forwarder { SendOpts { intercept: true, class: "intercepted", ..Default::default() } } else { SendOpts { class: "deadline-forward", ..Default::default() } };
	// in a third of the on-chain settlements the payment has two parts over the same two channels: two HTLCs with
	// one payment hash on each, both claimed on chain by node 2 (usually in one block), both to be claimed upstream
	let two_parts = onchain_claim && !stale_forwarder && amt >= 3_000_000 && rng.chance(1, 3);
	let parts: Vec<(Vec<usize>, u64)> = if two_parts { vec![(vec![c01, c12], amt / 2), (vec![c01, c12], amt - amt / 2)] } else { vec![(vec![c01, c12], amt)] };
	if two_parts {
		rep.count("c08_scenarios_with_two_parts_over_the_same_channels");
	}
	let pi = match sim.w.send_payment_ex(0, &parts, final_cltv, opts, None) {
		Ok(p) => p,
		Err(_) => {
			sim.dispatch(rep);
			return Ok(());
		},
	};
	let hash = sim.w.payments[pi].hash.0;
	let mut seen = Seen::default();
	// the HTLC gets irrevocably committed on 0-1; node 1 forwards right away except in the admission sweep
	let mut snap: Option<usize> = None;
	if stale_forwarder {
		// node 1 is told of the intercepted HTLC, releases it, writes its manager – and only then forwards
		turn(sim, false);
		sim.w.process_forwards(1);
		sim.w.process_events(1);
		sim.w.step += 1;
		sim.w.note("DEADLINE node1 writes its manager between releasing the intercepted HTLC and forwarding it".to_string());
		sim.w.snapshot(1);
		snap = Some(sim.w.nodes[1].snapshots.len() - 1);
		turn(sim, true);
	} else {
		turn(sim, kind != 3);
	}
	absorb(sim, rep, &mut seen, c01, c12, hash);
	let cltv_in = sim.w.chans[c01].model.as_ref().and_then(|m| m.pending_htlcs().iter().find(|h| h.3 == hash).map(|h| h.4));
	let cltv_in = match cltv_in {
		Some(c) => c,
		None => {
			rep.count("c08_scenarios_htlc_not_committed");
			return Ok(());
		},
	};
	let grace = tc.latency_grace_period_blocks;
	match kind {
		3 => {
			// D1: hold node 1's forwarding until the outgoing HTLC would have r blocks left, r around the grace period
			let delta1 = sim.w.forwarding_fee(1, c12, amt).1;
			let cltv_out = cltv_in - delta1;
			let r = grace as i64 + *rng.pick(&[-1i64, 0, 1, 2, 3, 6]);
			let target = (cltv_out as i64 - r) as u32;
			while sim.w.chain.height() < target {
				sim.w.mine(1);
				turn(sim, false);
				absorb(sim, rep, &mut seen, c01, c12, hash);
				if seen.up_fail_at.is_some() || seen.c01_closed.is_some() {
					break;
				}
			}
			sim.w.step += 1;
			sim.w.note(format!("DEADLINE node1 processes its forwards at height {} (outgoing expiry {}, {} blocks left)", sim.w.chain.height(), cltv_out, cltv_out as i64 - sim.w.chain.height() as i64));
			turn(sim, true);
			absorb(sim, rep, &mut seen, c01, c12, hash);
			rep.count("c08_d1_forward_admissions_swept");
			if let Some((hf, co)) = seen.forwarded_at {
				rep.count("c08_d1_forwarded");
				if co <= hf + 1 + grace {
					sim.raised.push(("C08".into(), "D1-forward-too-soon".into(), "an HTLC was forwarded with no more than the grace period left after the next block".into(), format!("node1 forwarded at height {} an HTLC expiring at {} (grace period {})", hf, co, grace)));
				}
			} else {
				rep.count("c08_d1_refused");
			}
			// let everything resolve
			for _ in 0..3 {
				turn(sim, true);
			}
			absorb(sim, rep, &mut seen, c01, c12, hash);
			return Ok(());
		},
		_ => {},
	}
	let (_, cltv_out) = match seen.forwarded_at {
		Some(x) => x,
		None => {
			rep.count("c08_scenarios_not_forwarded");
			return Ok(());
		},
	};
	if !seen.claimable_at_2 {
		rep.count("c08_scenarios_not_claimable_downstream");
		return Ok(());
	}
	// the downstream side: dead from now on (kind 0), or it settles just below its own claim deadline
	// (an honest recipient fails the HTLC back itself from that deadline on)
	let deadline2 = sim.w.claimable.iter().find(|c| c.hash.0 == hash).and_then(|c| c.deadline).unwrap_or(cltv_out.saturating_sub(tc.htlc_fail_back_buffer));
	if let Some(k) = snap {
		// everything node 1 wrote to its monitors is durable; it comes back with the older manager
		for n in 0..3 {
			sim.w.complete_all(n);
		}
		sim.w.step += 1;
		sim.w.note("DEADLINE node1 restarts from the manager written before the forward".to_string());
		sim.w.chans[c12].fault = Some("forwarder restarted from a manager older than the forward".into());
		if let Err(e) = sim.w.restart(1, Some(k), &[]) {
			sim.raised.push(("C10".into(), "S1-reload".into(), format!("reload from persisted state failed: {}", vcore::canon(&e)), format!("node1 in a deadline scenario: {}", e)));
			return Ok(());
		}
		rep.count("c08_stale_forwarder_restarts");
		if !sim.w.is_connected(0, 1) {
			sim.w.connect(0, 1);
		}
		turn(sim, true);
		absorb(sim, rep, &mut seen, c01, c12, hash);
	}
	let k: u32 = if dead_downstream {
		sim.w.note("DEADLINE the downstream peer goes silent for good".to_string());
		if sim.w.chans[c12].fault.is_none() {
			sim.w.chans[c12].fault = Some("downstream peer dead".into());
		}
		sim.w.disconnect(1, 2);
		0
	} else {
		cltv_out - deadline2 + *rng.pick(&[1u32, 1, 2, 3])
	};
	let mut settled_downstream_at: Option<u32> = None;
	let mut onchain_claim_confirmed_at: Option<u32> = None;
	let end = cltv_in + 30;
	let mut claim_txids: Vec<bitcoin::Txid> = vec![];
	while sim.w.chain.height() < end {
		let h = sim.w.chain.height();
		if !dead_downstream && settled_downstream_at.is_none() && h + k >= cltv_out {
			let pos = sim.w.claimable.iter().position(|c| c.hash.0 == hash);
			if let Some(pos) = pos {
				sim.w.step += 1;
				if onchain_claim {
					sim.w.note(format!("DEADLINE node2 goes on chain and claims at height {} ({} blocks before the downstream expiry {})", h, cltv_out as i64 - h as i64, cltv_out));
					sim.w.disconnect(1, 2);
					sim.w.claim(pos);
					let pid = sim.w.nodes[1].id;
					if sim.w.chans[c12].fault.is_none() {
						sim.w.chans[c12].fault = Some("downstream force-close".into());
					}
					let _ = sim.w.nodes[2].mgr.force_close_broadcasting_latest_txn(&cid12, &pid, "harness".to_string());
					sim.w.drain_taps();
					sim.w.pump(2);
				} else {
					sim.w.note(format!("DEADLINE node2 claims off-chain at height {} ({} blocks before the downstream expiry {})", h, cltv_out as i64 - h as i64, cltv_out));
					sim.w.claim(pos);
				}
				settled_downstream_at = Some(h);
			}
		}
		turn(sim, true);
		// node 2's transactions
		for t in sim.w.nodes[2].bcast.queue.lock().unwrap().iter() {
			claim_txids.push(t.compute_txid());
		}
		absorb(sim, rep, &mut seen, c01, c12, hash);
		sim.w.mine(1);
		for n in 0..3 {
			sim.w.nodes[n].mon.rebroadcast_pending_claims();
		}
		turn(sim, true);
		for t in sim.w.nodes[2].bcast.queue.lock().unwrap().iter() {
			claim_txids.push(t.compute_txid());
		}
		absorb(sim, rep, &mut seen, c01, c12, hash);
		if onchain_claim && onchain_claim_confirmed_at.is_none() {
			// node 2's claim (a transaction of node 2 spending an output of the commitment that closed the channel) confirmed?
			let closing = sim.w.chans[c12].funding.as_ref().and_then(|f| sim.w.chain.spent.get(&bitcoin::OutPoint { txid: f.compute_txid(), vout: 0 })).map(|x| x.0);
			let tip = sim.w.chain.tip().clone();
			for t in tip.txs.iter() {
				if claim_txids.contains(&t.compute_txid()) && t.input.iter().any(|i| Some(i.previous_output.txid) == closing) {
					onchain_claim_confirmed_at = Some(tip.height);
				}
			}
		}
		if !sim.raised.is_empty() {
			return Ok(());
		}
		if (seen.sent || seen.failed) && sim.w.chain.height() > cltv_out + 12 {
			break;
		}
	}
	rep.count("c08_forward_scenarios_completed");
	rep.count(&format!("c08_kind_{}", ["silent_downstream", "late_offchain_claim", "late_onchain_claim", "admission", "stale_forwarder_late_onchain_claim", "stale_forwarder_silent_downstream"][kind as usize]));
	if let Some(hc) = seen.c12_closed_at {
		rep.max("c08_d3_max_blocks_from_downstream_expiry_to_going_on_chain", (hc as i64 - cltv_out as i64).max(0) as u64);
	}
	let detail = format!("cltv_in {} cltv_out {} settled_downstream_at {:?} onchain_claim_confirmed_at {:?} seen {:?}", cltv_in, cltv_out, settled_downstream_at, onchain_claim_confirmed_at, seen);
	match kind {
		0 | 5 => {
			rep.count("c08_d5_dead_downstream_judged");
			if let Some(why) = &seen.c01_closed {
				sim.raised.push(("C08".into(), "D5-upstream-survives".into(), format!("the upstream channel was closed although only the downstream peer was dead: {}", vcore::canon(why)), detail.clone()));
			} else if !seen.failed || seen.up_fail_at.is_none() {
				sim.raised.push(("C08".into(), "D5-upstream-survives".into(), "the upstream HTLC was not failed back after the downstream HTLC timed out on chain".into(), detail.clone()));
			} else if seen.sent {
				sim.raised.push(("C08".into(), "D4-settlement-passed-upstream".into(), "the payer saw PaymentSent although the recipient never claimed".into(), detail.clone()));
			} else {
				// the fail-back must wait for node 1's timeout claim to be buried
				let conf: Vec<u32> = seen.node1_txids.iter().filter_map(|t| sim.w.chain.confirmed_at.get(t).cloned()).collect();
				match (seen.up_fail_at, conf.iter().min()) {
					(Some(hf), Some(first_conf)) => {
						rep.count("c08_d5_fail_back_depth_checked");
						// the commitment is node 1's first confirmed transaction; the timeout claim cannot confirm before the
						// downstream expiry; whichever is later must be buried. If the commitment that closed the channel
						// does not carry the HTLC (node 1's own latest commitment had not received it yet when node 1 came
						// back with an older manager), nobody can claim it once that commitment is buried.
						let closing = sim.w.chans[c12].funding.as_ref().and_then(|f| sim.w.chain.spent.get(&bitcoin::OutPoint { txid: f.compute_txid(), vout: 0 })).map(|x| x.0);
						let carried = closing.and_then(|t| sim.w.chain.blocks.iter().flat_map(|b| b.txs.iter()).find(|tx| tx.compute_txid() == t).map(|tx| tx.output.iter().any(|o| o.value.to_sat() == seen.forwarded_msat / 1000))).unwrap_or(true);
						if !carried {
							rep.count("c08_d5_closing_commitment_without_the_htlc");
						}
						let earliest_timeout_conf = if carried { (*first_conf).max(cltv_out) } else { *first_conf };
						if hf + 1 < earliest_timeout_conf + tc.anti_reorg_delay {
							sim.raised.push(("C08".into(), "D5-fail-back-after-burial".into(), "the upstream HTLC was failed back before the downstream timeout was buried by the anti-reorg depth".into(), detail.clone()));
						}
					},
					_ => sim.raised.push(("C08".into(), "D5-fail-back-after-burial".into(), "the upstream HTLC was failed back although node 1 never confirmed anything on chain".into(), detail.clone())),
				}
			}
		},
		1 => {
			// the fulfil reached node 1 iff the channel was still open when node 2 claimed
			let in_time = settled_downstream_at.map(|hs| seen.c12_closed_at.map(|hc| hs < hc).unwrap_or(true)).unwrap_or(false);
			if in_time {
				rep.count("c08_d4_offchain_settlements_judged");
				if !seen.sent || seen.failed || seen.c01_closed.is_some() {
					sim.raised.push(("C08".into(), "D4-settlement-passed-upstream".into(), "a downstream fulfilment delivered while the channel was open was not passed upstream".into(), detail.clone()));
				}
			} else {
				rep.count("c08_d4_offchain_settlements_after_close");
			}
		},
		2 | 4 => {
			match onchain_claim_confirmed_at {
				Some(hc) if hc < cltv_out => {
					rep.count("c08_d4_onchain_settlements_judged");
					if !seen.sent || seen.failed || seen.c01_closed.is_some() {
						sim.raised.push(("C08".into(), "D4-settlement-passed-upstream".into(), "a downstream claim confirmed on chain before the downstream expiry was not passed upstream".into(), detail.clone()));
					} else if two_parts {
						// both parts were claimed downstream (one transaction, or two in the same block): both are owed upstream
						rep.count("c08_d4_two_part_onchain_settlements_judged");
						if seen.up_fulfils < 2 || seen.up_fails > 0 {
							sim.raised.push(("C08".into(), "D4-settlement-passed-upstream".into(), "of two HTLCs with one payment hash claimed downstream on chain, not both were claimed upstream".into(), detail.clone()));
						}
					}
				},
				_ => rep.count("c08_d4_onchain_settlements_too_late_or_unconfirmed"),
			}
			if seen.sent && seen.failed {
				sim.raised.push(("C08".into(), "D4-settlement-passed-upstream".into(), "the payer saw both PaymentSent and PaymentFailed".into(), detail.clone()));
			}
		},
		_ => {},
	}
	Ok(())
}

/// D6: the payer's terminal event survives a refusing handler followed by a restart from an older manager.
fn sender_restart(sim: &mut Sim, rep: &mut Report, c01: usize, amt: u64, final_cltv: u32, anti_reorg: u32, rng_third: bool) -> Result<(), String> {
	sim.w.step += 1;
	sim.w.note(format!("DEADLINE scenario kind 6 (payer restarts) amt {} final cltv delta {}", amt, final_cltv));
	let pi = match sim.w.send_payment_ex(0, &[(vec![c01], amt)], final_cltv, SendOpts { class: "deadline-direct", ..Default::default() }, None) {
		Ok(p) => p,
		Err(_) => {
			sim.dispatch(rep);
			return Ok(());
		},
	};
	let hash = sim.w.payments[pi].hash.0;
	turn(sim, true);
	sim.dispatch(rep);
	let cltv = match sim.w.chans[c01].model.as_ref().and_then(|m| m.pending_htlcs().iter().find(|h| h.3 == hash).map(|h| h.4)) {
		Some(c) => c,
		None => {
			rep.count("c08_scenarios_htlc_not_committed");
			return Ok(());
		},
	};
	// the recipient never claims and never speaks again
	sim.w.claimable.retain(|c| c.hash.0 != hash);
	sim.w.note("DEADLINE the recipient goes silent for good; the payer writes its manager".to_string());
	sim.w.chans[c01].fault = Some("recipient dead".into());
	sim.w.disconnect(0, 1);
	for n in 0..sim.w.nodes.len() {
		sim.w.complete_all(n);
	}
	// the manager is written before every block: the restart uses the last one written before the handler
	// refused (or, in a third of the runs, the one written when the recipient fell silent)
	sim.w.snapshot(0);
	let old_manager = rng_third;
	let (mut refused, mut restarted, mut failed_after, mut sent) = (false, false, false, false);
	let mut failed_before = false;
	let end = cltv + 3 * anti_reorg + 30;
	while sim.w.chain.height() < end {
		// (written before the block is connected: the manager has not yet heard from its monitor what the block
		// makes final)
		if !refused && !old_manager {
			sim.w.snapshot(0);
		}
		sim.w.mine(1);
		for n in 0..sim.w.nodes.len() {
			sim.w.nodes[n].mon.rebroadcast_pending_claims();
			sim.w.complete_all(n);
		}
		if !refused {
			refused = sim.w.process_events_refusing(0, &|e: &Event| matches!(e, Event::PaymentFailed { payment_hash: Some(h), .. } if h.0 == hash));
		} else {
			sim.w.process_events(0);
		}
		for n in 1..sim.w.nodes.len() {
			sim.w.process_events(n);
		}
		for o in sim.w.obs.iter() {
			match o {
				Obs::Event { node: 0, ev: Event::PaymentFailed { payment_hash: Some(ph), .. }, .. } if ph.0 == hash => {
					if restarted {
						failed_after = true;
					} else {
						failed_before = true;
					}
				},
				Obs::Event { node: 0, ev: Event::PaymentSent { payment_hash, .. }, .. } if payment_hash.0 == hash => sent = true,
				_ => {},
			}
		}
		sim.dispatch(rep);
		if !sim.raised.is_empty() {
			return Ok(());
		}
		if refused && !restarted {
			for n in 0..sim.w.nodes.len() {
				sim.w.complete_all(n);
			}
			sim.w.step += 1;
			sim.w.note("DEADLINE the payer's handler refused PaymentFailed; the payer restarts from the manager written before the close".to_string());
			let snap = sim.w.nodes[0].snapshots.len() - 1;
			if let Err(e) = sim.w.restart(0, Some(snap), &[]) {
				sim.raised.push(("C10".into(), "S1-reload".into(), format!("reload from persisted state failed: {}", vcore::canon(&e)), format!("node0 in a deadline scenario: {}", e)));
				return Ok(());
			}
			restarted = true;
			rep.count("c03_p9_payer_restarts_after_refusal");
		}
		if failed_after {
			break;
		}
	}
	rep.count("c03_p9_payer_restart_scenarios");
	let detail = format!("expiry {} refused {} restarted {} failed_before {} failed_after {} sent {} height {}", cltv, refused, restarted, failed_before, failed_after, sent, sim.w.chain.height());
	if !refused {
		rep.count("c03_p9_payment_failed_never_offered_to_the_handler");
		if !failed_before {
			sim.raised.push(("C03".into(), "P9-terminal-event-survives-restart".into(), "the payer was never offered PaymentFailed although its HTLC timed out on chain long ago".into(), detail));
		}
		return Ok(());
	}
	rep.count("c03_p9_refused_events_judged");
	if sent {
		sim.raised.push(("C03".into(), "P1-truthful-sent".into(), "the payer saw PaymentSent although the recipient never claimed".into(), detail));
	} else if !failed_after {
		sim.raised.push(("C03".into(), "P9-terminal-event-survives-restart".into(), "PaymentFailed, refused once by the event handler, was never delivered again after a restart from an older ChannelManager: the payment has no HTLC left and no terminal event".into(), detail));
	}
	Ok(())
}

/// Kind 7: crossing fulfil / add, then a restart of the payer from a manager older than both (see the module text).
fn stale_sender_crossing(sim: &mut Sim, rep: &mut Report, c01: usize, amt1: u64, amt2: u64, final_cltv: u32, anti_reorg: u32, order: u64) -> Result<(), String> {
	sim.w.step += 1;
	sim.w.note(format!("DEADLINE scenario kind 7 (stale payer, crossing updates) amounts {} {} final cltv delta {} order {}", amt1, amt2, final_cltv, order));
	let p1 = match sim.w.send_payment_ex(0, &[(vec![c01], amt1)], final_cltv, SendOpts { class: "deadline-direct", ..Default::default() }, None) {
		Ok(p) => p,
		Err(_) => {
			sim.dispatch(rep);
			return Ok(());
		},
	};
	let hash1 = sim.w.payments[p1].hash.0;
	turn(sim, true);
	sim.dispatch(rep);
	let k = match sim.w.claimable.iter().position(|c| c.hash.0 == hash1 && c.node == 1) {
		Some(k) => k,
		None => {
			rep.count("c08_scenarios_htlc_not_committed");
			return Ok(());
		},
	};
	for n in 0..sim.w.nodes.len() {
		sim.w.complete_all(n);
	}
	// the manager the payer will come back with: payment 1 pending, nothing else
	sim.w.snapshot(0);
	let snap = sim.w.nodes[0].snapshots.len() - 1;
	sim.w.step += 1;
	if sim.w.queue_len(0, 1) != 0 || sim.w.queue_len(1, 0) != 0 {
		rep.count("c03_p4_crossing_scenarios_skipped_busy_link");
		return Ok(());
	}
	// the recipient's user claims (fulfil + commitment_signed wait on the wire) while the payer sends payment 2
	sim.w.note("DEADLINE the recipient claims payment 1; its messages are held while the payer sends payment 2".to_string());
	sim.w.claim(k);
	sim.w.complete_all(1);
	sim.w.pump(1);
	let held_back = sim.w.queue_len(1, 0);
	let p2 = sim.w.send_payment_ex(0, &[(vec![c01], amt2)], final_cltv, SendOpts { class: "deadline-direct", ..Default::default() }, None);
	sim.w.complete_all(0);
	sim.w.pump(0);
	let to_b = sim.w.queue_len(0, 1);
	if held_back == 0 || p2.is_err() || to_b == 0 {
		rep.count("c03_p4_crossing_scenarios_not_crossing");
		turn(sim, true);
		sim.dispatch(rep);
		return Ok(());
	}
	// the payer sees the fulfilment (and handles PaymentSent) ...
	for _ in 0..held_back {
		sim.w.deliver_one(1, 0);
		sim.w.complete_all(0);
	}
	sim.w.process_events(0);
	sim.dispatch(rep);
	// ... the recipient sees the addition of payment 2 and revokes; the payer gets that revocation. In one of three
	// orders the payer's own revocation reaches the recipient first, in another the recipient's new commitment follows
	for _ in 0..to_b {
		sim.w.deliver_one(0, 1);
		sim.w.complete_all(1);
	}
	if order == 1 {
		while sim.w.deliver_one(0, 1) {
			sim.w.complete_all(1);
		}
	}
	let answers = sim.w.queue_len(1, 0);
	for i in 0..answers {
		if i >= 1 && order != 2 {
			break; // only the revoke_and_ack
		}
		sim.w.deliver_one(1, 0);
		sim.w.complete_all(0);
	}
	sim.w.process_events(0);
	sim.dispatch(rep);
	if !sim.raised.is_empty() {
		return Ok(());
	}
	for n in 0..sim.w.nodes.len() {
		sim.w.complete_all(n);
	}
	sim.w.step += 1;
	sim.w.note("DEADLINE the payer restarts from the manager written before the crossing".to_string());
	if let Err(e) = sim.w.restart(0, Some(snap), &[]) {
		sim.raised.push(("C10".into(), "S1-reload".into(), format!("reload from persisted state failed: {}", vcore::canon(&e)), format!("node0 in a deadline scenario: {}", e)));
		return Ok(());
	}
	rep.count("c03_p4_stale_payer_restarts_after_crossing_updates");
	let (mut sent1, mut failed1) = (0u32, 0u32);
	let mut tally = |sim: &Sim, sent1: &mut u32, failed1: &mut u32| {
		for o in sim.w.obs.iter() {
			match o {
				Obs::Event { node: 0, ev: Event::PaymentFailed { payment_hash: Some(ph), .. }, .. } if ph.0 == hash1 => *failed1 += 1,
				Obs::Event { node: 0, ev: Event::PaymentSent { payment_hash, .. }, .. } if payment_hash.0 == hash1 => *sent1 += 1,
				_ => {},
			}
		}
	};
	tally(sim, &mut sent1, &mut failed1);
	sim.dispatch(rep);
	// in two of three runs the recipient is not heard of again (so it is the payer's commitment that confirms, and
	// nothing on the chain shows the preimage); otherwise the peers reconnect and both commitments race
	if order != 0 {
		sim.w.chans[c01].fault = Some("recipient gone after the payer's stale restart".into());
		rep.count("c03_p4_crossing_scenarios_recipient_gone_after_the_restart");
	} else {
		sim.w.connect(0, 1);
	}
	turn(sim, true);
	tally(sim, &mut sent1, &mut failed1);
	sim.dispatch(rep);
	// the stale channel resolves on chain; everything is handled as it comes
	let end = sim.w.chain.height() + final_cltv + 3 * anti_reorg + 40;
	while sim.w.chain.height() < end {
		sim.w.mine(1);
		for n in 0..sim.w.nodes.len() {
			sim.w.nodes[n].mon.rebroadcast_pending_claims();
			sim.w.complete_all(n);
			sim.w.process_events(n);
		}
		turn(sim, true);
		tally(sim, &mut sent1, &mut failed1);
		sim.dispatch(rep);
		if failed1 > 0 {
			break;
		}
		if !sim.raised.is_empty() {
			return Ok(());
		}
	}
	rep.count("c03_p4_crossing_scenarios_judged");
	if failed1 > 0 {
		// The payment monitor files "PaymentFailed after a handled PaymentSent, sender restarted from an older manager"
		// under the known finding F8 (the monitor no longer has the long-removed HTLC). Here the monitor, by
		// construction, still had the HTLC in the counterparty's current commitment and had durably been told of the
		// claim: this is not that finding, and is reported under its own signature below.
		let d = format!("node0 payment#{}", p1);
		sim.raised.retain(|r| !(r.0 == "C03" && r.1 == "P4-one-terminal-event" && r.3 == d));
	}
	if sent1 > 0 {
		rep.count("c03_p4_payment_sent_replayed_after_the_stale_restart");
	}
	if failed1 > 0 {
		// (the payment monitor has raised P4 when it saw the event; this is the scenario's own statement of it)
		sim.raised.push(("C03".into(), "P4-one-terminal-event".into(), "a payment the recipient claimed, reported PaymentSent before a restart from an older ChannelManager, was reported PaymentFailed after it although the HTLC was still in the counterparty's commitment and the monitor had recorded the claim".into(), format!("payment#{} sent_after_restart {} failed_after_restart {}", p1, sent1, failed1)));
	}
	Ok(())
}

/// Kind 8: the upstream peer is silent while node 1 knows the preimage of the inbound HTLC (D6).
fn upstream_silent(sim: &mut Sim, rep: &mut Report, c01: usize, c12: usize, amt: u64, final_cltv: u32, claim_buffer: u32, claim_late: u64) -> Result<(), String> {
	sim.w.step += 1;
	sim.w.note(format!("DEADLINE scenario kind 8 (upstream peer silent, preimage known) amt {} final cltv delta {}", amt, final_cltv));
	let pi = match sim.w.send_payment_ex(0, &[(vec![c01, c12], amt)], final_cltv, SendOpts { class: "deadline-forward", ..Default::default() }, None) {
		Ok(p) => p,
		Err(_) => {
			sim.dispatch(rep);
			return Ok(());
		},
	};
	let hash = sim.w.payments[pi].hash.0;
	let mut seen = Seen::default();
	turn(sim, true);
	absorb(sim, rep, &mut seen, c01, c12, hash);
	let inbound = sim.w.chans[c01].model.as_ref().and_then(|m| m.pending_htlcs().iter().find(|h| h.3 == hash).map(|h| (h.4, h.2)));
	let (cltv_in, amt_in) = match inbound {
		Some(c) => c,
		None => {
			rep.count("c08_scenarios_htlc_not_committed");
			return Ok(());
		},
	};
	if seen.forwarded_at.is_none() || !seen.claimable_at_2 {
		rep.count("c08_scenarios_not_forwarded");
		return Ok(());
	}
	// the payer falls silent for good; the recipient claims now, or some blocks later (node 1 then learns the preimage
	// with less time left), always well before the inbound HTLC's expiry
	sim.w.note("DEADLINE the upstream peer goes silent for good".to_string());
	sim.w.chans[c01].fault = Some("upstream peer dead".into());
	sim.w.disconnect(0, 1);
	// (the recipient fails the payment back itself from its own claim deadline on: it claims below that)
	let deadline2 = sim.w.claimable.iter().find(|c| c.hash.0 == hash).and_then(|c| c.deadline).unwrap_or(0);
	let room = deadline2.saturating_sub(sim.w.chain.height()).saturating_sub(2);
	let wait = match claim_late {
		0 => 0,
		1 => 3,
		_ => (cltv_in.saturating_sub(sim.w.chain.height()).saturating_sub(claim_buffer + 14)).min(20),
	}
	.min(room);
	for _ in 0..wait {
		sim.w.mine(1);
		turn(sim, true);
		absorb(sim, rep, &mut seen, c01, c12, hash);
	}
	let pos = match sim.w.claimable.iter().position(|c| c.hash.0 == hash) {
		Some(p) => p,
		None => {
			rep.count("c08_d6_scenarios_no_longer_claimable");
			return Ok(());
		},
	};
	sim.w.step += 1;
	sim.w.note(format!("DEADLINE node2 claims off-chain at height {}; node1 learns the preimage {} blocks before the inbound expiry {}", sim.w.chain.height(), cltv_in as i64 - sim.w.chain.height() as i64, cltv_in));
	sim.w.claim(pos);
	turn(sim, true);
	absorb(sim, rep, &mut seen, c01, c12, hash);
	let learned_at = sim.w.chain.height();
	if !seen.claimed_at_2 {
		rep.count("c08_d6_scenarios_claim_did_not_go_through");
		return Ok(());
	}
	// transactions confirm within the library's stated bound, not at once: the miner holds every transaction back for
	// up to 16 blocks (the bound is 18 for each of the two steps, commitment and claim; the claim buffer is twice that)
	let delay = match claim_late {
		0 => 16,
		1 => 8,
		_ => 0,
	};
	sim.w.miner_delay_max = delay;
	rep.count(&format!("c08_d6_scenarios_with_miner_delay_up_to_{}", delay));
	let end = cltv_in + 12;
	while sim.w.chain.height() < end {
		sim.w.mine(1);
		for n in 0..3 {
			sim.w.nodes[n].mon.rebroadcast_pending_claims();
		}
		turn(sim, true);
		absorb(sim, rep, &mut seen, c01, c12, hash);
		if !sim.raised.is_empty() {
			sim.w.miner_delay_max = 0;
			return Ok(());
		}
	}
	sim.w.miner_delay_max = 0;
	rep.count("c08_d6_upstream_silent_scenarios_judged");
	let detail_base = format!("inbound HTLC of {} msat expiring at {}, preimage learnt at height {}", amt_in, cltv_in, learned_at);
	// what became of the inbound HTLC's output?
	let funding = match sim.w.chans[c01].funding.as_ref() {
		Some(f) => bitcoin::OutPoint { txid: f.compute_txid(), vout: 0 },
		None => return Ok(()),
	};
	let (commit_txid, commit_height) = match sim.w.chain.spent.get(&funding) {
		Some(x) => *x,
		None => {
			sim.raised.push(("C08".into(), "D6-onchain-in-time-for-known-preimage".into(), "a node that knew the preimage of an inbound HTLC never went on chain although its upstream peer stayed silent past the HTLC's expiry".into(), detail_base));
			return Ok(());
		},
	};
	rep.max("c08_d6_max_blocks_between_going_on_chain_and_the_inbound_expiry", cltv_in.saturating_sub(commit_height) as u64);
	rep.count(if cltv_in.saturating_sub(commit_height) <= claim_buffer { "c08_d6_went_on_chain_within_the_claim_buffer" } else { "c08_d6_went_on_chain_earlier_than_the_claim_buffer" });
	let mut claimed: Option<(bitcoin::Txid, u32)> = None;
	let mut vout = 0u32;
	let mut found_output = false;
	while let Some(o) = sim.w.chain.all_outputs.get(&bitcoin::OutPoint { txid: commit_txid, vout }) {
		if o.value.to_sat() == amt_in / 1000 && o.script_pubkey.is_p2wsh() {
			found_output = true;
			if let Some((spender, h)) = sim.w.chain.spent.get(&bitcoin::OutPoint { txid: commit_txid, vout }) {
				if seen.node1_txids.contains(spender) {
					claimed = Some((*spender, *h));
				}
			}
		}
		vout += 1;
	}
	if !found_output {
		rep.count("c08_d6_inbound_htlc_without_an_output");
		return Ok(());
	}
	match claimed {
		Some((_, h)) if h <= cltv_in => {
			rep.count("c08_d6_inbound_htlcs_claimed_on_chain_in_time");
			rep.max("c08_d6_min_margin_marker", 1);
			if h + 3 >= cltv_in {
				rep.count("c08_d6_claims_confirmed_within_three_blocks_of_the_expiry");
			}
		},
		Some((t, h)) => sim.raised.push(("C08".into(), "D6-onchain-in-time-for-known-preimage".into(), "a node's on-chain claim of an inbound HTLC whose preimage it knew confirmed only after the HTLC's expiry".into(), format!("{}; commitment confirmed at {}, claim {} confirmed at {}", detail_base, commit_height, t, h))),
		None => sim.raised.push(("C08".into(), "D6-onchain-in-time-for-known-preimage".into(), "a node that knew the preimage of an inbound HTLC did not claim its output on chain".into(), format!("{}; commitment {} confirmed at {}", detail_base, commit_txid, commit_height))),
	}
	Ok(())
}
