//! C11 – conclusions depend only on the chain, not on how it was delivered.
//! When the on-chain phase of a scenario starts, every node is copied (manager and monitors read
//! back from their serializations into nodes wired to private taps) once per delivery style; from
//! then on each block the world mines is given to the original in the reference style and to each
//! copy in its own legal style. At every height at which a copy has been told the tip, its
//! conclusions must equal the original's:
//!   E1  claimable balances, channel list, transactions still watched for reorganisation
//!       (get_relevant_txids), and the cumulative multiset of conclusive events (spendable outputs,
//!       channel closures, payment outcomes)
//!   E3  a copy that is told about the last d < 6 blocks being disconnected and then connected
//!       again ends up with the same conclusions as one that never saw the reorganisation
//!       (block-oriented `Listen` throughout, or transaction-oriented `Confirm` throughout)
//! When the world itself reorganises (real competing forks, `World::reorg`), every copy is told in its
//! own style as well and E1 goes on being judged at every common tip of the new branch.
//! (E2, irreversible conclusions only after the anti-reorg depth, is judged on the original by the
//! on-chain monitor.)
use crate::chain::Block;
use crate::node::Node;
use crate::run::Sim;
use crate::taps::{Disk, EvLog};
use bitcoin::Transaction;
use lightning::chain::{BlockLocator, Confirm, Listen};
use lightning::events::Event;
use lightning::util::ser::Writeable;
use std::sync::Arc;
use vcore::{Report, Rng};

#[derive(Clone, Copy, Debug, PartialEq, Eq)]
pub enum Style {
	/// monitor then manager, transactions then tip (the reference)
	Reference,
	/// tip first, then the transactions
	TipFirst,
	/// manager before monitor
	ManagerFirst,
	/// every notification given twice
	Duplicated,
	/// `best_block_updated` skipped for blocks without transactions, up to 4 in a row
	SkippingTips,
	/// `Listen::filtered_block_connected`
	FilteredBlocks,
	/// `Listen` throughout; every now and then the last d < 6 blocks are disconnected and connected again
	ShallowReorgs,
	/// `Confirm` throughout; every now and then the transactions of the last d < 6 blocks are unconfirmed,
	/// the fork point announced as the tip, and the same blocks confirmed again
	ShallowReorgsConfirm,
}

pub struct Copy {
	pub of: usize,
	pub style: Style,
	pub node: Node,
	pub events: Vec<String>,
	pub told_tip: u32,
	/// the highest tip this copy was ever told
	pub max_told: u32,
	skipped: u32,
}

pub fn event_key(e: &Event) -> Option<String> {
	match e {
		Event::SpendableOutputs { outputs, .. } => {
			let mut v: Vec<String> = outputs.iter().map(|o| format!("{}", crate::onchain::outpoint_of(o))).collect();
			v.sort();
			Some(format!("SpendableOutputs {:?}", v))
		},
		// (which of several simultaneously true reasons is named – the commitment confirmed in the same block in
		// which an HTLC timed out – depends on whether the tip or the transactions were announced first)
		Event::ChannelClosed { channel_id, .. } => Some(format!("ChannelClosed {}", channel_id)),
		Event::PaymentSent { payment_hash, .. } => Some(format!("PaymentSent {}", payment_hash)),
		Event::PaymentFailed { payment_hash, .. } => Some(format!("PaymentFailed {:?}", payment_hash)),
		Event::PaymentClaimed { payment_hash, amount_msat, .. } => Some(format!("PaymentClaimed {} {}", payment_hash, amount_msat)),
		Event::PaymentPathFailed { payment_hash, .. } => Some(format!("PaymentPathFailed {}", payment_hash)),
		Event::HTLCHandlingFailed { .. } => Some("HTLCHandlingFailed".to_string()),
		_ => None,
	}
}

pub fn make_copies(sim: &mut Sim, rng: &mut Rng, rep: &mut Report) -> Vec<Copy> {
	let mut out = vec![];
	let styles = [Style::Reference, Style::TipFirst, Style::ManagerFirst, Style::Duplicated, Style::SkippingTips, Style::FilteredBlocks, Style::ShallowReorgs, Style::ShallowReorgsConfirm];
	// nothing the originals still have queued (events, forwards to process) may be left for later: a copy
	// would work it off while it is being set up, where its events are not recorded
	for _ in 0..4 {
		let mut did = 0;
		for n in 0..sim.w.nodes.len() {
			did += sim.w.complete_all(n);
			did += sim.w.process_events(n);
			if sim.w.nodes[n].mgr.needs_pending_htlc_processing() {
				sim.w.process_forwards(n);
				did += 1;
			}
		}
		if did == 0 {
			break;
		}
	}
	sim.dispatch(rep);
	// (what the originals concluded up to here is not part of the comparison: the copies start now)
	sim.w.event_log.clear();
	for n in 0..sim.w.nodes.len() {
		let node = &sim.w.nodes[n];
		let mgr_bytes = node.mgr.encode();
		let monitors: Vec<(lightning::ln::types::ChannelId, Vec<u8>)> = node.mon.list_monitors().into_iter().filter_map(|cid| node.mon.get_monitor(cid).ok().map(|m| (cid, m.encode()))).collect();
		// three styles per node and run (all seven over the runs)
		let mut pick: Vec<Style> = styles.to_vec();
		rng.shuffle(&mut pick);
		for (k, style) in pick.into_iter().take(3).enumerate() {
			let log = Arc::new(EvLog::default());
			match Node::reload(n, node.cfg.clone(), &log, sim.w.fee_now, &mgr_bytes, &monitors, Disk::default(), node.generation + 1000 + k as u64) {
				Ok(c) => {
					rep.count("c11_copies_made");
					let mut cp = Copy { of: n, style, node: c, events: vec![], told_tip: sim.w.chain.height(), max_told: sim.w.chain.height(), skipped: 0 };
					// (a node that was just read back replays events its predecessor had already handled: not conclusions
					// drawn from the chain that follows)
					drain(&mut cp, &sim.w);
					cp.events.clear();
					out.push(cp);
				},
				Err(e) => {
					sim.raised.push(("C12".into(), "Z1-roundtrip".into(), format!("a node does not read back for a chain-delivery copy: {}", vcore::canon(&e)), e));
				},
			}
		}
	}
	out
}

fn drain(c: &mut Copy, w: &crate::sim::World) {
	// events of the copy: conclusions are recorded; anchor bumps are served like on the original
	for _ in 0..4 {
		let mut evs = c.node.events();
		evs.extend(c.node.monitor_events());
		if evs.is_empty() {
			break;
		}
		for e in evs {
			if let Some(k) = event_key(&e) {
				c.events.push(k);
			}
			if let Event::BumpTransaction(bev) = &e {
				use lightning::events::bump_transaction::sync::BumpTransactionEventHandlerSync;
				use lightning::util::wallet_utils::WalletSync;
				let wallet = Arc::new(crate::onchain::wallet_of(w, c.of));
				let src = Arc::new(WalletSync::new(wallet, c.node.logger.clone()));
				let handler = BumpTransactionEventHandlerSync::new(c.node.bcast.clone(), src, c.node.keys.clone(), c.node.logger.clone());
				handler.handle_event(bev);
			}
		}
		if c.node.mgr.needs_pending_htlc_processing() {
			c.node.mgr.process_pending_htlc_forwards();
		}
		let _ = lightning::ln::msgs::BaseMessageHandler::get_and_clear_pending_msg_events(&c.node.mgr);
	}
	c.node.bcast.queue.lock().unwrap().clear();
}

fn give(c: &mut Copy, b: &Block, w: &crate::sim::World, rng: &mut Rng) {
	let txdata: Vec<(usize, &Transaction)> = b.txs.iter().enumerate().map(|(i, t)| (i + 1, t)).collect();
	let mon = c.node.mon.clone();
	let style = c.style;
	match style {
		Style::Reference | Style::ShallowReorgsConfirm => {
			mon.transactions_confirmed(&b.header, &txdata, b.height);
			c.node.mgr.transactions_confirmed(&b.header, &txdata, b.height);
			mon.best_block_updated(&b.header, b.height);
			c.node.mgr.best_block_updated(&b.header, b.height);
			c.told_tip = b.height;
		},
		Style::TipFirst => {
			mon.best_block_updated(&b.header, b.height);
			c.node.mgr.best_block_updated(&b.header, b.height);
			mon.transactions_confirmed(&b.header, &txdata, b.height);
			c.node.mgr.transactions_confirmed(&b.header, &txdata, b.height);
			c.told_tip = b.height;
		},
		Style::ManagerFirst => {
			c.node.mgr.transactions_confirmed(&b.header, &txdata, b.height);
			mon.transactions_confirmed(&b.header, &txdata, b.height);
			c.node.mgr.best_block_updated(&b.header, b.height);
			mon.best_block_updated(&b.header, b.height);
			c.told_tip = b.height;
		},
		Style::Duplicated => {
			for _ in 0..2 {
				mon.transactions_confirmed(&b.header, &txdata, b.height);
				c.node.mgr.transactions_confirmed(&b.header, &txdata, b.height);
			}
			for _ in 0..2 {
				mon.best_block_updated(&b.header, b.height);
				c.node.mgr.best_block_updated(&b.header, b.height);
			}
			c.told_tip = b.height;
		},
		Style::SkippingTips => {
			if !b.txs.is_empty() {
				mon.transactions_confirmed(&b.header, &txdata, b.height);
				c.node.mgr.transactions_confirmed(&b.header, &txdata, b.height);
			}
			if !b.txs.is_empty() || c.skipped >= 4 || rng.chance(1, 3) {
				mon.best_block_updated(&b.header, b.height);
				c.node.mgr.best_block_updated(&b.header, b.height);
				c.told_tip = b.height;
				c.skipped = 0;
			} else {
				c.skipped += 1;
			}
		},
		Style::FilteredBlocks | Style::ShallowReorgs => {
			Listen::filtered_block_connected(&*mon, &b.header, &txdata, b.height);
			Listen::filtered_block_connected(&c.node.mgr, &b.header, &txdata, b.height);
			c.told_tip = b.height;
		},
	}
	drain(c, w);
	if (c.style == Style::ShallowReorgs || c.style == Style::ShallowReorgsConfirm) && rng.chance(1, 6) {
		// disconnect the last d blocks, then connect the very same blocks again
		// (never below the sixth block under the highest tip ever seen: what had six confirmations stays)
		let d = 1 + rng.below(5) as u32;
		let base = crate::chain::BASE_HEIGHT;
		// (nor the block of a funding transaction that already had the depth agreed for channel_ready: removing that
		// closes the channel by design – known finding, judged on the originals in `openfork`)
		// (the floor follows the originals; a funding transaction that reaches the agreed depth in the very block just
		// delivered is not covered by it yet: ask the copy itself)
		let locks_in_here = c.node.mgr.list_channels().iter().any(|ch| {
			let conf_h = ch.funding_txo.and_then(|o| w.chain.confirmed_at.get(&o.txid).cloned());
			match conf_h {
				Some(hc) if hc + d > b.height && hc <= b.height => b.height + 1 - hc >= ch.confirmations_required.unwrap_or(1).max(1),
				_ => false,
			}
		});
		if w.trace {
			eprintln!("  COPY style {:?} of node{} at height {}: own replay wanted d={} locks_in_here={} channels={:?}", c.style, c.node.idx, b.height, d, locks_in_here, c.node.mgr.list_channels().iter().map(|ch| (ch.funding_txo.map(|o| o.txid), ch.confirmations, ch.confirmations_required, ch.is_channel_ready)).collect::<Vec<_>>());
		}
		if !locks_in_here && b.height > base + d + 1 && b.height - d + 5 >= w.peak_height.max(c.max_told) && b.height - d >= w.copy_reorg_floor {
			let fork = w.chain.block_at(b.height - d);
			if c.style == Style::ShallowReorgs {
				let loc = BlockLocator::new(fork.header.block_hash(), fork.height);
				Listen::blocks_disconnected(&*mon, loc.clone());
				Listen::blocks_disconnected(&c.node.mgr, loc);
			} else {
				let gone: Vec<bitcoin::BlockHash> = ((b.height - d + 1)..=b.height).map(|h| w.chain.block_at(h).header.block_hash()).collect();
				unconfirm(c, &gone);
				mon.best_block_updated(&fork.header, fork.height);
				c.node.mgr.best_block_updated(&fork.header, fork.height);
			}
			drain(c, w);
			for h in (b.height - d + 1)..=b.height {
				let bb = w.chain.block_at(h);
				let td: Vec<(usize, &Transaction)> = bb.txs.iter().enumerate().map(|(i, t)| (i + 1, t)).collect();
				if c.style == Style::ShallowReorgs {
					Listen::filtered_block_connected(&*mon, &bb.header, &td, bb.height);
					Listen::filtered_block_connected(&c.node.mgr, &bb.header, &td, bb.height);
				} else {
					mon.transactions_confirmed(&bb.header, &td, bb.height);
					c.node.mgr.transactions_confirmed(&bb.header, &td, bb.height);
					mon.best_block_updated(&bb.header, bb.height);
					c.node.mgr.best_block_updated(&bb.header, bb.height);
				}
				drain(c, w);
			}
		}
	}
}

/// `Confirm`-style: everything the copy watches that was confirmed in one of the blocks `gone`.
fn unconfirm(c: &mut Copy, gone: &[bitcoin::BlockHash]) {
	let mon = c.node.mon.clone();
	for (txid, _, bh) in Confirm::get_relevant_txids(&*mon) {
		if bh.map(|h| gone.contains(&h)).unwrap_or(false) {
			mon.transaction_unconfirmed(&txid);
		}
	}
	for (txid, _, bh) in Confirm::get_relevant_txids(&c.node.mgr) {
		if bh.map(|h| gone.contains(&h)).unwrap_or(false) {
			c.node.mgr.transaction_unconfirmed(&txid);
		}
	}
}

/// The world reorganised: `gone` left the active chain, whose tip is the fork point now.
pub fn on_reorg(sim: &mut Sim, copies: &mut Vec<Copy>, gone: &[Block], rng: &mut Rng, rep: &mut Report) {
	let fork = sim.w.chain.tip().clone();
	let hashes: Vec<bitcoin::BlockHash> = gone.iter().map(|b| b.header.block_hash()).collect();
	for c in copies.iter_mut() {
		rep.count("c11_copies_told_of_a_real_reorg");
		match c.style {
			Style::FilteredBlocks | Style::ShallowReorgs => {
				if c.told_tip > fork.height {
					let loc = BlockLocator::new(fork.header.block_hash(), fork.height);
					Listen::blocks_disconnected(&*c.node.mon, loc.clone());
					Listen::blocks_disconnected(&c.node.mgr, loc);
					c.told_tip = fork.height;
				}
			},
			_ => {
				unconfirm(c, &hashes);
				// the fork point may or may not be announced as a tip of its own before the competing blocks
				if c.style != Style::SkippingTips && rng.chance(1, 2) {
					if c.style == Style::ManagerFirst {
						c.node.mgr.best_block_updated(&fork.header, fork.height);
						c.node.mon.best_block_updated(&fork.header, fork.height);
					} else {
						c.node.mon.best_block_updated(&fork.header, fork.height);
						c.node.mgr.best_block_updated(&fork.header, fork.height);
					}
					c.told_tip = fork.height;
				} else if c.told_tip > fork.height {
					// its tip is a block that is gone; it hears of the branch with the next tip it is told
					c.told_tip = u32::MAX;
				}
			},
		}
		c.skipped = 0;
		drain(c, &sim.w);
	}
}

fn conclusions(node: &Node) -> Vec<String> {
	let mut out = vec![];
	let mut bal: Vec<String> = node.mon.get_claimable_balances(&[]).iter().map(|b| format!("balance {:?}", b)).collect();
	bal.sort();
	out.extend(bal);
	let mut ch: Vec<String> = node.mgr.list_channels().iter().map(|c| format!("channel {} ready={} confirmations={:?}", c.channel_id, c.is_channel_ready, c.confirmations)).collect();
	ch.sort();
	out.extend(ch);
	let mut tx: Vec<String> = Confirm::get_relevant_txids(&*node.mon).iter().map(|(t, h, bh)| format!("monitor watches {} @{} {:?}", t, h, bh)).collect();
	tx.sort();
	tx.dedup();
	out.extend(tx);
	let mut tx: Vec<String> = Confirm::get_relevant_txids(&node.mgr).iter().map(|(t, h, bh)| format!("manager watches {} @{} {:?}", t, h, bh)).collect();
	tx.sort();
	tx.dedup();
	out.extend(tx);
	out
}

/// Give the newly mined tip to every copy and compare conclusions with the originals.
pub fn on_block(sim: &mut Sim, copies: &mut Vec<Copy>, rng: &mut Rng, rep: &mut Report) {
	let b = sim.w.chain.tip().clone();
	for c in copies.iter_mut() {
		give(c, &b, &sim.w, rng);
		c.node.mon.rebroadcast_pending_claims();
		drain(c, &sim.w);
	}
	for c in copies.iter_mut() {
		if c.told_tip != u32::MAX {
			c.max_told = c.max_told.max(c.told_tip);
		}
	}
	for c in copies.iter() {
		if c.told_tip != b.height {
			continue;
		}
		// maturity (confirmation counts, relative and absolute locks) is a matter of the highest tip a node has
		// seen: a copy that was spared tips of a branch that is gone now has not been told what the original
		// has, and is compared again once it has seen a tip as high as the highest one
		if c.max_told < sim.w.peak_height {
			rep.count("c11_comparisons_skipped_copy_never_saw_the_highest_tip");
			continue;
		}
		rep.count("c11_e1_conclusion_comparisons");
		rep.count(&format!("c11_comparisons_style_{:?}", c.style));
		let orig = &sim.w.nodes[c.of];
		let (a, bb) = (conclusions(orig), conclusions(&c.node));
		if a != bb {
			let only_a: Vec<&String> = a.iter().filter(|x| !bb.contains(x)).take(3).collect();
			let only_b: Vec<&String> = bb.iter().filter(|x| !a.contains(x)).take(3).collect();
			let rule = if c.style == Style::ShallowReorgs || c.style == Style::ShallowReorgsConfirm { "E3-shallow-reorg" } else { "E1-delivery-independence" };
			sim.raised.push(("C11".into(), rule.into(), format!("conclusions at the same tip differ between the reference delivery and {:?} delivery: {}", c.style, vcore::canon(&classify(&only_a, &only_b))), format!("node{} height {}: only reference {:?} | only {:?} {:?}", c.of, b.height, only_a, c.style, only_b).chars().take(1500).collect()));
			return;
		}
		// cumulative conclusive events
		let mut ea: Vec<String> = sim.w.event_log.iter().filter(|(n, _)| *n == c.of).map(|(_, e)| e.clone()).collect();
		ea.sort();
		let mut eb = c.events.clone();
		eb.sort();
		if ea != eb {
			let only_a: Vec<&String> = ea.iter().filter(|x| !eb.contains(x)).take(3).collect();
			let only_b: Vec<&String> = eb.iter().filter(|x| !ea.contains(x)).take(3).collect();
			let rule = if c.style == Style::ShallowReorgs || c.style == Style::ShallowReorgsConfirm { "E3-shallow-reorg" } else { "E1-delivery-independence" };
			sim.raised.push(("C11".into(), rule.into(), format!("conclusive events at the same tip differ between the reference delivery and {:?} delivery: {}", c.style, vcore::canon(&classify(&only_a, &only_b))), format!("node{} height {}: only reference {:?} | only {:?} {:?}", c.of, b.height, only_a, c.style, only_b).chars().take(1500).collect()));
			return;
		}
	}
}

fn classify(a: &[&String], b: &[&String]) -> String {
	let first = a.first().or(b.first()).map(|s| s.split(' ').take(2).collect::<Vec<_>>().join(" ")).unwrap_or_default();
	format!("{} ({} vs {} differing entries)", first, a.len().min(3), b.len().min(3))
}
