//! C19 (d) – the asynchronous incremental monitor persister behind a real
//! `ChainMonitor::new_async_beta`, over a key-value store whose operations complete when the harness
//! says so: in any order, after any delay, successfully or with an injected error.
//!
//! Every monitor a node's ChainMonitor hands to its persister is also registered with a shadow
//! asynchronous ChainMonitor (a copy read back from its serialization), every ChannelMonitorUpdate is
//! also applied there. Whenever the shadow reports an update complete (`MonitorEvent::Completed`), and
//! again at quiescent points, a crash is materialised from what has durably reached the store – the
//! operations that completed successfully, nothing that is pending or failed – and a fresh persister
//! must read back, for that channel, a monitor that includes the reported update:
//!   A1  an update is reported complete only if it can be recovered from the durable store
//!   A2  and it still can be after whatever the persister wrote or removed later
//!   A0  recovery itself never fails or panics on such a store
use crate::node::NodeCfg;
use crate::taps::*;
use bitcoin::io;
use lightning::chain::chainmonitor::{AsyncPersister, ChainMonitor};
use lightning::chain::channelmonitor::{ChannelMonitor, ChannelMonitorUpdate, MonitorEvent};
use lightning::chain::{self, BlockLocator, Watch};
use lightning::ln::types::ChannelId;
use lightning::sign::NodeSigner;
use lightning::util::native_async::FutureSpawner;
use lightning::util::persist::{KVStore, MonitorUpdatingPersisterAsync};
use lightning::util::ser::{ReadableArgs, Writeable};
use std::collections::{BTreeMap, HashMap};
use std::future::Future;
use std::pin::Pin;
use std::sync::{Arc, Mutex};
use std::task::{Context, Poll, Waker};

type Key = (String, String, String);
type Slot = Arc<Mutex<Option<Result<(), ()>>>>;

struct PendingOp {
	key: Key,
	/// None: remove
	value: Option<Vec<u8>>,
	/// position in the issue order of operations on this key
	ver: u64,
	slot: Slot,
}

#[derive(Default)]
struct StoreInner {
	/// what has durably reached the store
	map: BTreeMap<Key, Vec<u8>>,
	applied_ver: HashMap<Key, u64>,
	next_ver: u64,
	pending: Vec<PendingOp>,
	immediate: bool,
	pub completed_ok: u64,
	pub failed: u64,
	pub superseded: u64,
}

/// An asynchronous key-value store. Reads and listings answer from the durable map at once; writes and
/// removals stay pending until `complete` is called for them. Operations on one key take effect in the
/// order they were issued whatever the completion order (a late completion of an older write is void).
#[derive(Default)]
pub struct AsyncStore(Mutex<StoreInner>);

struct OpFut(Slot);
impl Future for OpFut {
	type Output = Result<(), io::Error>;
	fn poll(self: Pin<&mut Self>, _: &mut Context<'_>) -> Poll<Self::Output> {
		match self.0.lock().unwrap().take() {
			None => Poll::Pending,
			Some(Ok(())) => Poll::Ready(Ok(())),
			Some(Err(())) => Poll::Ready(Err(io::Error::new(io::ErrorKind::Other, "injected store failure"))),
		}
	}
}

fn k(a: &str, b: &str, c: &str) -> Key {
	(a.to_string(), b.to_string(), c.to_string())
}

impl AsyncStore {
	pub fn ready_from(map: BTreeMap<Key, Vec<u8>>) -> AsyncStore {
		AsyncStore(Mutex::new(StoreInner { map, immediate: true, ..Default::default() }))
	}
	pub fn durable(&self) -> BTreeMap<Key, Vec<u8>> {
		self.0.lock().unwrap().map.clone()
	}
	pub fn pending(&self) -> usize {
		self.0.lock().unwrap().pending.len()
	}
	pub fn stats(&self) -> (u64, u64, u64) {
		let s = self.0.lock().unwrap();
		(s.completed_ok, s.failed, s.superseded)
	}
	fn issue(&self, key: Key, value: Option<Vec<u8>>) -> OpFut {
		let mut s = self.0.lock().unwrap();
		s.next_ver += 1;
		let ver = s.next_ver;
		let slot: Slot = Arc::new(Mutex::new(None));
		if s.immediate {
			Self::apply(&mut s, &key, value, ver);
			*slot.lock().unwrap() = Some(Ok(()));
		} else {
			s.pending.push(PendingOp { key, value, ver, slot: slot.clone() });
		}
		OpFut(slot)
	}
	fn apply(s: &mut StoreInner, key: &Key, value: Option<Vec<u8>>, ver: u64) {
		if s.applied_ver.get(key).cloned().unwrap_or(0) > ver {
			s.superseded += 1;
			return;
		}
		s.applied_ver.insert(key.clone(), ver);
		match value {
			Some(v) => {
				s.map.insert(key.clone(), v);
			},
			None => {
				s.map.remove(key);
			},
		}
	}
	/// Complete the pending operation at `idx` (in issue order), successfully or not.
	pub fn complete(&self, idx: usize, ok: bool) {
		let mut s = self.0.lock().unwrap();
		if idx >= s.pending.len() {
			return;
		}
		let op = s.pending.remove(idx);
		if ok {
			s.completed_ok += 1;
			Self::apply(&mut s, &op.key, op.value, op.ver);
			*op.slot.lock().unwrap() = Some(Ok(()));
		} else {
			s.failed += 1;
			*op.slot.lock().unwrap() = Some(Err(()));
		}
	}
}

impl KVStore for AsyncStore {
	fn read(&self, p: &str, s: &str, key: &str) -> impl Future<Output = Result<Vec<u8>, io::Error>> + 'static + Send {
		let r = self.0.lock().unwrap().map.get(&k(p, s, key)).cloned().ok_or_else(|| io::Error::new(io::ErrorKind::NotFound, "not found"));
		std::future::ready(r)
	}
	fn write(&self, p: &str, s: &str, key: &str, buf: Vec<u8>) -> impl Future<Output = Result<(), io::Error>> + 'static + Send {
		self.issue(k(p, s, key), Some(buf))
	}
	fn remove(&self, p: &str, s: &str, key: &str, _lazy: bool) -> impl Future<Output = Result<(), io::Error>> + 'static + Send {
		self.issue(k(p, s, key), None)
	}
	fn list(&self, p: &str, s: &str) -> impl Future<Output = Result<Vec<String>, io::Error>> + 'static + Send {
		let r: Vec<String> = self.0.lock().unwrap().map.keys().filter(|x| x.0 == p && x.1 == s).map(|x| x.2.clone()).collect();
		std::future::ready(Ok(r))
	}
}

/// Spawned futures are kept until `poll_all` runs them as far as they go.
#[derive(Clone, Default)]
pub struct ManualSpawner(Arc<Mutex<Vec<Pin<Box<dyn Future<Output = ()> + Send>>>>>);
pub struct Joined<O>(Arc<Mutex<Option<O>>>);
impl<O> Future for Joined<O> {
	type Output = Result<O, std::convert::Infallible>;
	fn poll(self: Pin<&mut Self>, _: &mut Context<'_>) -> Poll<Self::Output> {
		match self.0.lock().unwrap().take() {
			None => Poll::Pending,
			Some(o) => Poll::Ready(Ok(o)),
		}
	}
}
impl<O> Unpin for Joined<O> {}
impl FutureSpawner for ManualSpawner {
	type E = std::convert::Infallible;
	type SpawnedFutureResult<O> = Joined<O>;
	fn spawn<O: Send + 'static, T: Future<Output = O> + Send + 'static>(&self, future: T) -> Joined<O> {
		let slot: Arc<Mutex<Option<O>>> = Arc::new(Mutex::new(None));
		let s2 = slot.clone();
		self.0.lock().unwrap().push(Box::pin(async move {
			let o = future.await;
			*s2.lock().unwrap() = Some(o);
		}));
		Joined(slot)
	}
}
impl ManualSpawner {
	/// Poll every task until none makes progress. Returns how many finished.
	pub fn poll_all(&self) -> usize {
		let mut cx = Context::from_waker(Waker::noop());
		let mut finished = 0;
		loop {
			let mut tasks = std::mem::take(&mut *self.0.lock().unwrap());
			let before = tasks.len();
			tasks.retain_mut(|t| t.as_mut().poll(&mut cx).is_pending());
			let done = before - tasks.len();
			finished += done;
			let mut q = self.0.lock().unwrap();
			let spawned_meanwhile = !q.is_empty();
			tasks.append(&mut *q);
			*q = tasks;
			if done == 0 && !spawned_meanwhile {
				return finished;
			}
		}
	}
	pub fn tasks(&self) -> usize {
		self.0.lock().unwrap().len()
	}
}

/// Run a future that only waits on ready store operations to its end.
pub fn block_on_ready<F: Future>(f: F) -> Option<F::Output> {
	let mut cx = Context::from_waker(Waker::noop());
	let mut f = Box::pin(f);
	for _ in 0..10_000 {
		if let Poll::Ready(o) = f.as_mut().poll(&mut cx) {
			return Some(o);
		}
	}
	None
}

pub type AsyncMup = MonitorUpdatingPersisterAsync<Arc<AsyncStore>, ManualSpawner, Arc<RingLogger>, Arc<Keys>, Arc<Keys>, Arc<Bcast>, Arc<Fee>>;
pub type AsyncCm = ChainMonitor<TapSigner, Arc<dyn chain::Filter + Send + Sync>, Arc<Bcast>, Arc<Fee>, Arc<RingLogger>, AsyncPersister<Arc<AsyncStore>, ManualSpawner, Arc<RingLogger>, Arc<Keys>, Arc<Keys>, Arc<Bcast>, Arc<Fee>>, Arc<Keys>>;

pub struct AsyncShadow {
	pub idx: usize,
	pub store: Arc<AsyncStore>,
	pub spawner: ManualSpawner,
	pub cm: AsyncCm,
	pub max_pending: u64,
	keys: Arc<Keys>,
	cfg: NodeCfg,
	fee_now: u32,
	rng: Mutex<vcore::Rng>,
	/// channel -> highest update id the shadow reported complete
	pub reported: Mutex<HashMap<ChannelId, u64>>,
	/// channels the shadow no longer follows (an injected failure stalls a channel for good; an update the
	/// shadow could not apply ends the comparison)
	pub dropped: Mutex<HashMap<ChannelId, &'static str>>,
	/// (rule, signature, detail) found while the node was running; drained by the monitor
	pub findings: Mutex<Vec<(String, String, String)>>,
	pub counters: Mutex<BTreeMap<&'static str, u64>>,
}

impl AsyncShadow {
	pub fn new(idx: usize, cfg: &NodeCfg, fee_now: u32, max_pending: u64) -> AsyncShadow {
		let (keys, bcast, fee, logger, _p, _m, _w) = crate::node::quiet_parts(idx, cfg, fee_now, 0);
		let store = Arc::new(AsyncStore::default());
		let spawner = ManualSpawner::default();
		let mup: AsyncMup = MonitorUpdatingPersisterAsync::new(store.clone(), spawner.clone(), logger.clone(), max_pending, keys.clone(), keys.clone(), bcast.clone(), fee.clone());
		let cm: AsyncCm = ChainMonitor::new_async_beta(None, bcast, logger, fee, mup, keys.clone(), keys.get_peer_storage_key(), false);
		let seed = 0xA5_19 ^ ((idx as u64) << 32) ^ u64::from_le_bytes(cfg.seed[..8].try_into().unwrap());
		AsyncShadow { idx, store, spawner, cm, max_pending, keys, cfg: cfg.clone(), fee_now, rng: Mutex::new(vcore::Rng::new(seed)), reported: Default::default(), dropped: Default::default(), findings: Default::default(), counters: Default::default() }
	}
	fn count(&self, k: &'static str) {
		*self.counters.lock().unwrap().entry(k).or_insert(0) += 1;
	}
	pub fn persist_new(&self, m: &ChannelMonitor<TapSigner>) {
		let bytes = m.encode();
		let copy = match <(BlockLocator, ChannelMonitor<TapSigner>)>::read(&mut &bytes[..], (&*self.keys, &*self.keys)) {
			Ok((_, c)) => c,
			Err(_) => return,
		};
		let chan = m.channel_id();
		match vcore::guarded(|| self.cm.watch_channel(chan, copy)) {
			Ok(Ok(_)) => self.count("c19_async_monitors_registered"),
			_ => {
				self.dropped.lock().unwrap().insert(chan, "not registered");
			},
		}
		self.pump(false);
	}
	pub fn update(&self, u: Option<&ChannelMonitorUpdate>, m: &ChannelMonitor<TapSigner>) {
		let chan = m.channel_id();
		let u = match u {
			Some(u) => u,
			None => return,
		};
		if self.dropped.lock().unwrap().contains_key(&chan) {
			return;
		}
		// (the real monitor also follows the chain, the shadow does not: an update the shadow's copy cannot
		// take ends the comparison for this channel)
		match vcore::guarded(|| self.cm.update_channel(chan, u)) {
			Ok(_) => self.count("c19_async_updates_given"),
			Err(_) => {
				self.dropped.lock().unwrap().insert(chan, "update not applicable to the shadow copy");
				self.count("c19_async_channels_dropped_update_not_applicable");
				return;
			},
		}
		self.pump(false);
	}
	/// Let some (or all) pending store operations complete, run the persister's tasks, and judge what the
	/// shadow ChainMonitor reports complete.
	pub fn pump(&self, all: bool) {
		loop {
			let n = self.store.pending();
			if n == 0 {
				break;
			}
			let (go, idx, ok) = {
				let mut r = self.rng.lock().unwrap();
				(all || r.chance(2, 3), r.below(n.min(4) as u64) as usize, !r.chance(1, 60))
			};
			if !go {
				break;
			}
			self.store.complete(idx, ok);
			if !ok {
				self.count("c19_async_store_failures_injected");
			}
			self.spawner.poll_all();
		}
		self.spawner.poll_all();
		for (_, chan, evs, _) in self.cm.release_pending_monitor_events() {
			for e in evs {
				if let MonitorEvent::Completed { monitor_update_id, .. } = e {
					self.count("c19_async_completions_reported");
					{
						let mut rep = self.reported.lock().unwrap();
						let x = rep.entry(chan).or_insert(0);
						*x = (*x).max(monitor_update_id);
					}
					self.judge(Some(chan), "A1-reported-implies-durable");
				}
			}
		}
	}
	/// Recover from the durable store and check every (or one) channel's reported update.
	pub fn judge(&self, only: Option<ChannelId>, rule: &str) {
		let durable = self.store.durable();
		let store = Arc::new(AsyncStore::ready_from(durable));
		let (keys, bcast, fee, logger, _p, _m, _w) = crate::node::quiet_parts(self.idx, &self.cfg, self.fee_now, 0);
		let mp = *self.rng.lock().unwrap().pick(&[self.max_pending, self.max_pending, 0, 7]);
		let mup: AsyncMup = MonitorUpdatingPersisterAsync::new(store, ManualSpawner::default(), logger, mp, keys.clone(), keys, bcast, fee);
		let ctx = format!("node{} max_pending {} (recovering with {})", self.idx, self.max_pending, mp);
		self.count("c19_async_recoveries");
		let mons = match vcore::guarded(|| block_on_ready(mup.read_all_channel_monitors_with_updates())) {
			Ok(Some(Ok(m))) => m,
			Ok(Some(Err(e))) => {
				self.findings.lock().unwrap().push(("A0-recoverable".into(), format!("the asynchronous persister cannot read the monitors back from what durably reached the store: {}", vcore::canon(&format!("{:?}", e))), ctx));
				return;
			},
			Ok(None) => {
				self.count("c19_async_recovery_did_not_finish");
				return;
			},
			Err(p) => {
				// which update files each monitor has on the durable store (the witness of a gap)
				let d = self.store.durable();
				let mut per: BTreeMap<String, Vec<u64>> = BTreeMap::new();
				for (a, b, c) in d.keys() {
					if a == "monitor_updates" {
						per.entry(b.chars().take(12).collect()).or_default().push(c.parse().unwrap_or(0));
					}
				}
				for v in per.values_mut() {
					v.sort();
				}
				let (_, failed, _) = self.store.stats();
				self.findings.lock().unwrap().push(("A0-recoverable".into(), format!("reading the monitors back through the asynchronous persister panics: {}", vcore::canon(&p)), format!("{}; update files per monitor {:?}; store failures injected so far {}", ctx, per, failed)));
				return;
			},
		};
		let rep = self.reported.lock().unwrap().clone();
		for (chan, id) in rep.iter() {
			if only.map(|c| c != *chan).unwrap_or(false) {
				continue;
			}
			self.count("c19_async_reported_updates_checked");
			match mons.iter().find(|(_, m)| m.channel_id() == *chan) {
				None => self.findings.lock().unwrap().push((rule.to_string(), "the asynchronous persister reported a monitor persisted that cannot be recovered from what durably reached the store".into(), format!("{}: chan {} reported up to {}", ctx, chan, id))),
				Some((_, m)) if m.get_latest_update_id() < *id => self.findings.lock().unwrap().push((rule.to_string(), "the asynchronous persister reported an update persisted that the monitor recovered from the durable store lacks".into(), format!("{}: chan {} recovered at update {} but {} had been reported complete", ctx, chan, m.get_latest_update_id(), id))),
				_ => {},
			}
		}
	}
}
