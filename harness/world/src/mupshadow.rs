//! C19 (c) – the incremental monitor persister over a recording key-value store.
//! Every Persist call a node's ChainMonitor makes is also given to a real
//! `MonitorUpdatingPersister` writing into a recording in-memory `KVStoreSync`. The store keeps the
//! ordered log of its operations, with markers for "the persister reported this update complete".
//! A crash between any two store operations is then materialised from a prefix of that log (lazy
//! removals applied or not) and a fresh persister must recover, for every channel, a monitor that
//!   R1  can be read at all,
//!   R2  includes every update that had been reported complete before the crash point,
//!   R3  once brought to the same chain tip equals the in-memory monitor as of its update id,
//!   R4  and the same again after `cleanup_stale_updates` ran on the crashed store.
use crate::node::{quiet_parts, NodeCfg};
use crate::taps::*;
use lightning::chain::channelmonitor::{ChannelMonitor, ChannelMonitorUpdate};
use lightning::chain::{BlockLocator, ChannelMonitorUpdateStatus};
use lightning::ln::types::ChannelId;
use lightning::util::persist::{KVStoreSync, MonitorName, MonitorUpdatingPersister};
use lightning::util::ser::{ReadableArgs, Writeable};
use std::collections::{BTreeMap, HashMap};
use bitcoin::io;
use std::sync::{Arc, Mutex};

pub type Key = (String, String, String);
#[derive(Clone, Debug)]
pub enum StoreOp {
	Write(Key, Vec<u8>),
	Remove(Key, bool),
	/// the persister returned Completed for (channel, latest update id of the monitor it was given)
	Completed(ChannelId, u64),
}

#[derive(Default)]
pub struct RecStore {
	pub map: Mutex<BTreeMap<Key, Vec<u8>>>,
	pub log: Mutex<Vec<StoreOp>>,
}
impl RecStore {
	pub fn from_map(m: BTreeMap<Key, Vec<u8>>) -> RecStore {
		RecStore { map: Mutex::new(m), log: Mutex::new(vec![]) }
	}
}
fn k(a: &str, b: &str, c: &str) -> Key {
	(a.to_string(), b.to_string(), c.to_string())
}
impl KVStoreSync for RecStore {
	fn read(&self, p: &str, s: &str, key: &str) -> Result<Vec<u8>, io::Error> {
		self.map.lock().unwrap().get(&k(p, s, key)).cloned().ok_or_else(|| io::Error::new(io::ErrorKind::NotFound, "not found"))
	}
	fn write(&self, p: &str, s: &str, key: &str, buf: Vec<u8>) -> Result<(), io::Error> {
		self.log.lock().unwrap().push(StoreOp::Write(k(p, s, key), buf.clone()));
		self.map.lock().unwrap().insert(k(p, s, key), buf);
		Ok(())
	}
	fn remove(&self, p: &str, s: &str, key: &str, lazy: bool) -> Result<(), io::Error> {
		self.log.lock().unwrap().push(StoreOp::Remove(k(p, s, key), lazy));
		self.map.lock().unwrap().remove(&k(p, s, key));
		Ok(())
	}
	fn list(&self, p: &str, s: &str) -> Result<Vec<String>, io::Error> {
		Ok(self.map.lock().unwrap().keys().filter(|x| x.0 == p && x.1 == s).map(|x| x.2.clone()).collect())
	}
}

pub type Mup = MonitorUpdatingPersister<Arc<RecStore>, Arc<RingLogger>, Arc<Keys>, Arc<Keys>, Arc<Bcast>, Arc<Fee>>;

pub struct MupShadow {
	pub store: Arc<RecStore>,
	pub mup: Mup,
	pub max_pending: u64,
	/// in-memory monitor bytes as of (channel, latest update id), the latest write for that id wins
	pub snapshots: Mutex<HashMap<(ChannelId, u64), Vec<u8>>>,
	pub keys: Arc<Keys>,
	pub bcast: Arc<Bcast>,
	pub fee: Arc<Fee>,
	pub logger: Arc<RingLogger>,
	/// the asynchronous persister behind a shadow ChainMonitor (C19 d)
	pub asynchronous: crate::asyncshadow::AsyncShadow,
}

pub fn new_mup(store: Arc<RecStore>, idx: usize, cfg: &NodeCfg, fee_now: u32, max_pending: u64) -> (Mup, Arc<Keys>, Arc<Bcast>, Arc<Fee>, Arc<RingLogger>) {
	let (keys, bcast, fee, logger, _p, _m, _w) = quiet_parts(idx, cfg, fee_now, 0);
	(MonitorUpdatingPersister::new(store, logger.clone(), max_pending, keys.clone(), keys.clone(), bcast.clone(), fee.clone()), keys, bcast, fee, logger)
}

impl MupShadow {
	pub fn new(idx: usize, cfg: &NodeCfg, fee_now: u32, max_pending: u64) -> MupShadow {
		let store = Arc::new(RecStore::default());
		let (mup, keys, bcast, fee, logger) = new_mup(store.clone(), idx, cfg, fee_now, max_pending);
		MupShadow { store, mup, max_pending, snapshots: Mutex::new(HashMap::new()), keys, bcast, fee, logger, asynchronous: crate::asyncshadow::AsyncShadow::new(idx, cfg, fee_now, max_pending) }
	}
	fn done(&self, st: ChannelMonitorUpdateStatus, m: &ChannelMonitor<TapSigner>) {
		if st == ChannelMonitorUpdateStatus::Completed {
			self.store.log.lock().unwrap().push(StoreOp::Completed(m.channel_id(), m.get_latest_update_id()));
		}
	}
	pub fn persist_new(&self, n: MonitorName, m: &ChannelMonitor<TapSigner>) {
		use lightning::chain::chainmonitor::Persist;
		self.snapshots.lock().unwrap().insert((m.channel_id(), m.get_latest_update_id()), m.encode());
		let st = self.mup.persist_new_channel(n, m);
		self.done(st, m);
		self.asynchronous.persist_new(m);
	}
	pub fn update(&self, n: MonitorName, u: Option<&ChannelMonitorUpdate>, m: &ChannelMonitor<TapSigner>) {
		use lightning::chain::chainmonitor::Persist;
		self.snapshots.lock().unwrap().insert((m.channel_id(), m.get_latest_update_id()), m.encode());
		let st = self.mup.update_persisted_channel(n, u, m);
		self.done(st, m);
		self.asynchronous.update(u, m);
	}
	pub fn read_snapshot(&self, chan: ChannelId, id: u64) -> Option<ChannelMonitor<TapSigner>> {
		let b = self.snapshots.lock().unwrap().get(&(chan, id)).cloned()?;
		<(BlockLocator, ChannelMonitor<TapSigner>)>::read(&mut &b[..], (&*self.keys, &*self.keys)).ok().map(|x| x.1)
	}
}
