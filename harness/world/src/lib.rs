//! world simulator (see DESIGN.md §4)
