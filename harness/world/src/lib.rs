//! World simulator and property monitors (see DESIGN.md §3–§6).
pub mod chain;
pub mod chainequiv;
pub mod deadlines;
pub mod model;
pub mod monitors;
pub mod asyncshadow;
pub mod mupshadow;
pub mod node;
pub mod onchain;
pub mod openfork;
pub mod run;
pub mod sim;
pub mod taps;
pub mod wire;

/// Make every `std` hash map in the process (LDK uses `RandomState` in production builds)
/// deterministic: std asks the OS for hash keys through the `getrandom` symbol; defining it here
/// makes runs a pure function of the seed without touching the library under test.
/// Call `force_link()` from the binary so that the symbol is kept.
#[no_mangle]
pub unsafe extern "C" fn getrandom(buf: *mut u8, len: usize, _flags: u32) -> isize {
	for i in 0..len {
		*buf.add(i) = 0x5a ^ (i as u8).wrapping_mul(31);
	}
	len as isize
}
pub fn force_link() -> usize {
	getrandom as *const () as usize
}
