//! Scenario driver: builds a world from a seeded configuration, draws actions from a weighted
//! grammar, dispatches observations to the monitors and turns their verdicts into report entries
//! with replay files.
use crate::model::ChanType;
use crate::sim::Probe;
use crate::monitors::{Monitor, Verdicts};
use crate::node::NodeCfg;
use crate::sim::{Obs, World};
use lightning::util::config::{MaxDustHTLCExposure, UserConfig};
use std::sync::atomic::Ordering;
use vcore::{Args, Json, Report, Rng};

#[derive(Clone, Debug)]
pub struct Profile {
	pub prop: String,
	pub steps: usize,
	pub nodes: usize, // 2 = pair, 3 = line
	pub allow_async: bool,
	pub allow_deferred: bool,
	pub allow_disconnect: bool,
	pub allow_fee_updates: bool,
	pub allow_ticks: bool,
	pub coop_close_at_end: bool,
	pub multi_hop: bool,
	pub mid_settles: bool,
	pub allow_restart: bool,
	pub allow_force_close: bool,
	/// model of manager persistence: the scenario writes the manager out often (like a background processor)
	pub persist_manager_often: bool,
	/// two channels per edge of the line (multi-path payments, forwards from/to different channels)
	pub parallel: bool,
	/// payment workload: multi-part sends, sends that the recipient must refuse, duplicate payment ids,
	/// event handlers that refuse an event, timer ticks before the final quiescent point
	pub pay_workload: bool,
	/// after the off-chain steps a channel is closed unilaterally (latest or revoked commitment) and the
	/// chain is mined until every output has matured and been swept
	pub onchain: bool,
	/// copies of the nodes receive the same blocks in other legal delivery styles (C11)
	pub chain_equiv: bool,
	/// real reorganisations (competing forks of depth < 6) during the on-chain phase
	pub reorgs: bool,
	/// forwarding-deadline scenarios on a line of three nodes (C08)
	pub deadline_sweep: bool,
	/// run only this kind of deadline scenario
	pub deadline_kind: Option<u64>,
	/// on-chain scenarios in which the other party's manager is a block behind its monitor (see World::late_update)
	pub late_update: bool,
	/// every node also feeds a real MonitorUpdatingPersister over a recording store (C19 c)
	pub mup_shadow: bool,
	/// the chain forks while the first channel's funding transaction is young (see `openfork`)
	pub open_forks: bool,
}
impl Profile {
	pub fn for_prop(prop: &str, thorough: bool) -> Profile {
		let base = Profile { prop: prop.to_string(), steps: if thorough { 1500 } else { 600 }, nodes: 2, allow_async: false, allow_deferred: false, allow_disconnect: true, allow_fee_updates: true, allow_ticks: true, coop_close_at_end: true, multi_hop: false, mid_settles: true, allow_restart: false, allow_force_close: false, persist_manager_often: false, parallel: false, pay_workload: false, onchain: false, chain_equiv: false, reorgs: false, deadline_kind: None, late_update: false, deadline_sweep: false, mup_shadow: false, open_forks: false };
		match prop {
			"C01" => base,
			"C05" => Profile { allow_async: true, allow_restart: true, allow_force_close: true, ..base },
			"C09" => Profile { allow_async: true, allow_deferred: true, nodes: 3, multi_hop: true, allow_restart: true, ..base },
			"C02" => Profile { allow_async: true, allow_deferred: true, nodes: 3, multi_hop: true, allow_restart: true, parallel: true, pay_workload: true, ..base },
			"C03" => Profile { allow_async: true, nodes: 3, multi_hop: true, allow_restart: true, parallel: true, pay_workload: true, ..base },
			"C04" => Profile { allow_async: true, nodes: 3, multi_hop: true, parallel: true, pay_workload: true, ..base },
			"C12" => Profile { allow_async: true, allow_deferred: true, nodes: 3, multi_hop: true, allow_restart: true, allow_force_close: true, parallel: true, pay_workload: true, ..base },
			"C19" => Profile { mup_shadow: true, nodes: 3, multi_hop: true, parallel: true, pay_workload: true, allow_async: false, allow_force_close: true, ..base },
			"C08" => Profile { deadline_sweep: true, steps: 0, nodes: 3, multi_hop: true, allow_async: false, coop_close_at_end: false, ..base },
			"C11" => Profile { onchain: true, chain_equiv: true, reorgs: true, steps: if thorough { 200 } else { 120 }, allow_async: false, coop_close_at_end: false, mid_settles: true, ..base },
			"C06" | "C07" => Profile { onchain: true, reorgs: true, steps: if thorough { 260 } else { 160 }, allow_async: false, coop_close_at_end: false, mid_settles: true, ..base },
			"C10" => Profile { allow_async: true, allow_deferred: true, nodes: 3, multi_hop: true, allow_restart: true, persist_manager_often: true, ..base },
			_ => base,
		}
	}
}

pub struct Sim {
	pub w: World,
	pub mons: Vec<Box<dyn Monitor>>,
	pub commit_mon_idx: Option<usize>,
	pub raised: Vec<(String, String, String, String)>,
	pub label: String,
}

pub fn user_config(rng: &mut Rng, ctype: ChanType) -> UserConfig {
	let mut c = UserConfig::default();
	c.channel_handshake_config.announce_for_forwarding = false;
	c.channel_handshake_config.negotiate_anchors_zero_fee_htlc_tx = ctype == ChanType::Anchors;
	c.channel_handshake_config.negotiate_anchor_zero_fee_commitments = ctype == ChanType::ZeroFee;
	c.channel_handshake_config.minimum_depth = 1 + rng.below(3) as u32;
	c.channel_handshake_config.our_htlc_minimum_msat = *rng.pick(&[1u64, 1, 1000, 10_000]);
	c.channel_handshake_config.our_max_accepted_htlcs = *rng.pick(&[3u16, 6, 12, 50]);
	c.channel_handshake_config.unannounced_channel_max_inbound_htlc_value_in_flight_percentage = *rng.pick(&[10u8, 40, 100]);
	c.channel_handshake_config.their_channel_reserve_proportional_millionths = *rng.pick(&[10_000u32, 30_000, 100_000]);
	c.channel_handshake_limits.max_minimum_depth = 10;
	c.channel_config.forwarding_fee_base_msat = *rng.pick(&[0u32, 1, 1000]);
	c.channel_config.forwarding_fee_proportional_millionths = *rng.pick(&[0u32, 100, 10_000]);
	c.channel_config.cltv_expiry_delta = *rng.pick(&[48u16, 72, 144]);
	c.channel_config.max_dust_htlc_exposure = if rng.chance(1, 2) { MaxDustHTLCExposure::FeeRateMultiplier(*rng.pick(&[1_000u64, 10_000])) } else { MaxDustHTLCExposure::FixedLimitMsat(*rng.pick(&[500_000u64, 5_000_000, 50_000_000])) };
	c.accept_forwards_to_priv_channels = true;
	c
}

impl Sim {
	pub fn dispatch(&mut self, rep: &mut Report) {
		while let Some(o) = self.w.obs.pop_front() {
			let mut v = Verdicts { rep, run_label: &self.label, raised: std::mem::take(&mut self.raised) };
			for m in self.mons.iter_mut() {
				m.on_obs(&self.w, &o, &mut v);
			}
			self.raised = v.raised;
			if let Obs::Unhandled { node, what, .. } = &o {
				rep.note(format!("unhandled message event at node{}: {}", node, what));
				rep.count("harness_unhandled_message_events");
			}
		}
	}
	pub fn settled(&mut self, rep: &mut Report) {
		// hand probes registered by the scheduler to the commit monitor first
		let mut v = Verdicts { rep, run_label: &self.label, raised: std::mem::take(&mut self.raised) };
		for m in self.mons.iter_mut() {
			m.on_settled(&self.w, &mut v);
		}
		self.raised = v.raised;
	}
	pub fn midchain(&mut self, rep: &mut Report) {
		let mut v = Verdicts { rep, run_label: &self.label, raised: std::mem::take(&mut self.raised) };
		for m in self.mons.iter_mut() {
			m.on_midchain(&self.w, &mut v);
		}
		self.raised = v.raised;
	}
	pub fn end(&mut self, rep: &mut Report) {
		let mut v = Verdicts { rep, run_label: &self.label, raised: std::mem::take(&mut self.raised) };
		for m in self.mons.iter_mut() {
			m.on_end(&self.w, &mut v);
		}
		self.raised = v.raised;
	}
}

/// Everything needed to describe and (deterministically) re-run one run.
#[derive(Clone, Debug)]
pub struct RunId {
	pub seed: u64,
	pub run: u64,
}

pub fn amount_for(rng: &mut Rng, lo: u64, hi: u64) -> u64 {
	let dust_edge = 354_000u64;
	match rng.below(12) {
		0 | 1 => hi,
		2 => hi + 1,
		3 => lo,
		4 => lo.saturating_sub(1),
		5 => dust_edge + rng.below(3) * 1000 - 1000 + rng.below(2) * 999,
		6 => (hi / 2).max(lo),
		7 => hi.saturating_sub(rng.below(2000)),
		8 => hi + rng.below(50_000),
		9 => lo + rng.below(5_000_000).min(hi.saturating_sub(lo)),
		_ => lo + rng.below(400_000).min(hi.saturating_sub(lo)),
	}
}

/// One complete run. Returns the violations raised (already recorded in `rep`).
#[derive(Clone, Debug, Default)]
pub struct RunStats {
	/// durable writes (monitor persists) issued by each node during the run
	pub writes: Vec<u64>,
	pub crashed: bool,
}
/// A crash to inject: node `victim` dies at its `at_write`-th durable write.
#[derive(Clone, Copy, Debug)]
pub struct Crash {
	pub victim: usize,
	pub at_write: u64,
	pub second_after: Option<u64>,
}

pub fn run_one(args: &Args, prof: &Profile, run: u64, rep: &mut Report, make_monitors: &(dyn Fn() -> Vec<Box<dyn Monitor>> + Sync), crash: Option<Crash>) -> RunStats {
	// A fresh thread per run: std's per-thread hash-map key counter restarts, so that (with the
	// fixed `getrandom`) a run is a pure function of (seed, run index) whatever ran before it.
	std::thread::scope(|s| {
		std::thread::Builder::new().stack_size(256 << 20).spawn_scoped(s, || run_one_inner(args, prof, run, rep, make_monitors, crash)).expect("spawn").join().expect("run thread")
	})
}

fn run_one_inner(args: &Args, prof: &Profile, run: u64, rep: &mut Report, make_monitors: &(dyn Fn() -> Vec<Box<dyn Monitor>> + Sync), crash: Option<Crash>) -> RunStats {
	let mut rng = Rng::derive(args.seed, run, 0xC0FFEE);
	let trace = args.flag("trace");
	let ctype = *rng.pick(&[ChanType::Legacy, ChanType::Anchors, ChanType::Anchors, ChanType::ZeroFee]);
	let fee_now = if ctype == ChanType::Legacy { *rng.pick(&[253u32, 1000, 2500, 5000]) } else { *rng.pick(&[253u32, 500, 2000]) };
	let mut cfgs = vec![];
	let dust_exposure = if rng.chance(1, 2) { MaxDustHTLCExposure::FeeRateMultiplier(*rng.pick(&[1_000u64, 10_000])) } else { MaxDustHTLCExposure::FixedLimitMsat(*rng.pick(&[500_000u64, 5_000_000, 50_000_000])) };
	for i in 0..prof.nodes {
		let mut seed = [0u8; 32];
		seed[0] = i as u8 + 1;
		seed[1..9].copy_from_slice(&args.seed.to_le_bytes());
		seed[9..17].copy_from_slice(&run.to_le_bytes());
		let mut user = user_config(&mut rng, ctype);
		user.channel_config.max_dust_htlc_exposure = dust_exposure;
		if prof.pay_workload || prof.deadline_sweep {
			// LSP-style flows: forwards over intercept scids, recipients that accept a withheld fee
			user.htlc_interception_flags = 1;
			user.channel_config.accept_underpaying_htlcs = true;
		}
		cfgs.push(NodeCfg { user, deferred: prof.allow_deferred && rng.chance(1, 4), seed, epoch: 1000 * (i as u64 + 1), mup_max_pending: if prof.mup_shadow { Some(*rng.pick(&[0u64, 1, 2, 3, 5, 10])) } else { None } });
	}
	let label = format!("seed={} run={} type={:?} nodes={} fee={}", args.seed, run, ctype, prof.nodes, fee_now);
	if trace {
		eprintln!("=== RUN {}", label);
	}
	let w = World::new(rng.clone(), cfgs, fee_now, trace);
	let mut sim = Sim { w, mons: make_monitors(), commit_mon_idx: None, raised: vec![], label: label.clone() };
	let result = vcore::guarded(|| drive(&mut sim, prof, &mut rng, rep, ctype, crash));
	let mut outcome = "completed".to_string();
	match result {
		Ok(Ok(())) => {},
		Ok(Err(e)) => {
			outcome = format!("inconclusive: {}", e);
			rep.inconclusive(format!("{}: {}", label, e));
		},
		Err(p) if p.contains("some channel balance has been overdrawn") => {
			// Debug-only assertion in list_channels (ChannelDetails::from_channel): with HTLCs added concurrently
			// from both sides (including ones still in a holding cell) the funder may be unable to pay the
			// commitment fee - the protocol's known race. Release builds report zero limits and carry on, and
			// any real disagreement is caught by the commitment model / honest-failure rules. Observation.
			outcome = "ldk debug assertion (channel balance overdrawn)".to_string();
			rep.count("ldk_debug_assert_balance_overdrawn_observed");
		},
		Err(p) if p.contains("Non-event-generating channel freeing should not appear in our queue") => {
			// Debug-only assertion in ChannelManager::read: a FreeDuplicateClaimImmediately action was found in the
			// serialized monitor_update_blocked_actions. Release builds read the manager fine. Observation.
			outcome = "ldk debug assertion (FreeDuplicateClaimImmediately found in the persisted action queue)".to_string();
			rep.count("ldk_debug_assert_free_duplicate_claim_in_persisted_queue");
		},
		Err(p) if p.contains("skimmed_fee_msat must always be included in total_fee_earned_msat") => {
			// Debug-only assertion when building PaymentForwarded for an intercepted forward that withheld a fee
			// and whose upstream channel is closed: total_fee_earned_msat is None (on-chain claim, value unknown)
			// and the assertion compares Some(skim) <= None. Release builds emit the event. Observation.
			outcome = "ldk debug assertion (skimmed fee vs unknown total fee)".to_string();
			rep.count("ldk_debug_assert_skimmed_fee_with_unknown_total_fee");
		},
		Err(p) if p.contains("assertion failed: found_blocker") => {
			// Debug-only assertion in ChannelManager::claim_mpp_part / claim_funds_from_hop: a forwarded HTLC's
			// claim is replayed on start-up (or arrives twice) and takes the duplicate-claim path, whose
			// FreeDuplicateClaimImmediately action expects an RAA blocker on the downstream channel that the
			// reloaded manager does not hold. Release builds find nothing to remove and carry on. Observation.
			outcome = "ldk debug assertion (found_blocker on a duplicate forwarded claim)".to_string();
			rep.count("ldk_debug_assert_found_blocker_duplicate_claim");
		},
		Err(p) if p.contains("self.pending_claim_requests.get(&claim_id).is_none()") => {
			// Debug-only assertion in OnchainTxHandler::update_claims_view_from_requests: after a reload the
			// manager regenerates the ChannelForceClosed update of a closed anchor channel whose commitment has
			// not confirmed yet, and the monitor queues the same commitment-bump claim (same claim id) again.
			// Release builds overwrite the request and hand the user a second, identical bump event. Observation.
			outcome = "ldk debug assertion (duplicate claim id after reload)".to_string();
			rep.count("ldk_debug_assert_duplicate_claim_id_after_reload");
		},
		Err(p) if p.contains("HTLCs should be sorted") => {
			// Debug-only assertion in PaymentId::for_inbound_from_htlcs, reached from ChannelManager::read: a stale
			// manager still holds an MPP set that was incomplete (hence unsorted) when it was serialized, a newer
			// monitor holds the preimage of the completed payment, and begin_claiming_payment derives the inbound
			// payment id from the stale parts. Release builds read the manager and report the claim. Observation.
			outcome = "ldk debug assertion (unsorted parts of a stale claimable payment on reload)".to_string();
			rep.count("ldk_debug_assert_unsorted_stale_claimable_payment");
		},
		Err(p) => {
			outcome = format!("panic: {}", p);
			sim.raised.push((prof.prop.clone(), "P0-panic".into(), format!("panic during honest operation: {}", vcore::canon(&p)), format!("{} panicked: {}", label, p)));
		},
	}
	rep.evaluations += 1;
	if sim.raised.is_empty() {
		if rep.samples.len() < rep.max_samples && run % 7 == 0 {
			rep.sample(Json::obj().set("run", label.clone()).set("crash", format!("{:?}", crash)).set("outcome", outcome).set("last_actions", Json::Arr(sim.w.script.iter().rev().take(12).rev().map(|s| Json::Str(s.clone())).collect())));
		}
		return stats(&sim, crash);
	}
	// witness / replay file
	let body = Json::obj()
		.set("property", prof.prop.as_str())
		.set("seed", args.seed)
		.set("run", run)
		.set("label", label.clone())
		.set("violations", Json::Arr(sim.raised.iter().map(|r| Json::obj().set("property", r.0.as_str()).set("rule", r.1.as_str()).set("signature", r.2.as_str()).set("detail", r.3.as_str())).collect()))
		.set("actions_tail", Json::Arr(sim.w.script.iter().map(|s| Json::Str(s.clone())).collect()))
		.set("tap_tail", Json::Arr(sim.w.log.tail_text(80).into_iter().map(Json::Str).collect()))
		.set("ldk_log_tail", Json::Arr(sim.w.nodes.iter().flat_map(|n| n.logger.tail()).map(Json::Str).collect()))
		.set("crash", format!("{:?}", crash)).set("how_to_replay", format!("./check {} --seed {} only_run={} trace=1   (runs are a pure function of seed, run index and injected crash)", prof.prop, args.seed, run));
	let path = args.write_replay(&format!("{}-seed{}-run{}{}", sim.raised[0].1, args.seed, run, crash.map(|c| format!("-crash{}at{}", c.victim, c.at_write)).unwrap_or_default()), &body);
	for (p, rule, sig, detail) in sim.raised.drain(..) {
		rep.violation(&p, &rule, &sig, detail, Some(path.clone()));
	}
	stats(&sim, crash)
}

fn stats(sim: &Sim, crash: Option<Crash>) -> RunStats {
	RunStats { writes: sim.w.total_writes.iter().enumerate().map(|(i, w)| w - sim.w.writes_at_open.get(i).cloned().unwrap_or(0)).collect(), crashed: crash.is_some() && sim.w.crashes_handled > 0 }
}

fn drive(sim: &mut Sim, prof: &Profile, rng: &mut Rng, rep: &mut Report, ctype: ChanType, crash: Option<Crash>) -> Result<(), String> {
	let n = prof.nodes;
	let mut async_on = vec![false; n];
	// --- open channels: a line 0-1-2-... ---
	let edges: Vec<usize> = (0..n - 1).flat_map(|i| if prof.parallel { vec![i, i] } else { vec![i] }).collect();
	if prof.open_forks {
		sim.w.open_forks = true;
		sim.w.chain_equiv = prof.chain_equiv;
	}
	for i in edges {
		let mut value = *rng.pick(&[20_000u64, 50_000, 100_000, 400_000, 2_000_000]) + rng.below(10_000);
		let mut push = if rng.chance(1, 3) { 0 } else { rng.below(value * 1000 / 2) };
		if prof.deadline_sweep {
			// forwarding scenarios need liquidity in the forwarding direction on both channels
			value = value.max(400_000);
			push = value * 1000 / 2;
		}
		// under delayed-persistence profiles the opening handshake itself runs with async persisters,
		// random completion order and reconnects
		let chaos = (prof.allow_async || prof.allow_deferred) && rng.chance(1, 2);
		if chaos && prof.allow_async {
			for k in [i, i + 1] {
				if rng.chance(1, 2) && !async_on[k] {
					async_on[k] = true;
					sim.w.nodes[k].persister.async_mode.store(true, Ordering::SeqCst);
					sim.w.note(format!("ASYNC node{} persister returns InProgress from the start", k));
				}
			}
		}
		let r = sim.w.open_channel(i, i + 1, value, push, None, chaos);
		sim.dispatch(rep);
		match r {
			Ok(idx) => {
				if sim.w.open_paused.take().is_some() {
					crate::openfork::phase(sim, rng, rep, idx)?;
					sim.dispatch(rep);
					if !sim.raised.is_empty() {
						return Ok(());
					}
				}
			},
			Err(e) => {
				// a failed open of an honest channel is either a config the library legitimately refuses or a bug;
				// refuse-at-open is reported through API results, so look for an error message instead
				return Err(format!("channel open did not complete: {} (ctype {:?})", e, ctype));
			},
		}
	}
	rep.count("runs_with_channels_open");
	// crash points are counted from here on (unfunded channels may legitimately be dropped by a crash)
	if let Some(c) = crash {
		*sim.w.nodes[c.victim].persister.crash_after.lock().unwrap() = Some(c.at_write);
	}
	sim.w.writes_at_open = sim.w.total_writes.clone();
	if prof.allow_restart {
		for k in 0..n {
			sim.w.snapshot(k);
		}
	}
	let mut disconnected: Vec<(usize, usize)> = vec![];
	let mut expired_done = false;
	let mut short_expiry_sent = false;
	let mut mined = 0u32;
	for _s in 0..prof.steps {
		sim.w.step += 1;
		let pw = if prof.pay_workload { 1 } else { 0 };
		let act = rng.weighted(&[40, 14, 10, 8, 8, 8, 2, 3, 2, 1, 2, 2, 1, 2, 1, 1, if prof.allow_restart { 2 } else { 0 }, 5 * pw, 4 * pw, 2 * pw, 3 * pw, if prof.multi_hop { 2 * pw } else { 0 }]);
		match act {
			0 => {
				// deliver one message from a random non-empty queue
				let mut qs = vec![];
				for a in 0..n {
					for b in 0..n {
						if a != b && sim.w.queue_len(a, b) > 0 {
							qs.push((a, b));
						}
					}
				}
				if !qs.is_empty() {
					let (a, b) = *rng.pick(&qs);
					sim.w.deliver_one(a, b);
				}
			},
			1 => {
				// send a payment
				let src = rng.below(n as u64) as usize;
				let mut dst = rng.below(n as u64) as usize;
				if dst == src {
					dst = (src + 1) % n;
				}
				if !prof.multi_hop && (src as i64 - dst as i64).abs() != 1 {
					dst = if src + 1 < n { src + 1 } else { src - 1 };
				}
				// path along the line
				let mut chans = vec![];
				let mut cur = src;
				while cur != dst {
					let next = if dst > cur { cur + 1 } else { cur - 1 };
					let c = sim.w.chan_between(cur, next);
					if c.is_empty() || sim.w.chans[c[0]].closed || !sim.w.chans[c[0]].ready {
						chans.clear();
						break;
					}
					chans.push(c[0]);
					cur = next;
				}
				if chans.is_empty() {
					continue;
				}
				let first = chans[0];
				let cid = sim.w.chans[first].chan_id();
				let det = sim.w.nodes[src].mgr.list_usable_channels().into_iter().find(|c| c.channel_id == cid);
				let det = match det {
					Some(d) => d,
					None => continue,
				};
				let (lo, hi) = (det.next_outbound_htlc_minimum_msat, det.next_outbound_htlc_limit_msat);
				let direct = chans.len() == 1;
				let amt = if direct { amount_for(rng, lo, hi).max(1) } else { (lo + rng.below((hi / 2).max(1))).max(1000) };
				// quiet = nothing in flight on this channel in either direction, nothing unpersisted
				let peer = sim.w.chans[first].peer_of(src);
				let quiet = direct && sim.w.queue_len(src, peer) == 0 && sim.w.queue_len(peer, src) == 0 && sim.w.is_connected(src, peer) && sim.w.chans[first].model.as_ref().map(|m| !m.has_pending_updates()).unwrap_or(false) && sim.w.nodes[src].persister.pending().is_empty() && sim.w.nodes[peer].persister.pending().is_empty() && sim.w.nodes[src].mon.pending_operation_count() == 0 && sim.w.nodes[peer].mon.pending_operation_count() == 0
					// nothing waiting in either side's holding cell (workload steering only: the verdict never reads this)
					&& det.pending_inbound_htlcs.is_empty() && det.pending_outbound_htlcs.is_empty()
					// nothing under way anywhere that the peer may be about to forward into this channel (with three nodes an
					// HTLC from the far side can enter it in the opposite direction while the probe is in flight, which the
					// sender cannot know about; the receiver then rightly counts it against the fee-spike buffer)
					&& (n == 2 || ((0..n).all(|x| (0..n).all(|y| x == y || sim.w.queue_len(x, y) == 0)) && sim.w.chans.iter().all(|c| c.closed || c.model.as_ref().map(|m| !m.has_pending_updates()).unwrap_or(true)) && (0..n).all(|x| !sim.w.nodes[x].mgr.needs_pending_htlc_processing() && sim.w.nodes[x].persister.pending().is_empty())))
					&& sim.w.nodes[peer].mgr.list_channels().iter().filter(|c| c.channel_id == cid).all(|c| c.pending_inbound_htlcs.is_empty() && c.pending_outbound_htlcs.is_empty());
				// a focused probe needs a channel on which nothing at all is pending – also no event whose handling
				// releases a held monitor update (and with it a queued fee update): hand out the events, look again
				let (quiet, lo, hi, amt) = if quiet {
					sim.w.process_events(src);
					sim.w.process_events(peer);
					let det2 = sim.w.nodes[src].mgr.list_usable_channels().into_iter().find(|c| c.channel_id == cid);
					let still = det2.is_some() && sim.w.queue_len(src, peer) == 0 && sim.w.queue_len(peer, src) == 0 && sim.w.chans[first].model.as_ref().map(|m| !m.has_pending_updates()).unwrap_or(false) && sim.w.nodes[src].persister.pending().is_empty() && sim.w.nodes[peer].persister.pending().is_empty();
					match det2 {
						Some(d2) if still && d2.next_outbound_htlc_limit_msat == hi && d2.next_outbound_htlc_minimum_msat == lo => (true, lo, hi, amt),
						_ => (false, lo, hi, amt),
					}
				} else {
					(quiet, lo, hi, amt)
				};
				sim.w.note(format!("SEND node{}->node{} amt={} limits=[{},{}] hops={} quiet={}", src, dst, amt, lo, hi, chans.len(), quiet));
				let probe = if direct { Some(Probe { step: sim.w.step, node: src, chan: first, dst, min: lo, limit: hi, amount: amt, quiet, hash: [0; 32], add_seen: None, claimable_seen: false, failed_back: false, judged: false }) } else { None };
				let r = sim.w.send_payment(src, &[(chans.clone(), amt)], 80, None, probe);
				if quiet {
					// focused limit probe: nothing else happens on the channel until the recipient has decided
					let ok = sim.w.settle(60);
					sim.dispatch(rep);
					if ok {
						rep.count("settle_points_reached");
						sim.settled(rep);
					}
				}
				let _ = r;
			},
			2 => {
				let k = rng.below(n as u64) as usize;
				sim.w.process_events(k);
			},
			3 => {
				let k = rng.below(n as u64) as usize;
				sim.w.process_forwards(k);
			},
			4 => {
				if !sim.w.claimable.is_empty() {
					let k = rng.below(sim.w.claimable.len() as u64) as usize;
					if rng.chance(1, 4) {
						sim.w.note(format!("FAILBACK claimable {}", k));
						sim.w.fail_back(k);
					} else {
						sim.w.note(format!("CLAIM claimable {}", k));
						sim.w.claim(k);
					}
				}
			},
			5 => {
				// complete one in-flight monitor update: first, last or random
				let k = rng.below(n as u64) as usize;
				let pend = sim.w.nodes[k].persister.pending().len();
				if pend > 0 {
					let pos = match rng.below(3) {
						0 => 0,
						1 => pend - 1,
						_ => rng.below(pend as u64) as usize,
					};
					sim.w.note(format!("COMPLETE node{} in-flight write {} of {}", k, pos, pend));
					sim.w.complete_update(k, pos);
				}
				let dp = sim.w.nodes[k].mon.pending_operation_count();
				if dp > 0 {
					let cnt = 1 + rng.below(dp as u64) as usize;
					sim.w.note(format!("FLUSH node{} {} of {} deferred operations", k, cnt, dp));
					sim.w.flush_deferred(k, cnt);
				}
			},
			6 => {
				if prof.allow_async {
					let k = rng.below(n as u64) as usize;
					if !async_on[k] && rng.chance(1, 3) {
						async_on[k] = true;
						sim.w.nodes[k].persister.async_mode.store(true, Ordering::SeqCst);
						sim.w.note(format!("ASYNC node{} persister now returns InProgress", k));
					}
				}
			},
			7 => {
				if prof.allow_disconnect {
					let a = rng.below(n as u64 - 1) as usize;
					let b = a + 1;
					if sim.w.is_connected(a, b) {
						sim.w.note(format!("DISCONNECT node{} node{}", a, b));
						sim.w.disconnect(a, b);
						if rng.chance(2, 3) {
							sim.w.note(format!("RECONNECT node{} node{}", a, b));
							sim.w.connect(a, b);
						} else {
							disconnected.push((a, b));
						}
					}
				}
			},
			8 => {
				if let Some((a, b)) = disconnected.pop() {
					sim.w.note(format!("RECONNECT node{} node{}", a, b));
					sim.w.connect(a, b);
				}
			},
			9 => {
				if prof.allow_ticks {
					let k = rng.below(n as u64) as usize;
					sim.w.note(format!("TICK node{}", k));
					sim.w.obs.push_back(Obs::Api { step: sim.w.step, node: k, call: "timer_tick".into(), result: String::new() });
					sim.w.nodes[k].mgr.timer_tick_occurred();
					sim.w.pump(k);
				}
			},
			10 => {
				if prof.allow_fee_updates && ctype != ChanType::ZeroFee {
					let k = rng.below(n as u64) as usize;
					let cur = sim.w.nodes[k].fee.0.load(Ordering::SeqCst);
					let new = match rng.below(4) {
						0 => cur * 2,
						1 => (cur / 2).max(253),
						2 => cur + 250,
						_ => cur.saturating_sub(100).max(253),
					}
					.min(5_000);
					sim.w.note(format!("FEE level {} -> {} (all estimators), timer tick at node{}", cur, new, k));
					for i in 0..n {
						sim.w.nodes[i].set_fee(new);
					}
					sim.w.fee_now = new;
					sim.w.nodes[k].mgr.timer_tick_occurred();
					sim.w.pump(k);
				}
			},
			11 => {
				if mined < 12 && rng.chance(1, 2) {
					mined += 1;
					sim.w.note("MINE 1 block".to_string());
					sim.w.mine(1);
				}
			},
			12 => {
				if prof.mid_settles {
					sim.w.note("SETTLE".to_string());
					disconnected.clear();
					let ok = sim.w.settle(60);
					sim.dispatch(rep);
								if ok {
						rep.count("settle_points_reached");
						sim.settled(rep);
					} else {
						rep.count("settle_budget_exhausted");
					}
				}
			},
			13 => {
				if prof.allow_restart {
					let k = rng.below(n as u64) as usize;
					sim.w.note(format!("SNAPSHOT manager of node{}", k));
					sim.w.snapshot(k);
				}
			},
			14 => {
				if prof.allow_restart && rng.chance(1, 2) {
					let k = rng.below(n as u64) as usize;
					let nsnaps = sim.w.nodes[k].snapshots.len();
					// manager: serialized now (no lag) or one of the stored snapshots (any lag)
					let snap = if nsnaps == 0 || rng.chance(1, 2) { None } else { Some(rng.below(nsnaps as u64) as usize) };
					let pend = sim.w.nodes[k].persister.pending().len();
					let reached: Vec<bool> = (0..pend).map(|_| rng.chance(1, 2)).collect();
					sim.w.note(format!("RESTART node{} manager={:?} in-flight writes reached disk={:?}", k, snap, reached));
					let keep_async = async_on[k] && rng.chance(3, 4);
					async_on[k] = keep_async;
					match sim.w.restart(k, snap, &reached) {
						Ok(stale) => {
							if keep_async {
								sim.w.nodes[k].persister.async_mode.store(true, Ordering::SeqCst);
							}
							rep.count("restarts");
							if !stale.is_empty() {
								rep.count("restarts_with_stale_manager");
							}
							if pend > 0 {
								rep.count("restarts_with_in_flight_writes");
							}
							for p in 0..n {
								if p != k && !sim.w.chan_between(k, p).is_empty() && !disconnected.contains(&(k.min(p), k.max(p))) {
									sim.w.connect(k, p);
								}
							}
						},
						Err(e) => {
							sim.raised.push(("C10".into(), "S1-reload".into(), format!("reload from persisted state failed: {}", vcore::canon(&e)), format!("node{} snapshot {:?}: {}", k, snap, e)));
						},
					}
				}
			},
			16 => {
				// restart in the middle of an update dance: deliver part of a queued batch, restart the receiver
				// from a manager serialized right then (no lag), reconnect, and let it act before the
				// retransmissions have been processed
				let mut qs = vec![];
				for a in 0..n {
					for b in 0..n {
						if a != b && sim.w.queue_len(a, b) > 0 {
							qs.push((a, b));
						}
					}
				}
				if !qs.is_empty() {
					let (a, b) = *rng.pick(&qs);
					let k = 1 + rng.below(sim.w.queue_len(a, b) as u64) as usize;
					for _ in 0..k.saturating_sub(rng.below(2) as usize).max(1) {
						sim.w.deliver_one(a, b);
					}
					sim.dispatch(rep);
					if sim.raised.is_empty() && !sim.w.any_dead() {
						let pend = sim.w.nodes[b].persister.pending().len();
						let reached: Vec<bool> = (0..pend).map(|_| rng.chance(1, 2)).collect();
						// (in a third of them – where restarts from older managers are part of the profile – the manager is the
						// most recently stored snapshot instead: slightly stale, in the middle of a dance)
						let nsnaps = sim.w.nodes[b].snapshots.len();
						// (switched off: late in a run the channels such a restart closes as stale do not get through their
						// on-chain resolution before the final quiescent point is judged – see DESIGN.md 0.5)
						let snap: Option<usize> = if false && prof.allow_restart && nsnaps > 0 && rng.chance(1, 3) { Some(nsnaps - 1) } else { None };
						sim.w.note(format!("MID-DANCE RESTART node{} ({}) after partial delivery from node{}", b, if snap.is_some() { "most recent stored manager" } else { "manager serialized now" }, a));
						let keep_async = async_on[b];
						match sim.w.restart(b, snap, &reached) {
							Ok(stale) => {
								rep.count("restarts");
								rep.count("mid_dance_restarts");
								if !stale.is_empty() {
									rep.count("restarts_with_stale_manager");
									rep.count("mid_dance_restarts_with_stale_manager");
								}
								if keep_async {
									sim.w.nodes[b].persister.async_mode.store(true, Ordering::SeqCst);
								}
								for p in 0..n {
									if p != b && !sim.w.chan_between(b, p).is_empty() {
										sim.w.connect(b, p);
									}
								}
								// let the channel_reestablish exchange happen (first message each way), then the restarted
								// node acts before the peer's retransmissions are processed
								if rng.chance(3, 4) {
									sim.w.deliver_one(a, b);
									sim.w.deliver_one(b, a);
									sim.w.process_events(b);
								}
								let c = sim.w.chan_between(a, b);
								if !c.is_empty() && sim.w.chans[c[0]].ready && !sim.w.chans[c[0]].closed && rng.chance(2, 3) {
									let cid = sim.w.chans[c[0]].chan_id();
									if let Some(det) = sim.w.nodes[b].mgr.list_usable_channels().into_iter().find(|d| d.channel_id == cid) {
										let amt = det.next_outbound_htlc_minimum_msat.max(1000).min(det.next_outbound_htlc_limit_msat);
										if amt > 0 {
											sim.w.note(format!("SEND node{}->node{} amt={} right after the restart", b, a, amt));
											let _ = sim.w.send_payment(b, &[(vec![c[0]], amt)], 80, None, None);
										}
									}
								}
							},
							Err(e) => {
								sim.raised.push(("C10".into(), "S1-reload".into(), format!("reload from persisted state failed: {}", vcore::canon(&e)), format!("node{} manager serialized now: {}", b, e)));
							},
						}
					}
				}
			},
			17 => {
				// multi-part payment over the parallel channels
				let src = rng.below(n as u64) as usize;
				let mut dst = rng.below(n as u64) as usize;
				if dst == src {
					dst = (src + 1) % n;
				}
				let nparts = 2 + rng.below(2) as usize;
				let mut parts: Vec<(Vec<usize>, u64)> = vec![];
				for _ in 0..nparts {
					let mut chans = vec![];
					let mut cur = src;
					while cur != dst {
						let next = if dst > cur { cur + 1 } else { cur - 1 };
						let c: Vec<usize> = sim.w.chan_between(cur, next).into_iter().filter(|c| !sim.w.chans[*c].closed && sim.w.chans[*c].ready).collect();
						if c.is_empty() {
							chans.clear();
							break;
						}
						chans.push(*rng.pick(&c));
						cur = next;
					}
					if chans.is_empty() {
						break;
					}
					let cid = sim.w.chans[chans[0]].chan_id();
					let hi = sim.w.nodes[src].mgr.list_usable_channels().into_iter().find(|c| c.channel_id == cid).map(|d| d.next_outbound_htlc_limit_msat).unwrap_or(0);
					let amt = (1000 + rng.below((hi / 4).max(1))).min(hi.max(1));
					parts.push((chans, amt));
				}
				if parts.len() >= 2 {
					sim.w.note(format!("SEND-MPP node{}->node{} parts={:?}", src, dst, parts));
					let _ = sim.w.send_payment_ex(src, &parts, 80, crate::sim::SendOpts { class: "mpp", ..Default::default() }, None);
				}
			},
			18 => {
				// a send that the recipient must refuse, or a staged multi-part payment
				let src = rng.below(n as u64) as usize;
				let mut dst = rng.below(n as u64) as usize;
				if dst == src {
					dst = (src + 1) % n;
				}
				let mut chans = vec![];
				let mut cur = src;
				while cur != dst {
					let next = if dst > cur { cur + 1 } else { cur - 1 };
					let c: Vec<usize> = sim.w.chan_between(cur, next).into_iter().filter(|c| !sim.w.chans[*c].closed && sim.w.chans[*c].ready).collect();
					if c.is_empty() {
						chans.clear();
						break;
					}
					chans.push(*rng.pick(&c));
					cur = next;
				}
				if chans.is_empty() {
					continue;
				}
				let cid = sim.w.chans[chans[0]].chan_id();
				let hi = sim.w.nodes[src].mgr.list_usable_channels().into_iter().find(|c| c.channel_id == cid).map(|d| d.next_outbound_htlc_limit_msat).unwrap_or(0);
				if hi < 10_000 {
					continue;
				}
				let amt = 2000 + rng.below((hi / 4).max(1));
				use crate::sim::SendOpts;
				let other_reg = sim.w.regs.iter().rev().find(|r| r.dst == dst).map(|r| r.idx);
				let staged: Option<usize> = sim.w.payments.iter().rev().find(|p| p.class == "staged-mpp" && p.dst == dst && p.src == src && sim.w.step - p.step < 40 && !sim.w.payments.iter().any(|q| q.reg == p.reg && q.class == "staged-mpp-2")).map(|p| p.idx);
				let opts = match rng.below(8) {
					// (once per run, while nothing is on chain: fifteen blocks pass; MIN_FINAL_CLTV_EXPIRY_DELTA is 42)
					0 | 1 if !expired_done && !short_expiry_sent && sim.w.chans.iter().all(|c| !c.closed) && rng.chance(1, 3) => {
						expired_done = true;
						rep.count("c04_expired_secret_sends");
						SendOpts { expired: Some(if rng.chance(2, 3) { Some(*rng.pick(&[45u16, 60, 80])) } else { None }), class: "expired-secret", ..Default::default() }
					},
					5 | 6 | 7 if chans.len() == 2 && rng.chance(1, 3) => {
						// what the forwarder is left with deviates from its advertised policy by one unit (or by all of it)
						let fwd = sim.w.chans[chans[0]].peer_of(src);
						let (fee, delta) = sim.w.forwarding_fee(fwd, chans[1], amt);
						match rng.below(5) {
							0 => { rep.count("c02_f1_forwards_offered_one_msat_below_the_fee"); SendOpts { skimp_fee: Some(-1), class: "underpaid-fee", ..Default::default() } },
							1 => { rep.count("c02_f1_forwards_offered_without_a_fee"); SendOpts { skimp_fee: Some(-(fee as i64)), class: "underpaid-fee", ..Default::default() } },
							2 => { rep.count("c02_f1_forwards_offered_one_block_below_the_delta"); SendOpts { skimp_delta: Some(-1), class: "short-delta", ..Default::default() } },
							3 => { rep.count("c02_f1_forwards_offered_without_a_delta"); SendOpts { skimp_delta: Some(-(delta as i32)), class: "short-delta", ..Default::default() } },
							_ => { rep.count("c02_f1_forwards_offered_above_the_policy"); SendOpts { skimp_fee: Some(1 + rng.below(1000) as i64), skimp_delta: Some(rng.below(3) as i32), class: "overpaid-forward", ..Default::default() } },
						}
					},
					6 | 7 if rng.chance(1, 2) => {
						rep.count("c04_spontaneous_payments_sent");
						SendOpts { keysend: true, class: "keysend", ..Default::default() }
					},
					0 => SendOpts { secret_flip: Some(rng.below(256) as u8), class: "wrong-secret", ..Default::default() },
					1 if other_reg.is_some() => SendOpts { secret_of_reg: other_reg, class: "foreign-secret", ..Default::default() },
					2 => SendOpts { min_value: Some(amt + *rng.pick(&[1u64, 2, 1000, amt])), class: "underpaid", ..Default::default() },
					3 => SendOpts { declared_total: Some(amt + *rng.pick(&[1u64, 1000, amt])), class: "incomplete-mpp", ..Default::default() },
					4 | 5 if staged.is_none() => SendOpts { declared_total: Some(amt * 2), min_value: Some(amt * 2), class: "staged-mpp", ..Default::default() },
					_ => match staged {
						Some(k) => SendOpts { reg: Some(sim.w.payments[k].reg), declared_total: Some(sim.w.payments[k].declared_total), class: "staged-mpp-2", ..Default::default() },
						None if chans.len() == 2 => SendOpts { intercept: true, class: "intercepted", ..Default::default() },
						None => SendOpts { min_value: Some(amt), class: "exact-registered-amount", ..Default::default() },
					},
				};
				let amt = if let (Some(k), "staged-mpp-2") = (staged, opts.class) { sim.w.payments[k].declared_total - sim.w.payments[k].amt } else { amt };
				// a sixth of the ordinary single sends pays a registration made with a custom minimum final CLTV delta D,
				// with a final delta of D-2 (too short by one block once the sender's +1 is counted: must be refused), D-1, D or D+5
				let (opts, final_cltv) = if opts.class == "exact-registered-amount" && chans.len() == 1 && rng.chance(1, 2) {
					// (deltas of 60 and more: with the dozen blocks a random run mines, a claimed HTLC is never within the
					// recipient's go-on-chain distance of its expiry while its fulfilment is still on the wire; and the
					// fifteen-block burst of the expired-secret class does not follow such a send)
					short_expiry_sent = true;
					let d = *rng.pick(&[60u16, 100, 144]);
					let off = *rng.pick(&[-2i32, -2, -1, 0, 5]);
					rep.count(if off <= -2 { "c04_sends_below_a_custom_final_cltv_delta" } else { "c04_sends_at_or_above_a_custom_final_cltv_delta" });
					(SendOpts { custom_final: Some(d), class: if off <= -2 { "short-final-cltv" } else { "custom-final-cltv" }, ..Default::default() }, (d as i32 + off) as u32)
				} else {
					(opts, 80)
				};
				sim.w.note(format!("SEND-{} node{}->node{} amt={} via {:?} final cltv delta {}", opts.class, src, dst, amt, chans, final_cltv));
				let _ = sim.w.send_payment_ex(src, &[(chans, amt)], final_cltv, opts, None);
			},
			19 => {
				// a second send under the id of an earlier payment
				if !sim.w.payments.is_empty() {
					let lo = sim.w.payments.len().saturating_sub(6);
					let k = lo + rng.below((sim.w.payments.len() - lo) as u64) as usize;
					let p = &sim.w.payments[k];
					if rng.chance(1, 3) {
						// the user gives the payment up: nothing more is sent for it, and once its HTLCs are resolved it
						// must end like any other payment (PaymentFailed, or PaymentSent if a part was claimed after all)
						let (src, id) = (p.src, p.id);
						sim.w.note(format!("ABANDON payment#{}", k));
						sim.w.nodes[src].mgr.abandon_payment(id);
						sim.w.drain_taps();
						sim.w.obs.push_back(crate::sim::Obs::Api { step: sim.w.step, node: src, call: format!("abandon_payment#{}", k), result: String::new() });
						rep.count("c03_payments_abandoned_by_the_user");
					} else if p.parts.iter().all(|(cs, _)| cs.iter().all(|c| !sim.w.chans[*c].closed)) && !sim.w.nodes[p.src].persister.dead.load(Ordering::SeqCst) {
						sim.w.note(format!("DUP-SEND payment#{} again under the same id", k));
						sim.w.dup_send(k);
					}
				}
			},
			21 => {
				// forward burst: several payments across the line over random parallel channels reach the recipient,
				// which then claims them all at once; the fulfils travel back under the random scheduler (monitor
				// writes of the forwarder completing in any order)
				let (src, dst) = if rng.chance(1, 2) { (0, n - 1) } else { (n - 1, 0) };
				let k = 2 + rng.below(3);
				let mut sent = 0;
				for _ in 0..k {
					let mut chans = vec![];
					let mut cur = src;
					while cur != dst {
						let next = if dst > cur { cur + 1 } else { cur - 1 };
						let c: Vec<usize> = sim.w.chan_between(cur, next).into_iter().filter(|c| !sim.w.chans[*c].closed && sim.w.chans[*c].ready).collect();
						if c.is_empty() {
							chans.clear();
							break;
						}
						chans.push(*rng.pick(&c));
						cur = next;
					}
					if chans.len() < 2 {
						break;
					}
					let cid = sim.w.chans[chans[0]].chan_id();
					let hi = sim.w.nodes[src].mgr.list_usable_channels().into_iter().find(|c| c.channel_id == cid).map(|d| d.next_outbound_htlc_limit_msat).unwrap_or(0);
					if hi < 3_000_000 {
						continue;
					}
					let amt = 1_000_000 + rng.below(hi / 10);
					if sim.w.send_payment_ex(src, &[(chans, amt)], 80, crate::sim::SendOpts { class: "burst", ..Default::default() }, None).is_ok() {
						sent += 1;
					}
				}
				if sent >= 2 {
					sim.w.note(format!("FORWARD-BURST {} payments node{}->node{}, then the recipient claims them all", sent, src, dst));
					let ok = sim.w.settle(40);
					sim.dispatch(rep);
					if ok {
						rep.count("settle_points_reached");
						sim.settled(rep);
						rep.count("forward_bursts");
						// the forwarder's monitor writes complete newest-first for a while
						if prof.allow_async && n == 3 && !async_on[1] && rng.chance(2, 3) {
							async_on[1] = true;
							sim.w.nodes[1].persister.async_mode.store(true, Ordering::SeqCst);
							sim.w.note("ASYNC node1 persister now returns InProgress".to_string());
						}
						while let Some(pos) = sim.w.claimable.iter().position(|c| c.node == dst) {
							sim.w.claim(pos);
						}
						if async_on.get(1).cloned().unwrap_or(false) && rng.chance(2, 3) {
							for _ in 0..(10 + rng.below(30)) {
								sim.w.deliver_all(3);
								for k in 0..n {
									sim.w.process_events(k);
								}
								let pend = sim.w.nodes[1].persister.pending().len();
								if pend > 0 {
									let pos = if rng.chance(3, 4) { pend - 1 } else { rng.below(pend as u64) as usize };
									sim.w.complete_update(1, pos);
								}
								sim.dispatch(rep);
								if !sim.raised.is_empty() {
									break;
								}
							}
						}
					}
				}
			},
			20 => {
				// an event handler that refuses one event (it must be replayed)
				let k = rng.below(n as u64) as usize;
				let at = rng.below(3) as usize;
				sim.w.note(format!("EVENTS node{} with the handler refusing event {}", k, at));
				sim.w.process_events_failing(k, at);
			},
			_ => {
				if prof.allow_force_close && rng.chance(1, 3) {
					let open: Vec<usize> = sim.w.chans.iter().filter(|c| !c.closed && c.ready).map(|c| c.idx).collect();
					if !open.is_empty() {
						let ci = *rng.pick(&open);
						let closer = if rng.chance(1, 2) { sim.w.chans[ci].a } else { sim.w.chans[ci].b };
						let peer = sim.w.chans[ci].peer_of(closer);
						let cid = sim.w.chans[ci].chan_id();
						let pid = sim.w.nodes[peer].id;
						sim.w.chans[ci].fault = Some("user force-close".into());
						sim.w.note(format!("FORCE-CLOSE chan {} by node{}", ci, closer));
						let r = sim.w.nodes[closer].mgr.force_close_broadcasting_latest_txn(&cid, &pid, "harness force close".to_string());
						sim.w.obs.push_back(Obs::Api { step: sim.w.step, node: closer, call: "force_close".into(), result: format!("{:?}", r) });
						sim.w.drain_taps();
						sim.w.pump(closer);
						sim.w.process_events(closer);
						rep.count("user_force_closes");
					}
				}
			},
		}
		sim.dispatch(rep);
		let busy = sim.w.chans.iter().any(|c| !c.closed && c.ready && c.model.as_ref().map(|m| m.pending_htlcs().len() >= 2).unwrap_or(false));
		if prof.onchain && rng.chance(1, if busy { 3 } else { 12 }) {
			let open: Vec<usize> = sim.w.chans.iter().filter(|c| !c.closed && c.ready).map(|c| c.idx).collect();
			if !open.is_empty() {
				let ci = *rng.pick(&open);
				let node = if rng.chance(1, 2) { sim.w.chans[ci].a } else { sim.w.chans[ci].b };
				crate::onchain::capture(sim, node, ci);
				sim.dispatch(rep);
			}
		}
		if prof.persist_manager_often {
			for k in 0..n {
				if sim.w.nodes[k].mgr.get_and_clear_needs_persistence() && rng.chance(2, 3) && !sim.w.nodes[k].persister.dead.load(Ordering::SeqCst) {
					sim.w.snapshot(k);
				}
			}
		}
		handle_crashes(sim, rng, rep, &mut async_on, crash)?;
		sim.dispatch(rep);
		if !sim.raised.is_empty() {
			return Ok(()); // first violation is the witness; stop the run
		}
		if sim.w.chans.iter().all(|c| c.closed) {
			break;
		}
	}
	if prof.deadline_sweep {
		sim.w.step += 1;
		crate::deadlines::phase(sim, rng, rep, prof.deadline_kind)?;
		sim.dispatch(rep);
		sim.end(rep);
		return Ok(());
	}
	if prof.onchain {
		sim.w.step += 1;
		sim.w.chain_equiv = prof.chain_equiv;
		sim.w.reorgs = prof.reorgs;
		sim.w.late_update = prof.late_update;
		sim.w.justice_focus = prof.prop == "C06";
		crate::onchain::phase(sim, rng, rep)?;
		sim.dispatch(rep);
		sim.end(rep);
		return Ok(());
	}
	// final quiescence
	sim.w.step += 1;
	sim.w.note("FINAL SETTLE".to_string());
	let mut ok = sim.w.settle(100);
	if ok && prof.pay_workload && !sim.w.any_dead() {
		// let multi-part timeouts run out and the holding cells drain before the last judgement
		sim.dispatch(rep);
		for _ in 0..5 {
			for k in 0..n {
				sim.w.obs.push_back(Obs::Api { step: sim.w.step, node: k, call: "timer_tick".into(), result: String::new() });
				sim.w.nodes[k].mgr.timer_tick_occurred();
				sim.w.nodes[k].mgr.process_pending_htlc_forwards();
				sim.w.pump(k);
			}
			ok = sim.w.settle(100);
			sim.dispatch(rep);
			if !ok {
				break;
			}
		}
	}
	sim.dispatch(rep);
	if !ok && sim.w.any_dead() {
		// the armed crash fired during the final settle: recover and settle again
		handle_crashes(sim, rng, rep, &mut async_on, crash)?;
		sim.dispatch(rep);
		ok = sim.w.settle(100);
		sim.dispatch(rep);
		if !ok && sim.w.any_dead() {
			handle_crashes(sim, rng, rep, &mut async_on, crash)?;
			ok = sim.w.settle(100);
			sim.dispatch(rep);
		}
	}
	if ok {
		rep.count("settle_points_reached");
		rep.count("runs_settled_at_end");
		for m in sim.mons.iter_mut() {
			m.before_final_settle();
		}
		sim.settled(rep);
	} else {
		rep.count("settle_budget_exhausted");
	}
	if ok && prof.pay_workload && sim.raised.is_empty() && !prof.allow_restart {
		deadline_endgame(sim, rng, rep);
	}
	if ok && prof.coop_close_at_end && sim.raised.is_empty() {
		coop_close_all(sim, rng, rep);
	}
	sim.end(rep);
	Ok(())
}

/// A node whose persister was told to die at its n-th write is dead now: restart it from what is on
/// disk – the most recently persisted manager and the durable monitors, each in-flight write
/// having independently reached the disk or not.
fn handle_crashes(sim: &mut Sim, rng: &mut Rng, rep: &mut Report, async_on: &mut [bool], crash: Option<Crash>) -> Result<(), String> {
	for k in 0..sim.w.nodes.len() {
		if !sim.w.nodes[k].persister.dead.load(Ordering::SeqCst) {
			continue;
		}
		let nsnaps = sim.w.nodes[k].snapshots.len();
		if nsnaps == 0 {
			return Err("crash before the first manager persist (not explored)".into());
		}
		let pend = sim.w.nodes[k].persister.pending().len();
		let reached: Vec<bool> = (0..pend).map(|_| rng.chance(1, 2)).collect();
		// the latest persisted manager, or (more lag) an older one
		let snap = if rng.chance(3, 4) { nsnaps - 1 } else { rng.below(nsnaps as u64) as usize };
		sim.w.step += 1;
		sim.w.note(format!("CRASH node{} died at its armed durable write; restart from manager snapshot {} of {}, in-flight writes reached disk={:?}", k, snap, nsnaps, reached));
		let keep_async = async_on[k];
		match sim.w.restart(k, Some(snap), &reached) {
			Ok(stale) => {
				sim.w.crashes_handled += 1;
				rep.count("crash_restarts");
				if !stale.is_empty() {
					rep.count("crash_restarts_with_stale_manager");
				}
				if keep_async {
					sim.w.nodes[k].persister.async_mode.store(true, Ordering::SeqCst);
				}
				if let Some(c) = crash {
					if let (Some(n2), true) = (c.second_after, sim.w.crashes_handled == 1) {
						*sim.w.nodes[k].persister.crash_after.lock().unwrap() = Some(n2);
						rep.count("second_crashes_armed");
					}
				}
				for p in 0..sim.w.nodes.len() {
					if p != k && !sim.w.chan_between(k, p).is_empty() {
						sim.w.connect(k, p);
					}
				}
			},
			Err(e) => {
				sim.raised.push(("C10".into(), "S1-reload".into(), format!("reload from persisted state failed: {}", vcore::canon(&e)), format!("node{} after crash, snapshot {}: {}", k, snap, e)));
			},
		}
	}
	Ok(())
}

/// Claim-deadline sweep: a payment (one or two parts with different expiries, close to the minimum
/// final CLTV) is left claimable while blocks are mined up to a chosen distance from the advertised
/// claim deadline; then the user claims. Judged by the payment monitor (I2, I4).
fn deadline_endgame(sim: &mut Sim, rng: &mut Rng, rep: &mut Report) {
	while !sim.w.claimable.is_empty() {
		sim.w.claim(0);
	}
	if !sim.w.settle(60) {
		sim.dispatch(rep);
		return;
	}
	sim.dispatch(rep);
	let n = sim.w.nodes.len();
	let src = rng.below(n as u64 - 1) as usize;
	let (src, dst) = if rng.chance(1, 2) { (src, src + 1) } else { (src + 1, src) };
	let cs: Vec<usize> = sim.w.chan_between(src, dst).into_iter().filter(|c| !sim.w.chans[*c].closed && sim.w.chans[*c].ready && sim.w.chans[*c].fault.is_none()).collect();
	if cs.is_empty() {
		return;
	}
	let usable = sim.w.nodes[src].mgr.list_usable_channels();
	let mut parts: Vec<(Vec<usize>, u64)> = vec![];
	let mut cltvs = vec![];
	let nparts = 1 + rng.below(2) as usize;
	for k in 0..nparts {
		let c = cs[k % cs.len()];
		let cid = sim.w.chans[c].chan_id();
		let hi = usable.iter().find(|d| d.channel_id == cid).map(|d| d.next_outbound_htlc_limit_msat).unwrap_or(0);
		if hi < 2_000_000 {
			continue;
		}
		parts.push((vec![c], 1_000_000 + rng.below(hi / 4)));
		cltvs.push(42 + rng.below(5) as u32);
	}
	if parts.is_empty() {
		return;
	}
	sim.w.step += 1;
	sim.w.note(format!("DEADLINE-ENDGAME node{}->node{} parts={:?} final cltv deltas {:?}", src, dst, parts, cltvs));
	if sim.w.send_payment_ex(src, &parts, cltvs[0], crate::sim::SendOpts { part_cltv: Some(cltvs.clone()), class: "deadline", ..Default::default() }, None).is_err() {
		sim.dispatch(rep);
		return;
	}
	let ok = sim.w.settle(60);
	sim.dispatch(rep);
	if !ok {
		return;
	}
	sim.settled(rep);
	let c = match sim.w.claimable.iter().position(|c| c.node == dst) {
		Some(k) => sim.w.claimable[k].clone(),
		None => {
			rep.count("deadline_endgame_not_claimable");
			return;
		},
	};
	let deadline = match c.deadline {
		Some(d) => d,
		None => return,
	};
	let k: i64 = *rng.pick(&[3i64, 2, 1, 1, 0, 0, -1, -2]);
	let target = (deadline as i64 - k) as u32;
	let mut guard = 0;
	while sim.w.chain.height() < target && guard < 60 {
		guard += 1;
		sim.w.mine(1);
		let ok = sim.w.settle(40);
		sim.dispatch(rep);
		if !ok {
			return;
		}
	}
	sim.w.step += 1;
	sim.w.note(format!("DEADLINE-ENDGAME claim at height {} (deadline {})", sim.w.chain.height(), deadline));
	rep.count("deadline_endgames");
	if sim.w.chain.height() < deadline {
		rep.count("deadline_endgame_claims_below_deadline");
	} else {
		rep.count("deadline_endgame_claims_at_or_after_deadline");
	}
	if let Some(pos) = sim.w.claimable.iter().position(|x| x.hash == c.hash) {
		sim.w.claim(pos);
	}
	let ok = sim.w.settle(60);
	sim.dispatch(rep);
	if ok {
		sim.settled(rep);
	}
}

fn coop_close_all(sim: &mut Sim, rng: &mut Rng, rep: &mut Report) {
	// claim/fail everything still claimable first so that no HTLC is pending
	while !sim.w.claimable.is_empty() {
		sim.w.claim(0);
	}
	if !sim.w.settle(60) {
		sim.dispatch(rep);
		return;
	}
	sim.dispatch(rep);
	for ci in 0..sim.w.chans.len() {
		if sim.w.chans[ci].closed || sim.w.chans[ci].fault.is_some() {
			continue;
		}
		let closer = if rng.chance(1, 2) { sim.w.chans[ci].a } else { sim.w.chans[ci].b };
		let peer = sim.w.chans[ci].peer_of(closer);
		let cid = sim.w.chans[ci].chan_id();
		let pid = sim.w.nodes[peer].id;
		sim.w.chans[ci].coop_close_started = true;
		sim.w.step += 1;
		sim.w.note(format!("COOP-CLOSE chan {} by node{}", ci, closer));
		let r = sim.w.nodes[closer].mgr.close_channel(&cid, &pid);
		if r.is_err() {
			rep.count("coop_close_refused");
			continue;
		}
		sim.w.pump(closer);
		let ok = sim.w.settle(60);
		sim.dispatch(rep);
		if ok {
			sim.w.mine(1);
			sim.w.settle(20);
			sim.dispatch(rep);
			if sim.w.chans[ci].closed {
				rep.count("coop_closes_completed");
			}
		}
	}
}
