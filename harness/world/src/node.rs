//! One LDK node built on the production feature set: ChannelManager + ChainMonitor + taps.
use crate::taps::*;
use bitcoin::secp256k1::PublicKey;
use bitcoin::Network;
use lightning::chain::chainmonitor::ChainMonitor;
use lightning::chain::channelmonitor::ChannelMonitor;
use lightning::chain::BlockLocator;
use lightning::events::{Event, EventsProvider, ReplayEvent};
use lightning::ln::channelmanager::{ChainParameters, ChannelManager, ChannelManagerReadArgs};
use lightning::ln::types::ChannelId;
use lightning::sign::{KeysManager, NodeSigner};
use lightning::util::config::UserConfig;
use lightning::util::ser::{ReadableArgs, Writeable};
use std::sync::atomic::{AtomicBool, AtomicU32, Ordering};
use std::sync::{Arc, Mutex};

pub type Mgr = ChannelManager<Arc<WatchTap>, Arc<Bcast>, Arc<Keys>, Arc<Keys>, Arc<Keys>, Arc<Fee>, Arc<NoRouter>, Arc<NoRouter>, Arc<RingLogger>>;


#[derive(Clone, Debug)]
pub struct NodeCfg {
	pub user: UserConfig,
	pub deferred: bool,
	pub seed: [u8; 32],
	/// KeysManager starting times must be unique per instance (documented contract): base for this
	/// node, to which the restart generation is added. Derived from (run, node) so that a run is a
	/// pure function of its seed.
	pub epoch: u64,
	/// run a MonitorUpdatingPersister with this `maximum_pending_updates` next to the model disk (C19)
	pub mup_max_pending: Option<u64>,
}

pub struct Node {
	pub idx: usize,
	pub cfg: NodeCfg,
	pub mgr: Mgr,
	pub mon: Arc<ChainMon>,
	pub watch: Arc<WatchTap>,
	pub keys: Arc<Keys>,
	pub persister: Arc<Persister>,
	pub bcast: Arc<Bcast>,
	pub fee: Arc<Fee>,
	pub logger: Arc<RingLogger>,
	pub router: Arc<NoRouter>,
	pub id: PublicKey,
	/// manager snapshots taken by the scenario: (step, bytes)
	pub snapshots: Vec<(u64, Vec<u8>)>,
	pub generation: u64,
}

fn parts(idx: usize, cfg: &NodeCfg, log: &Arc<EvLog>, fee_now: u32, disk: Option<Disk>, generation: u64) -> (Arc<Keys>, Arc<Bcast>, Arc<Fee>, Arc<RingLogger>, Arc<Persister>, Arc<ChainMon>, Arc<WatchTap>) {
	let epoch = cfg.epoch + generation;
	let keys = Arc::new(Keys { km: KeysManager::new(&cfg.seed, 1_700_000_000 + epoch, epoch as u32, true), log: log.clone(), node: idx });
	let bcast = Arc::new(Bcast { log: log.clone(), node: idx, queue: Mutex::new(vec![]), dead: AtomicBool::new(false) });
	let fee = Arc::new(Fee(AtomicU32::new(fee_now)));
	let logger = Arc::new(RingLogger::new(idx));
	let persister = Arc::new(Persister::new(log.clone(), idx));
	if let Some(d) = disk {
		// write sequence numbers keep growing across restarts (they order writes on the model disk)
		let next = d.durable.values().map(|w| w.seq + 1).max().unwrap_or(0);
		persister.seq.store(next, Ordering::SeqCst);
		*persister.disk.lock().unwrap() = d;
	}
	let mon: Arc<ChainMon> = Arc::new(ChainMonitor::new(None, bcast.clone(), logger.clone(), fee.clone(), persister.clone(), keys.clone(), keys.get_peer_storage_key(), cfg.deferred));
	let watch = Arc::new(WatchTap { inner: mon.clone(), log: log.clone(), node: idx });
	(keys, bcast, fee, logger, persister, mon, watch)
}

/// The same objects a node is built from, wired to a private event log: for shadow copies that must
/// not disturb what the monitors observe.
pub fn quiet_parts(idx: usize, cfg: &NodeCfg, fee_now: u32, generation: u64) -> (Arc<Keys>, Arc<Bcast>, Arc<Fee>, Arc<RingLogger>, Arc<Persister>, Arc<ChainMon>, Arc<WatchTap>) {
	parts(idx, cfg, &Arc::new(EvLog::default()), fee_now, None, generation)
}

impl Node {
	pub fn new(idx: usize, cfg: NodeCfg, log: &Arc<EvLog>, fee_now: u32, best: BlockLocator) -> Node {
		let (keys, bcast, fee, logger, persister, mon, watch) = parts(idx, &cfg, log, fee_now, None, 0);
		let params = ChainParameters { network: Network::Regtest, best_block: best };
		let router = Arc::new(NoRouter::default());
		let mgr = ChannelManager::new(fee.clone(), watch.clone(), bcast.clone(), router.clone(), Arc::new(NoRouter::default()), logger.clone(), keys.clone(), keys.clone(), keys.clone(), cfg.user.clone(), params, 1_700_000_000);
		let id = mgr.get_our_node_id();
		if let Some(mp) = cfg.mup_max_pending {
			*persister.shadow.lock().unwrap() = Some(Arc::new(crate::mupshadow::MupShadow::new(idx, &cfg, fee_now, mp)));
		}
		Node { idx, cfg, mgr, mon, watch, keys, persister, bcast, fee, logger, router, id, snapshots: vec![], generation: 0 }
	}

	/// Rebuild a node from a serialized manager and the given monitor bytes (one per channel).
	/// `disk` becomes the new persister's disk (durable state survives, in-flight writes do not).
	pub fn reload(idx: usize, cfg: NodeCfg, log: &Arc<EvLog>, fee_now: u32, mgr_bytes: &[u8], monitors: &[(ChannelId, Vec<u8>)], disk: Disk, generation: u64) -> Result<Node, String> {
		let (keys, bcast, fee, logger, persister, mon, watch) = parts(idx, &cfg, log, fee_now, Some(disk), generation);
		let mut mons: Vec<(ChannelId, ChannelMonitor<TapSigner>)> = vec![];
		for (cid, bytes) in monitors {
			let (_bl, m) = <(BlockLocator, ChannelMonitor<TapSigner>)>::read(&mut &bytes[..], (&*keys, &*keys)).map_err(|e| format!("ChannelMonitor read failed: {:?}", e))?;
			mons.push((*cid, m));
		}
		let refs: Vec<&ChannelMonitor<TapSigner>> = mons.iter().map(|(_, m)| m).collect();
		let router = Arc::new(NoRouter::default());
		let args = ChannelManagerReadArgs::new(keys.clone(), keys.clone(), keys.clone(), fee.clone(), watch.clone(), bcast.clone(), router.clone(), Arc::new(NoRouter::default()), logger.clone(), cfg.user.clone(), refs);
		let (_bl, mgr) = <(BlockLocator, Mgr)>::read(&mut &mgr_bytes[..], args).map_err(|e| format!("ChannelManager read failed: {:?}", e))?;
		for (cid, m) in mons {
			mon.load_existing_monitor(cid, m).map_err(|_| "load_existing_monitor failed".to_string())?;
		}
		let id = mgr.get_our_node_id();
		Ok(Node { idx, cfg, mgr, mon, watch, keys, persister, bcast, fee, logger, router, id, snapshots: vec![], generation })
	}

	pub fn events(&self) -> Vec<Event> {
		let v = std::cell::RefCell::new(vec![]);
		self.mgr.process_pending_events(&|e: Event| {
			v.borrow_mut().push(e);
			Ok::<(), ReplayEvent>(())
		});
		v.into_inner()
	}
	/// Process events with a handler that fails the event at position `fail_at` (it must be replayed).
	pub fn events_failing(&self, fail_at: usize) -> Vec<Event> {
		let v = std::cell::RefCell::new(vec![]);
		let n = std::cell::Cell::new(0usize);
		self.mgr.process_pending_events(&|e: Event| {
			let i = n.get();
			n.set(i + 1);
			if i == fail_at {
				return Err(ReplayEvent());
			}
			v.borrow_mut().push(e);
			Ok(())
		});
		v.into_inner()
	}
	/// Handle pending events, refusing (once) the first one `refuse` picks. Returns what was handled and
	/// whether an event was refused.
	pub fn events_refusing(&self, refuse: &dyn Fn(&Event) -> bool) -> (Vec<Event>, bool) {
		let v = std::cell::RefCell::new(vec![]);
		let refused = std::cell::Cell::new(false);
		self.mgr.process_pending_events(&|e: Event| {
			if !refused.get() && refuse(&e) {
				refused.set(true);
				return Err(ReplayEvent());
			}
			v.borrow_mut().push(e);
			Ok(())
		});
		(v.into_inner(), refused.get())
	}
	pub fn monitor_events(&self) -> Vec<Event> {
		let v = std::cell::RefCell::new(vec![]);
		self.mon.process_pending_events(&|e: Event| {
			v.borrow_mut().push(e);
			Ok::<(), ReplayEvent>(())
		});
		v.into_inner()
	}
	pub fn snapshot(&mut self, step: u64) {
		let bytes = self.mgr.encode();
		self.snapshots.push((step, bytes));
		if self.snapshots.len() > 8 {
			self.snapshots.remove(0);
		}
	}
	pub fn set_fee(&self, f: u32) {
		self.fee.0.store(f, Ordering::SeqCst);
	}
}
