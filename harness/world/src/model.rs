//! Independent BOLT-2/3 reference model of one channel, driven only by the messages each side
//! *emits* (plus, for commitment_signed, the commitment number seen at the signer tap so that a
//! retransmission is recognised). Parties are 0 (the opener/funder) and 1.
//!
//! Stages of an update sent by S to R (BOLT-2): pending on R's commitment when sent; in R's
//! commitment from S's next commitment_signed; acked by R's revoke_and_ack; in S's commitment
//! from R's next commitment_signed; irrevocable after S's revoke_and_ack for that.
use crate::taps::HtlcInfo;
use crate::wire::Wire;

#[derive(Clone, Copy, Debug, PartialEq, Eq)]
pub enum ChanType {
	Legacy,
	Anchors,
	ZeroFee,
}
#[derive(Clone, Copy, PartialEq, Eq, Debug)]
pub enum Kind {
	Add,
	Fulfill,
	Fail,
	Fee,
}
#[derive(Clone, Debug)]
pub struct Upd {
	pub sender: usize,
	pub kind: Kind,
	pub htlc_owner: usize,
	pub htlc_id: u64,
	pub amount_msat: u64,
	pub hash: [u8; 32],
	pub cltv: u32,
	pub feerate: u32,
	pub in_recv_commit: bool,
	pub acked: bool,
	pub in_sender_commit: bool,
	pub irrevocable: bool,
	recv_cs_seq: u64,
	sender_cs_seq: u64,
}
#[derive(Clone, Debug)]
pub struct Params {
	pub value_sat: u64,
	pub funder: usize,
	pub open_msat: [u64; 2],
	/// dust limit each party chose for *its own* commitment
	pub dust: [u64; 2],
	pub ctype: ChanType,
	pub feerate: u32,
}
#[derive(Clone, Debug)]
pub struct Expected {
	pub to_broadcaster_sat: u64,
	pub to_countersignatory_sat: u64,
	pub nondust: Vec<HtlcInfo>,
	pub dust_msat: u64,
	pub n_dust: usize,
	pub feerate: u32,
	pub out_sum: u64,
	pub bal_msat: [u64; 2],
}
#[derive(Clone, Debug)]
pub struct Model {
	pub p: Params,
	pub upds: Vec<Upd>,
	/// balances with every irrevocably resolved HTLC folded in
	pub base_msat: [u64; 2],
	pub base_feerate: u32,
	cs_count: [u64; 2],
	raa_count: [u64; 2],
	last_cs_num: [u64; 2],
	last_raa: [[u8; 32]; 2],
	pub retransmissions: u64,
	pub commitments_signed: u64,
	/// (owner, id) of HTLCs irrevocably removed, with outcome: true = fulfilled
	pub resolved: Vec<(usize, u64, bool, u64, [u8; 32])>,
}

#[derive(Clone, Copy, Debug, PartialEq, Eq)]
pub enum HtlcPhase {
	Unknown,
	/// add sent, not yet irrevocably committed
	Adding,
	/// add irrevocably committed on both sides, no removal sent
	Committed,
	/// a removal has been sent but is not irrevocable yet
	Removing { fulfilled: bool },
	/// removal irrevocable
	Resolved { fulfilled: bool },
}

impl Model {
	pub fn new(p: Params) -> Model {
		let base = p.open_msat;
		let f = p.feerate;
		Model { p, upds: vec![], base_msat: base, base_feerate: f, cs_count: [0; 2], raa_count: [0; 2], last_cs_num: [u64::MAX; 2], last_raa: [[0; 32]; 2], retransmissions: 0, commitments_signed: 0, resolved: vec![] }
	}
	fn applied_to(u: &Upd, party: usize) -> bool {
		if u.sender == party {
			u.in_sender_commit
		} else {
			u.in_recv_commit
		}
	}
	/// The commitment transaction of `party` (the broadcaster) as of the updates applied to it now.
	pub fn expected(&self, party: usize) -> Result<Expected, String> {
		let other = 1 - party;
		let mut bal = [self.base_msat[0] as i128, self.base_msat[1] as i128];
		let mut htlcs: Vec<(usize, u64, u64, [u8; 32], u32)> = vec![];
		let mut feerate = self.base_feerate;
		for u in self.upds.iter().filter(|u| Self::applied_to(u, party)) {
			match u.kind {
				Kind::Add => {
					bal[u.sender] -= u.amount_msat as i128;
					htlcs.push((u.sender, u.htlc_id, u.amount_msat, u.hash, u.cltv));
				},
				Kind::Fee => feerate = u.feerate,
				_ => {},
			}
		}
		for u in self.upds.iter().filter(|u| (u.kind == Kind::Fulfill || u.kind == Kind::Fail) && Self::applied_to(u, party)) {
			let pos = match htlcs.iter().position(|h| h.0 == u.htlc_owner && h.1 == u.htlc_id) {
				Some(p) => p,
				None => return Err(format!("model: removal of htlc ({},{}) which is not in party {}'s commitment", u.htlc_owner, u.htlc_id, party)),
			};
			let h = htlcs.remove(pos);
			if u.kind == Kind::Fulfill {
				bal[u.sender] += h.2 as i128
			} else {
				bal[h.0] += h.2 as i128
			}
		}
		if bal[0] < 0 || bal[1] < 0 {
			return Err(format!("model: negative balance {:?}", bal));
		}
		let (succ_w, to_w, base_w) = match self.p.ctype {
			ChanType::Anchors => (706u64, 666u64, 1124u64),
			_ => (703, 663, 724),
		};
		let zero_htlc_fee = self.p.ctype != ChanType::Legacy;
		let mut nondust = vec![];
		let mut dust_msat = 0u64;
		let mut n_dust = 0;
		for h in htlcs.iter() {
			let offered = h.0 == party;
			let fee = if zero_htlc_fee { 0 } else { feerate as u64 * (if offered { to_w } else { succ_w }) / 1000 };
			if h.2 / 1000 < self.p.dust[party] + fee {
				dust_msat += h.2;
				n_dust += 1;
			} else {
				nondust.push(HtlcInfo { offered, amount_msat: h.2, hash: h.3, cltv: h.4 });
			}
		}
		let commit_fee = feerate as u64 * (base_w + 172 * nondust.len() as u64) / 1000;
		let anchors_sat = if self.p.ctype == ChanType::Anchors { 660 } else { 0 };
		let mut b = [bal[0] as u64, bal[1] as u64];
		b[self.p.funder] = b[self.p.funder].saturating_sub(anchors_sat * 1000);
		let mut sat = [b[0] / 1000, b[1] / 1000];
		sat[self.p.funder] = sat[self.p.funder].saturating_sub(commit_fee);
		let to_b = if sat[party] >= self.p.dust[party] { sat[party] } else { 0 };
		let to_c = if sat[other] >= self.p.dust[party] { sat[other] } else { 0 };
		let htlc_sum: u64 = nondust.iter().map(|h| h.amount_msat / 1000).sum();
		let mut out_sum = to_b + to_c + htlc_sum;
		match self.p.ctype {
			ChanType::Anchors => {
				if to_b > 0 || !nondust.is_empty() {
					out_sum += 330;
				}
				if to_c > 0 || !nondust.is_empty() {
					out_sum += 330;
				}
			},
			ChanType::ZeroFee => {
				let trimmed = self.p.value_sat - htlc_sum - to_b - to_c;
				out_sum += trimmed.min(240);
			},
			ChanType::Legacy => {},
		}
		Ok(Expected { to_broadcaster_sat: to_b, to_countersignatory_sat: to_c, nondust, dust_msat, n_dust, feerate, out_sum, bal_msat: [bal[0] as u64, bal[1] as u64] })
	}

	fn find(&self, sender: usize, removal: bool, owner: usize, id: u64) -> bool {
		self.upds.iter().any(|u| u.sender == sender && u.htlc_owner == owner && u.htlc_id == id && ((u.kind == Kind::Add) != removal) && u.kind != Kind::Fee)
	}
	fn blank(sender: usize, kind: Kind, owner: usize, id: u64) -> Upd {
		Upd { sender, kind, htlc_owner: owner, htlc_id: id, amount_msat: 0, hash: [0; 32], cltv: 0, feerate: 0, in_recv_commit: false, acked: false, in_sender_commit: false, irrevocable: false, recv_cs_seq: 0, sender_cs_seq: 0 }
	}
	/// Feed one message emitted by `sender`. For commitment_signed pass the number of the
	/// commitment it covers (from the signer tap). Returns true if the message was a
	/// retransmission of something already accounted for.
	pub fn on_emit(&mut self, sender: usize, w: &Wire, cs_num: Option<u64>) -> bool {
		match w {
			Wire::Add(m) => {
				if self.find(sender, false, sender, m.htlc_id) || self.resolved.iter().any(|r| r.0 == sender && r.1 == m.htlc_id) {
					self.retransmissions += 1;
					return true;
				}
				let mut u = Self::blank(sender, Kind::Add, sender, m.htlc_id);
				u.amount_msat = m.amount_msat;
				u.hash = m.payment_hash.0;
				u.cltv = m.cltv_expiry;
				self.upds.push(u);
			},
			Wire::Fulfill(_) | Wire::Fail(_) | Wire::FailMal(_) => {
				let (id, kind) = match w {
					Wire::Fulfill(m) => (m.htlc_id, Kind::Fulfill),
					Wire::Fail(m) => (m.htlc_id, Kind::Fail),
					Wire::FailMal(m) => (m.htlc_id, Kind::Fail),
					_ => unreachable!(),
				};
				let owner = 1 - sender;
				if self.find(sender, true, owner, id) || self.resolved.iter().any(|r| r.0 == owner && r.1 == id) {
					self.retransmissions += 1;
					return true;
				}
				self.upds.push(Self::blank(sender, kind, owner, id));
			},
			Wire::Fee(m) => {
				// a re-sent update_fee (same feerate, not yet acked) is a retransmission
				if self.upds.iter().any(|u| u.kind == Kind::Fee && u.sender == sender && u.feerate == m.feerate_per_kw && !u.acked) {
					self.retransmissions += 1;
					return true;
				}
				let mut u = Self::blank(sender, Kind::Fee, sender, u64::MAX);
				u.feerate = m.feerate_per_kw;
				self.upds.push(u);
			},
			Wire::CS(_) => {
				let num = cs_num.expect("commitment_signed without signer tap event");
				if num == self.last_cs_num[sender] {
					self.retransmissions += 1;
					return true;
				}
				self.last_cs_num[sender] = num;
				self.cs_count[sender] += 1;
				self.commitments_signed += 1;
				let seq = self.cs_count[sender];
				for u in self.upds.iter_mut() {
					if u.sender == sender && !u.in_recv_commit {
						u.in_recv_commit = true;
						u.recv_cs_seq = seq;
					} else if u.sender != sender && u.acked && !u.in_sender_commit {
						u.in_sender_commit = true;
						u.sender_cs_seq = seq;
					}
				}
			},
			Wire::RAA(m) => {
				if m.per_commitment_secret == self.last_raa[sender] {
					self.retransmissions += 1;
					return true;
				}
				self.last_raa[sender] = m.per_commitment_secret;
				self.raa_count[sender] += 1;
				let k = self.raa_count[sender];
				for u in self.upds.iter_mut() {
					if u.sender != sender && u.in_recv_commit && u.recv_cs_seq <= k {
						u.acked = true;
					}
					if u.sender == sender && u.in_sender_commit && u.sender_cs_seq <= k {
						u.irrevocable = true;
					}
				}
				self.fold();
			},
			_ => {},
		}
		false
	}
	/// Fold irrevocably resolved HTLCs and fee updates into the base state.
	fn fold(&mut self) {
		let done: Vec<(usize, u64, bool, usize)> = self.upds.iter().filter(|u| (u.kind == Kind::Fulfill || u.kind == Kind::Fail) && u.irrevocable).map(|u| (u.htlc_owner, u.htlc_id, u.kind == Kind::Fulfill, u.sender)).collect();
		for (owner, id, fulfilled, remover) in done {
			if let Some(pos) = self.upds.iter().position(|u| u.kind == Kind::Add && u.htlc_owner == owner && u.htlc_id == id) {
				let add = self.upds.remove(pos);
				self.base_msat[owner] -= add.amount_msat;
				if fulfilled {
					self.base_msat[remover] += add.amount_msat;
				} else {
					self.base_msat[owner] += add.amount_msat;
				}
				self.resolved.push((owner, id, fulfilled, add.amount_msat, add.hash));
				if self.resolved.len() > 4000 {
					self.resolved.drain(..2000);
				}
			}
			self.upds.retain(|u| !((u.kind == Kind::Fulfill || u.kind == Kind::Fail) && u.htlc_owner == owner && u.htlc_id == id));
		}
		// oldest fee update irrevocable => becomes the base feerate
		while let Some(pos) = self.upds.iter().position(|u| u.kind == Kind::Fee) {
			if self.upds[pos].irrevocable {
				self.base_feerate = self.upds[pos].feerate;
				self.upds.remove(pos);
			} else {
				break;
			}
		}
	}
	pub fn phase(&self, owner: usize, id: u64) -> HtlcPhase {
		if let Some(r) = self.resolved.iter().find(|r| r.0 == owner && r.1 == id) {
			return HtlcPhase::Resolved { fulfilled: r.2 };
		}
		let add = self.upds.iter().find(|u| u.kind == Kind::Add && u.htlc_owner == owner && u.htlc_id == id);
		let rem = self.upds.iter().find(|u| (u.kind == Kind::Fulfill || u.kind == Kind::Fail) && u.htlc_owner == owner && u.htlc_id == id);
		match (add, rem) {
			(None, _) => HtlcPhase::Unknown,
			(Some(_), Some(r)) => HtlcPhase::Removing { fulfilled: r.kind == Kind::Fulfill },
			(Some(a), None) => {
				if a.irrevocable {
					HtlcPhase::Committed
				} else {
					HtlcPhase::Adding
				}
			},
		}
	}
	/// HTLCs (owner, id, amount, hash) not yet irrevocably resolved.
	pub fn pending_htlcs(&self) -> Vec<(usize, u64, u64, [u8; 32], u32)> {
		self.upds.iter().filter(|u| u.kind == Kind::Add).map(|u| (u.htlc_owner, u.htlc_id, u.amount_msat, u.hash, u.cltv)).collect()
	}
	pub fn has_pending_updates(&self) -> bool {
		!self.upds.is_empty()
	}
	/// Abstract state vector for "distinct case" hashing.
	pub fn shape(&self) -> (usize, usize, usize, usize) {
		let adds = self.upds.iter().filter(|u| u.kind == Kind::Add).count();
		let rem = self.upds.iter().filter(|u| u.kind == Kind::Fulfill || u.kind == Kind::Fail).count();
		let fee = self.upds.iter().filter(|u| u.kind == Kind::Fee).count();
		let unacked = self.upds.iter().filter(|u| u.in_recv_commit && !u.acked).count();
		(adds, rem, fee, unacked)
	}
}
