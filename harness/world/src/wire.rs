//! Wire messages between nodes. One `MessageSendEvent::UpdateHTLCs` is linearised exactly as
//! `PeerManager::process_events` does: fulfils, fails, malformed fails, then adds, then update_fee,
//! then commitment_signed – each message delivered separately by the scheduler.
use crate::node::Node;
use bitcoin::secp256k1::PublicKey;
use lightning::ln::msgs::{self, BaseMessageHandler, ChannelMessageHandler, ErrorAction, MessageSendEvent};
use lightning::ln::types::ChannelId;

#[derive(Clone, Debug)]
pub enum Wire {
	Open(msgs::OpenChannel),
	Accept(msgs::AcceptChannel),
	Created(msgs::FundingCreated),
	Signed(msgs::FundingSigned),
	Ready(msgs::ChannelReady),
	Add(msgs::UpdateAddHTLC),
	Fulfill(msgs::UpdateFulfillHTLC),
	Fail(msgs::UpdateFailHTLC),
	FailMal(msgs::UpdateFailMalformedHTLC),
	Fee(msgs::UpdateFee),
	CS(msgs::CommitmentSigned),
	RAA(msgs::RevokeAndACK),
	Reest(msgs::ChannelReestablish),
	Shutdown(msgs::Shutdown),
	ClosingSigned(msgs::ClosingSigned),
	AnnSigs(msgs::AnnouncementSignatures),
	ChanUpdate(msgs::ChannelUpdate),
	Error(msgs::ErrorMessage),
	Warning(msgs::WarningMessage),
	PeerStorage(msgs::PeerStorage),
	PeerStorageRetrieval(msgs::PeerStorageRetrieval),
}

/// What popping one MessageSendEvent produced.
pub enum Popped {
	/// messages for `to`
	Msgs(PublicKey, Vec<Wire>),
	/// the node asks to disconnect `to` (optionally after sending a message)
	Disconnect(PublicKey, Option<Wire>),
	/// broadcast gossip etc.: ignored
	Nothing,
	/// something the harness does not model (never expected in our scenarios)
	Unhandled(String),
}

pub fn split(ev: MessageSendEvent) -> Popped {
	use MessageSendEvent::*;
	match ev {
		SendOpenChannel { node_id, msg } => Popped::Msgs(node_id, vec![Wire::Open(msg)]),
		SendAcceptChannel { node_id, msg } => Popped::Msgs(node_id, vec![Wire::Accept(msg)]),
		SendFundingCreated { node_id, msg } => Popped::Msgs(node_id, vec![Wire::Created(msg)]),
		SendFundingSigned { node_id, msg } => Popped::Msgs(node_id, vec![Wire::Signed(msg)]),
		SendChannelReady { node_id, msg } => Popped::Msgs(node_id, vec![Wire::Ready(msg)]),
		UpdateHTLCs { node_id, updates, .. } => {
			let mut v = vec![];
			for m in updates.update_fulfill_htlcs {
				v.push(Wire::Fulfill(m));
			}
			for m in updates.update_fail_htlcs {
				v.push(Wire::Fail(m));
			}
			for m in updates.update_fail_malformed_htlcs {
				v.push(Wire::FailMal(m));
			}
			for m in updates.update_add_htlcs {
				v.push(Wire::Add(m));
			}
			if let Some(m) = updates.update_fee {
				v.push(Wire::Fee(m));
			}
			for m in updates.commitment_signed {
				v.push(Wire::CS(m));
			}
			Popped::Msgs(node_id, v)
		},
		SendRevokeAndACK { node_id, msg } => Popped::Msgs(node_id, vec![Wire::RAA(msg)]),
		SendChannelReestablish { node_id, msg } => Popped::Msgs(node_id, vec![Wire::Reest(msg)]),
		SendShutdown { node_id, msg } => Popped::Msgs(node_id, vec![Wire::Shutdown(msg)]),
		SendClosingSigned { node_id, msg } => Popped::Msgs(node_id, vec![Wire::ClosingSigned(msg)]),
		SendAnnouncementSignatures { node_id, msg } => Popped::Msgs(node_id, vec![Wire::AnnSigs(msg)]),
		SendChannelUpdate { node_id, msg } => Popped::Msgs(node_id, vec![Wire::ChanUpdate(msg)]),
		SendPeerStorage { node_id, msg } => Popped::Msgs(node_id, vec![Wire::PeerStorage(msg)]),
		SendPeerStorageRetrieval { node_id, msg } => Popped::Msgs(node_id, vec![Wire::PeerStorageRetrieval(msg)]),
		BroadcastChannelAnnouncement { .. } | BroadcastChannelUpdate { .. } | BroadcastNodeAnnouncement { .. } | SendChannelAnnouncement { .. } => Popped::Nothing,
		SendChannelRangeQuery { .. } | SendShortIdsQuery { .. } | SendReplyChannelRange { .. } | SendGossipTimestampFilter { .. } => Popped::Nothing,
		HandleError { node_id, action } => match action {
			ErrorAction::SendErrorMessage { msg } => Popped::Disconnect(node_id, Some(Wire::Error(msg))),
			ErrorAction::DisconnectPeer { msg } => Popped::Disconnect(node_id, msg.map(Wire::Error)),
			ErrorAction::DisconnectPeerWithWarning { msg } => Popped::Disconnect(node_id, Some(Wire::Warning(msg))),
			ErrorAction::SendWarningMessage { msg, .. } => Popped::Msgs(node_id, vec![Wire::Warning(msg)]),
			ErrorAction::IgnoreError | ErrorAction::IgnoreAndLog(_) | ErrorAction::IgnoreDuplicateGossip => Popped::Nothing,
		},
		other => Popped::Unhandled(format!("{:?}", other).chars().take(120).collect()),
	}
}

pub fn deliver(to: &Node, from: PublicKey, w: &Wire) {
	match w {
		Wire::Open(m) => to.mgr.handle_open_channel(from, m),
		Wire::Accept(m) => to.mgr.handle_accept_channel(from, m),
		Wire::Created(m) => to.mgr.handle_funding_created(from, m),
		Wire::Signed(m) => to.mgr.handle_funding_signed(from, m),
		Wire::Ready(m) => to.mgr.handle_channel_ready(from, m),
		Wire::Add(m) => to.mgr.handle_update_add_htlc(from, m),
		Wire::Fulfill(m) => to.mgr.handle_update_fulfill_htlc(from, m.clone()),
		Wire::Fail(m) => to.mgr.handle_update_fail_htlc(from, m),
		Wire::FailMal(m) => to.mgr.handle_update_fail_malformed_htlc(from, m),
		Wire::Fee(m) => to.mgr.handle_update_fee(from, m),
		Wire::CS(m) => to.mgr.handle_commitment_signed(from, m),
		Wire::RAA(m) => to.mgr.handle_revoke_and_ack(from, m),
		Wire::Reest(m) => to.mgr.handle_channel_reestablish(from, m),
		Wire::Shutdown(m) => to.mgr.handle_shutdown(from, m),
		Wire::ClosingSigned(m) => to.mgr.handle_closing_signed(from, m),
		Wire::AnnSigs(m) => to.mgr.handle_announcement_signatures(from, m),
		Wire::ChanUpdate(m) => to.mgr.handle_channel_update(from, m),
		Wire::Error(m) => to.mgr.handle_error(from, m),
		Wire::Warning(_) => {},
		Wire::PeerStorage(m) => to.mgr.handle_peer_storage(from, m.clone()),
		Wire::PeerStorageRetrieval(m) => to.mgr.handle_peer_storage_retrieval(from, m.clone()),
	}
}

impl Wire {
	pub fn channel_id(&self) -> Option<ChannelId> {
		Some(match self {
			Wire::Open(m) => m.common_fields.temporary_channel_id,
			Wire::Accept(m) => m.common_fields.temporary_channel_id,
			Wire::Created(m) => m.temporary_channel_id,
			Wire::Signed(m) => m.channel_id,
			Wire::Ready(m) => m.channel_id,
			Wire::Add(m) => m.channel_id,
			Wire::Fulfill(m) => m.channel_id,
			Wire::Fail(m) => m.channel_id,
			Wire::FailMal(m) => m.channel_id,
			Wire::Fee(m) => m.channel_id,
			Wire::CS(m) => m.channel_id,
			Wire::RAA(m) => m.channel_id,
			Wire::Reest(m) => m.channel_id,
			Wire::Shutdown(m) => m.channel_id,
			Wire::ClosingSigned(m) => m.channel_id,
			Wire::AnnSigs(m) => m.channel_id,
			Wire::Error(m) => m.channel_id,
			Wire::Warning(m) => m.channel_id,
			Wire::ChanUpdate(_) | Wire::PeerStorage(_) | Wire::PeerStorageRetrieval(_) => return None,
		})
	}
	pub fn kind(&self) -> &'static str {
		match self {
			Wire::Open(_) => "open_channel",
			Wire::Accept(_) => "accept_channel",
			Wire::Created(_) => "funding_created",
			Wire::Signed(_) => "funding_signed",
			Wire::Ready(_) => "channel_ready",
			Wire::Add(_) => "update_add_htlc",
			Wire::Fulfill(_) => "update_fulfill_htlc",
			Wire::Fail(_) => "update_fail_htlc",
			Wire::FailMal(_) => "update_fail_malformed_htlc",
			Wire::Fee(_) => "update_fee",
			Wire::CS(_) => "commitment_signed",
			Wire::RAA(_) => "revoke_and_ack",
			Wire::Reest(_) => "channel_reestablish",
			Wire::Shutdown(_) => "shutdown",
			Wire::ClosingSigned(_) => "closing_signed",
			Wire::AnnSigs(_) => "announcement_signatures",
			Wire::ChanUpdate(_) => "channel_update",
			Wire::Error(_) => "error",
			Wire::Warning(_) => "warning",
			Wire::PeerStorage(_) => "peer_storage",
			Wire::PeerStorageRetrieval(_) => "peer_storage_retrieval",
		}
	}
	pub fn describe(&self) -> String {
		match self {
			Wire::Add(m) => format!("add id={} amt={} cltv={}", m.htlc_id, m.amount_msat, m.cltv_expiry),
			Wire::Fulfill(m) => format!("fulfill id={}", m.htlc_id),
			Wire::Fail(m) => format!("fail id={}", m.htlc_id),
			Wire::FailMal(m) => format!("fail_malformed id={}", m.htlc_id),
			Wire::Fee(m) => format!("update_fee {}", m.feerate_per_kw),
			Wire::Reest(m) => format!("reestablish next_local={} next_remote={}", m.next_local_commitment_number, m.next_remote_commitment_number),
			Wire::Error(m) => format!("error '{}'", m.data),
			Wire::Warning(m) => format!("warning '{}'", m.data),
			o => o.kind().to_string(),
		}
	}
	/// Messages whose loss/duplication is immaterial to the channel state machine.
	pub fn is_gossipish(&self) -> bool {
		matches!(self, Wire::ChanUpdate(_) | Wire::AnnSigs(_) | Wire::PeerStorage(_) | Wire::PeerStorageRetrieval(_))
	}
}

pub fn init_msg(n: &Node) -> msgs::Init {
	msgs::Init { features: n.mgr.init_features(), networks: None, remote_network_address: None }
}
pub fn connect(a: &Node, b: &Node) {
	a.mgr.peer_connected(b.id, &init_msg(b), true).expect("peer_connected");
	b.mgr.peer_connected(a.id, &init_msg(a), false).expect("peer_connected");
}
pub fn disconnect(a: &Node, b: &Node) {
	a.mgr.peer_disconnected(b.id);
	b.mgr.peer_disconnected(a.id);
}
