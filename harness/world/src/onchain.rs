//! On-chain phase of a scenario: after some off-chain traffic a channel is closed unilaterally –
//! by a node's latest commitment, or by an attacker's revoked commitment captured earlier – and the
//! harness chain is mined until everything has matured; every spendable output is then swept to the
//! owning node's wallet script, so that final ownership can be read off the chain.
use crate::run::Sim;
use crate::sim::Obs;
use bitcoin::secp256k1::Secp256k1;
use bitcoin::{ScriptBuf, Transaction, Txid};
use lightning::sign::{OutputSpender, SpendableOutputDescriptor};
use vcore::{Report, Rng};

/// A signed holder commitment (plus its HTLC transactions) taken from a node's monitor while it
/// was that node's latest state.
#[derive(Clone, Debug)]
pub struct Captured {
	pub step: u64,
	pub chan: usize,
	pub node: usize,
	pub txs: Vec<Transaction>,
	pub txid: Txid,
	pub height: u32,
}

/// How the channel of an on-chain scenario was closed (ground truth for the monitors).
#[derive(Clone, Debug)]
pub struct CloseRecord {
	pub chan: usize,
	/// the node whose commitment transaction went on chain
	pub broadcaster: usize,
	pub revoked: bool,
	pub commitment_txid: Option<Txid>,
	pub height: u32,
	/// transactions the harness itself put on the chain on behalf of the cheating node
	pub attacker_txids: Vec<Txid>,
}

pub fn wallet_script(node: usize) -> ScriptBuf {
	// a per-node harness wallet script (P2WSH of a unique marker script): nobody needs to spend it
	let marker = bitcoin::script::Builder::new().push_int(7_000 + node as i64).push_opcode(bitcoin::opcodes::all::OP_DROP).push_opcode(bitcoin::opcodes::OP_TRUE).into_script();
	marker.to_p2wsh()
}

pub fn capture(sim: &mut Sim, node: usize, ci: usize) {
	let cid = sim.w.chans[ci].chan_id();
	let txs = match sim.w.nodes[node].mon.get_monitor(cid) {
		Ok(m) => m.unsafe_get_latest_holder_commitment_txn(&*sim.w.nodes[node].logger),
		Err(_) => return,
	};
	sim.w.drain_taps();
	if let Some(t) = txs.first() {
		let txid = t.compute_txid();
		if !sim.w.captured.iter().any(|c| c.txid == txid) {
			let height = sim.w.chain.height();
			sim.w.captured.push(Captured { step: sim.w.step, chan: ci, node, txid, txs, height });
		}
	}
}

fn events_all(sim: &mut Sim, rep: &mut Report) {
	for k in 0..sim.w.nodes.len() {
		sim.w.process_events(k);
		if sim.w.nodes[k].mgr.needs_pending_htlc_processing() {
			sim.w.process_forwards(k);
		}
	}
	sim.dispatch(rep);
}

pub fn phase(sim: &mut Sim, rng: &mut Rng, rep: &mut Report) -> Result<(), String> {
	let n = sim.w.nodes.len();
	let open: Vec<usize> = sim.w.chans.iter().filter(|c| !c.closed && c.ready && c.fault.is_none()).map(|c| c.idx).collect();
	if open.is_empty() {
		return Ok(());
	}
	let ci = *rng.pick(&open);
	let (a, b) = (sim.w.chans[ci].a, sim.w.chans[ci].b);
	fund_wallets(sim);
	events_all(sim, rep);
	// --- 1. what the parties know when the channel closes ---
	if rng.chance(1, 2) {
		let ok = sim.w.settle(60);
		sim.dispatch(rep);
		if ok {
			sim.settled(rep);
		}
	}
	// justice focus (C06, a third of the runs): three to five HTLCs all offered by the future victim, every
	// preimage known to the future cheater when its state is captured (so that its HTLC-success transactions
	// exist), and the close is by that revoked state
	let focus: Option<(usize, usize)> = if sim.w.justice_focus && rng.chance(1, 3) { Some(if rng.chance(1, 2) { (a, b) } else { (b, a) }) } else { None };
	// fee chaser runs (see below) are prepared here: one HTLC worth claiming at any fee level, left unclaimed
	let want_chase = focus.is_none() && !sim.w.chain_equiv && !sim.w.late_update && sim.w.chans[ci].ctype != crate::model::ChanType::Legacy && rng.chance(1, 4);
	let mut chase_hash: Option<[u8; 32]> = None;
	if want_chase {
		rep.count("onchain_fee_chaser_wanted");
	}
	if focus.is_some() {
		rep.count("onchain_justice_focus_runs");
	}
	// a few more HTLCs above the dust limit, committed but unresolved when the channel closes
	for _ in 0..(if focus.is_some() { 3 + rng.below(3) } else if want_chase { 1 + rng.below(4) } else { rng.below(5) }) {
		let cid = sim.w.chans[ci].chan_id();
		let (src, dst) = match focus {
			Some(f) => f,
			None if want_chase && chase_hash.is_none() => {
				// (the direction with more room)
				let lim = |w: &crate::sim::World, n: usize| w.nodes[n].mgr.list_usable_channels().into_iter().find(|c| c.channel_id == cid).map(|c| c.next_outbound_htlc_limit_msat).unwrap_or(0);
				if lim(&sim.w, a) >= lim(&sim.w, b) { (a, b) } else { (b, a) }
			},
			None => if rng.chance(1, 2) { (a, b) } else { (b, a) },
		};
		if let Some(d) = sim.w.nodes[src].mgr.list_usable_channels().into_iter().find(|c| c.channel_id == cid) {
			let hi = d.next_outbound_htlc_limit_msat;
			if want_chase && chase_hash.is_none() && hi > 34_000_000 {
				let amt = 32_000_000 + rng.below((hi - 32_000_000).min(80_000_000));
				sim.w.note(format!("ONCHAIN-PREP SEND node{}->node{} amt={} (fee chaser target)", src, dst, amt));
				if let Ok(pi) = sim.w.send_payment(src, &[(vec![ci], amt)], 80, None, None) {
					chase_hash = Some(sim.w.payments[pi].hash.0);
					rep.count("onchain_fee_chaser_target_sent");
				}
			} else if hi > 6_000_000 && rng.chance(1, 4) {
				// two parts of one payment over the same channel: two HTLC outputs with one payment hash
				let a1 = 1_000_000 + rng.below((hi / 16).max(1));
				let a2 = 1_000_000 + rng.below((hi / 16).max(1));
				sim.w.note(format!("ONCHAIN-PREP SEND node{}->node{} two parts over the same channel amt={}+{}", src, dst, a1, a2));
				if sim.w.send_payment(src, &[(vec![ci], a1), (vec![ci], a2)], *rng.pick(&[50u32, 80, 144]), None, None).is_ok() {
					rep.count("onchain_prep_two_part_payments_over_one_channel");
				}
			} else if hi > 3_000_000 {
				let amt = 1_000_000 + rng.below((hi / 8).max(1));
				sim.w.note(format!("ONCHAIN-PREP SEND node{}->node{} amt={}", src, dst, amt));
				let _ = sim.w.send_payment(src, &[(vec![ci], amt)], *rng.pick(&[42u32, 50, 80, 144]), None, None);
			}
		}
	}
	if focus.is_some() || want_chase || rng.chance(3, 4) {
		sim.w.deliver_all(10_000);
		for k in 0..n {
			sim.w.complete_all(k);
			sim.w.process_events(k);
			sim.w.process_forwards(k);
		}
		sim.w.deliver_all(10_000);
		for k in 0..n {
			sim.w.process_events(k);
		}
	}
	sim.dispatch(rep);
	// capture the states that carry these HTLCs, then move the channel on so that they become revoked
	let mut focus_capture: Option<bitcoin::Txid> = None;
	if focus.is_some() || rng.chance(3, 4) {
		// some preimages are already known to the recipient's monitor when its state is captured (its
		// HTLC-success transactions then exist), the fulfil not yet delivered
		let mut k = 0;
		while k < sim.w.claimable.len() {
			if Some(sim.w.claimable[k].hash.0) == chase_hash {
				k += 1;
			} else if focus.is_some() || rng.chance(1, 2) {
				sim.w.note(format!("ONCHAIN-PREP claim claimable {} before the states are captured", k));
				sim.w.claim(k);
			} else {
				k += 1;
			}
		}
		capture(sim, a, ci);
		capture(sim, b, ci);
		if let Some((_, cheater)) = focus {
			focus_capture = sim.w.captured.iter().rev().find(|c| c.chan == ci && c.node == cheater && c.step == sim.w.step).map(|c| c.txid);
		}
		for _ in 0..1 + rng.below(2) {
			let (src, dst) = if rng.chance(1, 2) { (a, b) } else { (b, a) };
			let cid = sim.w.chans[ci].chan_id();
			if let Some(d) = sim.w.nodes[src].mgr.list_usable_channels().into_iter().find(|c| c.channel_id == cid) {
				if d.next_outbound_htlc_limit_msat > 2_000_000 {
					sim.w.note(format!("ONCHAIN-PREP SEND node{}->node{} (moves the channel past the captured states)", src, dst));
					let _ = sim.w.send_payment(src, &[(vec![ci], 1_000_000 + rng.below(500_000))], 80, None, None);
				}
			}
			sim.w.deliver_all(10_000);
			for k in 0..n {
				sim.w.complete_all(k);
				sim.w.process_events(k);
				sim.w.process_forwards(k);
			}
			sim.w.deliver_all(10_000);
		}
		sim.dispatch(rep);
	}
	sim.w.miner_delay_max = *rng.pick(&[0u32, 0, 1, 3, 6, 12]);
	// in half of the runs the miner has a fee policy that follows the fee level, and the level walks
	// (only for channel types whose every transaction can be fee-bumped: the pre-signed commitment and HTLC
	// transactions of a pre-anchor channel cannot follow a rising fee level by construction)
	let chase_ready = chase_hash.map(|h| sim.w.claimable.iter().any(|c| c.hash.0 == h && c.preimage.is_some())).unwrap_or(false);
	if chase_ready {
		rep.count("onchain_fee_chaser_target_claimable");
	}
	let fee_market = (rng.chance(1, 2) || chase_ready) && sim.w.chans[ci].ctype != crate::model::ChanType::Legacy;
	if fee_market {
		sim.w.miner_delay_max = sim.w.miner_delay_max.min(3);
		sim.w.miner_min_feerate = sim.w.fee_now;
		sim.w.chain.replace_by_fee = true;
		sim.w.fee_market_used = true;
		rep.count("onchain_runs_with_fee_sensitive_miner");
	}
	let cut_first = rng.chance(1, 2);
	if cut_first {
		sim.w.note(format!("ONCHAIN disconnect node{} node{} for good", a, b));
		sim.w.disconnect(a, b);
	}
	// some recipients learn preimages that can now only be used on chain
	let mut k = 0;
	while k < sim.w.claimable.len() {
		if Some(sim.w.claimable[k].hash.0) == chase_hash {
			k += 1;
		} else if rng.chance(1, 2) {
			sim.w.note(format!("ONCHAIN claim claimable {} (the fulfil may never reach the peer)", k));
			sim.w.claim(k);
		} else {
			k += 1;
		}
	}
	sim.dispatch(rep);
	// --- 2. the close ---
	let revoked: Vec<usize> = sim.w.captured.iter().enumerate().filter(|(_, c)| c.chan == ci && sim.w.is_revoked(c)).map(|(i, _)| i).collect();
	let rec;
	let mut late_mode = false;
	let focus_idx = focus_capture.and_then(|t| revoked.iter().cloned().find(|i| sim.w.captured[*i].txid == t));
	if focus_idx.is_some() {
		rep.count("onchain_justice_focus_closes");
	}
	if !revoked.is_empty() && !chase_ready && (focus_idx.is_some() || rng.chance(1, 2)) {
		let c = sim.w.captured[match focus_idx {
			Some(i) => i,
			None => if rng.chance(1, 2) { *revoked.last().unwrap() } else { *rng.pick(&revoked) },
		}].clone();
		sim.w.step += 1;
		sim.w.note(format!("ONCHAIN node{} cheats: its revoked commitment {} (captured at step {}) is broadcast", c.node, c.txid, c.step));
		sim.w.chans[ci].fault = Some("revoked commitment broadcast".into());
		sim.w.miner_exempt.insert(c.txid);
		sim.w.chain.replace_exempt.insert(c.txid);
		let v = sim.w.chain.relay(&c.txs[0]);
		sim.w.obs.push_back(Obs::Relay { step: sim.w.step, node: usize::MAX, tx: c.txs[0].clone(), verdict: v.clone() });
		if !matches!(v, crate::chain::TxVerdict::Valid) {
			return Err(format!("the captured revoked commitment is not valid on the harness chain: {:?}", v));
		}
		rec = CloseRecord { chan: ci, broadcaster: c.node, revoked: true, commitment_txid: Some(c.txid), height: sim.w.chain.height(), attacker_txids: vec![c.txid] };
		sim.w.close = Some(rec.clone());
		sim.w.attacker_htlc_txs = c.txs[1..].to_vec();
		rep.add("onchain_attacker_second_stage_txs_available", (c.txs.len() - 1) as u64);
		rep.count("onchain_closes_by_revoked_commitment");
	} else {
		let closer = if rng.chance(1, 2) { a } else { b };
		let peer = sim.w.chans[ci].peer_of(closer);
		let cid = sim.w.chans[ci].chan_id();
		let pid = sim.w.nodes[peer].id;
		// closure by what the other party sees as the *previous unrevoked* counterparty commitment: the other party
		// has just signed a newer commitment (one more HTLC) that the closing node never receives
		if !cut_first && sim.w.is_connected(a, b) && rng.chance(1, 3) {
			sim.w.deliver_all(10_000);
			for k in 0..n {
				sim.w.complete_all(k);
				sim.w.process_events(k);
			}
			sim.w.deliver_all(10_000);
			sim.dispatch(rep);
			if let Some(d) = sim.w.nodes[peer].mgr.list_usable_channels().into_iter().find(|c| c.channel_id == cid) {
				if d.next_outbound_htlc_limit_msat > 3_000_000 && sim.w.queue_len(peer, closer) == 0 && sim.w.queue_len(closer, peer) == 0 {
					sim.w.step += 1;
					sim.w.note(format!("ONCHAIN node{} signs one more commitment for node{} (new HTLC), which never arrives: node{} closes with the previous one", peer, closer, closer));
					if sim.w.send_payment(peer, &[(vec![ci], 1_200_000 + rng.below(800_000))], 80, None, None).is_ok() && sim.w.queue_len(peer, closer) > 0 {
						rep.count("onchain_closes_set_up_as_previous_unrevoked_counterparty_commitment");
					}
				}
			}
		}
		sim.w.step += 1;
		sim.w.chans[ci].fault = Some("user force-close".into());
		sim.w.note(format!("ONCHAIN force-close chan {} by node{}", ci, closer));
		let r = sim.w.nodes[closer].mgr.force_close_broadcasting_latest_txn(&cid, &pid, "harness force close".to_string());
		sim.w.obs.push_back(Obs::Api { step: sim.w.step, node: closer, call: "force_close".into(), result: format!("{:?}", r) });
		sim.w.drain_taps();
		late_mode = sim.w.late_update && !cut_first && sim.w.is_connected(a, b);
		if late_mode {
			// the closing node is gone right after handing its commitment to the network: its error message is
			// never sent, the other side still believes the channel open and the connection alive
			sim.w.note(format!("ONCHAIN node{} vanishes after broadcasting; its peer is not told", closer));
			let _ = lightning::ln::msgs::BaseMessageHandler::get_and_clear_pending_msg_events(&sim.w.nodes[closer].mgr);
		} else {
			sim.w.pump(closer);
		}
		rec = CloseRecord { chan: ci, broadcaster: closer, revoked: false, commitment_txid: None, height: sim.w.chain.height(), attacker_txids: vec![] };
		sim.w.close = Some(rec.clone());
		rep.count("onchain_closes_by_latest_commitment");
	}
	// option: the other party's manager is a block behind its monitor. Its monitor sees the closing
	// transaction confirm, its manager – still connected, still believing the channel open – sends one more
	// HTLC, whose monitor update therefore arrives after the funding spend; then the manager catches up.
	let mut late_payment: Option<(usize, [u8; 32])> = None;
	let mut late_floor: Option<u32> = None;
	if late_mode {
		let late = sim.w.chans[ci].peer_of(rec.broadcaster);
		sim.w.hold_mgr_blocks = Some(late);
		let funding = sim.w.chans[ci].funding.as_ref().map(|f| bitcoin::OutPoint { txid: f.compute_txid(), vout: 0 });
		let saved_delay = sim.w.miner_delay_max;
		sim.w.miner_delay_max = 0;
		for _ in 0..3 {
			// (an anchor commitment reaches the network through its bump event)
			sim.w.process_events(rec.broadcaster);
			sim.w.mine(1);
			if funding.map(|f| sim.w.chain.spent.contains_key(&f)).unwrap_or(false) {
				break;
			}
		}
		sim.w.miner_delay_max = saved_delay;
		if funding.map(|f| sim.w.chain.spent.contains_key(&f)).unwrap_or(false) {
			// (at least one block on top of the spend before the update arrives)
			for _ in 0..1 + rng.below(3) {
				sim.w.mine(1);
			}
			late_floor = funding.and_then(|f| sim.w.chain.spent.get(&f).map(|x| x.1));
			let cid = sim.w.chans[ci].chan_id();
			if let Some(d) = sim.w.nodes[late].mgr.list_usable_channels().into_iter().find(|c| c.channel_id == cid) {
				if d.next_outbound_htlc_limit_msat > 3_000_000 {
					sim.w.step += 1;
					sim.w.note(format!("ONCHAIN node{}'s manager has not heard of the last blocks yet and sends one more HTLC", late));
					if let Ok(pi) = sim.w.send_payment(late, &[(vec![ci], 1_500_000 + rng.below(1_000_000))], 80, None, None) {
						late_payment = Some((late, sim.w.payments[pi].hash.0));
						rep.count("onchain_late_updates_after_the_funding_spend");
					}
				}
			}
		}
		sim.w.disconnect(a, b);
		sim.w.release_held_blocks();
	}
	if !cut_first {
		sim.w.disconnect(a, b);
	}
	events_all(sim, rep);
	let mut copies = if sim.w.chain_equiv {
		sim.w.event_log.clear();
		crate::chainequiv::make_copies(sim, rng, rep)
	} else {
		vec![]
	};
	// --- 3. mine until everything has matured ---
	// (forks may replace what was mined on top of the closing transaction during the late-update step)
	let start = late_floor.unwrap_or(sim.w.chain.height());
	let mut quiet_blocks = 0;
	let mut attacker_stage2_done = false;
	// the cheater's second-stage transactions that are out but not confirmed; in half of the runs they reach
	// the miner after whatever the victim broadcasts (and so win the race for the outputs they spend)
	let mut attacker_live: Vec<Transaction> = vec![];
	let cheater_last_word = rng.chance(1, 2);
	// "fee chaser" (a third of the fee-market runs of a latest-commitment close, never with chain-delivery copies):
	// one inbound HTLC with a known preimage is left unclaimed until 44 blocks before its expiry; from then on
	// the fee level rises right after every transaction the claiming node relays – so that nothing it offers is
	// mined at the feerate it was built with – until ten blocks before the expiry, and stays where it is after
	// that. A node that re-issues its claim at the fee level of the moment often enough near the deadline still
	// gets it confirmed in time; U4 judges the outcome (see the entitlement rule in monitors/onchain.rs).
	let tc = lightning::ln::verif_api::timing_constants();
	let mut chase: Option<(usize, [u8; 32], u32)> = None; // (claiming node, payment hash, expiry)
	if fee_market && !rec.revoked && !sim.w.chain_equiv && !late_mode && chase_ready {
		let h = sim.w.chain.height();
		// (worth well above what the entitlement rule writes off as not worth its claim fee under a fee market)
		if let Some(c) = sim.w.claimable.iter().filter(|c| Some(c.hash.0) == chase_hash && c.amount_msat >= 30_000_000).find(|c| c.deadline.map(|d| d > h + 8).unwrap_or(false)) {
			chase = Some((c.node, c.hash.0, c.deadline.unwrap() + tc.htlc_fail_back_buffer));
			sim.w.miner_delay_max = sim.w.miner_delay_max.min(2);
			rep.count("onchain_fee_chaser_runs");
		}
	}
	let mut chase_raises = 0u32;
	let mut relays_seen: std::collections::HashSet<Txid> = Default::default();
	let mut relay_cursor = sim.w.relayed_valid.len();
	for _ in 0..600 {
		let before = sim.w.chain.stats_validated;
		if fee_market && chase.is_none() && rng.chance(1, 8) {
			let cur = sim.w.fee_now;
			let new = match rng.below(4) {
				0 | 1 => cur.saturating_mul(2),
				2 => cur / 2,
				_ => cur + 250,
			}
			.clamp(253, 12_000);
			sim.w.note(format!("ONCHAIN fee level {} -> {} (estimators and miner policy)", cur, new));
			for k in 0..n {
				sim.w.nodes[k].set_fee(new);
			}
			if new > cur {
				sim.w.fee_rises.push(sim.w.chain.height());
			}
			sim.w.fee_now = new;
			sim.w.miner_min_feerate = new;
			rep.count("onchain_fee_level_changes");
		}
		// without a fee market only the nodes' estimators move (the miner takes everything): a claim held back by the
		// miner's delay is re-issued under an estimate that may have collapsed meanwhile (U1f: never a lower feerate)
		if !fee_market && chase.is_none() && rng.chance(1, 8) {
			let cur = sim.w.fee_now;
			let new = match rng.below(5) {
				0 | 1 => cur.saturating_mul(2),
				2 => cur / 2,
				3 => cur / 10,
				_ => cur + 250,
			}
			.clamp(253, 12_000);
			sim.w.note(format!("ONCHAIN estimators {} -> {} (no miner policy)", cur, new));
			for k in 0..n {
				sim.w.nodes[k].set_fee(new);
			}
			sim.w.fee_now = new;
			rep.count("onchain_estimator_only_fee_changes");
		}
		// a competing fork: the last d < 6 blocks (never below the height at which the close began) leave
		// the chain; the cheater may not bother to get its second-stage transactions confirmed again
		// (no block that ever had six confirmations is disconnected: depth is counted from the highest tip seen)
		let floor = start.max(sim.w.peak_height.saturating_sub(5));
		// (when the cheater's second-stage transactions are fresh on the chain a fork is more likely, and half of
		// those forks branch off right above the block of the commitment transaction)
		let tip = sim.w.chain.height();
		let stage2_fresh = sim.w.close.as_ref().map(|c| c.attacker_txids.iter().skip(1).any(|t| sim.w.chain.confirmed_at.get(t).map(|h| *h + 5 > tip).unwrap_or(false))).unwrap_or(false);
		if sim.w.reorgs && chase.is_none() && tip > floor && (rng.chance(1, 10) || (stage2_fresh && rng.chance(1, 4))) {
			let mut d = (1 + rng.below(5) as u32).min(tip - floor);
			if let Some(hc) = sim.w.close.as_ref().and_then(|c| c.commitment_txid).and_then(|t| sim.w.chain.confirmed_at.get(&t).cloned()) {
				if stage2_fresh && hc >= floor && tip > hc && rng.chance(1, 2) {
					d = tip - hc;
				}
			}
			let mut drop: std::collections::HashSet<bitcoin::Txid> = Default::default();
			let second_stage: Vec<bitcoin::Txid> = sim.w.close.as_ref().map(|c| c.attacker_txids.iter().skip(1).cloned().collect()).unwrap_or_default();
			let in_gone = |w: &crate::sim::World, t: &bitcoin::Txid| w.chain.confirmed_at.get(t).map(|h| *h > w.chain.height() - d).unwrap_or(false);
			let stage2_gone = second_stage.iter().filter(|t| in_gone(&sim.w, t)).count();
			if rng.chance(1, 2) {
				drop.extend(second_stage.iter().cloned());
				attacker_live.clear();
			}
			if let Some(t) = sim.w.close.as_ref().and_then(|c| c.commitment_txid) {
				if in_gone(&sim.w, &t) {
					rep.count("onchain_reorgs_unconfirming_the_commitment");
				}
			}
			let announce = rng.chance(1, 2);
			sim.w.note(format!("ONCHAIN reorg: {} blocks leave the chain (fork tip announced: {}, cheater drops its second stage: {})", d, announce, !drop.is_empty()));
			let gone = sim.w.reorg(d, &drop, announce);
			rep.count("onchain_reorgs");
			rep.add("onchain_reorg_blocks_disconnected", d as u64);
			rep.add("onchain_reorg_txs_unconfirmed", gone.iter().map(|b| b.txs.len() as u64).sum());
			if stage2_gone > 0 {
				rep.count("onchain_reorgs_unconfirming_cheater_second_stage");
			}
			if stage2_gone > 1 {
				rep.count("onchain_reorgs_unconfirming_several_cheater_second_stage");
				let commitment_stays = sim.w.close.as_ref().and_then(|c| c.commitment_txid).map(|t| sim.w.chain.confirmed_at.contains_key(&t)).unwrap_or(false);
				if !drop.is_empty() && commitment_stays {
					rep.count("onchain_reorgs_after_which_the_cheater_abandons_several_second_stage_txs");
					if std::env::var("VERIF_ONCHAIN_DUMP").is_ok() {
						eprintln!("REORG-HIT {} several second-stage transactions unconfirmed and abandoned", sim.label);
					}
				}
			}
			events_all(sim, rep);
			if !copies.is_empty() {
				crate::chainequiv::on_reorg(sim, &mut copies, &gone, rng, rep);
			}
			if !sim.raised.is_empty() {
				return Ok(());
			}
		}
		if cheater_last_word && !attacker_live.is_empty() {
			sim.w.relay_broadcasts();
			attacker_live.retain(|t| !sim.w.chain.confirmed_at.contains_key(&t.compute_txid()));
			let mut still = vec![];
			for t in attacker_live.drain(..) {
				match sim.w.chain.relay(&t) {
					crate::chain::TxVerdict::Valid | crate::chain::TxVerdict::ValidChild => still.push(t),
					_ => {},
				}
			}
			attacker_live = still;
		}
		// preimages learned only after the close (claim_funds while the channel is already on chain)
		if !sim.w.chain_equiv && !sim.w.claimable.is_empty() {
			let h = sim.w.chain.height();
			// (the manager gives a payment up when the tip reaches its claim deadline, and a fork that lowers the
			// tip afterwards does not bring it back: what counts is the highest tip the node has seen)
			let peak = sim.w.peak_height;
			let mut k = 0;
			while k < sim.w.claimable.len() {
				let c = &sim.w.claimable[k];
				let in_time = c.deadline.map(|d| peak + 1 < d).unwrap_or(false);
				let is_target = chase.map(|t| t.0 == c.node && t.1 == c.hash.0).unwrap_or(false);
				let now = if is_target { chase.map(|t| h + 44 >= t.2).unwrap_or(false) } else { rng.chance(1, 12) };
				if in_time && now && c.preimage.is_some() {
					sim.w.note(format!("ONCHAIN late claim of claimable {} at height {} (deadline {:?}{})", k, h, c.deadline, if is_target { ", fee chaser target" } else { "" }));
					sim.w.claim(k);
					rep.count("onchain_claims_after_the_close");
					if is_target {
						rep.count("onchain_fee_chaser_targets_claimed");
						// the chase starts from a calm fee market
						sim.w.note(format!("ONCHAIN fee chaser: level {} -> 253 before the target is claimed", sim.w.fee_now));
						for j in 0..n {
							sim.w.nodes[j].set_fee(253);
						}
						sim.w.fee_now = 253;
						sim.w.miner_min_feerate = 253;
					}
				} else {
					k += 1;
				}
			}
			events_all(sim, rep);
		}
		if let Some((cn, _, expiry)) = chase {
			sim.w.relay_broadcasts();
			let mut fresh: Option<u64> = None; // highest feerate (sat per 1000 weight) among what the node has just relayed
			for (node, txid) in sim.w.relayed_valid[relay_cursor..].iter() {
				if *node == cn && relays_seen.insert(*txid) {
					if let Some(tx) = sim.w.chain.mempool.iter().find(|t| t.compute_txid() == *txid) {
						let inv: u64 = tx.input.iter().map(|i| sim.w.chain.all_outputs.get(&i.previous_output).map(|o| o.value.to_sat()).unwrap_or(0)).sum();
						let outv: u64 = tx.output.iter().map(|o| o.value.to_sat()).sum();
						let rate = inv.saturating_sub(outv) * 1000 / tx.weight().to_wu().max(1);
						fresh = Some(fresh.unwrap_or(0).max(rate));
					}
				}
			}
			relay_cursor = sim.w.relayed_valid.len();
			let h = sim.w.chain.height();
			let cur = sim.w.fee_now;
			// the new level is just above what the node has offered (its estimator asks for twice the level on
			// urgent claims, so the next offer will be above the new level again)
			let new = fresh.map(|r| (r + r / 10 + 1) as u32).unwrap_or(0);
			if fresh.is_some() && new > cur && new <= 12_000 && h + 10 < expiry && h + 46 >= expiry && chase_raises < 8 {
				sim.w.note(format!("ONCHAIN fee chaser: level {} -> {} right after node{} relayed (expiry {})", cur, new, cn, expiry));
				for k in 0..n {
					sim.w.nodes[k].set_fee(new);
				}
				sim.w.fee_rises.push(h);
				sim.w.fee_now = new;
				sim.w.miner_min_feerate = new;
				chase_raises += 1;
				rep.count("onchain_fee_chaser_raises");
			}
			sim.dispatch(rep);
		}
		sim.w.mine(1);
		// (the periodic rebroadcast is a recommendation, not an obligation: the fee chaser runs do without it, so
		// that claims are re-issued by the monitor's own height timers only)
		if chase.is_none() {
			for k in 0..n {
				sim.w.nodes[k].mon.rebroadcast_pending_claims();
			}
		}
		events_all(sim, rep);
		if !copies.is_empty() {
			crate::chainequiv::on_block(sim, &mut copies, rng, rep);
		}
		// the cheater follows up with some of its second-stage HTLC transactions once its commitment is buried
		if rec.revoked && !attacker_stage2_done {
			// the cheater keeps trying to get (a random subset of) its second-stage transactions in first
			if sim.w.chain.height() >= start + 200 {
				attacker_stage2_done = true;
			}
			let txs = std::mem::take(&mut sim.w.attacker_htlc_txs);
			let mut keep = vec![];
			for t in txs {
				if sim.w.chain.seen.contains(&t.compute_txid()) {
					continue;
				}
				let v = sim.w.chain.validate(&t);
				if matches!(v, crate::chain::TxVerdict::Valid | crate::chain::TxVerdict::ValidChild) {
					if rng.chance(2, 3) {
						sim.w.miner_exempt.insert(t.compute_txid());
						sim.w.chain.replace_exempt.insert(t.compute_txid());
						sim.w.chain.relay(&t);
						attacker_live.push(t.clone());
						sim.w.note(format!("ONCHAIN cheater broadcasts its HTLC transaction {}", t.compute_txid()));
						if let Some(c) = sim.w.close.as_mut() {
							c.attacker_txids.push(t.compute_txid());
						}
						rep.count("onchain_attacker_second_stage_txs_relayed");
					}
				} else if !matches!(v, crate::chain::TxVerdict::Conflict) {
					keep.push(t);
				}
			}
			sim.w.attacker_htlc_txs = keep;
		}
		// the monitoring node may be restarted (monitor serialized and read back) at any block
		if !sim.w.chain_equiv && rng.chance(1, 90) {
			let k = rng.below(n as u64) as usize;
			sim.w.note(format!("ONCHAIN restart node{} (everything persisted)", k));
			for i in 0..n {
				sim.w.complete_all(i);
			}
			if let Err(e) = sim.w.restart(k, None, &[]) {
				sim.raised.push(("C10".into(), "S1-reload".into(), format!("reload from persisted state failed: {}", vcore::canon(&e)), format!("node{} during on-chain resolution: {}", k, e)));
				return Ok(());
			}
			rep.count("onchain_restarts_during_resolution");
			events_all(sim, rep);
		}
		sim.midchain(rep);
		if !sim.raised.is_empty() {
			return Ok(());
		}
		if sim.w.chain.stats_validated == before && sim.w.chain.mempool.is_empty() {
			quiet_blocks += 1;
		} else {
			quiet_blocks = 0;
		}
		let drained = (0..n).all(|k| sim.w.nodes[k].mon.get_claimable_balances(&[]).is_empty());
		if drained && quiet_blocks >= 8 && sim.w.chain.height() >= start + 8 {
			break;
		}
	}
	// (what was reported spendable at the highest tip is swept once the chain is that high again)
	while sim.w.chain.height() < sim.w.peak_height {
		sim.w.mine(1);
		events_all(sim, rep);
	}
	if let Some((n, h)) = late_payment {
		rep.count("c03_p10_late_updates_judged");
		if !sim.w.terminal_seen.contains(&(n, h)) {
			sim.raised.push(("C03".into(), "P10-terminal-event-after-late-update".into(), "a payment whose only HTLC reached the monitor after the channel's funding output had been spent (by a commitment without it) never got a terminal event although everything on chain has matured".into(), format!("node{} payment hash {} chan {}", n, vcore::hex(&h[..6]), ci)));
			return Ok(());
		}
	}
	rep.add("onchain_blocks_mined", (sim.w.chain.height() - start) as u64);
	sim.w.miner_min_feerate = 0;
	sim.w.chain.replace_by_fee = false;
	// --- 4. sweep every spendable output to the owner's wallet script ---
	let secp = Secp256k1::new();
	for k in 0..n {
		let mut seen = std::collections::HashSet::new();
		let descs: Vec<SpendableOutputDescriptor> = sim.w.spendable.iter().filter(|(node, _)| *node == k).map(|(_, d)| d.clone()).filter(|d| seen.insert(outpoint_of(d))).collect();
		if descs.is_empty() {
			continue;
		}
		let refs: Vec<&SpendableOutputDescriptor> = descs.iter().collect();
		rep.add("onchain_spendable_outputs_reported", refs.len() as u64);
		match sim.w.nodes[k].keys.km.spend_spendable_outputs(&refs, vec![], wallet_script(k), 253, None, &secp) {
			Ok(tx) if tx.output.is_empty() => {
				// everything the descriptors are worth would go to fees (no change output above dust): not swept
				rep.count("onchain_sweeps_not_worth_their_fee");
			},
			Ok(tx) => {
				let v = sim.w.chain.relay(&tx);
				sim.w.obs.push_back(Obs::Api { step: sim.w.step, node: k, call: format!("sweep {} descriptors tx {}", refs.len(), tx.compute_txid()), result: format!("{:?}", v) });
				sim.w.obs.push_back(Obs::Relay { step: sim.w.step, node: k, tx, verdict: v });
			},
			Err(()) => {
				sim.w.obs.push_back(Obs::Api { step: sim.w.step, node: k, call: format!("sweep {} descriptors", refs.len()), result: "Err".into() });
			},
		}
	}
	sim.w.mine(1);
	events_all(sim, rep);
	sim.w.onchain_done = true;
	rep.count("onchain_scenarios_completed");
	Ok(())
}

pub fn outpoint_of(d: &SpendableOutputDescriptor) -> bitcoin::OutPoint {
	match d {
		SpendableOutputDescriptor::StaticOutput { outpoint, .. } => outpoint.into_bitcoin_outpoint(),
		SpendableOutputDescriptor::DelayedPaymentOutput(x) => x.outpoint.into_bitcoin_outpoint(),
		SpendableOutputDescriptor::StaticPaymentOutput(x) => x.outpoint.into_bitcoin_outpoint(),
	}
}

// ---------------------------------------------------------------------------------------------
// harness wallet for anchor channels: confirmed P2WPKH coins and the library's own bump handler
// ---------------------------------------------------------------------------------------------
use bitcoin::secp256k1::{PublicKey, SecretKey};
use bitcoin::sighash::{EcdsaSighashType, SighashCache};
use bitcoin::{Amount, OutPoint, Psbt, TxOut, Witness};
use lightning::util::wallet_utils::{Utxo, WalletSourceSync};

pub struct HarnessWallet {
	pub key: SecretKey,
	pub utxos: Vec<(OutPoint, TxOut)>,
	pub prevtxs: std::collections::HashMap<Txid, Transaction>,
}
pub fn wallet_key(node: usize) -> SecretKey {
	let mut b = [0x42u8; 32];
	b[31] = node as u8 + 1;
	SecretKey::from_slice(&b).unwrap()
}
pub fn coin_script(node: usize) -> ScriptBuf {
	let secp = Secp256k1::new();
	let pk = bitcoin::PublicKey::new(PublicKey::from_secret_key(&secp, &wallet_key(node)));
	ScriptBuf::new_p2wpkh(&pk.wpubkey_hash().unwrap())
}
impl WalletSourceSync for HarnessWallet {
	fn list_confirmed_utxos(&self) -> Result<Vec<Utxo>, ()> {
		let secp = Secp256k1::new();
		let pk = bitcoin::PublicKey::new(PublicKey::from_secret_key(&secp, &self.key));
		let h = pk.wpubkey_hash().unwrap();
		Ok(self.utxos.iter().map(|(op, o)| Utxo::new_v0_p2wpkh(*op, o.value, &h)).collect())
	}
	fn get_prevtx(&self, outpoint: OutPoint) -> Result<Transaction, ()> {
		self.prevtxs.get(&outpoint.txid).cloned().ok_or(())
	}
	fn get_change_script(&self) -> Result<ScriptBuf, ()> {
		let secp = Secp256k1::new();
		let pk = bitcoin::PublicKey::new(PublicKey::from_secret_key(&secp, &self.key));
		Ok(ScriptBuf::new_p2wpkh(&pk.wpubkey_hash().unwrap()))
	}
	fn sign_psbt(&self, psbt: Psbt) -> Result<Transaction, ()> {
		let secp = Secp256k1::new();
		let pk = PublicKey::from_secret_key(&secp, &self.key);
		let my_script = self.get_change_script()?;
		let mut tx = psbt.unsigned_tx.clone();
		let mut sigs: Vec<(usize, Witness)> = vec![];
		{
			let mut cache = SighashCache::new(&tx);
			for (i, inp) in psbt.inputs.iter().enumerate() {
				if let Some(wu) = &inp.witness_utxo {
					if wu.script_pubkey == my_script {
						let sh = cache.p2wpkh_signature_hash(i, &wu.script_pubkey, wu.value, EcdsaSighashType::All).map_err(|_| ())?;
						let msg = bitcoin::secp256k1::Message::from_digest(sh.to_byte_array());
						let sig = secp.sign_ecdsa(&msg, &self.key);
						let mut ser = sig.serialize_der().to_vec();
						ser.push(EcdsaSighashType::All as u8);
						let mut w = Witness::new();
						w.push(ser);
						w.push(pk.serialize());
						sigs.push((i, w));
					}
				}
			}
		}
		for (i, w) in sigs {
			tx.input[i].witness = w;
		}
		// keep the witnesses the library already put on the other inputs
		for (i, inp) in psbt.inputs.iter().enumerate() {
			if tx.input[i].witness.is_empty() {
				if let Some(w) = &inp.final_script_witness {
					tx.input[i].witness = w.clone();
				}
			}
		}
		Ok(tx)
	}
}
use bitcoin::hashes::Hash as _;

/// Give every node a few confirmed coins (needed to bump anchor-channel transactions).
pub fn fund_wallets(sim: &mut Sim) {
	for k in 0..sim.w.nodes.len() {
		for j in 0..4u32 {
			let salt = 50_000 + sim.w.step as u32 * 16 + k as u32 * 4 + j;
			sim.w.chain.wallet_coin(coin_script(k), 200_000, salt);
		}
	}
	sim.w.mine(1);
}
pub fn wallet_of(w: &crate::sim::World, node: usize) -> HarnessWallet {
	let script = coin_script(node);
	let utxos: Vec<(OutPoint, TxOut)> = w.chain.utxos.iter().filter(|(_, (o, _))| o.script_pubkey == script).map(|(op, (o, _))| (*op, o.clone())).collect();
	let mut prevtxs = std::collections::HashMap::new();
	for b in w.chain.blocks.iter() {
		for t in b.txs.iter() {
			if utxos.iter().any(|(op, _)| op.txid == t.compute_txid()) {
				prevtxs.insert(t.compute_txid(), t.clone());
			}
		}
	}
	let _ = Amount::ZERO;
	HarnessWallet { key: wallet_key(node), utxos, prevtxs }
}
